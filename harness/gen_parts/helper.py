"""buidl/helper.py: varint codec constants"""
H = "buidl/helper.py"


def items(G):
    # encode_varint: `i < T` thresholds, prefix bytes, little-endian widths
    for k in range(4):
        yield G.nat("Helper", f"varintEncT{k}", lambda k=k: G.cmp(H, "encode_varint", k, "Lt"))
    for k in range(3):
        def pref(k=k):
            v, loc = G.pick(G.bytes_consts(H, "encode_varint"), k, "encode_varint prefix")
            if len(v) != 1:
                raise_unlocated(G, "prefix not one byte")
            return v[0], loc
        yield G.nat("Helper", f"varintEncP{k}", pref)

        def width(k=k):
            a, loc = G.pick(G.calls_const_args(H, "encode_varint", "int_to_little_endian"), k, "encode_varint width")
            return a[1], loc
        yield G.nat("Helper", f"varintEncW{k}", width)
    # read_varint: markers `i == M` and read widths
    for k in range(3):
        yield G.nat("Helper", f"varintDecM{k}", lambda k=k: G.cmp(H, "read_varint", k + 1, "Eq"))

        def rwidth(k=k):
            a, loc = G.pick(G.calls_const_args(H, "read_varint", "read"), k + 1, "read_varint width")
            return a[0], loc
        yield G.nat("Helper", f"varintDecW{k}", rwidth)


def raise_unlocated(G, msg):
    from harness.gen_lean import Unlocated
    raise Unlocated(msg)
