"""buidl/pecc.py: curve and field constants"""
E = "buidl/pecc.py"


def items(G):
    for nm, lean in (("A", "secpA"), ("B", "secpB"), ("P", "secpP"), ("N", "secpN")):
        yield G.nat("Ecc", lean, lambda nm=nm: G.const(E, nm))

    def gcoord(i):
        import ast
        for node in G.tree(E).body:
            if isinstance(node, ast.Assign) and any(isinstance(t, ast.Name) and t.id == "G" for t in node.targets):
                return G.ev(E, node.value.args[i]), f"{E}:{node.lineno}"
        from harness.gen_lean import Unlocated
        raise Unlocated("G = S256Point(...)")
    yield G.nat("Ecc", "secpGx", lambda: gcoord(0))
    yield G.nat("Ecc", "secpGy", lambda: gcoord(1))
