"""buidl/descriptor.py (+ op.number_to_op_code, script.P2WSHScriptPubKey): descriptor checksum
charsets, the polymod generator constants and shifts, the constants of calc_core_checksum,
the two regular expressions (as strings, for the record: the Lean parser is hand-written and
checks that these strings are the ones it was written against), get_address constants."""
D = "buidl/descriptor.py"
O = "buidl/op.py"
S = "buidl/script.py"


def _unloc(msg):
    from harness.gen_lean import Unlocated
    raise Unlocated(msg)


def items(G):
    yield G.str_("Descriptor", "descInputCharset", lambda: G.const(D, "DESCRIPTOR_INPUT_CHARSET"))
    yield G.str_("Descriptor", "descChecksumCharset", lambda: G.const(D, "DESCRIPTOR_CHECKSUM_CHARSET"))

    def ic(qual, k, what, path=D):
        return lambda: G.pick(G.int_consts(path, qual), k, what)

    # calc_poly_mod: c0 = c >> 35; c = ((c & 0x7FFFFFFFF) << 5) ^ val; if c0 & BIT: c ^= GEN  (five times)
    yield G.nat("Descriptor", "polyTopShift", ic("calc_poly_mod", 0, "c >> 35"))
    yield G.nat("Descriptor", "polyMask", ic("calc_poly_mod", 1, "c & 0x7FFFFFFFF"))
    yield G.nat("Descriptor", "polyShift", ic("calc_poly_mod", 2, "<< 5"))

    def gens():
        cs = G.int_consts(D, "calc_poly_mod")
        if len(cs) != 13:
            _unloc(f"calc_poly_mod: expected 13 integer literals, found {len(cs)}")
        return [(cs[3 + 2 * i][0], cs[4 + 2 * i][0]) for i in range(5)], cs[3][1]
    yield G.natpairs("Descriptor", "polyGens", gens)

    # calc_core_checksum
    q = "calc_core_checksum"
    yield G.nat("Descriptor", "ccInit", ic(q, 0, "c = 1"))
    yield G.nat("Descriptor", "ccSymMask", ic(q, 4, "pos & 31"))
    yield G.nat("Descriptor", "ccClsMul", ic(q, 5, "cls * 3"))
    yield G.nat("Descriptor", "ccClsShift", ic(q, 6, "pos >> 5"))
    yield G.nat("Descriptor", "ccGroup", ic(q, 8, "clscount == 3"))
    yield G.nat("Descriptor", "ccFinalRounds", ic(q, 13, "range(0, 8)"))
    yield G.nat("Descriptor", "ccFinalXor", ic(q, 15, "c ^= 1"))
    yield G.nat("Descriptor", "ccOutLen", ic(q, 18, "range(0, 8)"))
    yield G.nat("Descriptor", "ccOutShift", ic(q, 19, "5 * (7 - j)"))
    yield G.nat("Descriptor", "ccOutTop", ic(q, 20, "7 - j"))
    yield G.nat("Descriptor", "ccOutMask", ic(q, 21, "& 31"))

    def literal_count():
        cs = G.int_consts(D, q)
        return len(cs), cs[0][1]
    yield G.nat("Descriptor", "ccLiteralCount", literal_count)  # guards the positional picks above

    # regular expressions
    def regex(qual):
        def f():
            a, loc = G.pick(G.calls_const_args(D, qual, "match"), 0, "re.match")
            if not a or not isinstance(a[0], str):
                _unloc(f"{qual}: regex not a constant string")
            return a[0], loc
        return f
    yield G.str_("Descriptor", "keyRecordRegex", regex("parse_partial_key_record"))
    yield G.str_("Descriptor", "descriptorRegex", regex("P2WSHSortedMulti.parse"))

    # is_valid_xfp_hex: len == 8
    yield G.nat("Descriptor", "xfpHexLen", ic("is_valid_xfp_hex", 0, "len(string) == 8"))
    # get_address: account_index + 1 for change, 174 = OP_CHECKMULTISIG
    yield G.nat("Descriptor", "changeOffset", ic("P2WSHSortedMulti.get_address", 2, "account_index + 1"))
    yield G.nat("Descriptor", "opCheckMultisig", ic("P2WSHSortedMulti.get_address", 3, "174"))
    # op.number_to_op_code: n < -1 or n > 16; n + 80
    yield G.nat("Descriptor", "opNumMax", lambda: G.cmp(O, "number_to_op_code", 1, "Gt"))
    yield G.nat("Descriptor", "opNumBase", ic("number_to_op_code", 4, "n + 80", O))
    # script.P2WSHScriptPubKey: commands = [0x00, s256]
    yield G.nat("Descriptor", "p2wshVersionOp", ic("P2WSHScriptPubKey.__init__", 0, "0x00", S))
    # P2WSHSortedMulti.__init__: quorum_m < 1
    yield G.nat("Descriptor", "quorumMin", lambda: G.cmp(D, "P2WSHSortedMulti.__init__", 1, "Lt"))
