"""buidl/script.py: Script.parse / Script.raw_serialize thresholds with their operators"""
S = "buidl/script.py"


def items(G):
    def table(qual, n):
        def f():
            cs = [c for c in G.compares(S, qual) if isinstance(c[1], int) and not isinstance(c[1], bool) and c[3] == "R"]
            if len(cs) < n:
                from harness.gen_lean import Unlocated
                raise Unlocated(f"{qual}: expected {n} integer comparisons, found {len(cs)}")
            return [(op, v) for op, v, _, _ in cs[:n]], cs[0][2]
        return f
    # parse: current_byte >= 1, <= 75, == 76, == 77, == 78
    yield G.strnat("Script", "parseCmp", table("Script.parse", 5))
    # raw_serialize: length <= 75 | > 75, < 0x100 | >= 0x100, <= 520
    yield G.strnat("Script", "rawSerCmp", table("Script.raw_serialize", 5))

    def b2i(k):
        def f():
            a, loc = G.pick([c for c in G.calls_const_args(S, "Script.raw_serialize", "int_to_byte") if c[0] and c[0][0] is not None], k, "int_to_byte const")
            return a[0], loc
        return f
    yield G.nat("Script", "rawSerPushdata1", b2i(0))
    yield G.nat("Script", "rawSerPushdata2", b2i(1))
