"""buidl/script.py, buidl/tx.py, buidl/pecc.py: scriptPubKey templates, address version bytes,
first-character dispatch tables, WIF constants"""
S = "buidl/script.py"
T = "buidl/tx.py"
P = "buidl/pecc.py"
F = "Address"


def _unloc(msg):
    from harness.gen_lean import Unlocated
    raise Unlocated(msg)


def items(G):
    from harness.gen_parts.base58 import str_consts

    def ops(qual, n):
        def f():
            cs = G.int_consts(S, qual)
            if len(cs) != n:
                _unloc(f"{qual}: expected {n} opcode literals, found {len(cs)}")
            return [v for v, _ in cs], cs[0][1]
        return f
    yield G.nats(F, "p2pkhOps", ops("P2PKHScriptPubKey.__init__", 4))
    yield G.nats(F, "p2shOps", ops("P2SHScriptPubKey.__init__", 2))
    yield G.nats(F, "p2wpkhOps", ops("P2WPKHScriptPubKey.__init__", 1))
    yield G.nats(F, "p2wshOps", ops("P2WSHScriptPubKey.__init__", 1))
    yield G.nats(F, "p2trOps", ops("P2TRScriptPubKey.__init__", 1))

    def cmpv(path, qual, k, op, typ):
        def f():
            cs = G.compares(path, qual)
            o, v, loc, side = G.pick(cs, k, f"{qual} comparison #{k}")
            if o != op or not isinstance(v, typ):
                _unloc(f"{qual} comparison #{k}: {o} {v!r}, expected {op} {typ}")
            return (list(v) if isinstance(v, tuple) else v), loc
        return f

    def byte(path, qual, k):
        def f():
            v, loc = G.pick(G.bytes_consts(path, qual), k, f"{qual} bytes literal #{k}")
            if len(v) != 1:
                _unloc(f"{qual} bytes literal #{k} is not one byte")
            return v[0], loc
        return f
    for pre, qual in (("p2pkh", "P2PKHScriptPubKey.address"), ("p2sh", "P2SHScriptPubKey.address")):
        yield G.str_(F, pre + "MainnetName", cmpv(S, qual, 0, "Eq", str))
        yield G.nat(F, pre + "VersionMain", byte(S, qual, 0))
        yield G.nat(F, pre + "VersionOther", byte(S, qual, 1))

    A = "address_to_script_pubkey"
    yield G.strs(F, "a2sP2pkhFirst", cmpv(S, A, 0, "In", tuple))
    yield G.strs(F, "a2sP2shFirst", cmpv(S, A, 1, "In", tuple))
    yield G.strs(F, "a2sV0Prefixes", cmpv(S, A, 2, "In", tuple))
    yield G.str_(F, "a2sV0Regtest", cmpv(S, A, 3, "Eq", str))
    yield G.nats(F, "a2sWpkhLens", cmpv(S, A, 4, "In", tuple))
    yield G.nats(F, "a2sWshLens", cmpv(S, A, 5, "In", tuple))
    yield G.strs(F, "a2sV1Prefixes", cmpv(S, A, 6, "In", tuple))
    yield G.str_(F, "a2sV1Regtest", cmpv(S, A, 7, "Eq", str))
    yield G.nats(F, "a2sTrLens", cmpv(S, A, 8, "NotIn", tuple))
    for k, nm in enumerate(["a2sW0", "a2sW1", "a2sW2", "a2sW3", "a2sW4", "a2sW5"]):
        def w(k=k):
            lo, hi, loc = G.pick([t for t in G.slice_bounds(S, A) if t[0] is None and t[1] is not None and t[1] >= 0], k, f"s[:n] #{k}")
            return hi, loc
        yield G.nat(F, nm, w)

    O = "TxOut.to_address"

    def sw():
        # `a.startswith("x") or a.startswith("y")` as well as `a.startswith(("x", "y"))`
        cs = [c for c in G.calls_const_args(T, O, "startswith") if c[0] and isinstance(c[0][0], (str, tuple))]
        if not cs:
            _unloc("TxOut.to_address: startswith calls")
        out = []
        for c in cs:
            a = c[0][0]
            out += [a] if isinstance(a, str) else [x for x in a if isinstance(x, str)]
        return out, cs[0][1]
    yield G.strs(F, "toAddrSegwitPrefixes", sw)
    yield G.nat(F, "toAddrV0", cmpv(T, O, 0, "Eq", int))
    yield G.nat(F, "toAddrV0LenA", cmpv(T, O, 1, "Eq", int))
    yield G.nat(F, "toAddrV0LenB", cmpv(T, O, 2, "Eq", int))
    yield G.nat(F, "toAddrV1", cmpv(T, O, 3, "Eq", int))
    yield G.nat(F, "toAddrV1Len", cmpv(T, O, 4, "Eq", int))
    yield G.strs(F, "toAddrP2shFirst", cmpv(T, O, 5, "In", tuple))
    yield G.nat(F, "toAddrP2shLen", cmpv(T, O, 6, "Eq", int))
    yield G.strs(F, "toAddrP2pkhFirst", cmpv(T, O, 7, "In", tuple))
    yield G.nat(F, "toAddrP2pkhLen", cmpv(T, O, 8, "Eq", int))

    W = "PrivateKey.wif"
    yield G.nat(F, "wifSecretWidth", lambda: G.pick(G.int_consts(P, W), 0, "int_to_big_endian(secret, 32)"))
    yield G.str_(F, "wifMainnetName", cmpv(P, W, 0, "Eq", str))
    yield G.nat(F, "wifVersionMain", byte(P, W, 0))
    yield G.nat(F, "wifVersionOther", byte(P, W, 1))
    yield G.nat(F, "wifCompressedSuffix", byte(P, W, 2))
    R = "PrivateKey.parse"
    yield G.nat(F, "wifParseCompressedLen", cmpv(P, R, 0, "Eq", int))
    yield G.nat(F, "wifParseCompressedFlag", cmpv(P, R, 1, "NotEq", int))
    yield G.nat(F, "wifParseTestByte", cmpv(P, R, 2, "Eq", int))
    yield G.nat(F, "wifParseMainByte", cmpv(P, R, 3, "Eq", int))

    def net(k):
        return lambda: G.pick([(v, l) for v, l in str_consts(G, P, R) if v.endswith("net")], k, "network name")
    yield G.str_(F, "wifParseTestName", net(0))
    yield G.str_(F, "wifParseMainName", net(1))
    yield G.nat(F, "privMaxSecret", cmpv(P, "PrivateKey.__init__", 0, "Gt", int))
    yield G.nat(F, "privMinSecret", cmpv(P, "PrivateKey.__init__", 1, "Lt", int))
