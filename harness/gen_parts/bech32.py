"""buidl/bech32.py: bech32 / bech32m / bc32 / CBOR constants, tables, thresholds and operators"""
import ast

B = "buidl/bech32.py"
F = "Bech32"


def _unloc(msg):
    from harness.gen_lean import Unlocated
    raise Unlocated(msg)


def _ints(G, qual):
    return G.int_consts(B, qual)


def _int(G, qual, k, what):
    return lambda: G.pick(_ints(G, qual), k, what)


def _xor_right(G, qual, k=0):
    """right operand of the k-th `a ^ b` in a function, evaluated"""
    fn = G.node(B, qual)
    res = []
    for n in ast.walk(fn):
        if isinstance(n, ast.BinOp) and isinstance(n.op, ast.BitXor):
            try:
                res.append((n.lineno, n.col_offset, G.ev(B, n.right), f"{B}:{n.lineno}"))
            except Exception:
                continue
    res.sort(key=lambda t: (t[0], t[1]))
    v = G.pick(res, k, f"{qual}: xor constant")
    return v[2], v[3]


def _zero_list_len(G, qual, k=0):
    """length of the k-th list literal consisting only of the constant 0"""
    fn = G.node(B, qual)
    res = []
    for n in ast.walk(fn):
        if isinstance(n, ast.List) and n.elts and all(isinstance(e, ast.Constant) and e.value == 0 and not isinstance(e.value, bool) for e in n.elts):
            res.append((n.lineno, n.col_offset, len(n.elts), f"{B}:{n.lineno}"))
    res.sort(key=lambda t: (t[0], t[1]))
    v = G.pick(res, k, f"{qual}: list of zeros")
    return v[2], v[3]


def _cmp_table(G, qual, n, typ=int):
    def f():
        cs = [c for c in G.compares(B, qual) if isinstance(c[1], typ) and not isinstance(c[1], bool) and c[3] == "R"]
        if len(cs) < n:
            _unloc(f"{qual}: expected {n} comparisons with constants, found {len(cs)}")
        return [(op, v) for op, v, _, _ in cs[:n]], cs[0][2]
    return f


def _call_arg(G, qual, callee, k, argi, what):
    def f():
        calls = [c for c in G.calls_const_args(B, qual, callee) if len(c[0]) > argi and c[0][argi] is not None]
        a, loc = G.pick(calls, k, what)
        return a[argi], loc
    return f


def items(G):
    yield G.str_(F, "bech32Alphabet", lambda: G.const(B, "BECH32_ALPHABET"))
    yield G.nats(F, "bech32Gen", lambda: G.const(B, "GEN"))
    yield G.nat(F, "bech32mConst", lambda: G.const(B, "BECH32M_CONSTANT"))

    def dict_part(name, which):
        def f():
            v, loc = G.const(B, name)
            if not isinstance(v, dict):
                _unloc(f"{name} is not a dict")
            return [(k if which == 0 else val) for k, val in v.items()], loc
        return f
    yield G.strs(F, "prefixKeys", dict_part("PREFIX", 0))
    yield G.strs(F, "prefixVals", dict_part("PREFIX", 1))
    yield G.strs(F, "netForPrefixKeys", dict_part("NET_FOR_PREFIX", 0))
    yield G.strs(F, "netForPrefixVals", dict_part("NET_FOR_PREFIX", 1))

    # bech32_polymod: chk = 1; b = chk >> 25; chk = (chk & 0x1FFFFFF) << 5 ^ v; for i in range(5)
    P = "bech32_polymod"
    for k, nm in enumerate(["polymodInit", "polymodTopShift", "polymodLowMask", "polymodShl", "polymodGenCount"]):
        yield G.nat(F, nm, _int(G, P, k, nm))
    # bech32_hrp_expand: x >> 5, [0], x & 31
    for k, nm in enumerate(["hrpShift", "hrpSep", "hrpMask"]):
        yield G.nat(F, nm, _int(G, "bech32_hrp_expand", k, nm))

    # checksum creation, three copies of the same shape
    for pre, qual, skip in (("b32", "bech32_create_checksum", 0), ("b32m", "bech32m_create_checksum", 0), ("bc32", "bc32encode", 1)):
        yield G.nat(F, pre + "ChkPad", lambda qual=qual, skip=skip: _zero_list_len(G, qual, skip))
        yield G.nat(F, pre + "ChkXor", lambda qual=qual: _xor_right(G, qual, 0))

        def tail(j, qual=qual):
            def f():
                cs = _ints(G, qual)
                if len(cs) < 4:
                    _unloc(f"{qual}: checksum comprehension constants")
                return cs[len(cs) - 4 + j]
            return f
        for j, nm in enumerate(["ChkBits", "ChkTop", "ChkMask", "ChkLen"]):
            yield G.nat(F, pre + nm, tail(j))
    yield G.nat(F, "bc32EncLead", lambda: _zero_list_len(G, "bc32encode", 0))   # the `[0]` in front of dd
    yield G.nat(F, "bc32EncFrom", _call_arg(G, "bc32encode", "convertbits", 0, 1, "convertbits(data, 8, 5)"))
    yield G.nat(F, "bc32EncTo", _call_arg(G, "bc32encode", "convertbits", 0, 2, "convertbits(data, 8, 5)"))

    # verification constants (operator must be ==)
    yield G.nat(F, "b32VerifyConst", lambda: G.cmp(B, "bech32_verify_checksum", 0, "Eq"))
    yield G.nat(F, "b32mVerifyConst", lambda: G.cmp(B, "bech32m_verify_checksum", 0, "Eq"))

    # bc32decode: polymod([0] + res) != 0x3FFFFFFF, res[:-6], convertbits(.., 5, 8, False)
    def bc32_dec_const():
        cs = [c for c in G.compares(B, "bc32decode") if isinstance(c[1], int) and not isinstance(c[1], bool)]
        op, v, loc, side = G.pick(cs, 0, "bc32decode polymod comparison")
        if op != "NotEq":
            _unloc(f"bc32decode: operator {op}")
        return v, loc
    yield G.nat(F, "bc32DecConst", bc32_dec_const)
    yield G.nat(F, "bc32DecLead", lambda: _zero_list_len(G, "bc32decode", 0))

    def bc32_cut():
        lo, hi, loc = G.pick([t for t in G.slice_bounds(B, "bc32decode") if t[0] is None and t[1] is not None and t[1] < 0], 0, "res[:-6]")
        return -hi, loc
    yield G.nat(F, "bc32DecCut", bc32_cut)
    yield G.nat(F, "bc32DecFrom", _call_arg(G, "bc32decode", "convertbits", 0, 1, "convertbits(res, 5, 8, False)"))
    yield G.nat(F, "bc32DecTo", _call_arg(G, "bc32decode", "convertbits", 0, 2, "convertbits(res, 5, 8, False)"))
    yield G.bool_(F, "bc32DecPad", _call_arg(G, "bc32decode", "convertbits", 0, 3, "convertbits(res, 5, 8, False)"))

    # group_32
    g = "group_32"
    yield G.nat(F, "g32In", _int(G, g, 2, "unused_bits += 8"))
    yield G.nat(F, "g32Shl", _int(G, g, 3, "current << 8"))
    yield G.strnat(F, "g32Cmp", _cmp_table(G, g, 1))
    yield G.nat(F, "g32Out", _int(G, g, 5, "unused_bits -= 5"))
    yield G.nat(F, "g32Final", _int(G, g, 8, "5 - unused_bits"))

    # cbor_encode / cbor_decode
    yield G.strnat(F, "cborEncCmp", _cmp_table(G, "cbor_encode", 3))
    yield G.nat(F, "cborEncShort", _int(G, "cbor_encode", 1, "0x40 + length"))
    yield G.nat(F, "cborEncP1", _int(G, "cbor_encode", 3, "0x58"))

    def bconst(k):
        def f():
            v, loc = G.pick(G.bytes_consts(B, "cbor_encode"), k, "prefix byte")
            if len(v) != 1:
                _unloc("prefix not one byte")
            return v[0], loc
        return f
    yield G.nat(F, "cborEncP2", bconst(0))
    yield G.nat(F, "cborEncP4", bconst(1))
    yield G.nat(F, "cborEncW2", _call_arg(G, "cbor_encode", "to_bytes", 0, 0, "to_bytes(2)"))
    yield G.nat(F, "cborEncW4", _call_arg(G, "cbor_encode", "to_bytes", 1, 0, "to_bytes(4)"))
    yield G.strnat(F, "cborDecCmp", _cmp_table(G, "cbor_decode", 5))
    yield G.nat(F, "cborDecShort", _int(G, "cbor_decode", 4, "b - 0x40"))
    yield G.nat(F, "cborDecW1", _call_arg(G, "cbor_decode", "read", 1, 0, "read(1)"))
    yield G.nat(F, "cborDecW2", _call_arg(G, "cbor_decode", "read", 2, 0, "read(2)"))
    yield G.nat(F, "cborDecW4", _call_arg(G, "cbor_decode", "read", 3, 0, "read(4)"))

    # encode_bech32_checksum: version > 0, version -= 0x50, version == 0
    e = "encode_bech32_checksum"
    yield G.strnat(F, "encB32Cmp", _cmp_table(G, e, 2))
    yield G.nat(F, "encB32OpBase", _int(G, e, 2, "version -= 0x50"))
    # decode_bech32: s[5:], version == 0, data[1:-6], << 5, len(data) - 7, * 5 // 8, num_bytes < 2 or > 40
    d = "decode_bech32"

    def skip():
        lo, hi, loc = G.pick([t for t in G.slice_bounds(B, d) if t[0] is not None and t[0] >= 0 and t[1] is None], 0, "s[5:]")
        return lo, loc
    yield G.nat(F, "decB32RegtestSkip", skip)

    def body(which):
        def f():
            lo, hi, loc = G.pick([t for t in G.slice_bounds(B, d) if t[0] is not None and t[1] is not None and t[0] >= 0 and t[1] < 0], 0, "data[1:-6]")
            return (lo if which == 0 else -hi), loc
        return f
    yield G.nat(F, "decB32BodyFrom", body(0))
    yield G.nat(F, "decB32BodyCut", body(1))
    yield G.strnat(F, "decB32Cmp", _cmp_table(G, d, 3))
    for k, nm in [(6, "decB32Shl"), (7, "decB32Overhead"), (8, "decB32GroupBits"), (9, "decB32ByteBits")]:
        yield G.nat(F, nm, _int(G, d, k, nm))
    for k, nm in [(10, "decB32Overhead2"), (11, "decB32GroupBits2"), (12, "decB32ByteBits2")]:
        yield G.nat(F, nm, _int(G, d, k, nm))

    # separator character: `s.split("1")` in decode_bech32, `prefix + "1" + …` in encode_bech32_checksum
    from harness.gen_parts.base58 import str_consts

    def sep(qual):
        return lambda: G.pick([(v, l) for v, l in str_consts(G, B, qual) if len(v) == 1], 0, f"{qual}: separator")
    yield G.str_(F, "encB32Sep", sep(e))
    yield G.str_(F, "decB32Sep", sep(d))
    yield G.str_(F, "decB32RegtestKey", lambda: G.pick(str_consts(G, B, d), 0, 'PREFIX["regtest"]'))
    yield G.str_(F, "decB32ExcludedNet", lambda: _netfor_excluded(G))


def _netfor_excluded(G):
    """the `k != "signet"` filter of NET_FOR_PREFIX (informational; the table itself is evaluated)"""
    for node in G.tree(B).body:
        if isinstance(node, ast.Assign) and any(isinstance(t, ast.Name) and t.id == "NET_FOR_PREFIX" for t in node.targets):
            for n in ast.walk(node.value):
                if isinstance(n, ast.Compare) and isinstance(n.ops[0], ast.NotEq) and isinstance(n.comparators[0], ast.Constant):
                    return n.comparators[0].value, f"{B}:{n.lineno}"
    _unloc("NET_FOR_PREFIX filter")
