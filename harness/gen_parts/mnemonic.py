"""buidl/mnemonic.py, helper.py (hmac_sha512_kdf), hd.py (from_mnemonic): BIP39 word list, bit widths,
accepted lengths, PBKDF2 parameters.  AST only; the word-list file named in `BIP39 = WordList(...)` is read
as text and split as `WordList.__init__` does."""
import ast

M = "buidl/mnemonic.py"
H = "buidl/helper.py"
HD = "buidl/hd.py"


def _unl(msg):
    from harness.gen_lean import Unlocated
    raise Unlocated(msg)


def wordlist_call(G, path, name):
    """the module-level `NAME = WordList("file", count)`: (file, count, loc)"""
    for node in G.tree(path).body:
        if isinstance(node, ast.Assign) and any(isinstance(t, ast.Name) and t.id == name for t in node.targets):
            c = node.value
            if isinstance(c, ast.Call) and getattr(c.func, "id", None) == "WordList" and len(c.args) == 2:
                return G.ev(path, c.args[0]), G.ev(path, c.args[1]), f"{path}:{node.lineno}"
    _unl(f"{path}: {name} = WordList(...)")


def words_of(G, path, name):
    fn, _, loc = wordlist_call(G, path, name)
    try:
        with open(f"{G.repo}/buidl/{fn}") as f:
            return f.read().split(), f"buidl/{fn} ({loc})"
    except Exception as e:
        _unl(f"buidl/{fn}: {e}")


CP_BASE = 1 << 21      # one digit per code point, most significant first
MAX_WORD = 32


def word_nats(G, path, name):
    """every word of `f.read().split()` as one number: its code points as base-2^21 digits"""
    ws, loc = words_of(G, path, name)
    out = []
    for w in ws:
        if not (0 < len(w) <= MAX_WORD) or ord(w[0]) == 0:
            _unl(f"word {w!r} cannot be encoded")
        n = 0
        for c in w:
            n = n * CP_BASE + ord(c)
        out.append(n)
    return out, loc


def ints(G, path, qual):
    return [v for v, _ in G.int_consts(path, qual)], f"{path}:{G.node(path, qual).lineno}"


def nth_int(G, path, qual, k, expect=None):
    v, loc = G.pick(G.int_consts(path, qual), k, f"{qual} integer literal")
    return v, loc


def items(G):
    yield G.strs("Bip39Words", "bip39Words", lambda: words_of(G, M, "BIP39"))
    yield G.nats("Bip39Words", "bip39WordNats", lambda: word_nats(G, M, "BIP39"))
    yield G.nat("Mnemonic", "cpBase", lambda: (CP_BASE, "harness/gen_parts/mnemonic.py (encoding of the word tables)"))
    yield G.nat("Mnemonic", "cpMaxWord", lambda: (MAX_WORD, "harness/gen_parts/mnemonic.py (encoding of the word tables)"))
    yield G.nat("Mnemonic", "bip39Count", lambda: (lambda t: (t[1], t[2]))(wordlist_call(G, M, "BIP39")))

    # WordList.__init__: `if len(word) > 4: lookup[word[:4]] = i`
    yield G.str_("Mnemonic", "wlPrefixOp", lambda: (lambda c: (c[0], c[2]))(G.pick(G.compares(M, "WordList.__init__"), 0, "len(word) > 4")))
    yield G.nat("Mnemonic", "wlPrefixOver", lambda: G.cmp(M, "WordList.__init__", 0))
    yield G.nat("Mnemonic", "wlPrefixLen",
                lambda: (lambda t: (t[1], t[2]))(G.pick(G.slice_bounds(M, "WordList.__init__"), 0, "word[:4]")))

    # mnemonic_to_bytes
    yield G.nats("Mnemonic", "m2bWordCounts", lambda: (lambda v: (list(v[0]), v[1]))(G.cmp(M, "mnemonic_to_bytes", 0, "NotIn")))
    yield G.nats("Mnemonic", "m2bInts", lambda: ints(G, M, "mnemonic_to_bytes"))
    yield G.nat("Mnemonic", "m2bWordBits", lambda: nth_int(G, M, "mnemonic_to_bytes", 6))      # all_bits <<= 11
    yield G.nat("Mnemonic", "m2bCsDiv", lambda: nth_int(G, M, "mnemonic_to_bytes", 7))         # num_words // 3
    yield G.nat("Mnemonic", "m2bWordBits2", lambda: nth_int(G, M, "mnemonic_to_bytes", 10))    # num_words * 11
    yield G.nat("Mnemonic", "m2bByteBits", lambda: nth_int(G, M, "mnemonic_to_bytes", 11))     # // 8
    yield G.nat("Mnemonic", "m2bCsFrom", lambda: nth_int(G, M, "mnemonic_to_bytes", 13))       # 8 - num_checksum_bits

    # bytes_to_mnemonic
    yield G.nats("Mnemonic", "b2mNumBits", lambda: (lambda v: (list(v[0]), v[1]))(G.cmp(M, "bytes_to_mnemonic", 0, "NotIn")))
    yield G.nats("Mnemonic", "b2mInts", lambda: ints(G, M, "bytes_to_mnemonic"))
    yield G.nat("Mnemonic", "b2mCsDiv", lambda: nth_int(G, M, "bytes_to_mnemonic", 5))         # num_bits // 32
    yield G.nat("Mnemonic", "b2mCsFrom", lambda: nth_int(G, M, "bytes_to_mnemonic", 7))        # 8 - num_checksum_bits
    yield G.nat("Mnemonic", "b2mWordBits", lambda: nth_int(G, M, "bytes_to_mnemonic", 8))      # // 11
    yield G.nat("Mnemonic", "b2mWordBits2", lambda: nth_int(G, M, "bytes_to_mnemonic", 10))    # (1 << 11) - 1
    yield G.nat("Mnemonic", "b2mWordBits3", lambda: nth_int(G, M, "bytes_to_mnemonic", 13))    # all_bits >>= 11

    # helper.hmac_sha512_kdf / HDPrivateKey.from_mnemonic
    yield G.nat("Mnemonic", "pbkdf2Rounds", lambda: G.const(H, "PBKDF2_ROUNDS"))

    def kdf_len():
        a, loc = G.pick(G.calls_const_args(H, "hmac_sha512_kdf", "read"), 0, "PBKDF2(...).read(64)")
        return a[0], loc
    yield G.nat("Mnemonic", "kdfReadLen", kdf_len)

    def salt_prefix():
        cs = [c for c in G.bytes_consts(HD, "HDPrivateKey.from_mnemonic") if c[0] != b""]
        return G.pick(cs, 0, "b'mnemonic'")
    yield G.bytes_("Mnemonic", "seedSaltPrefix", salt_prefix)

    def kdf_uses_rounds():
        # `iterations=PBKDF2_ROUNDS` keyword of the PBKDF2(...) call inside hmac_sha512_kdf
        fn = G.node(H, "hmac_sha512_kdf")
        for n in ast.walk(fn):
            if isinstance(n, ast.Call) and getattr(n.func, "id", None) == "PBKDF2":
                for kw in n.keywords:
                    if kw.arg == "iterations":
                        return G.ev(H, kw.value), f"{H}:{n.lineno}"
        _unl("hmac_sha512_kdf: PBKDF2(iterations=...)")
    yield G.nat("Mnemonic", "kdfIterations", kdf_uses_rounds)

    def kdf_digest():
        fn = G.node(H, "hmac_sha512_kdf")
        for n in ast.walk(fn):
            if isinstance(n, ast.Call) and getattr(n.func, "id", None) == "PBKDF2":
                for kw in n.keywords:
                    if kw.arg == "digestmodule" and isinstance(kw.value, ast.Attribute):
                        return kw.value.attr, f"{H}:{n.lineno}"
        _unl("hmac_sha512_kdf: PBKDF2(digestmodule=hashlib.X)")
    yield G.str_("Mnemonic", "kdfDigest", kdf_digest)

    # vendored buidl/pbkdf2.py
    P = "buidl/pbkdf2.py"

    def counter_max():
        # the Python-3 branch: `else: _0xffffffffL = 0xFFFFFFFF`
        for node in G.tree(P).body:
            if isinstance(node, ast.If):
                for n in node.orelse:
                    if isinstance(n, ast.Assign) and any(getattr(t, "id", None) == "_0xffffffffL" for t in n.targets):
                        return G.ev(P, n.value), f"{P}:{n.lineno}"
        _unl("pbkdf2.py: _0xffffffffL (python 3 branch)")
    yield G.nat("Pbkdf2", "counterMax", counter_max)

    def pack_fmt():
        a, loc = G.pick(G.calls_const_args(P, "PBKDF2.__f", "pack"), 0, 'pack("!L", i)')
        return a[0], loc
    yield G.str_("Pbkdf2", "packFmt", pack_fmt)
    yield G.nats("Pbkdf2", "readInts", lambda: ints(G, P, "PBKDF2.read"))        # i += 1 ; i < 1
    yield G.nats("Pbkdf2", "fInts", lambda: ints(G, P, "PBKDF2.__f"))            # assert 1 <= i ; xrange(2, 1 + iterations)
    yield G.nats("Pbkdf2", "setupInts", lambda: ints(G, P, "PBKDF2._setup"))     # iterations < 1 ; blockNum = 0
