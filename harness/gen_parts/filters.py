"""buidl/compactfilter.py, siphash.py, bloomfilter.py, helper.murmur3: constants of the C18 models"""
CF = "buidl/compactfilter.py"
SH = "buidl/siphash.py"
BF = "buidl/bloomfilter.py"
H = "buidl/helper.py"

N_MURMUR = 50
N_SIPROUND = 38


def _unloc(msg):
    from harness.gen_lean import Unlocated
    raise Unlocated(msg)


def items(G):
    yield G.nat("Filters", "golombP", lambda: G.const(CF, "GOLOMB_P"))
    yield G.nat("Filters", "golombM", lambda: G.const(CF, "GOLOMB_M"))
    yield G.nat("Filters", "basicFilterType", lambda: G.const(CF, "BASIC_FILTER_TYPE"))
    yield G.nat("Filters", "rangeShift", lambda: G.pick(G.int_consts(CF, "hash_to_range"), 0, ">> 64"))
    yield G.nat("Filters", "siphashKeyLen", lambda: G.cmp(CF, "_siphash", 0, "NotEq"))
    yield G.nat("Filters", "bip37Constant", lambda: G.const(BF, "BIP37_CONSTANT"))
    yield G.nat("Filters", "bloomBitsPerByte", lambda: G.pick(G.int_consts(BF, "BloomFilter.add"), 0, "size * 8"))

    # murmur3: every integer literal of the function in source order (c1, c2, block mask, load shifts,
    # rotation amounts, 5 / 0xE6546B64, tail selectors, fmix constants, final mask)
    def mur(k):
        def f():
            l = G.int_consts(H, "murmur3")
            if len(l) != N_MURMUR:
                _unloc(f"murmur3 has {len(l)} integer literals, expected {N_MURMUR}")
            return l[k]
        return f
    for k in range(N_MURMUR):
        yield G.nat("Filters", f"murC{k}", mur(k))

    # _doublesipround: every integer literal in source order (masks, rotation amounts)
    def sip(k):
        def f():
            l = G.int_consts(SH, "_doublesipround")
            if len(l) != N_SIPROUND:
                _unloc(f"_doublesipround has {len(l)} integer literals, expected {N_SIPROUND}")
            return l[k]
        return f
    for k in range(N_SIPROUND):
        yield G.nat("Filters", f"sipC{k}", sip(k))
    for k in range(4):
        yield G.nat("Filters", f"sipInit{k}", lambda k=k: G.pick(G.int_consts(SH, "SipHash_2_4.__init__"), k, "init constant"))
    yield G.nat("Filters", "sipBlock", lambda: G.pick(G.int_consts(SH, "SipHash_2_4.update"), 0, "block size"))
    yield G.nat("Filters", "sipLenMask", lambda: G.pick(G.int_consts(SH, "SipHash_2_4.hash"), 1, "length mask"))
    yield G.nat("Filters", "sipLenShift", lambda: G.pick(G.int_consts(SH, "SipHash_2_4.hash"), 2, "length shift"))
    yield G.nat("Filters", "sipFinalXor", lambda: G.pick(G.int_consts(SH, "SipHash_2_4.hash"), 5, "finalisation xor"))

    # number of _doublesipround calls: one per block in update (c = 2 rounds), and in hash():
    # one for the last block, then two nested ones (d = 4 rounds)
    def calls(qual):
        def f():
            l = G.calls_const_args(SH, qual, "_doublesipround")
            fn = G.node(SH, qual)
            return len(l), f"{SH}:{fn.lineno}"
        return f
    yield G.nat("Filters", "sipUpdateDoubleRounds", calls("SipHash_2_4.update"))
    yield G.nat("Filters", "sipHashDoubleRounds", calls("SipHash_2_4.hash"))
