"""buidl/helper.py, buidl/merkleblock.py: proof-of-work / retarget constants and the tree-depth expression (C17)"""
import ast

H = "buidl/helper.py"
M = "buidl/merkleblock.py"


def _unloc(msg):
    from harness.gen_lean import Unlocated
    raise Unlocated(msg)


def _assigns(G, path, qual, target):
    """values assigned to the plain name `target` inside a function, in source order: (value, loc)"""
    fn = G.node(path, qual)
    res = []
    for n in ast.walk(fn):
        if isinstance(n, ast.Assign) and len(n.targets) == 1 and isinstance(n.targets[0], ast.Name) \
                and n.targets[0].id == target:
            try:
                res.append((n.lineno, G.ev(path, n.value), f"{path}:{n.lineno}"))
            except Exception:
                continue
    res.sort()
    return [(v, loc) for _, v, loc in res]


def _depth_expr(G):
    fn = G.node(M, "MerkleTree.__init__")
    for n in ast.walk(fn):
        if isinstance(n, ast.Assign) and len(n.targets) == 1 and isinstance(n.targets[0], ast.Attribute) \
                and n.targets[0].attr == "max_depth":
            return n
    _unloc("MerkleTree.__init__: assignment to self.max_depth not found")


def _is_attr(e, obj, attr):
    return isinstance(e, ast.Attribute) and e.attr == attr and isinstance(e.value, ast.Name) and e.value.id == obj


def _depth_form(G):
    """'float' for math.ceil(math.log(self.total, 2)); 'bitlen' for (self.total - 1).bit_length()"""
    n = _depth_expr(G)
    v = n.value
    loc = f"{M}:{n.lineno}"
    if isinstance(v, ast.Call) and _is_attr(v.func, "math", "ceil") and len(v.args) == 1:
        a = v.args[0]
        if isinstance(a, ast.Call) and _is_attr(a.func, "math", "log") and len(a.args) == 2 \
                and _is_attr(a.args[0], "self", "total") and isinstance(a.args[1], ast.Constant) and a.args[1].value == 2:
            return "float", loc
    if isinstance(v, ast.Call) and isinstance(v.func, ast.Attribute) and v.func.attr == "bit_length" and not v.args:
        b = v.func.value
        if isinstance(b, ast.BinOp) and isinstance(b.op, ast.Sub) and _is_attr(b.left, "self", "total") \
                and isinstance(b.right, ast.Constant) and b.right.value == 1:
            return "bitlen", loc
    _unloc(f"{loc}: tree depth expression has an unknown shape: {ast.unparse(v)}")


def items(G):
    yield G.nat("Merkle", "twoWeeks", lambda: G.const(H, "TWO_WEEKS"))
    yield G.nat("Merkle", "maxTarget", lambda: G.const(H, "MAX_TARGET"))
    cn = "calculate_new_bits"
    # the four literal clamp factors (TWO_WEEKS * 4, TWO_WEEKS * 4, TWO_WEEKS // 4, TWO_WEEKS // 4)
    for k in range(4):
        yield G.nat("Merkle", f"retargetFactor{k}", lambda k=k: G.pick(G.int_consts(H, cn), k, "clamp factor"))
    # the evaluated comparisons and assignments of calculate_new_bits
    yield G.nat("Merkle", "retargetHiCmp", lambda: G.cmp(H, cn, 0, "Gt"))
    yield G.nat("Merkle", "retargetLoCmp", lambda: G.cmp(H, cn, 1, "Lt"))
    yield G.nat("Merkle", "retargetCapCmp", lambda: G.cmp(H, cn, 2, "Gt"))
    yield G.nat("Merkle", "retargetHiSet", lambda: G.pick(_assigns(G, H, cn, "time_differential"), 0, "hi clamp value"))
    yield G.nat("Merkle", "retargetLoSet", lambda: G.pick(_assigns(G, H, cn, "time_differential"), 1, "lo clamp value"))
    yield G.nat("Merkle", "retargetCapSet", lambda: G.pick(_assigns(G, H, cn, "new_target"), 0, "cap value"))

    def divisor():
        fn = G.node(H, cn)
        for n in ast.walk(fn):
            if isinstance(n, ast.BinOp) and isinstance(n.op, ast.FloorDiv) and isinstance(n.left, ast.BinOp) \
                    and isinstance(n.left.op, ast.Mult):
                return G.ev(H, n.right), f"{H}:{n.lineno}"
        _unloc("calculate_new_bits: `a * b // c` not found")
    yield G.nat("Merkle", "retargetDivisor", divisor)
    # bits_to_target: 256 ** (exponent - 3)
    yield G.nat("Merkle", "bitsBase", lambda: G.pick(G.int_consts(H, "bits_to_target"), 2, "base"))
    yield G.nat("Merkle", "bitsBias", lambda: G.pick(G.int_consts(H, "bits_to_target"), 3, "bias"))
    # target_to_bits: to_bytes(32), `raw_bytes[0] > 0x7F`
    yield G.nat("Merkle", "targetWidth", lambda: G.pick(G.int_consts(H, "target_to_bits"), 0, "width"))
    yield G.nat("Merkle", "targetSignCmp", lambda: G.cmp(H, "target_to_bits", 0, "Gt"))
    # check_pow: operator of `proof < self.target()`

    def powop():
        fn = G.node("buidl/block.py", "Block.check_pow")
        for n in ast.walk(fn):
            if isinstance(n, ast.Return) and isinstance(n.value, ast.Compare) and len(n.value.ops) == 1:
                return type(n.value.ops[0]).__name__, f"buidl/block.py:{n.lineno}"
        _unloc("check_pow: return <compare> not found")
    yield G.str_("Merkle", "checkPowOp", powop)
    # MerkleTree.__init__: shape of the tree-depth expression
    yield G.bool_("Merkle", "treeDepthIsFloatLog", lambda: (lambda t: (t[0] == "float", t[1]))(_depth_form(G)))
