"""buidl/bcur.py: BCUR string format constants (prefix, separators, part counts, checksum length)"""
import ast

C = "buidl/bcur.py"
B = "buidl/bech32.py"
F = "Bcur"
H = "_parse_bcur_helper"


def _unloc(msg):
    from harness.gen_lean import Unlocated
    raise Unlocated(msg)


def items(G):
    from harness.gen_parts.base58 import str_consts

    def call_arg(qual, callee, k, what):
        def f():
            calls = [c for c in G.calls_const_args(C, qual, callee) if c[0] and isinstance(c[0][0], str)]
            a, loc = G.pick(calls, k, what)
            return a[0], loc
        return f
    yield G.str_(F, "bcurParsePrefix", call_arg(H, "startswith", 0, 'startswith("ur:bytes/")'))
    yield G.str_(F, "bcurParseSep", call_arg(H, "split", 0, 'split("/")'))
    yield G.str_(F, "bcurParseOf", call_arg(H, "split", 1, 'split("of")'))

    def int_cmp(k, op, what):
        def f():
            cs = [c for c in G.compares(C, H) if isinstance(c[1], int) and not isinstance(c[1], bool)]
            o, v, loc, side = G.pick(cs, k, what)
            if o != op:
                _unloc(f"{what}: operator {o}, expected {op}")
            return v, loc
        return f
    yield G.nat(F, "bcurParts2", int_cmp(0, "Eq", "len(bcur_parts) == 2"))
    yield G.nat(F, "bcurParts3", int_cmp(1, "Eq", "len(bcur_parts) == 3"))
    yield G.nat(F, "bcurParts4", int_cmp(2, "Eq", "len(bcur_parts) == 4"))
    yield G.nat(F, "bcurXofyParts", int_cmp(3, "NotEq", "len(xofy_parts) != 2"))
    yield G.nat(F, "bcurChecksumLen", int_cmp(4, "NotEq", "len(checksum) != 58"))

    def default_xy(k):
        # `checksum, x_int, y_int = None, 1, 1` and `x_int, y_int = 1, 1`
        return lambda: G.pick(G.int_consts(C, H), k, "default x / y")
    yield G.nat(F, "bcurDefaultX2", default_xy(1))
    yield G.nat(F, "bcurDefaultY2", default_xy(2))
    yield G.nat(F, "bcurDefaultX3", default_xy(4))
    yield G.nat(F, "bcurDefaultY3", default_xy(5))

    def single_xy(k):
        def f():
            cs = G.compares(C, "BCURSingle.parse")
            op, v, loc, side = G.pick(cs, k, "x != 1 or y != 1")
            if op != "NotEq":
                _unloc(f"BCURSingle.parse: operator {op}")
            return v, loc
        return f
    yield G.nat(F, "bcurSingleX", single_xy(0))
    yield G.nat(F, "bcurSingleY", single_xy(1))

    def fmt(qual, k):
        return lambda: G.pick(str_consts(G, C, qual), k, f"{qual}: f-string piece {k}")
    # BCURSingle.encode: f"ur:bytes/{enc_hash}/{encoded}" | f"ur:bytes/{encoded}"
    yield G.str_(F, "bcurSingleFmtA", fmt("BCURSingle.encode", 0))
    yield G.str_(F, "bcurSingleFmtB", fmt("BCURSingle.encode", 1))
    yield G.str_(F, "bcurSingleFmtNoChk", fmt("BCURSingle.encode", 2))
    # BCURMulti.encode: f"ur:bytes/{cnt+1}of{n}/{enc_hash}/{chunk}"
    for k, nm in enumerate(["bcurMultiFmtA", "bcurMultiFmtB", "bcurMultiFmtC", "bcurMultiFmtD"]):
        yield G.str_(F, nm, fmt("BCURMulti.encode", k))
    yield G.nat(F, "bcurDefaultChunk", lambda: G.pick(G.int_consts(C, "BCURMulti.encode"), 0, "max_size_per_chunk=300"))

    def regex():
        for node in G.tree(B).body:
            if isinstance(node, ast.Assign) and any(isinstance(t, ast.Name) and t.id == "BECH32_CHARS_RE" for t in node.targets):
                v = node.value
                if isinstance(v, ast.Call) and v.args and isinstance(v.args[0], ast.Constant) and isinstance(v.args[0].value, str):
                    pat = v.args[0].value
                    if not (pat.startswith("^[") and pat.endswith("]*$")):
                        _unloc("BECH32_CHARS_RE is not of the shape ^[…]*$")
                    cls = pat[2:-3]
                    if any(ch in cls for ch in "\\^-]["):
                        _unloc("BECH32_CHARS_RE character class is not a plain list")
                    return cls, f"{B}:{node.lineno}"
        _unloc("BECH32_CHARS_RE")
    # the character class of BECH32_CHARS_RE = ^[class]*$ (shape checked here)
    yield G.str_(F, "bech32CharsReClass", regex)
