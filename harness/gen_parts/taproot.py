"""buidl/phash.py: tag strings of the taproot / MuSig tagged hashes;
   buidl/taproot.py: default leaf version, the control-block length rule (`% 32 != 1`, `< 33`, `> 33 + 128 * 32`),
   the version / parity masks and slice bounds of ControlBlock.parse, the opcodes of the TapScript classes, the
   "second coefficient is 1" assignment of MuSigTapScript, the k-range check of TapRootMultiSig;
   buidl/script.py: the OP_1 of P2TRScriptPubKey; buidl/op.py: number_to_op_code / encode_minimal_num bounds."""
import ast

PH = "buidl/phash.py"
T = "buidl/taproot.py"
S = "buidl/script.py"
O = "buidl/op.py"
F = "Taproot"


def _unl(msg):
    from harness.gen_lean import Unlocated
    raise Unlocated(msg)


def _walk_sorted(fn, pred):
    res = [n for n in ast.walk(fn) if pred(n)]
    res.sort(key=lambda n: (n.lineno, n.col_offset))
    return res


def items(G):
    # ---- tags
    for fn, lean in (("hash_tapleaf", "tagTapLeaf"), ("hash_tapbranch", "tagTapBranch"),
                     ("hash_taptweak", "tagTapTweak"), ("hash_keyagglist", "tagKeyAggList"),
                     ("hash_keyaggcoef", "tagKeyAggCoef"), ("hash_musignonce", "tagMusigNonce"),
                     ("hash_challenge", "tagChallenge")):
        def tag(fn=fn):
            cs = G.bytes_consts(PH, fn)
            if len(cs) != 1:
                _unl(f"{fn}: expected exactly one bytes literal")
            return cs[0]
        yield G.bytes_(F, lean, tag)

    # ---- TapLeaf.__init__(self, tap_script, tapleaf_version=0xC0)
    def leaf_default():
        fn = G.node(T, "TapLeaf.__init__")
        names = [a.arg for a in fn.args.args]
        if "tapleaf_version" not in names or not fn.args.defaults:
            _unl("TapLeaf.__init__: tapleaf_version default")
        idx = names.index("tapleaf_version") - (len(names) - len(fn.args.defaults))
        if idx < 0:
            _unl("TapLeaf.__init__: tapleaf_version has no default")
        d = fn.args.defaults[idx]
        return G.ev(T, d), f"{T}:{d.lineno}"
    yield G.nat(F, "tapleafDefaultVersion", leaf_default)

    # ---- ControlBlock.parse
    CB = "ControlBlock.parse"

    def cb_cmps():
        cs = [c for c in G.compares(T, CB) if isinstance(c[1], int) and not isinstance(c[1], bool) and c[3] == "R"]
        if len(cs) != 3:
            _unl(f"{CB}: expected 3 integer comparisons (% 32 != 1, < 33, > 33 + 128 * 32), found {len(cs)}")
        return [(op, v) for op, v, _, _ in cs], cs[0][2]
    yield G.strnat(F, "cbParseCmp", cb_cmps)

    def cb_mod():
        fn = G.node(T, CB)
        ns = _walk_sorted(fn, lambda n: isinstance(n, ast.BinOp) and isinstance(n.op, ast.Mod))
        if len(ns) != 1:
            _unl(f"{CB}: expected one `%`")
        return G.ev(T, ns[0].right), f"{T}:{ns[0].lineno}"
    yield G.nat(F, "cbParseMod", cb_mod)

    def cb_max(part):
        def f():
            fn = G.node(T, CB)
            ns = _walk_sorted(fn, lambda n: isinstance(n, ast.Compare) and len(n.ops) == 1 and isinstance(n.ops[0], ast.Gt))
            if len(ns) != 1:
                _unl(f"{CB}: expected one `>` comparison")
            c = ns[0].comparators[0]
            # 33 + 128 * 32
            if not (isinstance(c, ast.BinOp) and isinstance(c.op, ast.Add) and isinstance(c.right, ast.BinOp)
                    and isinstance(c.right.op, ast.Mult)):
                _unl(f"{CB}: upper bound is not of the shape a + m * h")
            v = {"base": c.left, "count": c.right.left, "hlen": c.right.right}[part]
            return G.ev(T, v), f"{T}:{c.lineno}"
        return f
    yield G.nat(F, "cbMaxBase", cb_max("base"))
    yield G.nat(F, "cbMaxHashes", cb_max("count"))
    yield G.nat(F, "cbMaxHashLen", cb_max("hlen"))

    def cb_mask(k):
        def f():
            fn = G.node(T, CB)
            ns = _walk_sorted(fn, lambda n: isinstance(n, ast.BinOp) and isinstance(n.op, ast.BitAnd))
            if len(ns) != 2:
                _unl(f"{CB}: expected two `&`")
            return G.ev(T, ns[k].right), f"{T}:{ns[k].lineno}"
        return f
    yield G.nat(F, "cbVersionMask", cb_mask(0))
    yield G.nat(F, "cbParityMask", cb_mask(1))

    def cb_key_slice(k):
        def f():
            lo, hi, loc = G.pick(G.slice_bounds(T, CB), 0, "b[1:33]")
            return (lo, hi)[k], loc
        return f
    yield G.nat(F, "cbKeyLo", cb_key_slice(0))
    yield G.nat(F, "cbKeyHi", cb_key_slice(1))

    def cb_hash_slice(what):
        def f():
            fn = G.node(T, CB)
            ns = _walk_sorted(fn, lambda n: isinstance(n, ast.Subscript) and isinstance(n.slice, ast.Slice)
                              and n.slice.lower is not None and n.slice.upper is not None
                              and any(isinstance(x, ast.Name) and x.id == "i" for x in ast.walk(n.slice)))
            if len(ns) != 1:
                _unl(f"{CB}: expected one slice depending on i")
            sl = ns[0].slice
            lo0, hi0 = G.ev(T, sl.lower, {"i": 0}), G.ev(T, sl.upper, {"i": 0})
            lo1, hi1 = G.ev(T, sl.lower, {"i": 1}), G.ev(T, sl.upper, {"i": 1})
            lo5 = G.ev(T, sl.lower, {"i": 5})
            if lo1 - lo0 != hi1 - hi0 or lo5 - lo0 != 5 * (lo1 - lo0):
                _unl(f"{CB}: hash slice is not affine in i")
            return {"start": lo0, "width": hi0 - lo0, "stride": lo1 - lo0}[what], f"{T}:{ns[0].lineno}"
        return f
    yield G.nat(F, "cbHashStart", cb_hash_slice("start"))
    yield G.nat(F, "cbHashWidth", cb_hash_slice("width"))
    yield G.nat(F, "cbHashStride", cb_hash_slice("stride"))

    def cb_count(what):
        def f():
            fn = G.node(T, CB)
            ns = _walk_sorted(fn, lambda n: isinstance(n, ast.BinOp) and isinstance(n.op, ast.FloorDiv))
            if len(ns) != 1 or not (isinstance(ns[0].left, ast.BinOp) and isinstance(ns[0].left.op, ast.Sub)):
                _unl(f"{CB}: expected m = (b_len - 33) // 32")
            v = {"sub": ns[0].left.right, "div": ns[0].right}[what]
            return G.ev(T, v), f"{T}:{ns[0].lineno}"
        return f
    yield G.nat(F, "cbCountSub", cb_count("sub"))
    yield G.nat(F, "cbCountDiv", cb_count("div"))

    # ---- opcodes of the TapScript classes
    def int_at(path, qual, want, k, what):
        def f():
            cs = G.int_consts(path, qual)
            vals = [v for v, _ in cs]
            if len(vals) != want:
                _unl(f"{path}:{qual}: expected {want} integer literals ({what}), found {vals}")
            return cs[k]
        return f
    # MultiSigTapScript.__init__ literals, in source order: len(points) == 0, xonlys[0], 0xAC, len(points) > 1,
    # xonlys[1:], 0xBA, 0x87
    ms = (T, "MultiSigTapScript.__init__", 7)
    yield G.nat(F, "multiSigOpChecksig", int_at(*ms, 2, "0 0 0xAC 1 1 0xBA 0x87"))
    yield G.nat(F, "multiSigMoreThan", int_at(*ms, 3, "len(points) > 1"))
    yield G.nat(F, "multiSigOpChecksigAdd", int_at(*ms, 5, "0xBA"))
    yield G.nat(F, "multiSigOpNumEqual", int_at(*ms, 6, "0x87"))
    # MuSigTapScript.__init__ (repaired, F13a): `second = next((b for b in xonlys if b != xonlys[0]), None)` and
    # `1 if b == second else <hash>`: the index of the reference key, the fixed coefficient, and 0xAC
    MU = "MuSigTapScript.__init__"

    def mu_first_index():
        fn = G.node(T, MU)
        ns = _walk_sorted(fn, lambda n: isinstance(n, ast.Call) and isinstance(n.func, ast.Name) and n.func.id == "next")
        if len(ns) != 1:
            _unl(f"{MU}: expected one next(...) selecting the second distinct key")
        subs = _walk_sorted(ns[0], lambda n: isinstance(n, ast.Subscript) and isinstance(n.value, ast.Name)
                            and n.value.id == "xonlys" and not isinstance(n.slice, ast.Slice))
        cmps = _walk_sorted(ns[0], lambda n: isinstance(n, ast.Compare) and len(n.ops) == 1 and isinstance(n.ops[0], ast.NotEq))
        if len(subs) != 1 or len(cmps) != 1:
            _unl(f"{MU}: expected `b != xonlys[i]` inside next(...)")
        return G.ev(T, subs[0].slice), f"{T}:{subs[0].lineno}"
    yield G.nat(F, "muSigFirstIndex", mu_first_index)

    def mu_coef_value():
        fn = G.node(T, MU)
        ns = _walk_sorted(fn, lambda n: isinstance(n, ast.IfExp) and isinstance(n.test, ast.Compare)
                          and len(n.test.ops) == 1 and isinstance(n.test.ops[0], ast.Eq)
                          and any(isinstance(x, ast.Name) and x.id == "second" for x in ast.walk(n.test)))
        if len(ns) != 1:
            _unl(f"{MU}: expected one `<c> if b == second else <hash>`")
        return G.ev(T, ns[0].body), f"{T}:{ns[0].lineno}"
    yield G.nat(F, "muSigCoefValue", mu_coef_value)

    def mu_checksig():
        cs = G.int_consts(T, MU)
        if not cs:
            _unl(f"{MU}: no integer literal")
        return cs[-1]
    yield G.nat(F, "muSigOpChecksig", mu_checksig)
    yield G.nat(F, "p2pkTapOpChecksig", int_at(T, "P2PKTapScript.__init__", 1, 0, "0xAC"))
    yield G.nat(F, "locktimeOpCltv", int_at(T, "locktime_commands", 2, 0, "0xB1"))
    yield G.nat(F, "locktimeOpDrop", int_at(T, "locktime_commands", 2, 1, "0x75"))
    yield G.nat(F, "sequenceOpCsv", int_at(T, "sequence_commands", 2, 0, "0xB2"))
    yield G.nat(F, "sequenceOpDrop", int_at(T, "sequence_commands", 2, 1, "0x75"))
    yield G.nat(F, "p2trOp1", int_at(S, "P2TRScriptPubKey.__init__", 1, 0, "0x51"))

    # ---- MuSigTapScript.get_signature: int_to_big_endian(s, 32)
    def sig_width():
        a, loc = G.pick(G.calls_const_args(T, "MuSigTapScript.get_signature", "int_to_big_endian"), 0, "s width")
        return a[1], loc
    yield G.nat(F, "muSigSWidth", sig_width)

    # ---- TapRootMultiSig.__init__: `self.n < k or k < 1`
    def trms():
        cs = [c for c in G.compares(T, "TapRootMultiSig.__init__") if isinstance(c[1], int) and c[3] == "R"]
        if len(cs) != 1:
            _unl("TapRootMultiSig.__init__: expected one constant comparison (k < 1)")
        return [(cs[0][0], cs[0][1])], cs[0][2]
    yield G.strnat(F, "tapRootMultiSigCmp", trms)

    # ---- op.number_to_op_code: n > 16 raises; n == 0 -> 0; n + 80
    def num_op(what):
        def f():
            cs = [c for c in G.compares(O, "number_to_op_code") if isinstance(c[1], int) and c[3] == "R"]
            # n < -1, n > 16, n == 0
            if [c[0] for c in cs] != ["Lt", "Gt", "Eq"]:
                _unl(f"number_to_op_code: comparisons {cs}")
            if what == "max":
                return cs[1][1], cs[1][2]
            fn = G.node(O, "number_to_op_code")
            ns = _walk_sorted(fn, lambda n: isinstance(n, ast.BinOp) and isinstance(n.op, ast.Add))
            if len(ns) != 1:
                _unl("number_to_op_code: n + 80")
            return G.ev(O, ns[0].right), f"{O}:{ns[0].lineno}"
        return f
    yield G.nat(F, "numOpMax", num_op("max"))
    yield G.nat(F, "numOpBase", num_op("base"))

    # ---- op.encode_minimal_num: -1 <= n <= 16
    def min_num():
        fn = G.node(O, "encode_minimal_num")
        ns = _walk_sorted(fn, lambda n: isinstance(n, ast.Compare) and len(n.ops) == 2)
        if len(ns) != 1 or [type(o).__name__ for o in ns[0].ops] != ["LtE", "LtE"]:
            _unl("encode_minimal_num: -1 <= n <= 16")
        return G.ev(O, ns[0].comparators[1]), f"{O}:{ns[0].lineno}"
    yield G.nat(F, "minimalNumMax", min_num)
