"""buidl/helper.py: Base58 / Base58Check constants (alphabet, radix, pad character, slice widths)"""
import ast

H = "buidl/helper.py"


def _unloc(msg):
    from harness.gen_lean import Unlocated
    raise Unlocated(msg)


def str_consts(G, path, qual):
    """string literals inside a function (docstring excluded), in source order"""
    fn = G.node(path, qual)
    doc = None
    if fn.body and isinstance(fn.body[0], ast.Expr) and isinstance(fn.body[0].value, ast.Constant) \
            and isinstance(fn.body[0].value.value, str):
        doc = fn.body[0].value
    res = []
    for n in ast.walk(fn):
        if isinstance(n, ast.Constant) and isinstance(n.value, str) and n is not doc:
            res.append((n.lineno, n.col_offset, n.value, f"{path}:{n.lineno}"))
    res.sort(key=lambda t: (t[0], t[1]))
    return [(v, loc) for _, _, v, loc in res]


def items(G):
    yield G.str_("Base58", "base58Alphabet", lambda: G.const(H, "BASE58_ALPHABET"))

    # encode_base58: `c == 0` (leading-zero test), `"1" * count`, `divmod(num, 58)`, `while num > 0`
    yield G.nat("Base58", "b58EncZeroByte", lambda: G.cmp(H, "encode_base58", 0, "Eq"))
    yield G.str_("Base58", "b58EncPad", lambda: G.pick(
        [(v, l) for v, l in str_consts(G, H, "encode_base58") if v != ""], 0, "pad character"))

    def enc_base():
        a, loc = G.pick(G.calls_const_args(H, "encode_base58", "divmod"), 0, "divmod(num, 58)")
        if len(a) != 2 or a[1] is None:
            _unloc("divmod radix")
        return a[1], loc
    yield G.nat("Base58", "b58EncBase", enc_base)

    # encode_base58_checksum: hash256(raw)[:4]
    def upper(qual, k, what):
        lo, hi, loc = G.pick([t for t in G.slice_bounds(H, qual) if t[0] is None and t[1] is not None and t[1] >= 0],
                             k, what)
        return hi, loc
    yield G.nat("Base58", "b58EncChecksumWidth", lambda: upper("encode_base58_checksum", 0, "hash256(raw)[:4]"))

    # raw_decode_base58: `num == 0 and c == "1"`, `58 * num`, `num & 255`, `num >>= 8`,
    # combined[-4:], hash256(combined[:-4])[:4], return combined[:-4]
    R = "raw_decode_base58"
    yield G.str_("Base58", "b58DecPad", lambda: G.cmp(H, R, 1, "Eq"))
    yield G.nat("Base58", "b58DecBase", lambda: G.pick(G.int_consts(H, R), 2, "58 * num"))
    yield G.nat("Base58", "b58DecByteMask", lambda: G.pick(G.int_consts(H, R), 5, "num & 255"))
    yield G.nat("Base58", "b58DecByteShift", lambda: G.pick(G.int_consts(H, R), 6, "num >>= 8"))

    def neg_lower(k, what):
        lo, hi, loc = G.pick([t for t in G.slice_bounds(H, R) if t[0] is not None and t[0] < 0 and t[1] is None], k, what)
        return -lo, loc

    def neg_upper(k, what):
        lo, hi, loc = G.pick([t for t in G.slice_bounds(H, R) if t[0] is None and t[1] is not None and t[1] < 0], k, what)
        return -hi, loc
    yield G.nat("Base58", "b58DecChecksumTail", lambda: neg_lower(0, "combined[-4:]"))
    yield G.nat("Base58", "b58DecHashedCut", lambda: neg_upper(0, "hash256(combined[:-4])"))
    yield G.nat("Base58", "b58DecHashWidth", lambda: upper(R, 0, "hash256(..)[:4]"))
    yield G.nat("Base58", "b58DecReturnCut", lambda: neg_upper(-1, "return combined[:-4]"))

    # decode_base58: raw_decode_base58(s)[1:]
    def lower1():
        lo, hi, loc = G.pick([t for t in G.slice_bounds(H, "decode_base58") if t[0] is not None and t[0] >= 0 and t[1] is None],
                             0, "[1:]")
        return lo, loc
    yield G.nat("Base58", "b58DecodeVersionWidth", lower1)
