"""buidl/shamir.py: SLIP39 word list, RS1024 generator, GF(256) construction constants, share layout,
thresholds, Feistel parameters.  AST only."""
import ast

S = "buidl/shamir.py"


def _unl(msg):
    from harness.gen_lean import Unlocated
    raise Unlocated(msg)


def ints(G, qual):
    return [v for v, _ in G.int_consts(S, qual)], f"{S}:{G.node(S, qual).lineno}"


def nth(G, qual, k):
    return G.pick(G.int_consts(S, qual), k, f"{qual} integer literal #{k}")


def items(G):
    from harness.gen_parts.mnemonic import words_of, wordlist_call, word_nats

    yield G.strs("Slip39Words", "slip39Words", lambda: words_of(G, S, "SLIP39"))
    yield G.nats("Slip39Words", "slip39WordNats", lambda: word_nats(G, S, "SLIP39"))
    yield G.nat("Shamir", "slip39Count", lambda: (lambda t: (t[1], t[2]))(wordlist_call(G, S, "SLIP39")))

    # rs1024_polymod
    def gen():
        fn = G.node(S, "rs1024_polymod")
        for n in ast.walk(fn):
            if isinstance(n, ast.Assign) and any(getattr(t, "id", None) == "GEN" for t in n.targets):
                return list(G.ev(S, n.value)), f"{S}:{n.lineno}"
        _unl("rs1024_polymod: GEN = [...]")
    yield G.nats("Shamir", "rs1024Gen", gen)
    yield G.nat("Shamir", "rsInit", lambda: nth(G, "rs1024_polymod", 10))        # chk = 1
    yield G.nat("Shamir", "rsTopShift", lambda: nth(G, "rs1024_polymod", 11))    # chk >> 20
    yield G.nat("Shamir", "rsLowMask", lambda: nth(G, "rs1024_polymod", 12))     # chk & 0xFFFFF
    yield G.nat("Shamir", "rsWordBits", lambda: nth(G, "rs1024_polymod", 13))    # << 10
    yield G.nat("Shamir", "rsGenCount", lambda: nth(G, "rs1024_polymod", 14))    # range(10)
    yield G.nat("Shamir", "rsVerifyConst", lambda: G.cmp(S, "rs1024_verify_checksum", 0, "Eq"))
    yield G.nats("Shamir", "rsCreateInts", lambda: ints(G, "rs1024_create_checksum"))   # [0,0,0] ^1, 10*(2-i), &1023, range(3)
    yield G.bytes_("Shamir", "parseCustomization", lambda: G.pick(G.bytes_consts(S, "Share.parse"), 0, "b'shamir'"))
    yield G.bytes_("Shamir", "mnemonicCustomization", lambda: G.pick(G.bytes_consts(S, "Share.mnemonic"), 0, "b'shamir'"))

    # Share layout: the literal sequences of parse / mnemonic / __init__ (shifts, masks, widths, bounds)
    yield G.nats("Shamir", "shareParseInts", lambda: ints(G, "Share.parse"))
    yield G.nats("Shamir", "shareMnemonicInts", lambda: ints(G, "Share.mnemonic"))
    yield G.nats("Shamir", "shareInitInts", lambda: ints(G, "Share.__init__"))

    def cmps(qual):
        def f():
            cs = G.compares(S, qual)
            return [(op, v) for op, v, _, _ in cs if isinstance(v, int)], (cs[0][2] if cs else f"{S}:{qual}")
        return f
    yield G.strnat("Shamir", "shareInitCmp", cmps("Share.__init__"))
    yield G.strnat("Shamir", "shareParseCmp", cmps("Share.parse"))
    yield G.nat("Shamir", "shareMinBits", lambda: G.cmp(S, "Share.parse", 1, "Lt"))     # share_bit_length < 128

    # ShareSet._load
    yield G.nat("Shamir", "gfExpSize", lambda: nth(G, "ShareSet._load", 1))      # [0] * 255
    yield G.nat("Shamir", "gfLogSize", lambda: nth(G, "ShareSet._load", 3))      # [0] * 256
    yield G.nat("Shamir", "gfStart", lambda: nth(G, "ShareSet._load", 4))        # cur = 1
    yield G.nat("Shamir", "gfSteps", lambda: nth(G, "ShareSet._load", 5))        # range(255)
    yield G.nat("Shamir", "gfShift", lambda: nth(G, "ShareSet._load", 6))        # cur << 1
    yield G.nat("Shamir", "gfLimit", lambda: G.cmp(S, "ShareSet._load", 0, "Gt"))  # cur > 255
    yield G.nat("Shamir", "gfReduce", lambda: nth(G, "ShareSet._load", 8))       # cur ^= 0x11B

    # ShareSet.__init__, recover
    yield G.strnat("Shamir", "setInitCmp", cmps("ShareSet.__init__"))
    yield G.strnat("Shamir", "recoverCmp", cmps("ShareSet.recover"))
    yield G.bytes_("Shamir", "cryptSaltPrefix", lambda: G.pick(G.bytes_consts(S, "ShareSet._crypt"), 0, "b'shamir'"))
    yield G.nats("Shamir", "cryptInts", lambda: ints(G, "ShareSet._crypt"))      # % 2, // 2, id width 2, 2500
    yield G.nat("Shamir", "saltIdWidth", lambda: nth(G, "ShareSet._crypt", 2))
    yield G.nat("Shamir", "baseIterations", lambda: nth(G, "ShareSet._crypt", 3))

    def kdf_hash():
        a, loc = G.pick(G.calls_const_args(S, "ShareSet._crypt", "pbkdf2_hmac"), 0, "pbkdf2_hmac(...)")
        return a[0], loc
    yield G.str_("Shamir", "kdfHash", kdf_hash)

    def rounds(qual):
        def f():
            cs = [c for c in G.bytes_consts(S, qual) if len(c[0]) == 1]
            if not cs:
                _unl(f"{qual}: round index bytes")
            return [c[0][0] for c in cs], cs[0][1]
        return f
    yield G.nats("Shamir", "encryptRounds", rounds("ShareSet.encrypt"))
    yield G.nats("Shamir", "decryptRounds", rounds("ShareSet.decrypt"))

    # interpolate / digest / recover_secret / split_secret
    yield G.nats("Shamir", "interpolateInts", lambda: ints(G, "ShareSet.interpolate"))   # % 255 twice
    yield G.nat("Shamir", "gfOrder", lambda: nth(G, "ShareSet.interpolate", 2))
    yield G.nat("Shamir", "gfOrder2", lambda: nth(G, "ShareSet.interpolate", 3))
    yield G.nat("Shamir", "digestLen",
                lambda: (lambda t: (t[1], t[2]))(G.pick(G.slice_bounds(S, "ShareSet.digest"), 0, "digest()[:4]")))

    def rec_x(k):
        def f():
            a, loc = G.pick(G.calls_const_args(S, "ShareSet.recover_secret", "interpolate"), k, "interpolate(x, ...)")
            return a[0], loc
        return f
    yield G.nat("Shamir", "recSecretX", rec_x(0))
    yield G.nat("Shamir", "recDigestX", rec_x(1))
    yield G.nat("Shamir", "recDigestTake",
                lambda: (lambda t: (t[1], t[2]))(G.pick(G.slice_bounds(S, "ShareSet.recover_secret"), 0, "[:4]")))
    yield G.nat("Shamir", "recDigestDrop",
                lambda: (lambda t: (t[0], t[2]))(G.pick(G.slice_bounds(S, "ShareSet.recover_secret"), 1, "[4:]")))
    yield G.nats("Shamir", "splitInts", lambda: ints(G, "ShareSet.split_secret"))
    yield G.strnat("Shamir", "splitCmp", cmps("ShareSet.split_secret"))
    yield G.nats("Shamir", "splitLens", lambda: (lambda v: (list(v[0]), v[1]))(G.cmp(S, "ShareSet.split_secret", 3, "NotIn")))
    yield G.nat("Shamir", "splitMaxN", lambda: G.cmp(S, "ShareSet.split_secret", 1, "Gt"))
    yield G.nat("Shamir", "splitRandShort", lambda: nth(G, "ShareSet.split_secret", 8))   # num_bytes - 4
    yield G.nat("Shamir", "splitDigestX", lambda: nth(G, "ShareSet.split_secret", 11))
    yield G.nat("Shamir", "splitSecretX", lambda: nth(G, "ShareSet.split_secret", 12))
    yield G.nats("Shamir", "genSharesBits", lambda: (lambda v: (list(v[0]), v[1]))(G.cmp(S, "ShareSet.generate_shares", 0, "NotIn")))
    yield G.nats("Shamir", "genSharesInts", lambda: ints(G, "ShareSet.generate_shares"))  # *8, randbits(15), member 0 / 1
