"""buidl/network.py: envelope layout constants"""
N = "buidl/network.py"


def items(G):
    def magic():
        v, loc = G.const(N, "MAGIC")
        return sorted(v.items()), loc
    yield G.strbytes("Wire", "magicTable", magic)

    ser = "NetworkEnvelope.serialize"
    par = "NetworkEnvelope.parse"
    yield G.nat("Wire", "envSerCommandWidth", lambda: G.pick(G.int_consts(N, ser), 0, "12 - len(command)"))
    yield G.nat("Wire", "envSerLenWidth",
                lambda: (lambda a: (a[0][1], a[1]))(G.pick(G.calls_const_args(N, ser, "int_to_little_endian"), 0, "len width")))
    yield G.nat("Wire", "envSerChecksumWidth",
                lambda: (lambda t: (t[1], t[2]))(G.pick(G.slice_bounds(N, ser), 0, "checksum slice")))
    names = ["envParMagicWidth", "envParCommandWidth", "envParLenWidth", "envParChecksumWidth"]
    for k, nm in enumerate(names):
        yield G.nat("Wire", nm,
                    lambda k=k: (lambda a: (a[0][0], a[1]))(G.pick(G.calls_const_args(N, par, "read"), k, "read width")))
    yield G.nat("Wire", "envParHashWidth",
                lambda: (lambda t: (t[1], t[2]))(G.pick(G.slice_bounds(N, par), 0, "checksum slice")))
