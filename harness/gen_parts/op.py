"""buidl/op.py + buidl/timelock.py: dispatch tables, timelock constants, stack-depth thresholds,
number-codec literals and comparison operators of the op_* functions (C07 / C06)"""
import ast

O = "buidl/op.py"
T = "buidl/timelock.py"


def _unloc(msg):
    from harness.gen_lean import Unlocated
    raise Unlocated(msg)


def items(G):
    # ---- dispatch tables: opcode -> function name, in source order
    def table(name):
        def f():
            for node in G.tree(O).body:
                if isinstance(node, ast.Assign) and any(isinstance(t, ast.Name) and t.id == name for t in node.targets):
                    d = node.value
                    if not isinstance(d, ast.Dict):
                        _unloc(f"{name} is not a dict literal")
                    res = []
                    for k, v in zip(d.keys, d.values):
                        kv = G.ev(O, k)
                        if not isinstance(v, ast.Name) or not isinstance(kv, int):
                            _unloc(f"{name}: entry is not `int: function`")
                        res.append((kv, v.id))
                    # a dict literal keeps the LAST value of a repeated key
                    last = {}
                    for k, v in res:
                        last[k] = v
                    return sorted(last.items()), f"{O}:{node.lineno}"
            _unloc(name)
        return f
    yield G.natstr("Op", "opCodeFunctions", table("OP_CODE_FUNCTIONS"))
    yield G.natstr("Op", "taprootOpCodeFunctions", table("TAPROOT_OP_CODE_FUNCTIONS"))

    # ---- timelock constants
    for py, lean in (("MAX_LOCKTIME", "opMaxLocktime"), ("MAX_SEQUENCE", "opMaxSequence"), ("BLOCK_LIMIT", "blockLimit"),
                     ("SEQUENCE_DISABLE_RELATIVE_FLAG", "seqDisableFlag"),
                     ("SEQUENCE_RELATIVE_TIME_FLAG", "seqTimeFlag"), ("SEQUENCE_MASK", "seqMask")):
        yield G.nat("Op", lean, lambda py=py: G.const(T, py))
    # op_checksequenceverify: `tx_obj.version < 2`
    def csv_version():
        cs = [c for c in G.compares(O, "op_checksequenceverify") if c[3] == "R"]
        for op, v, loc, _ in cs:
            if op == "Lt" and isinstance(v, int) and v >= 2:
                return v, loc
        _unloc("op_checksequenceverify: version threshold")
    yield G.nat("Op", "csvMinVersion", csv_version)

    # ---- `len(stack) < K` / `len(altstack) < K`: first depth check of every op_* function
    def fns():
        return [n for n in G.tree(O).body if isinstance(n, ast.FunctionDef) and n.name.startswith("op_")]

    def depth_of(fn):
        best = None
        for n in ast.walk(fn):
            if (isinstance(n, ast.Compare) and len(n.ops) == 1 and isinstance(n.left, ast.Call)
                    and isinstance(n.left.func, ast.Name) and n.left.func.id == "len"):
                try:
                    v = G.ev(O, n.comparators[0])
                except Exception:
                    continue
                if isinstance(v, int):
                    key = (n.lineno, n.col_offset)
                    if best is None or key < best[0]:
                        best = (key, type(n.ops[0]).__name__, v)
        return best

    def depths():
        res = []
        for fn in fns():
            d = depth_of(fn)
            if d is not None:
                res.append((f"{fn.name}:{d[1]}", d[2]))
        if not res:
            _unloc("no op_* functions")
        return sorted(res), f"{O}:op_*"
    yield G.strnat("Op", "opDepthChecks", depths)

    # ---- comparison operators (other than the len() checks) of every op_* function, source order
    def cmpops():
        res = []
        for fn in fns():
            if fn.name in ("op_pick", "op_roll", "op_code_to_number"):
                continue  # op_pick/op_roll: the sign test is finding F07c, decided by witness replay
            ops = []
            for n in ast.walk(fn):
                if isinstance(n, ast.Compare):
                    if (isinstance(n.left, ast.Call) and isinstance(n.left.func, ast.Name) and n.left.func.id == "len"):
                        continue
                    ops.append((n.lineno, n.col_offset, ",".join(type(o).__name__ for o in n.ops)))
            ops.sort()
            if ops:
                res.append(fn.name + ":" + ";".join(o for _, _, o in ops))
        return sorted(res), f"{O}:op_*"
    yield G.strs("Op", "opCompareOps", cmpops)

    # ---- C06: Witness.has_annex (`len(self.items) >= K and self.items[-1][0] == TAG`), F05f / F06b
    WIT = "buidl/witness.py"

    def annex(kind):
        def f():
            cs = G.compares(WIT, "Witness.has_annex")
            for op, v, loc, side in cs:
                if kind == "min" and op in ("GtE", "Gt") and isinstance(v, int):
                    return (v if op == "GtE" else v + 1), loc
                if kind == "tag" and op == "Eq" and isinstance(v, int):
                    return v, loc
            if kind == "min":
                # the bare truthiness test `len(self.items) and …` of the unrepaired code
                return 1, f"{WIT}:Witness.has_annex"
            _unloc("Witness.has_annex tag")
        return f
    yield G.nat("Op", "opAnnexMinItems", annex("min"))
    yield G.nat("Op", "opAnnexTag", annex("tag"))

    # ---- integer literals of the number codec
    yield G.nats("Op", "encodeNumLiterals", lambda: ([v for v, _ in G.int_consts(O, "encode_num")], f"{O}:encode_num"))
    yield G.nats("Op", "decodeNumLiterals", lambda: ([v for v, _ in G.int_consts(O, "decode_num")], f"{O}:decode_num"))
