"""buidl/pecc.py: comparisons and thresholds of the ECDSA code (PrivateKey.sign, deterministic_k,
S256Point.verify, Signature.der, Signature.parse) with their operators, as evaluated.

  lowSOp / lowSRhs / lowSIsInt   `if s > N // 2` in PrivateKey.sign: operator, right-hand side as CPython
                                 evaluates it (floor when it is a float, then lowSIsInt = false: F01b)
  detkCmp                        `z >= N`, `candidate >= 1`, `candidate < N` in deterministic_k (F01c: `>` vs `>=`)
  verifyRange                    `1 <= sig.r < N and 1 <= sig.s < N` in S256Point.verify, as
                                 [r OP lo, r OP hi, s OP lo, s OP hi] (F01a: the check was absent)
  derCmp                         the six byte comparisons of Signature.der
  parseDerCmp                    the three marker comparisons of Signature.parse
"""
import ast
import math

E = "buidl/pecc.py"

_FLIP = {"LtE": "GtE", "Lt": "Gt", "GtE": "LtE", "Gt": "Lt", "Eq": "Eq", "NotEq": "NotEq"}


def _unl(msg):
    from harness.gen_lean import Unlocated
    raise Unlocated(msg)


def items(G):
    def low_s():
        cs = [c for c in G.compares(E, "PrivateKey.sign") if c[3] == "R"]
        if len(cs) != 1:
            _unl(f"PrivateKey.sign: expected one comparison with a constant, found {len(cs)}")
        op, v, loc, _ = cs[0]
        if isinstance(v, bool) or not isinstance(v, (int, float)):
            _unl(f"PrivateKey.sign: threshold is {type(v).__name__}")
        return op, v, loc

    yield G.str_("Ecdsa", "lowSOp", lambda: (lambda t: (t[0], t[2]))(low_s()))
    yield G.nat("Ecdsa", "lowSRhs", lambda: (lambda t: (t[1] if isinstance(t[1], int) else int(math.floor(t[1])), t[2]))(low_s()))
    yield G.bool_("Ecdsa", "lowSIsInt", lambda: (lambda t: (isinstance(t[1], int), t[2]))(low_s()))

    def table(qual, n, what):
        def f():
            cs = [c for c in G.compares(E, qual) if isinstance(c[1], int) and not isinstance(c[1], bool) and c[3] == "R"]
            if len(cs) != n:
                _unl(f"{qual}: expected {n} integer comparisons ({what}), found {len(cs)}")
            return [(op, v) for op, v, _, _ in cs], cs[0][2]
        return f

    yield G.strnat("Ecdsa", "detkCmp", table("PrivateKey.deterministic_k", 3, "z >= N, candidate >= 1, candidate < N"))
    yield G.strnat("Ecdsa", "derCmp", table("Signature.der", 6, ">= 128, == 0, >= 128 twice"))
    yield G.strnat("Ecdsa", "parseDerCmp", table("Signature.parse", 3, "!= 0x30, != 2, != 2"))

    def verify_range():
        fn = G.node(E, "S256Point.verify")
        first = fn.body[0]
        if isinstance(first, ast.Expr) and isinstance(getattr(first, "value", None), ast.Constant):
            first = fn.body[1]  # docstring
        # `if not (<lo> OP sig.r OP <hi> and <lo> OP sig.s OP <hi>): return False` as the first statement
        if not (isinstance(first, ast.If) and isinstance(first.test, ast.UnaryOp) and isinstance(first.test.op, ast.Not)
                and isinstance(first.test.operand, ast.BoolOp) and isinstance(first.test.operand.op, ast.And)
                and len(first.body) == 1 and isinstance(first.body[0], ast.Return)
                and isinstance(first.body[0].value, ast.Constant) and first.body[0].value.value is False):
            _unl("S256Point.verify: range check `if not (... and ...): return False` not found as first statement")
        out = {}
        for c in first.test.operand.values:
            if not (isinstance(c, ast.Compare) and len(c.ops) == 2 and isinstance(c.comparators[0], ast.Attribute)
                    and isinstance(c.comparators[0].value, ast.Name) and c.comparators[0].value.id == "sig"):
                _unl("S256Point.verify: range check has an unexpected shape")
            lo, hi = G.ev(E, c.left), G.ev(E, c.comparators[1])
            out[c.comparators[0].attr] = [(_FLIP[type(c.ops[0]).__name__], lo), (type(c.ops[1]).__name__, hi)]
        if sorted(out) != ["r", "s"] or len(first.test.operand.values) != 2:
            _unl("S256Point.verify: range check does not cover exactly sig.r and sig.s")
        return out["r"] + out["s"], f"{E}:{first.lineno}"

    yield G.strnat("Ecdsa", "verifyRange", verify_range)
