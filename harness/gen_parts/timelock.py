"""buidl/timelock.py: comparison operators and literals of the Locktime / Sequence accessors that the
interpreter does not reach (constructors' range tests, block_height / mtp, is_rbf_able / is_max,
from_relative_time's granularity, relative_time's shift) and the operators of the two is_comparable
methods (C07: timelock.py:14 Locktime, :55 Sequence)"""

T = "buidl/timelock.py"


def items(G):
    def cmps(qual, n):
        def f():
            cs = G.compares(T, qual)
            if len(cs) != n:
                from harness.gen_lean import Unlocated
                raise Unlocated(f"{T}:{qual}: {len(cs)} comparisons with a constant, expected {n}")
            for op, v, loc, side in cs:
                if side != "R" or not isinstance(v, int) or isinstance(v, bool) or v < 0:
                    from harness.gen_lean import Unlocated
                    raise Unlocated(f"{T}:{qual}: comparison is not `expr OP natural constant`")
            return [(op, v) for op, v, _, _ in cs], cs[0][2]
        return f
    yield G.strnat("Timelock", "locktimeNewCmps", cmps("Locktime.__new__", 2))
    yield G.strnat("Timelock", "sequenceNewCmps", cmps("Sequence.__new__", 2))
    yield G.strnat("Timelock", "blockHeightCmps", cmps("Locktime.block_height", 1))
    yield G.strnat("Timelock", "mtpCmps", cmps("Locktime.mtp", 1))
    yield G.strnat("Timelock", "locktimeComparableCmps", cmps("Locktime.is_comparable", 4))
    yield G.strnat("Timelock", "rbfCmps", cmps("Sequence.is_rbf_able", 1))
    yield G.strnat("Timelock", "isMaxCmps", cmps("Sequence.is_max", 1))
    yield G.strnat("Timelock", "isRelativeCmps", cmps("Sequence.is_relative", 1))

    def lit(qual, what):
        def f():
            cs = G.int_consts(T, qual)
            if len(cs) != 1:
                from harness.gen_lean import Unlocated
                raise Unlocated(f"{T}:{qual}: {what}: {len(cs)} integer literals, expected 1")
            return cs[0]
        return f
    yield G.nat("Timelock", "seqTimeDiv", lit("Sequence.from_relative_time", "granularity divisor"))
    yield G.nat("Timelock", "seqTimeShift", lit("Sequence.relative_time", "shift"))
    for name in ("parse", "serialize"):
        for cls in ("Locktime", "Sequence"):
            yield G.nat("Timelock", f"{cls.lower()}{name.capitalize()}Width", lit(f"{cls}.{name}", "width"))
