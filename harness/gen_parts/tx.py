"""buidl/tx.py, witness.py, timelock.py, helper.py, phash.py: constants of the transaction codec, the
fetcher and the three signature-hash algorithms (C04, C05)"""
import ast

T = "buidl/tx.py"
W = "buidl/witness.py"
TL = "buidl/timelock.py"
H = "buidl/helper.py"
PH = "buidl/phash.py"
TAP = "buidl/taproot.py"


def _unlocated(msg):
    from harness.gen_lean import Unlocated
    raise Unlocated(msg)


def items(G):
    # hash-type constants
    for lean, py in (("sighashDefault", "SIGHASH_DEFAULT"), ("sighashAll", "SIGHASH_ALL"), ("sighashNone", "SIGHASH_NONE"),
                     ("sighashSingle", "SIGHASH_SINGLE"), ("sighashAcp", "SIGHASH_ANYONECANPAY")):
        yield G.nat("Tx", lean, lambda py=py: G.const(H, py))
    yield G.nat("Tx", "maxLocktime", lambda: G.const(TL, "MAX_LOCKTIME"))
    yield G.nat("Tx", "maxSequence", lambda: G.const(TL, "MAX_SEQUENCE"))

    def bconst(path, qual, k, what):
        def f():
            v, loc = G.pick(G.bytes_consts(path, qual), k, what)
            return v, loc
        return f

    def call_arg(path, qual, callee, k, argi, what):
        def f():
            a, loc = G.pick(G.calls_const_args(path, qual, callee), k, what)
            if len(a) <= argi or a[argi] is None:
                _unlocated(what)
            return a[argi], loc
        return f

    # Tx.parse: marker sniffing
    yield G.nat("Tx", "sniffSkip", call_arg(T, "Tx.parse", "read", 0, 0, "Tx.parse read(4)"))
    yield G.nat("Tx", "sniffWidth", call_arg(T, "Tx.parse", "read", 1, 0, "Tx.parse read(1)"))
    yield G.bytes_("Tx", "sniffMarker", bconst(T, "Tx.parse", 0, "Tx.parse marker byte"))

    def seek_back():
        a, loc = G.pick(G.calls_const_args(T, "Tx.parse", "seek"), 0, "Tx.parse seek")
        if a[0] is None or a[0] > 0 or a[1] != 1:
            _unlocated("Tx.parse seek(-5, 1)")
        return -a[0], loc
    yield G.nat("Tx", "sniffSeekBack", seek_back)
    # widths read by the parsers / written by the serialisers
    yield G.nat("Tx", "parLegacyVersionW", call_arg(T, "Tx.parse_legacy", "read", 0, 0, "parse_legacy version width"))
    yield G.nat("Tx", "parSegwitVersionW", call_arg(T, "Tx.parse_segwit", "read", 0, 0, "parse_segwit version width"))
    yield G.nat("Tx", "parSegwitMarkerW", call_arg(T, "Tx.parse_segwit", "read", 1, 0, "parse_segwit marker width"))
    yield G.bytes_("Tx", "parSegwitMarker", bconst(T, "Tx.parse_segwit", 0, "parse_segwit marker"))
    yield G.bytes_("Tx", "serSegwitMarker", bconst(T, "Tx.serialize_segwit", 0, "serialize_segwit marker"))
    yield G.nat("Tx", "serLegacyVersionW", call_arg(T, "Tx.serialize_legacy", "int_to_little_endian", 0, 1, "serialize_legacy version width"))
    yield G.nat("Tx", "serSegwitVersionW", call_arg(T, "Tx.serialize_segwit", "int_to_little_endian", 0, 1, "serialize_segwit version width"))
    yield G.nat("Tx", "txinParPrevW", call_arg(T, "TxIn.parse", "read", 0, 0, "TxIn.parse prev_tx width"))
    yield G.nat("Tx", "txinParIndexW", call_arg(T, "TxIn.parse", "read", 1, 0, "TxIn.parse prev_index width"))
    yield G.nat("Tx", "txinSerIndexW", call_arg(T, "TxIn.serialize", "int_to_little_endian", 0, 1, "TxIn.serialize prev_index width"))
    yield G.nat("Tx", "txoutParAmountW", call_arg(T, "TxOut.parse", "read", 0, 0, "TxOut.parse amount width"))
    yield G.nat("Tx", "txoutSerAmountW", call_arg(T, "TxOut.serialize", "int_to_little_endian", 0, 1, "TxOut.serialize amount width"))
    yield G.nat("Tx", "locktimeParW", call_arg(TL, "Locktime.parse", "read", 0, 0, "Locktime.parse width"))
    yield G.nat("Tx", "locktimeSerW", call_arg(TL, "Locktime.serialize", "int_to_little_endian", 0, 1, "Locktime.serialize width"))
    yield G.nat("Tx", "sequenceParW", call_arg(TL, "Sequence.parse", "read", 0, 0, "Sequence.parse width"))
    yield G.nat("Tx", "sequenceSerW", call_arg(TL, "Sequence.serialize", "int_to_little_endian", 0, 1, "Sequence.serialize width"))

    # sig_hash_legacy
    def legacy_one():
        fn = G.node(T, "Tx.sig_hash_legacy")
        for n in ast.walk(fn):
            if isinstance(n, ast.Assign) and any(isinstance(t, ast.Name) and t.id == "DEFAULT" for t in n.targets):
                return G.ev(T, n.value), f"{T}:{n.lineno}"
        _unlocated("sig_hash_legacy DEFAULT")
    yield G.nat("Tx", "legacyOne", legacy_one)
    yield G.nat("Tx", "legacyVersionW", call_arg(T, "Tx.sig_hash_legacy", "int_to_little_endian", 0, 1, "legacy version width"))
    yield G.bytes_("Tx", "legacyBlankOut", bconst(T, "Tx.sig_hash_legacy", 0, "sig_hash_legacy blank output"))
    yield G.nat("Tx", "legacyHashTypeW", lambda: (lambda l: (l[-1][0][1], l[-1][1]))(
        G.calls_const_args(T, "Tx.sig_hash_legacy", "int_to_little_endian")))
    # sig_hash_bip143
    yield G.nat("Tx", "bip143VersionW", call_arg(T, "Tx.sig_hash_bip143", "int_to_little_endian", 0, 1, "bip143 version width"))
    yield G.nat("Tx", "bip143IndexW", call_arg(T, "Tx.sig_hash_bip143", "int_to_little_endian", 1, 1, "bip143 prev_index width"))
    yield G.nat("Tx", "bip143AmountW", call_arg(T, "Tx.sig_hash_bip143", "int_to_little_endian", 2, 1, "bip143 value width"))
    yield G.nat("Tx", "bip143HashTypeW", call_arg(T, "Tx.sig_hash_bip143", "int_to_little_endian", 3, 1, "bip143 hash type width"))
    # sig_hash_bip341
    for k, nm in enumerate(["bip341VersionW", "bip341PrevIndexW", "bip341AmountW", "bip341InputIndexW"]):
        yield G.nat("Tx", nm, call_arg(T, "Tx.sig_hash_bip341", "int_to_little_endian", k, 1, nm))
    yield G.bytes_("Tx", "bip341Epoch", bconst(T, "Tx.sig_hash_bip341", 0, "bip341 epoch byte"))
    yield G.bytes_("Tx", "bip342Ext", bconst(T, "Tx.sig_hash_bip341", 1, "bip342 key_version + codesep_pos"))
    def annex_cmp(op):
        def f():
            cs = [c for c in G.compares(W, "Witness.has_annex") if c[0] == op and isinstance(c[1], int)]
            if not cs:
                _unlocated(f"Witness.has_annex: no {op} comparison")
            return cs[0][1], cs[0][2]
        return f
    yield G.nat("Tx", "annexTag", annex_cmp("Eq"))

    # has_annex: least number of witness elements (`len(self.items) >= 2`; F05f).  The bare truthiness test
    # `len(self.items) and …` of the unrepaired code is reported as 1.
    def annex_min():
        cs = [c for c in G.compares(W, "Witness.has_annex") if c[0] in ("GtE", "Gt") and isinstance(c[1], int)]
        fn = G.node(W, "Witness.has_annex")
        if not cs:
            return 1, f"{W}:{fn.lineno}"
        op, v, loc, _ = cs[0]
        return (v if op == "GtE" else v + 1), loc
    yield G.nat("Tx", "annexMinItems", annex_min)
    yield G.bytes_("Tx", "tapSighashTag", bconst(PH, "hash_tapsighash", 0, "TapSighash tag"))
    yield G.bytes_("Tx", "tapLeafTag", bconst(PH, "hash_tapleaf", 0, "TapLeaf tag"))

    # ControlBlock.parse length tests: b_len % 32 != 1, b_len < 33, b_len > 33 + 128 * 32
    def cb_cmp():
        cs = [c for c in G.compares(TAP, "ControlBlock.parse") if isinstance(c[1], int) and c[3] == "R"]
        if len(cs) < 3:
            _unlocated("ControlBlock.parse comparisons")
        return [(op, v) for op, v, _, _ in cs[:3]], cs[0][2]
    yield G.strnat("Tx", "txCbParseCmp", cb_cmp)

    # do the midstate helpers memoise (`if self._hash_prevouts is None:`)?  F05d
    def memo():
        found, loc = False, f"{T}:0"
        for q in ("Tx.hash_prevouts", "Tx.hash_sequence", "Tx.hash_outputs", "Tx.sha_prevouts", "Tx.sha_amounts",
                  "Tx.sha_script_pubkeys", "Tx.sha_sequences", "Tx.sha_outputs"):
            fn = G.node(T, q)
            loc = f"{T}:{fn.lineno}"
            for n in ast.walk(fn):
                if isinstance(n, ast.Compare) and any(isinstance(o, (ast.Is, ast.IsNot)) for o in n.ops):
                    found = True
        return found, loc
    yield G.bool_("Tx", "sighashMemo", memo)

    # fetcher: networks with a URL
    def nets():
        v, loc = G.const(T, "URL")
        return sorted(v.keys()), loc
    yield G.strs("Tx", "fetchNetworks", nets)
