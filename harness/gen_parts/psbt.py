"""buidl/psbt.py (+ the helpers it leans on in helper.py, hd.py, op.py, script.py, tx.py): PSBT magic,
separator, delimiter, every key-type byte, the key-length tests of the three map parsers (type byte ->
required key length, with the comparison operator checked), script-template patterns, the
small-number opcodes used by finalize / get_quorum, path_network's purpose / coin-type constants and
the extended-key version tables.  Everything lands in Buidl/Gen/Psbt.lean (names prefixed `psbt`)."""
import ast

P = "buidl/psbt.py"
HE = "buidl/helper.py"
HD = "buidl/hd.py"
OP = "buidl/op.py"
SC = "buidl/script.py"
TX = "buidl/tx.py"


def _unloc(msg):
    from harness.gen_lean import Unlocated
    raise Unlocated(msg)


def items(G):
    # ------------------------------------------------------------------ framing bytes
    for py, lean in (("PSBT_MAGIC", "psbtMagic"), ("PSBT_SEPARATOR", "psbtSeparator"), ("PSBT_DELIMITER", "psbtDelimiter")):
        yield G.bytes_("Psbt", lean, lambda py=py: G.const(P, py))

    # ------------------------------------------------------------------ key-type bytes
    def one_byte(py):
        def f():
            v, loc = G.const(P, py)
            if not isinstance(v, bytes) or len(v) != 1:
                _unloc(f"{py} is not a single byte")
            return v[0], loc
        return f
    types = ["PSBT_GLOBAL_UNSIGNED_TX", "PSBT_GLOBAL_XPUB",
             "PSBT_IN_NON_WITNESS_UTXO", "PSBT_IN_WITNESS_UTXO", "PSBT_IN_PARTIAL_SIG", "PSBT_IN_SIGHASH_TYPE",
             "PSBT_IN_REDEEM_SCRIPT", "PSBT_IN_WITNESS_SCRIPT", "PSBT_IN_BIP32_DERIVATION", "PSBT_IN_FINAL_SCRIPTSIG",
             "PSBT_IN_FINAL_SCRIPTWITNESS", "PSBT_IN_POR_COMMITMENT",
             "PSBT_OUT_REDEEM_SCRIPT", "PSBT_OUT_WITNESS_SCRIPT", "PSBT_OUT_BIP32_DERIVATION"]
    for py in types:
        parts = py.lower().split("_")
        lean = parts[0] + "".join(p.capitalize() for p in parts[1:])
        yield G.nat("Psbt", lean, one_byte(py))

    # ------------------------------------------------------------------ key-length tests of the parsers
    def keylens(qual):
        """walk the `if psbt_type == CONST: … elif …` chain; for each branch the `len(key) != N` test"""
        def f():
            fn = G.node(P, qual)
            res = []
            for n in ast.walk(fn):
                if not isinstance(n, ast.If):
                    continue
                t = n.test
                if not (isinstance(t, ast.Compare) and len(t.ops) == 1 and isinstance(t.ops[0], ast.Eq)
                        and isinstance(t.left, ast.Name) and t.left.id == "psbt_type"):
                    continue
                tv = G.ev(P, t.comparators[0])
                if not isinstance(tv, bytes) or len(tv) != 1:
                    _unloc(f"{qual}: branch constant is not a single byte")
                for st in n.body:
                    for m in ast.walk(st):
                        if (isinstance(m, ast.Compare) and len(m.ops) == 1 and isinstance(m.left, ast.Call)
                                and isinstance(m.left.func, ast.Name) and m.left.func.id == "len"
                                and len(m.left.args) == 1 and isinstance(m.left.args[0], ast.Name)
                                and m.left.args[0].id == "key"):
                            if not isinstance(m.ops[0], ast.NotEq):
                                _unloc(f"{qual}: key-length test is not `!=`")
                            res.append((n.lineno, tv[0], G.ev(P, m.comparators[0])))
            if not res:
                _unloc(f"{qual}: no key-length tests")
            res.sort()
            return [(t, l) for _, t, l in res], f"{P}:{res[0][0]}"
        return f
    yield G.natpairs("Psbt", "psbtGlobalKeyLens", keylens("PSBT.parse"))
    yield G.natpairs("Psbt", "psbtInKeyLens", keylens("PSBTIn.parse"))
    yield G.natpairs("Psbt", "psbtOutKeyLens", keylens("PSBTOut.parse"))

    # read widths of the framing: s.read(4) magic, s.read(1) separator
    for k, lean in enumerate(["psbtMagicWidth", "psbtSeparatorWidth"]):
        yield G.nat("Psbt", lean, lambda k=k: (lambda a: (a[0][0], a[1]))(G.pick(G.calls_const_args(P, "PSBT.parse", "read"), k, "read width")))

    # PSBTIn.serialize: int_to_little_endian(self.hash_type, 4)
    yield G.nat("Psbt", "psbtHashTypeWidth",
                lambda: (lambda a: (a[0][1], a[1]))(G.pick(G.calls_const_args(P, "PSBTIn.serialize", "int_to_little_endian"), 0, "hash type width")))

    # NamedPublicKey.add_raw_path_data: raw_path[:4] / raw_path[4:]
    def fp_width():
        sl = G.slice_bounds(P, "NamedPublicKey.add_raw_path_data")
        his = [hi for lo, hi, _ in sl if hi is not None]
        los = [lo for lo, hi, _ in sl if lo is not None]
        if len(his) != 1 or len(los) != 1 or his[0] != los[0]:
            _unloc("add_raw_path_data slices")
        return his[0], sl[0][2]
    yield G.nat("Psbt", "psbtFingerprintWidth", fp_width)

    # helper.parse_binary_path: `len(bin_path) % 4`, 4-byte children
    def child_width():
        vs = [v for v, _ in G.int_consts(HE, "parse_binary_path")]
        if not vs or any(v not in (0, 4) for v in vs) or 4 not in vs:
            _unloc("parse_binary_path literals")
        return 4, f"{HE}:parse_binary_path"
    yield G.nat("Psbt", "psbtChildWidth", child_width)

    # helper.child_to_path: hardened threshold (`>=`)
    yield G.nat("Psbt", "psbtHardened", lambda: G.cmp(HE, "child_to_path", 0, "GtE"))

    # helper.path_network: purposes whose coin type 1' means testnet
    def path_net():
        fn = G.node(HE, "path_network")
        tup, coin, loc = None, None, None
        for n in ast.walk(fn):
            if isinstance(n, ast.Compare) and len(n.ops) == 1:
                if isinstance(n.ops[0], ast.In):
                    tup = G.ev(HE, n.comparators[0]); loc = f"{HE}:{n.lineno}"
                elif isinstance(n.ops[0], ast.Eq):
                    v = G.ev(HE, n.comparators[0])
                    if isinstance(v, str):
                        coin = v
        if tup is None or coin is None:
            _unloc("path_network shape")
        hard, _ = G.cmp(HE, "child_to_path", 0, "GtE")

        def num(c):
            if not c.endswith("'"):
                return int(c)
            return hard + int(c[:-1])
        return ([num(c) for c in tup], num(coin)), loc
    yield G.nats("Psbt", "psbtPathNetPurposes", lambda: (lambda r: (r[0][0], r[1]))(path_net()))
    yield G.nat("Psbt", "psbtPathNetCoin", lambda: (lambda r: (r[0][1], r[1]))(path_net()))
    # `len(components) < 2`
    yield G.nat("Psbt", "psbtPathNetMinComponents", lambda: G.cmp(HE, "path_network", 0, "Lt"))

    # ------------------------------------------------------------------ extended-key versions
    def xpub_table():
        v, loc = G.const(HD, "XPUB")
        return sorted(v.items()), loc
    yield G.strbytes("Psbt", "psbtXpubVersion", xpub_table)

    def version_set(name):
        def f():
            for node in G.tree(HD).body:
                if isinstance(node, ast.Assign) and any(isinstance(t, ast.Name) and t.id == name for t in node.targets):
                    v = node.value
                    if isinstance(v, ast.SetComp) and isinstance(v.generators[0].iter, ast.List):
                        hexes = [G.ev(HD, e) for e in v.generators[0].iter.elts]
                        return [(h, bytes.fromhex(h)) for h in sorted(hexes)], f"{HD}:{node.lineno}"
                    val = G.ev(HD, v)
                    return [(b.hex(), b) for b in sorted(val)], f"{HD}:{node.lineno}"
            _unloc(name)
        return f
    yield G.strbytes("Psbt", "psbtMainnetXpubs", version_set("ALL_MAINNET_XPUBS"))
    yield G.strbytes("Psbt", "psbtTestnetXpubs", version_set("ALL_TESTNET_XPUBS"))
    # HDPublicKey.raw_parse field widths: s.read(4), read(1), read(4), read(4), read(32), read(33)
    yield G.nats("Psbt", "psbtXpubFieldWidths",
                 lambda: ([a[0][0] for a in G.calls_const_args(HD, "HDPublicKey.raw_parse", "read")], f"{HD}:HDPublicKey.raw_parse"))
    # HDPublicKey.child: `index >= 0x80000000`
    yield G.nat("Psbt", "psbtXpubChildLimit", lambda: G.cmp(HD, "HDPublicKey.child", 0, "GtE"))
    # hd.is_valid_bip32_path: `len(sub_paths) >= 256`
    def gte(k):
        def f():
            cs = [c for c in G.compares(HD, "is_valid_bip32_path") if c[0] == "GtE" and isinstance(c[1], int)]
            c = G.pick(cs, k, "is_valid_bip32_path `>=`")
            return c[1], c[2]
        return f
    yield G.nat("Psbt", "psbtPathMaxComponents", gte(0))
    yield G.nat("Psbt", "psbtPathMaxChild", gte(1))

    # ------------------------------------------------------------------ script templates (script.py)
    def pattern(qual, n):
        def f():
            cs = G.compares(SC, qual)
            vals = []
            for op, v, loc, side in cs:
                if op != "Eq" or not isinstance(v, int) or isinstance(v, bool):
                    _unloc(f"{qual}: comparison is not `== int`")
                vals.append(v)
            if len(vals) != n:
                _unloc(f"{qual}: expected {n} equalities, found {len(vals)}")
            return vals, cs[0][2]
        return f
    yield G.nats("Psbt", "psbtP2pkhPattern", pattern("Script.is_p2pkh", 6))    # len 5, 0x76, 0xa9, 20, 0x88, 0xac
    yield G.nats("Psbt", "psbtP2shPattern", pattern("Script.is_p2sh", 4))      # len 3, 0xa9, 20, 0x87
    yield G.nats("Psbt", "psbtP2wpkhPattern", pattern("Script.is_p2wpkh", 3))  # len 2, 0, 20
    yield G.nats("Psbt", "psbtP2wshPattern", pattern("Script.is_p2wsh", 3))    # len 2, 0, 32
    yield G.nats("Psbt", "psbtP2trPattern", pattern("Script.is_p2tr", 3))      # len 2, 0x51, 32
    # RedeemScript.is_p2sh_multisig: commands[-1] == 174 ; get_quorum: len(commands) - 3
    yield G.nat("Psbt", "psbtCheckMultisig", lambda: G.cmp(SC, "RedeemScript.is_p2sh_multisig", 0, "Eq"))

    def quorum_overhead():
        vs = [v for v, _ in G.int_consts(SC, "RedeemScript.get_quorum")]
        if vs != [0, 3]:
            _unloc(f"RedeemScript.get_quorum literals {vs}")
        return 3, f"{SC}:RedeemScript.get_quorum"
    yield G.nat("Psbt", "psbtQuorumOverhead", quorum_overhead)

    # op.OP_CODE_NAMES (WitnessScript.get_quorum reads m and n from the opcode names)
    def names():
        v, loc = G.const(OP, "OP_CODE_NAMES")
        return sorted((k, s) for k, s in v.items()), loc
    yield G.natstr("Psbt", "psbtOpCodeNames", names)

    # op.op_code_to_number: accepted opcodes, offset
    def opnum():
        cs = G.compares(OP, "op_code_to_number")
        tup = [v for op, v, _, _ in cs if op == "NotIn" and isinstance(v, tuple)]
        if len(tup) != 1:
            _unloc("op_code_to_number: accepted-opcode tuple")
        ints = [v for v, _ in G.int_consts(OP, "op_code_to_number")]
        return (list(tup[0]), ints[-1]), f"{OP}:op_code_to_number"
    yield G.nats("Psbt", "psbtOpNumCodes", lambda: (lambda r: (r[0][0], r[1]))(opnum()))
    yield G.nat("Psbt", "psbtOpNumBase", lambda: (lambda r: (r[0][1], r[1]))(opnum()))

    # ------------------------------------------------------------------ TxOut amount width (tx.py), serialise / parse side
    yield G.nat("Psbt", "psbtTxoutSerAmountW",
                lambda: (lambda a: (a[0][1], a[1]))(G.pick(G.calls_const_args(TX, "TxOut.serialize", "int_to_little_endian"), 0, "amount width")))
    yield G.nat("Psbt", "psbtTxoutParAmountW",
                lambda: (lambda a: (a[0][0], a[1]))(G.pick(G.calls_const_args(TX, "TxOut.parse", "read"), 0, "amount width")))
