"""buidl/hd.py, buidl/blinding.py, buidl/helper.py (child_to_path, parse_binary_path): BIP32 constants.

Version tables (XPRV / XPUB per network, the 20 SLIP-132 prefixes), the hardened threshold with
its comparison operator at every place it occurs, the HMAC key, field widths of the 78-byte
serialisation (serialise side and parse side separately), fingerprint width, path limits."""
H = "buidl/hd.py"
B = "buidl/blinding.py"
HE = "buidl/helper.py"


def _unloc(msg):
    from harness.gen_lean import Unlocated
    raise Unlocated(msg)


def items(G):
    # ------------------------------------------------------------------ version tables
    def table(name):
        def f():
            v, loc = G.const(H, name)
            if not isinstance(v, dict) or not all(isinstance(k, str) and isinstance(x, bytes) for k, x in v.items()):
                _unloc(f"{name} is not a str->bytes dict")
            return sorted(v.items()), loc
        return f
    yield G.strbytes("HD", "hdXprv", table("XPRV"))
    yield G.strbytes("HD", "hdXpub", table("XPUB"))

    def vset(name):
        def f():
            v, loc = G.const(H, name)
            if not isinstance(v, (set, frozenset)) or not all(isinstance(x, bytes) for x in v):
                _unloc(f"{name} is not a set of bytes")
            return [(x.hex(), x) for x in sorted(v)], loc
        return f
    yield G.strbytes("HD", "hdAllMainnetXprvs", vset("ALL_MAINNET_XPRVS"))
    yield G.strbytes("HD", "hdAllMainnetXpubs", vset("ALL_MAINNET_XPUBS"))
    yield G.strbytes("HD", "hdAllTestnetXprvs", vset("ALL_TESTNET_XPRVS"))
    yield G.strbytes("HD", "hdAllTestnetXpubs", vset("ALL_TESTNET_XPUBS"))

    # ------------------------------------------------------------------ comparisons (operator and constant)
    def cmp_int(path, qual, k, what):
        """k-th comparison of `qual` against an integer constant on the right: (op, value, loc)"""
        cs = [c for c in G.compares(path, qual) if isinstance(c[1], int) and not isinstance(c[1], bool) and c[3] == "R"]
        if k >= len(cs):
            _unloc(f"{qual}: integer comparison #{k} ({what}) not found")
        return cs[k]

    def cmp_items(prefix, path, qual, k, what):
        yield G.str_("HD", prefix + "Op", lambda: (lambda c: (c[0], c[2]))(cmp_int(path, qual, k, what)))
        yield G.nat("HD", prefix + "T", lambda: (lambda c: (c[1], c[2]))(cmp_int(path, qual, k, what)))

    # HDPrivateKey.child: `index < 0`, `index >= 0x80000000`
    yield from cmp_items("hdPrivNeg", H, "HDPrivateKey.child", 0, "index < 0")
    yield from cmp_items("hdPrivHard", H, "HDPrivateKey.child", 1, "index >= 0x80000000")
    # HDPublicKey.child: `index >= 0x80000000`, `index < 0`
    yield from cmp_items("hdPubHard", H, "HDPublicKey.child", 0, "index >= 0x80000000")
    yield from cmp_items("hdPubNeg", H, "HDPublicKey.child", 1, "index < 0")
    # helper.child_to_path
    yield from cmp_items("childToPathHard", HE, "child_to_path", 0, "child_number >= 0x80000000")
    yield G.nat("HD", "childToPathSub", lambda: G.pick(G.int_consts(HE, "child_to_path"), 1, "child_number - 0x80000000"))
    # HDPrivateKey.traverse: `int(child[:-1]) + 0x80000000`
    yield G.nat("HD", "hdTraverseHardAdd", lambda: G.pick(G.int_consts(H, "HDPrivateKey.traverse"), 2, "+ 0x80000000"))
    # parse: `len(raw) != 78`
    yield from cmp_items("hdPrivParseLen", H, "HDPrivateKey.parse", 0, "len(raw) != 78")
    yield from cmp_items("hdPubParseLen", H, "HDPublicKey.parse", 0, "len(raw) != 78")
    # raw_parse: `byte_to_int(s.read(1)) != 0`
    yield from cmp_items("hdPrivParseZero", H, "HDPrivateKey.raw_parse", 0, "zero byte before the key")
    # is_valid_bip32_path: `len(sub_paths) >= 256`, `int(sub_path) < 0`, `int(sub_path) >= 2**31`
    yield from cmp_items("pathMaxDepth", H, "is_valid_bip32_path", 0, "len(sub_paths) >= 256")
    yield from cmp_items("pathNeg", H, "is_valid_bip32_path", 1, "int(sub_path) < 0")
    yield from cmp_items("pathMaxIndex", H, "is_valid_bip32_path", 2, "int(sub_path) >= 2**31")
    # blinding.secure_secret_path: `depth >= 32`, `depth < 1`, randbelow(2**31 - 1)
    yield from cmp_items("secretDepthMax", B, "secure_secret_path", 0, "depth >= 32")
    yield from cmp_items("secretDepthMin", B, "secure_secret_path", 1, "depth < 1")
    yield G.nat("HD", "secretRandBelow",
                lambda: (lambda a: (a[0][0], a[1]))(G.pick(G.calls_const_args(B, "secure_secret_path", "randbelow"), 0, "randbelow")))

    # ------------------------------------------------------------------ HMAC key
    yield G.bytes_("HD", "hdSeedKey", lambda: G.pick(G.bytes_consts(H, "HDPrivateKey.from_seed"), 0, "b'Bitcoin seed'"))

    # ------------------------------------------------------------------ widths and slices
    def call_arg(path, qual, callee, k, argi, what):
        def f():
            a, loc = G.pick(G.calls_const_args(path, qual, callee), k, what)
            if argi >= len(a) or a[argi] is None:
                _unloc(f"{qual}: {what}: argument not constant")
            return a[argi], loc
        return f

    def slice_(path, qual, k, side, what):
        def f():
            lo, hi, loc = G.pick(G.slice_bounds(path, qual), k, what)
            v = lo if side == 0 else hi
            if not isinstance(v, int):
                _unloc(f"{qual}: {what}: bound not an int")
            return v, loc
        return f

    # from_seed: h[:32], h[32:]
    yield G.nat("HD", "hdSeedKeyHi", slice_(H, "HDPrivateKey.from_seed", 0, 1, "h[:32]"))
    yield G.nat("HD", "hdSeedChainLo", slice_(H, "HDPrivateKey.from_seed", 1, 0, "h[32:]"))
    # HDPrivateKey.child: secret in 33 bytes, index in 4 bytes (both branches), h[:32], h[32:]
    yield G.nat("HD", "hdPrivChildSecretW", call_arg(H, "HDPrivateKey.child", "int_to_big_endian", 0, 1, "secret width"))
    yield G.nat("HD", "hdPrivChildIndexWHard", call_arg(H, "HDPrivateKey.child", "int_to_big_endian", 1, 1, "index width (hardened)"))
    yield G.nat("HD", "hdPrivChildIndexW", call_arg(H, "HDPrivateKey.child", "int_to_big_endian", 2, 1, "index width"))
    yield G.nat("HD", "hdPrivChildKeyHi", slice_(H, "HDPrivateKey.child", 0, 1, "h[:32]"))
    yield G.nat("HD", "hdPrivChildChainLo", slice_(H, "HDPrivateKey.child", 1, 0, "h[32:]"))
    # HDPublicKey.child
    yield G.nat("HD", "hdPubChildIndexW", call_arg(H, "HDPublicKey.child", "int_to_big_endian", 0, 1, "index width"))
    yield G.nat("HD", "hdPubChildKeyHi", slice_(H, "HDPublicKey.child", 0, 1, "h[:32]"))
    yield G.nat("HD", "hdPubChildChainLo", slice_(H, "HDPublicKey.child", 1, 0, "h[32:]"))
    # fingerprint: hash160()[:4]
    yield G.nat("HD", "hdFingerprintW", slice_(H, "HDPublicKey.fingerprint", 0, 1, "hash160()[:4]"))
    # serialise side
    yield G.nat("HD", "hdPrivSerChildW", call_arg(H, "HDPrivateKey.raw_serialize", "int_to_big_endian", 0, 1, "child number width"))
    yield G.nat("HD", "hdPrivSerSecretW", call_arg(H, "HDPrivateKey.raw_serialize", "int_to_big_endian", 1, 1, "secret width"))
    yield G.nat("HD", "hdPubSerChildW", call_arg(H, "HDPublicKey._serialize", "int_to_big_endian", 0, 1, "child number width"))
    # parse side: read(4) read(1) read(4) read(4) read(32) read(1) read(32) / … read(33)
    for k, nm in enumerate(["Version", "Depth", "Fp", "Child", "Chain", "Zero", "Secret"]):
        yield G.nat("HD", "hdPrivPar" + nm + "W", call_arg(H, "HDPrivateKey.raw_parse", "read", k, 0, nm))
    for k, nm in enumerate(["Version", "Depth", "Fp", "Child", "Chain", "Sec"]):
        yield G.nat("HD", "hdPubPar" + nm + "W", call_arg(H, "HDPublicKey.raw_parse", "read", k, 0, nm))
    # parse_binary_path: `len(bin_path) % 4`, path_data[:4], path_data[4:]
    yield G.nat("HD", "binPathMod", lambda: G.pick(G.int_consts(HE, "parse_binary_path"), 0, "% 4"))
    yield G.nat("HD", "binPathTake", slice_(HE, "parse_binary_path", 0, 1, "path_data[:4]"))
    yield G.nat("HD", "binPathDrop", slice_(HE, "parse_binary_path", 1, 0, "path_data[4:]"))
