"""buidl/phash.py: the BIP340 tag strings used by the Schnorr code (hash_aux, hash_nonce, hash_challenge),
   buidl/pecc.py: the length checks of bip340_k, the `s >= N` check of SchnorrSignature.__init__ and the
   two read widths of SchnorrSignature.parse"""
PH = "buidl/phash.py"
E = "buidl/pecc.py"


def _unl(msg):
    from harness.gen_lean import Unlocated
    raise Unlocated(msg)


def items(G):
    for fn, lean in (("hash_aux", "schnorrTagAux"), ("hash_nonce", "schnorrTagNonce"),
                     ("hash_challenge", "schnorrTagChallenge")):
        def tag(fn=fn):
            cs = G.bytes_consts(PH, fn)
            if len(cs) != 1:
                _unl(f"{fn}: expected exactly one bytes literal")
            return cs[0]
        yield G.bytes_("Schnorr", lean, tag)

    def table(qual, n, what):
        def f():
            cs = [c for c in G.compares(E, qual) if isinstance(c[1], int) and not isinstance(c[1], bool) and c[3] == "R"]
            if len(cs) != n:
                _unl(f"{qual}: expected {n} integer comparisons ({what}), found {len(cs)}")
            return [(op, v) for op, v, _, _ in cs], cs[0][2]
        return f

    # len(msg) != 32, len(aux) != 32
    yield G.strnat("Schnorr", "bip340KCmp", table("PrivateKey.bip340_k", 2, "len(msg) != 32, len(aux) != 32"))
    # s >= N
    yield G.strnat("Schnorr", "schnorrSigCmp", table("SchnorrSignature.__init__", 1, "s >= N"))
    for k, nm in enumerate(["schnorrParseRWidth", "schnorrParseSWidth"]):
        yield G.nat("Schnorr", nm,
                    lambda k=k: (lambda a: (a[0][0], a[1]))(G.pick(G.calls_const_args(E, "SchnorrSignature.parse", "read"), k, "read width")))
