"""
C05 — signature hashes: correspondence between the Lean model (lean/Buidl/Model/Tx.lean; driver
drv_c05, ops `q`, `hist`) and buidl/tx.py sig_hash_legacy / sig_hash_bip143 / sig_hash_bip341 /
sig_hash with the midstate helpers, witness.py has_annex / tap_leaf, and — as the property oracle —
comparison of the implementation with the specification lean/Buidl/Spec/Sighash.lean (Bitcoin Core's
legacy SignatureHash, BIP143, BIP341/342; driver ops `spec_*`), which is fed raw bytes computed by
this harness without the library.

Structure as harness/c19.py: impl_line / PREDICATES / run / replay.
"""
import contextlib
import io

from harness.common import REJECT, xb, unx, batch_parallel, MachineryError
from harness import txtok as T

PROPERTY = "C05"
DRIVERS = ["drv_c05"]
ANCHORS = [
    ("buidl/tx.py", "Tx.sig_hash_legacy"), ("buidl/tx.py", "Tx.sig_hash_bip143"), ("buidl/tx.py", "Tx.sig_hash_bip341"),
    ("buidl/tx.py", "Tx.sig_hash"), ("buidl/tx.py", "Tx.hash_prevouts"), ("buidl/tx.py", "Tx.hash_sequence"),
    ("buidl/tx.py", "Tx.hash_outputs"), ("buidl/tx.py", "Tx.sha_prevouts"), ("buidl/tx.py", "Tx.sha_amounts"),
    ("buidl/tx.py", "Tx.sha_script_pubkeys"), ("buidl/tx.py", "Tx.sha_sequences"), ("buidl/tx.py", "Tx.sha_outputs"),
    ("buidl/tx.py", "Tx.__init__"), ("buidl/tx.py", "TxIn.__init__"), ("buidl/tx.py", "TxIn.serialize"), ("buidl/tx.py", "TxOut.serialize"),
    ("buidl/tx.py", "TxIn.value"), ("buidl/tx.py", "TxIn.script_pubkey"),
    ("buidl/witness.py", "Witness.has_annex"), ("buidl/witness.py", "Witness.control_block"), ("buidl/witness.py", "Witness.tap_script"),
    ("buidl/witness.py", "Witness.tap_leaf"), ("buidl/taproot.py", "TapLeaf.hash"), ("buidl/taproot.py", "ControlBlock.parse"),
    ("buidl/script.py", "RedeemScript.convert"), ("buidl/script.py", "WitnessScript.convert"), ("buidl/script.py", "P2PKHScriptPubKey.__init__"),
    ("buidl/tx.py", "Tx.finalize_p2tr_multisig"), ("buidl/tx.py", "Tx.initialize_p2tr_multisig"),
    ("buidl/tx.py", "Tx.get_sig_legacy"), ("buidl/tx.py", "Tx.get_sig_segwit"), ("buidl/tx.py", "Tx.get_sig_taproot"),
    ("buidl/tx.py", "Tx.check_sig_legacy"), ("buidl/tx.py", "Tx.check_sig_segwit"),
    ("buidl/op.py", "op_checksig"), ("buidl/op.py", "op_checksig_schnorr"), ("buidl/op.py", "op_checksigadd_schnorr"),
    ("buidl/phash.py", "tagged_hash"), ("buidl/phash.py", "hash_tapsighash"), ("buidl/phash.py", "hash_tapleaf"),
]
RULE = ("digest consumers: real signatures (library signer) over the SPECIFICATION's digest for each signer's own hash type are fed to "
        "verify_input (P2PKH, P2WPKH, P2SH-P2WPKH, P2TR key path with/without annex: accepted; over another hash type's digest: "
        "refused; each object asked twice) and to finalize_p2tr_multisig on k-of-n tapscript multisigs whose co-signers use "
        "different hash types, in both orders, with wrong-digest and missing signatures, the same object finalised twice.  "
        "Objects are reused: every single query is asked twice of the same object; histories interleave queries for different "
        "inputs / hash types / algorithms on ONE Tx object, repeat queries, mutate IN PLACE what the inputs hold (tap script, control "
        "block, annex, stack items, witness script, redeem script, hash inside the spent scriptPubKey, pushes inside output "
        "scripts) next to edits of the transaction fields, and ask the same question again after every edit.  "
        "Transactions with 1..6 inputs and 0..6 outputs are generated as plain data from one PRNG seeded by VERIF_SEED, every input "
        "spending one of P2PK, P2PKH, P2SH-multisig, P2SH-P2WPKH, P2SH-P2WSH, P2WPKH, P2WSH, P2TR key path, P2TR script path "
        "(annex present/absent) with amounts in [0, 2^63); the library objects are built from them through the API with "
        "_value/_script_pubkey preset; every input index (and one past the end) × the seven standard hash types "
        "(plus non-standard ones as correspondence cases) is queried through Tx.sig_hash and through the three algorithm "
        "methods; histories of up to 6 (thorough 10) interleaved queries and in-place edits (outputs, inputs, sequences, "
        "locktime, version, witnesses, spent outputs) run on ONE Python object.  Expected digests come from the Lean "
        "specification on raw bytes.  A case is non-trivial when the digest is not REJECT; distinct = distinct requests")
CLAUSES = {
    "legacy digest = Satoshi/Core SignatureHash for the seven hash types, incl. the constant-1 cases":
        "proved (legacy_eq_spec, legacy_digest_eq_spec, legacy_one_cases)",
    "BIP143 digest for the seven hash types": "proved (bip143_eq_spec, bip143_digest_eq_spec)",
    "BIP341/342 digest: key and script path, annex, SINGLE without output rejected":
        "proved (bip341_eq_spec, bip341_digest_eq_spec, tapleaf_eq_spec, tapleaf_canonical)",
    "dispatch: algorithm, script code, ext_flag, annex per BIP16/141/341 (annex not a script-path element)":
        "proved (annex_eq_spec, extflag_eq_spec, route_p2pkh, route_p2sh_legacy, route_p2wpkh, route_p2wsh, "
        "route_p2sh_p2wpkh, route_p2sh_p2wsh, route_p2tr, spec_dispatch_native)",
    "history independence: every query answers for the current fields, after any operations":
        "proved (history_independent, query_pure, requery_after_witness_edit: annex, ext_flag and the tap leaf hash are functions "
        "of the current witness items) for the repaired code; the memoising variant fails: F05d_witness",
    "the digest the library VERIFIES (consumers: finalize_p2tr_multisig, op_checksig / op_checksig_schnorr / op_checksigadd_schnorr)":
        "proved for the selection logic of finalize_p2tr_multisig (finalize_p2tr_multisig_uses_each_sig_hashtype, "
        "schnorr_sig_hashtype: every signature is matched against the digest of its own hash type); the op_* paths and the "
        "final verify_input are exercised with real signatures over the specification's digests (accept own, refuse other, "
        "mixed hash types in both orders, finalised twice) — correspondence + predicate, the interpreter itself is C06/C07",
    "the source is the repaired variant (no memoisation, has_annex needs two elements)":
        "re-extracted on every run (Gen.sighashMemo, Gen.annexMinItems) and compared with Cfg.repaired by the harness",
    "all 256 hash-type bytes (outside the quantifier)": "proved on the 160 bytes where `& 3` and `& 0x1f` decode alike "
        "(hashtype_decoding_agrees_iff, legacy_eq_spec_all_bytes, bip143_eq_spec_all_bytes); observation O05h on the other 96 "
        "(O05h_nonstandard_hashtype_witness); taproot outside the seven: observation O05i (O05i_taproot_invalid_hashtype_witness)",
    "OP_CODESEPARATOR in script codes (outside the quantifier)": "proved harmless when absent (no_codeseparator_no_stripping); "
        "the library never strips it: observation O05j (O05j_codeseparator_witness), exercised and counted by the harness",
    "hash types above 255, malformed arguments, non-canonical script codes": "correspondence-only",
}
TRUSTED = ["sha256 / hash256 are parameters of every theorem; the driver instantiates them with Buidl.Model.Hash.SHA256 "
           "(checked against hashlib by harness/hash_selftest.py)",
           "validity of the taproot internal key (S256Point.parse_xonly) is a parameter `xonlyOK`; the driver uses Buidl.Model.EC.parseXonly",
           "the specification Buidl.Spec.Sighash is a transcription of Bitcoin Core's SignatureHash, BIP143 and BIP341/342"]
ASSUMPTIONS = ["phash.tagged_hash's tag cache is transparent (C02)",
               "spent outputs are preset (_value, _script_pubkey); the fetcher is not consulted",
               "script codes are canonically encoded (the library re-serialises parsed redeem/witness/tap scripts)"]

STD = [0, 1, 2, 3, 0x81, 0x82, 0x83]
ODD = [4, 0x80, 0x84, 0x43, 0xFF, 0x100, 0x101, 2 ** 32 - 1, 2 ** 32]
KINDS = ["p2pk", "p2pkh", "p2sh_ms", "p2sh_p2wpkh", "p2sh_p2wsh", "p2wpkh", "p2wsh", "p2tr_key", "p2tr_key_annex",
         "p2tr_script", "p2tr_script_annex"]


class UnknownOp(Exception):
    pass


def rbytes(rng, n):
    return rng.getrandbits(8 * n).to_bytes(n, "little") if n else b""


_KEYS = []


def xonly_keys():
    """a few valid x-only public keys (computed once with the library's own arithmetic)"""
    if not _KEYS:
        from buidl.ecc import PrivateKey
        for k in (1, 2, 3, 0xDEADBEEF):
            _KEYS.append(PrivateKey(k).point.xonly())
    return _KEYS


# --------------------------------------------------------------------------------- descriptions
def p2pkh_code(h):
    return b"\x76\xa9" + bytes([len(h)]) + h + b"\x88\xac"


def spend(rng, kind):
    """script_sig / witness / spent output of an input of the given kind, and the rule the consensus
    specification applies to it: ("legacy", code) | ("bip143", code) | ("bip341", annex|None, (leaf_version, script)|None)"""
    sig = rbytes(rng, rng.choice([70, 71, 72]))
    pk = bytes([rng.choice([2, 3])]) + rbytes(rng, 32)
    d = {"script_sig": T.d_script([]), "witness": []}
    if kind == "p2pk":
        spk = [pk, 0xAC]
        d.update(spk=T.d_script(spk), script_sig=T.d_script([sig]))
    elif kind == "p2pkh":
        spk = [0x76, 0xA9, rbytes(rng, 20), 0x88, 0xAC]
        d.update(spk=T.d_script(spk), script_sig=T.d_script([sig, pk]))
    elif kind == "p2sh_ms":
        redeem = T.raw_script(T.d_script([0x51, pk, bytes([2]) + rbytes(rng, 32), 0x52, 0xAE]))
        d.update(spk=T.d_script([0xA9, rbytes(rng, 20), 0x87]), script_sig=T.d_script([0, sig, redeem]))
    elif kind == "p2sh_p2wpkh":
        h = rbytes(rng, 20)
        d.update(spk=T.d_script([0xA9, rbytes(rng, 20), 0x87]), script_sig=T.d_script([b"\x00\x14" + h]), witness=[sig, pk])
    elif kind in ("p2sh_p2wsh", "p2wsh"):
        ws = T.raw_script(T.d_script(rng.choice([[0x51, pk, 0x51, 0xAE], [pk, 0xAC], [rbytes(rng, rng.choice([76, 100, 255, 256, 300])), 0x75, pk, 0xAC]])))
        if kind == "p2wsh":
            d.update(spk=T.d_script([0, rbytes(rng, 32)]), witness=[b"", sig, ws])
        else:
            d.update(spk=T.d_script([0xA9, rbytes(rng, 20), 0x87]), script_sig=T.d_script([b"\x00\x20" + rbytes(rng, 32)]),
                     witness=[b"", sig, ws])
    elif kind == "p2wpkh":
        h = rbytes(rng, 20)
        d.update(spk=T.d_script([0, h]), witness=[sig, pk])
    elif kind in ("p2tr_key", "p2tr_key_annex"):
        s64 = rbytes(rng, 64)
        if s64[0] == 0x50:
            s64 = b"\x51" + s64[1:]
        wit = [s64 + rng.choice([b"", b"\x01", b"\x83"])]
        annex = None
        if kind.endswith("annex"):
            annex = b"\x50" + rbytes(rng, rng.choice([0, 1, 10, 300]))
            wit.append(annex)
        d.update(spk=T.d_script([0x51, rbytes(rng, 32)]), witness=wit)
    elif kind in ("p2tr_script", "p2tr_script_annex"):
        leaf_script = T.raw_script(T.d_script(rng.choice([[rbytes(rng, 32), 0xAC], [rbytes(rng, 32), 0xAD, rbytes(rng, 32), 0xAC],
                                                          [0x51], [rbytes(rng, 80), 0x75, 0x51]])))
        ver = rng.choice([0xC0, 0xC0, 0xC2])
        cb = bytes([ver | rng.choice([0, 1])]) + rng.choice(xonly_keys()) + rbytes(rng, 32 * rng.choice([0, 0, 1, 2]))
        wit = [rbytes(rng, 64) for _ in range(rng.choice([0, 1, 2]))] + [leaf_script, cb]
        annex = None
        if kind.endswith("annex"):
            annex = b"\x50" + rbytes(rng, rng.choice([0, 5, 100]))
            wit.append(annex)
        d.update(spk=T.d_script([0x51, rbytes(rng, 32)]), witness=wit)
    else:
        raise MachineryError(kind)
    d["kind"] = kind
    d["value"] = rng.choice([0, 1, 546, 2 ** 63 - 1, rng.getrandbits(62), rng.getrandbits(30)])
    return d


def canonical(raw):
    """raw script bytes that the library's parser reads completely and re-serialises to the same bytes"""
    try:
        d = script_of_raw(raw)
    except Exception:
        return False
    if any(isinstance(c, bytes) and len(c) > 520 for c in d["cmds"]):
        return False
    return T.raw_script(d) == raw


def rule_of(inp):
    """the rule the consensus specification applies to this input, derived from its CURRENT description (so that it
    follows in-place edits of the witness / scriptSig / spent output); None when the property does not determine a
    digest (malformed spend, non-canonical script code, invalid control block)"""
    if inp.get("norule") or inp.get("spk") is None or inp.get("value") is None:
        return None
    kind, ss, w = inp["kind"], inp["script_sig"]["cmds"], inp["witness"]
    try:
        if kind in ("p2pk", "p2pkh"):
            return ("legacy", T.raw_script(inp["spk"]))
        if kind == "p2sh_ms":
            red = ss[-1]
            return ("legacy", red) if isinstance(red, bytes) and canonical(red) and red[:2] not in (b"\x00\x14", b"\x00\x20") else None
        if kind == "p2sh_p2wpkh":
            red = ss[-1]
            return ("bip143", p2pkh_code(red[2:])) if isinstance(red, bytes) and len(red) == 22 and red[:2] == b"\x00\x14" else None
        if kind in ("p2wsh", "p2sh_p2wsh"):
            if kind == "p2sh_p2wsh" and not (isinstance(ss[-1], bytes) and len(ss[-1]) == 34 and ss[-1][:2] == b"\x00\x20"):
                return None
            return ("bip143", w[-1]) if w and canonical(w[-1]) else None
        if kind == "p2wpkh":
            h = inp["spk"]["cmds"][1]
            return ("bip143", p2pkh_code(h)) if isinstance(h, bytes) and len(h) == 20 else None
        # taproot: BIP341's annex and key/script path from the current witness stack
        if not w or (len(w) >= 2 and w[-1] == b""):
            return None
        annex = w[-1] if len(w) >= 2 and w[-1][:1] == b"\x50" else None
        rest = w[:-1] if annex is not None else w
        if len(rest) == 1:
            return ("bip341", annex, None)
        cb = rest[-1]
        if len(cb) % 32 != 1 or not (33 <= len(cb) <= 33 + 128 * 32) or cb[1:33] not in xonly_keys():
            return None
        return ("bip341", annex, (cb[0] & 0xFE, rest[-2]))
    except Exception:
        return None


def gen_input(rng, kind=None):
    d = spend(rng, kind or rng.choice(KINDS))
    d.update(prev_tx=rbytes(rng, 32), prev_index=rng.choice([0, 1, 7, 0xFFFFFFFF, rng.getrandbits(32)]),
             sequence=rng.choice([0, 1, 0xFFFFFFFE, 0xFFFFFFFF, rng.getrandbits(32)]))
    return d


def gen_output(rng):
    k = rng.randrange(6)
    cmds = [[0x76, 0xA9, rbytes(rng, 20), 0x88, 0xAC], [0xA9, rbytes(rng, 20), 0x87], [0, rbytes(rng, 20)], [0, rbytes(rng, 32)],
            [0x51, rbytes(rng, 32)], [0x6A, rbytes(rng, rng.choice([0, 1, 40, 75, 76, 80]))]][k]
    return {"amount": rng.choice([0, 1, 546, 2 ** 63 - 1, rng.getrandbits(62), rng.getrandbits(33)]), "spk": T.d_script(cmds)}


def gen_tx(rng, nin=None, nout=None, kinds=None):
    nin = rng.randrange(1, 7) if nin is None else nin
    nout = rng.randrange(0, 7) if nout is None else nout
    return {"version": rng.choice([1, 2, 0, 2 ** 32 - 1, rng.getrandbits(32)]),
            "ins": [gen_input(rng, kinds[k % len(kinds)] if kinds else None) for k in range(nin)],
            "outs": [gen_output(rng) for _ in range(nout)],
            "locktime": rng.choice([0, 500000000, 2 ** 32 - 1, rng.getrandbits(32)]), "segwit": True}


# --------------------------------------------------------------------------------- requests
def q_auto(i, ht):
    return f"A {i} {ht}"


def q_direct(tx, i, ht):
    """the query through the algorithm method that the input's kind calls for, with the arguments Tx.sig_hash
    would derive from the CURRENT fields (None when the index is out of range or the spend is malformed)"""
    if i >= len(tx["ins"]):
        return None
    inp = tx["ins"][i]
    kind, rule = inp["kind"], rule_of(inp)
    if rule is None:
        return None
    if kind in ("p2pk", "p2pkh"):
        return f"L {i} - {ht}"
    if kind == "p2sh_ms":
        return f"L {i} S {T.t_script(script_of_raw(rule[1]))} {ht}"
    if kind == "p2wpkh":
        return f"W {i} - - {ht}"
    if kind == "p2sh_p2wpkh":
        return f"W {i} S {T.t_script(script_of_raw(inp['script_sig']['cmds'][-1]))} - {ht}"
    if kind == "p2wsh":
        return f"W {i} - S {T.t_script(script_of_raw(rule[1]))} {ht}"
    if kind == "p2sh_p2wsh":
        return f"W {i} S {T.t_script(script_of_raw(inp['script_sig']['cmds'][-1]))} S {T.t_script(script_of_raw(rule[1]))} {ht}"
    return f"T {i} {1 if rule[2] else 0} {ht}"


def script_of_raw(raw):
    """description of the script the library obtains by parsing canonical raw bytes (used only for scripts this
    harness generated from commands: re-parse them with the protocol's push rules)"""
    cmds, p = [], 0
    while p < len(raw):
        b = raw[p]
        p += 1
        if 1 <= b <= 75:
            cmds.append(raw[p:p + b])
            p += b
        elif b == 76:
            n = raw[p]
            cmds.append(raw[p + 1:p + 1 + n])
            p += 1 + n
        elif b == 77:
            n = int.from_bytes(raw[p:p + 2], "little")
            cmds.append(raw[p + 2:p + 2 + n])
            p += 2 + n
        else:
            cmds.append(b)
    return T.d_script(cmds)


def spec_line(tx, query, any_byte=False):
    """the specification request that defines the digest of a standard query; None when the property does not
    determine it (non-standard hash type, arguments that do not follow from the spent output)"""
    t = query.split(" ")
    alg, i, ht = t[0], int(t[1]), int(t[-1])
    if ht not in STD and not (any_byte and ht < 256):
        return None
    stx = T.stx_tokens(tx)
    if i >= len(tx["ins"]):
        if alg == "L":
            return f"spec_legacy {stx} {i} x {ht}"
        return None
    inp = tx["ins"][i]
    rule = rule_of(inp)
    if rule is None or any(rule_of(x) is None for x in tx["ins"]):
        return None
    if alg == "A" or query == q_direct(tx, i, ht):
        if rule[0] == "legacy":
            return f"spec_legacy {stx} {i} {xb(rule[1])} {ht}"
        if rule[0] == "bip143":
            return f"spec_bip143 {stx} {i} {xb(rule[1])} {inp['value']} {ht}"
        annex = "-" if rule[1] is None else xb(rule[1])
        ext = "-" if rule[2] is None else f"L {rule[2][0]} {xb(rule[2][1])}"
        return f"spec_bip341 {stx} {T.spent_tokens(tx)} {i} {ht} {annex} {ext}"
    return None


# --------------------------------------------------------------------------------- implementation side
def _script_arg(ts, cls):
    return T.p_optscript(ts, cls)


def _query(obj, ts):
    import buidl.script as S
    alg = ts.next()
    if alg == "A":
        i, ht = int(ts.next()), int(ts.next())
        r = obj.sig_hash(i, ht)
    elif alg == "L":
        i = int(ts.next())
        red = _script_arg(ts, S.RedeemScript)
        ht = int(ts.next())
        r = obj.sig_hash_legacy(i, redeem_script=red, hash_type=ht)
    elif alg == "W":
        i = int(ts.next())
        red = _script_arg(ts, S.RedeemScript)
        ws = _script_arg(ts, S.WitnessScript)
        ht = int(ts.next())
        r = obj.sig_hash_bip143(i, redeem_script=red, witness_script=ws, hash_type=ht)
    elif alg == "T":
        i, ext, ht = int(ts.next()), int(ts.next()), int(ts.next())
        r = obj.sig_hash_bip341(i, ext_flag=ext, hash_type=ht)
    else:
        raise UnknownOp(alg)
    return str(r) if isinstance(r, int) else xb(r)


def _safe_query(obj, ts):
    """one query; an exception is REJECT, but the token stream must still be consumed"""
    start = ts.p
    try:
        return _query(obj, ts)
    except UnknownOp:
        raise
    except MachineryError:
        raise
    except Exception:
        ts.p = start
        _skip_query(ts)
        return REJECT


def _skip_script_opt(ts):
    t = ts.next()
    if t == "S":
        n = int(ts.next())
        for _ in range(n + 1):
            ts.next()


def _skip_query(ts):
    alg = ts.next()
    ts.next()
    if alg == "L":
        _skip_script_opt(ts)
    elif alg == "W":
        _skip_script_opt(ts)
        _skip_script_opt(ts)
    elif alg == "T":
        ts.next()
    ts.next()


def apply_edit(obj, e):
    """the in-place mutation of the Python object that corresponds to edit `e` of the description"""
    import buidl.script as S
    import buidl.tx as TX
    import buidl.witness as W
    from buidl.timelock import Locktime, Sequence

    k = e["op"]
    if k == "out_amount":
        obj.tx_outs[e["j"]].amount = e["v"]
    elif k == "out_script":
        obj.tx_outs[e["j"]].script_pubkey = S.Script(list(e["spk"]["cmds"]))
    elif k == "out_append":
        obj.tx_outs.append(TX.TxOut(e["out"]["amount"], S.Script(list(e["out"]["spk"]["cmds"]))))
    elif k == "out_pop":
        obj.tx_outs.pop()
    elif k == "out_insert":
        obj.tx_outs.insert(0, TX.TxOut(e["out"]["amount"], S.Script(list(e["out"]["spk"]["cmds"]))))
    elif k == "sequence":
        obj.tx_ins[e["i"]].sequence = Sequence(e["v"])
    elif k == "locktime":
        obj.locktime = Locktime(e["v"])
    elif k == "version":
        obj.version = e["v"]
    elif k == "prev_index":
        obj.tx_ins[e["i"]].prev_index = e["v"]
    elif k == "prev_tx":
        obj.tx_ins[e["i"]].prev_tx = e["v"]
    elif k == "value":
        obj.tx_ins[e["i"]]._value = e["v"]
    elif k == "respend":
        inp, d = obj.tx_ins[e["i"]], e["inp"]
        inp.script_sig = S.Script(list(d["script_sig"]["cmds"]))
        inp.witness = W.Witness(list(d["witness"]))
        inp._script_pubkey = S.Script(list(d["spk"]["cmds"]))
        inp._value = d["value"]
    elif k == "in_append":
        d = e["inp"]
        inp = TX.TxIn(d["prev_tx"], d["prev_index"], S.Script(list(d["script_sig"]["cmds"])), d["sequence"])
        inp.witness = W.Witness(list(d["witness"]))
        inp._script_pubkey = S.Script(list(d["spk"]["cmds"]))
        inp._value = d["value"]
        obj.tx_ins.append(inp)
    elif k == "in_pop":
        obj.tx_ins.pop()
    # in-place mutations of the objects an input already holds (the same Witness / Script objects stay in place)
    elif k == "wit_set":
        obj.tx_ins[e["i"]].witness.items[e["k"]] = e["v"]
    elif k == "wit_insert":
        obj.tx_ins[e["i"]].witness.items.insert(e["k"], e["v"])
    elif k == "wit_append":
        obj.tx_ins[e["i"]].witness.items.append(e["v"])
    elif k == "wit_pop":
        obj.tx_ins[e["i"]].witness.items.pop()
    elif k == "sig_set":
        obj.tx_ins[e["i"]].script_sig.commands[e["k"]] = e["v"]
    elif k == "spk_set":
        obj.tx_ins[e["i"]]._script_pubkey.commands[e["k"]] = e["v"]
    elif k == "out_spk_set":
        obj.tx_outs[e["j"]].script_pubkey.commands[e["k"]] = e["v"]
    else:
        raise MachineryError("edit " + k)


def edit_desc(tx, e):
    import copy
    e = copy.deepcopy(e)      # the description must not share lists with the recorded edit (later in-place edits mutate it)
    k = e["op"]
    if k == "out_amount":
        tx["outs"][e["j"]]["amount"] = e["v"]
    elif k == "out_script":
        tx["outs"][e["j"]]["spk"] = e["spk"]
    elif k == "out_append":
        tx["outs"].append(e["out"])
    elif k == "out_pop":
        tx["outs"].pop()
    elif k == "out_insert":
        tx["outs"].insert(0, e["out"])
    elif k in ("sequence", "prev_index", "prev_tx", "value"):
        tx["ins"][e["i"]][k] = e["v"]
    elif k in ("locktime", "version"):
        tx[k] = e["v"]
    elif k == "respend":
        old = tx["ins"][e["i"]]
        new = dict(e["inp"])
        for f in ("prev_tx", "prev_index", "sequence"):
            new[f] = old[f]
        tx["ins"][e["i"]] = new
    elif k == "in_append":
        tx["ins"].append(e["inp"])
    elif k == "in_pop":
        tx["ins"].pop()
    elif k == "wit_set":
        tx["ins"][e["i"]]["witness"][e["k"]] = e["v"]
    elif k == "wit_insert":
        tx["ins"][e["i"]]["witness"].insert(e["k"], e["v"])
    elif k == "wit_append":
        tx["ins"][e["i"]]["witness"].append(e["v"])
    elif k == "wit_pop":
        tx["ins"][e["i"]]["witness"].pop()
    elif k == "sig_set":
        tx["ins"][e["i"]]["script_sig"]["cmds"][e["k"]] = e["v"]
    elif k == "spk_set":
        tx["ins"][e["i"]]["spk"]["cmds"][e["k"]] = e["v"]
    elif k == "out_spk_set":
        tx["outs"][e["j"]]["spk"]["cmds"][e["k"]] = e["v"]


def gen_inplace(rng, tx, i):
    """an in-place mutation of what input `i` (or an output) already holds, chosen so that the digest of that input
    must change: tap script / control block / annex / stack item of a taproot input, the witness script or redeem
    script of a segwit / p2sh input, the hash inside the spent scriptPubKey, a push inside an output script"""
    inp = tx["ins"][i]
    kind, w, ss = inp["kind"], inp["witness"], inp["script_sig"]["cmds"]
    pk = bytes([rng.choice([2, 3])]) + rbytes(rng, 32)
    opts = []
    if kind.startswith("p2tr") and w:
        has_annex = len(w) >= 2 and w[-1][:1] == b"\x50"
        base = len(w) - (1 if has_annex else 0)
        if base >= 2:
            cb = w[base - 1]
            new_script = T.raw_script(T.d_script(rng.choice([[rbytes(rng, 32), 0xAC], [0x51], [0x52, 0x87], [rbytes(rng, 33), 0x75, 0x51]])))
            opts += [("wit_set", base - 2, new_script), ("wit_set", base - 2, new_script),
                     ("wit_set", base - 1, bytes([cb[0] ^ 0x02]) + cb[1:]) if cb else None,
                     ("wit_set", base - 1, cb[:1] + rng.choice(xonly_keys()) + cb[33:] + rbytes(rng, 32)) if len(cb) >= 33 else None,
                     ("wit_insert", 0, rbytes(rng, rng.choice([0, 1, 64])))]
        elif base == 1:
            sig = rbytes(rng, 64)
            opts += [("wit_set", 0, (b"\x51" + sig[1:]) if sig[0] == 0x50 else sig)]
        opts += [("wit_pop",)] if has_annex else [("wit_append", b"\x50" + rbytes(rng, rng.choice([0, 3, 40])))]
    if kind in ("p2wsh", "p2sh_p2wsh") and w:
        opts += [("wit_set", len(w) - 1, T.raw_script(T.d_script(rng.choice([[0x51, pk, 0x51, 0xAE], [pk, 0xAC], [pk, 0xAD, 0x51]])))),
                 ("wit_insert", 0, rbytes(rng, 71))]
    if kind == "p2sh_ms" and ss:
        opts += [("sig_set", len(ss) - 1, T.raw_script(T.d_script([0x51, pk, 0x51, 0xAE])))]
    if kind == "p2sh_p2wpkh" and ss:
        opts += [("sig_set", len(ss) - 1, b"\x00\x14" + rbytes(rng, 20))]
    if kind == "p2wpkh":
        opts += [("spk_set", 1, rbytes(rng, 20))]
    if kind == "p2pkh":
        opts += [("spk_set", 2, rbytes(rng, 20))]
    if kind == "p2pk":
        opts += [("spk_set", 0, pk)]
    outs = [(j, k) for j, o in enumerate(tx["outs"]) for k, c in enumerate(o["spk"]["cmds"]) if isinstance(c, bytes)]
    if outs:
        j, k = rng.choice(outs)
        opts.append(("out_spk_set", j, k, rbytes(rng, len(tx["outs"][j]["spk"]["cmds"][k]))))
    opts = [o for o in opts if o]
    if not opts:
        return None
    o = rng.choice(opts)
    if o[0] == "out_spk_set":
        return {"op": o[0], "j": o[1], "k": o[2], "v": o[3]}
    e = {"op": o[0], "i": i}
    if len(o) == 3:
        e["k"], e["v"] = o[1], o[2]
    elif len(o) == 2:
        e["v"] = o[1]
    return e


def gen_edit(rng, tx):
    nin, nout = len(tx["ins"]), len(tx["outs"])
    opts = ["locktime", "version", "sequence", "prev_index", "prev_tx", "value", "respend", "out_append", "out_insert"]
    if nout:
        opts += ["out_amount", "out_amount", "out_script", "out_pop"]
    if nin < 6:
        opts.append("in_append")
    if nin > 1:
        opts.append("in_pop")
    k = rng.choice(opts)
    e = {"op": k}
    if k in ("out_amount", "out_script"):
        e["j"] = rng.randrange(nout)
        e["v"] = rng.getrandbits(rng.choice([1, 20, 62]))
        e["spk"] = gen_output(rng)["spk"]
    elif k in ("out_append", "out_insert"):
        e["out"] = gen_output(rng)
    elif k in ("sequence", "prev_index"):
        e["i"] = rng.randrange(nin)
        e["v"] = rng.choice([0, 0xFFFFFFFF, rng.getrandbits(32)])
    elif k == "prev_tx":
        e["i"] = rng.randrange(nin)
        e["v"] = rbytes(rng, 32)
    elif k == "value":
        e["i"] = rng.randrange(nin)
        e["v"] = rng.getrandbits(rng.choice([1, 30, 62]))
    elif k in ("locktime", "version"):
        e["v"] = rng.getrandbits(32)
    elif k == "respend":
        e["i"] = rng.randrange(nin)
        e["inp"] = spend(rng, rng.choice(KINDS))
    elif k == "in_append":
        e["inp"] = gen_input(rng)
    return e


def impl_history(tx0, ops):
    """run the operations on ONE Python object; returns the answers of the queries"""
    obj = T.p_tx(T.Toks(T.t_tx(tx0).split(" ")))
    out = []
    with contextlib.redirect_stdout(io.StringIO()):
        for op in ops:
            if op[0] == "Q":
                out.append(_safe_query(obj, T.Toks(op[1].split(" "))))
            else:
                apply_edit(obj, op[1])
                if T.f_tx(obj) != op[2]:
                    raise MachineryError("harness: description and Python object diverged after edit " + op[1]["op"])
    return out


def _impl(t):
    if t[0] == "q":
        ts = T.Toks(t, 1)
        obj = T.p_tx(ts)
        start = ts.p
        first = _safe_query(obj, ts)
        ts.p = start
        second = _safe_query(obj, ts)          # the same question to the same object
        return first if first == second else f"UNSTABLE {first} then {second}"
    raise UnknownOp(t[0])


def impl_line(line):
    t = line.split(" ")
    try:
        with contextlib.redirect_stdout(io.StringIO()):
            return _impl(t)
    except (UnknownOp, MachineryError):
        raise
    except Exception:
        return REJECT


def model_line(line):
    return line


def hist_line(tx0, ops):
    toks = ["hist", T.t_tx(tx0), str(len(ops))]
    for op in ops:
        toks.append("Q " + op[1] if op[0] == "Q" else "E " + op[2])
    return " ".join(toks)


# --------------------------------------------------------------------------------- direct predicates
def p_history(c):
    """replay a recorded history: every standard query answers the specification's digest of the current fields"""
    raise MachineryError("history cases are replayed through replay()")


PREDICATES = {"history": p_history}



# --------------------------------------------------------------------------------- digest CONSUMERS
# Signatures are made (with the library's own signer, C01 / C02) over the digest the Lean SPECIFICATION defines for the
# signer's own hash type; the library's consumers of digests must recognise exactly those:
#   verify_input → op_checksig / op_checksig_schnorr (hash type = last byte / 64-byte default)
#   Tx.finalize_p2tr_multisig (which digest each co-signer's signature is matched against), then op_checksigadd_schnorr
_PRIVS = []


def priv_pool():
    if not _PRIVS:
        from buidl.ecc import PrivateKey
        for k in (0x1111, 0x2222, 0x3333, 0x4444, 0x5555):
            _PRIVS.append(PrivateKey(k))
    return _PRIVS


def consumer_worker(job):
    """runs in a pool process: sign over the given digests, feed the real consumer, report what it did"""
    import buidl.tx as TX  # noqa
    from buidl.ecc import SchnorrSignature
    privs = priv_pool()
    with contextlib.redirect_stdout(io.StringIO()):
        if job["what"] == "checksig":
            priv = privs[job["key"]]
            if job["schnorr"]:
                body = priv.sign_schnorr(unx(job["digest"]), b"\x00" * 32).serialize()
                elem = body + (bytes([job["byte"]]) if job["byte"] else b"")
            else:
                elem = priv.sign(int(job["digest"])).der() + bytes([job["byte"]])
            tx = copy_desc(job["tx"])
            inp = tx["ins"][job["i"]]
            if job["where"] == "script_sig":
                inp["script_sig"]["cmds"][0] = elem
            else:
                inp["witness"][0] = elem
            obj = T.p_tx(T.Toks(T.t_tx(tx).split(" ")))
            res = []
            for _ in range(2):                      # the same object is asked twice
                try:
                    res.append(bool(obj.verify_input(job["i"])))
                except Exception:
                    res.append(False)
            return {"res": res, "elem": xb(elem)}
        # finalize_p2tr_multisig
        from buidl.taproot import MultiSigTapScript, ControlBlock
        pts = [privs[k].point for k in job["keys"]]
        ts = MultiSigTapScript(pts, job["k"])
        cb = ControlBlock.parse(job["cb"] if isinstance(job["cb"], bytes) else unx(job["cb"]))
        tx = copy_desc(job["tx"])
        i = job["i"]
        tx["ins"][i]["witness"] = []
        obj = T.p_tx(T.Toks(T.t_tx(tx).split(" ")))
        obj.initialize_p2tr_multisig(i, cb, ts)
        if [xb(x) for x in obj.tx_ins[i].witness.items] != [xb(x) for x in job["tx"]["ins"][i]["witness"]]:
            raise MachineryError("harness: initialize_p2tr_multisig built another witness than the description")
        made = {}
        rounds = []
        for rnd in job["rounds"]:
            sigs = []
            for s in rnd:
                if s is None:
                    sigs.append(b"")
                    continue
                key = (s["key"], s["signs"], s["byte"])
                if key not in made:
                    body = privs[s["key"]].sign_schnorr(unx(job["digests"][str(s["signs"])]), b"\x00" * 32).serialize()
                    made[key] = body + (bytes([s["byte"]]) if s["byte"] else b"")
                sigs.append(made[key])
            try:
                ok = bool(obj.finalize_p2tr_multisig(i, sigs))
            except Exception:
                ok = None
            rounds.append({"sigs": [xb(x) for x in sigs], "ok": ok, "witness": [xb(x) for x in obj.tx_ins[i].witness.items]})
        bad = []
        for body in {x[:64] for r in rounds for x in map(unx, r["sigs"]) if x}:
            try:
                SchnorrSignature.parse(body)
            except Exception:
                bad.append(xb(body))
        return {"rounds": rounds, "bad": bad, "points": [xb(p.xonly()) for p in ts.points]}


def copy_desc(tx):
    import copy
    return copy.deepcopy(tx)


def consumer_jobs(ctx, rng):
    """descriptions of the consumer cases (no signing yet) and the specification requests for their digests"""
    from buidl.helper import hash160
    from buidl.taproot import MultiSigTapScript
    privs = priv_pool()
    jobs = []
    # --- one signature, one input: verify_input must accept the signature over the spec digest of its own hash type and
    #     refuse a signature over another hash type's digest carrying this hash-type byte
    kinds = ["p2pkh", "p2wpkh", "p2sh_p2wpkh", "p2tr_key", "p2tr_key_annex"]
    for n in range(ctx.n(20)):
        kind = kinds[n % len(kinds)]
        key = rng.randrange(len(privs))
        priv = privs[key]
        sec = priv.point.sec()
        h160 = hash160(sec)
        nin = rng.randrange(1, 4)
        tx = gen_tx(rng, nin, rng.randrange(nin, 5), [rng.choice(KINDS)])      # an output for every input (SINGLE)
        i = rng.randrange(len(tx["ins"]))
        inp = tx["ins"][i]
        ph = b"\x30" + b"\x01" * 70
        if kind == "p2pkh":
            inp.update(kind=kind, spk=T.d_script([0x76, 0xA9, h160, 0x88, 0xAC]), script_sig=T.d_script([ph, sec]), witness=[])
        elif kind == "p2wpkh":
            inp.update(kind=kind, spk=T.d_script([0, h160]), script_sig=T.d_script([]), witness=[ph, sec])
        elif kind == "p2sh_p2wpkh":
            red = b"\x00\x14" + h160
            inp.update(kind=kind, spk=T.d_script([0xA9, hash160(red), 0x87]), script_sig=T.d_script([red]), witness=[ph, sec])
        else:
            w = [b"\x01" * 64] + ([b"\x50" + rbytes(rng, 7)] if kind.endswith("annex") else [])
            inp.update(kind=kind, spk=T.d_script([0x51, priv.point.xonly()]), script_sig=T.d_script([]), witness=w)
        schnorr = kind.startswith("p2tr")
        hts = [h for h in STD if schnorr or h != 0]
        ht = hts[n // len(kinds) % len(hts)] if n < 60 else rng.choice(hts)
        other = rng.choice([h for h in hts if h != ht])
        where = "script_sig" if kind == "p2pkh" else "witness"
        for signs, expect in ((ht, True), (other, False)):
            jobs.append({"what": "checksig", "tx": tx, "i": i, "key": key, "schnorr": schnorr, "byte": ht, "signs": signs,
                         "where": where, "expect": expect, "kind": kind})
    # --- tapscript multisig: co-signers with DIFFERENT hash types, both orders, wrong-digest and missing signatures,
    #     and the same object finalised twice with signatures added in between
    for n in range(ctx.n(16)):
        nk = rng.choice([2, 2, 3])
        keys = rng.sample(range(len(privs)), nk)
        k = rng.choice([nk, nk, max(1, nk - 1)])
        ts = MultiSigTapScript([privs[x].point for x in keys], k)
        leaf = ts.tap_leaf()
        internal = privs[0].point
        cb = leaf.control_block(internal)
        nin = rng.randrange(1, 3)
        tx = gen_tx(rng, nin, rng.randrange(nin, 4), [rng.choice(KINDS)])
        i = rng.randrange(len(tx["ins"]))
        tx["ins"][i].update(kind="p2tr_script", spk=T.d_script(list(internal.p2tr_script(leaf.hash()).commands)),
                            script_sig=T.d_script([]), witness=[ts.raw_serialize(), cb.serialize()])
        def mk(kx, good=True):
            byte = rng.choice(STD)
            signs = byte if good else rng.choice([h for h in STD if h != byte])
            return {"key": kx, "byte": byte, "signs": signs}
        signers = rng.sample(keys, k)
        first = [mk(kx) for kx in signers]
        if n % 2 == 0 and len(first) >= 2:          # guaranteed mixed hash types: DEFAULT next to SINGLE|ANYONECANPAY
            first[0].update(byte=0, signs=0)
            first[1].update(byte=0x83, signs=0x83)
        extra = []
        if rng.random() < 0.5:
            extra.append(mk(rng.choice(keys), good=False))   # a signature over another hash type's digest
        if rng.random() < 0.3:
            extra.append(None)
        r1 = first + extra
        rng.shuffle(r1)
        rounds = [r1]
        if n % 3 == 0:
            r1b = list(reversed(r1))                # the same signatures in the other order, on the same object
            rounds.append(r1b)
        if n % 4 == 1:
            rounds = [r1[:1], r1]                   # finalised early, then again with the signatures added in between
        jobs.append({"what": "finalize", "tx": tx, "i": i, "keys": keys, "k": k, "cb": xb(cb.serialize()), "rounds": rounds,
                     "internal": xb(internal.xonly())})
    return jobs


# --------------------------------------------------------------------------------- findings (all `fixed`): witnesses
def finding_cases(rng):
    """(finding id, initial description, operations) — the defect reproduces when an answer differs from the specification"""
    import random
    r = random.Random("C05-findings")
    two_three = lambda kinds: gen_tx(r, 2, 3, kinds)
    out = []
    t = two_three(["p2pkh"])
    out.append(("F05a", t, [("Q", "A 0 2"), ("Q", "A 1 3"), ("Q", "A 0 129")]))
    t = two_three(["p2wpkh"])
    out.append(("F05b", t, [("Q", "A 0 2"), ("Q", "A 1 3"), ("Q", "A 0 129")]))
    t = two_three(["p2tr_key_annex"])
    out.append(("F05c", t, [("Q", "A 0 3"), ("Q", "A 1 131")]))
    t = two_three(["p2wpkh", "p2tr_key"])
    e = {"op": "out_amount", "j": 0, "v": 12345}
    out.append(("F05d", t, [("Q", "A 0 1"), ("Q", "A 1 0"), ("E", e), ("Q", "A 0 1"), ("Q", "A 1 0")]))
    t = two_three(["p2tr_key_annex"])
    out.append(("F05e", t, [("Q", "A 0 0"), ("Q", "A 1 1")]))
    t = two_three(["p2tr_key"])
    t["ins"][0]["witness"] = [b"\x50" + bytes(range(63))]
    out.append(("F05f", t, [("Q", "A 0 0"), ("Q", "T 0 0 1")]))
    return out


def materialise(tx0, ops):
    """fill in the token form of each edit (the complete field state after it) and the spec request of each query"""
    import copy
    tx = copy.deepcopy(tx0)
    full, specs = [], []
    for op in ops:
        if op[0] == "Q":
            full.append(("Q", op[1]))
            specs.append(spec_line(tx, op[1]))
        else:
            edit_desc(tx, op[1])
            full.append(("E", op[1], T.t_tx(tx)))
    return full, specs


# --------------------------------------------------------------------------------- generation
def run(ctx):
    rng, rec = ctx.rng, ctx.rec
    drv = ctx.driver("drv_c05")
    cfg = drv.one("cfg").split(" ")
    if cfg[2] != "1":
        rec.note(f"the source is not the repaired variant the theorems are about: memo={cfg[0]} annexMinItems={cfg[1]}")
        rec.count("cfg:not-repaired")

    singles = []     # (kind, tx, query)
    hists = []       # (tx0, ops)

    # every kind × every hash type × every index, 2-in/3-out and 3-in/1-out shapes (SINGLE without output)
    for kind in KINDS:
        for shape in ((2, 3), (3, 1), (1, 0)):
            tx = gen_tx(rng, shape[0], shape[1], [kind, rng.choice(KINDS)])
            for i in range(shape[0] + 1):
                for ht in STD:
                    singles.append(("auto", tx, q_auto(i, ht)))
                    d = q_direct(tx, i, ht)
                    if d:
                        singles.append(("direct", tx, d))
                singles.append(("legacy_any", tx, f"L {i} - {rng.choice(STD)}"))
    for _ in range(ctx.n(220)):
        tx = gen_tx(rng)
        nin = len(tx["ins"])
        for i in range(nin + 1):
            for ht in rng.sample(STD, 3) + [rng.choice(ODD)]:
                singles.append(("auto", tx, q_auto(i, ht)))
                d = q_direct(tx, i, ht)
                if d and rng.random() < 0.5:
                    singles.append(("direct", tx, d))
        # arguments that do not follow from the spent output (correspondence only)
        i = rng.randrange(nin)
        singles.append(("odd_args", tx, f"T {i} {rng.choice([0, 1, 2, 127, 128])} {rng.choice(STD + ODD)}"))
        singles.append(("odd_args", tx, f"W {i} - - {rng.choice(STD)}"))
        singles.append(("odd_args", tx, f"L {i} S {T.t_script(gen_output(rng)['spk'])} {rng.choice(STD + ODD)}"))
        singles.append(("odd_args", tx, f"W {i} S {T.t_script(gen_output(rng)['spk'])} - {rng.choice(STD)}"))
    # malformed spends: missing witness / scriptSig, unset spent output, empty last witness item, bad control blocks
    for _ in range(ctx.n(60)):
        tx = gen_tx(rng, rng.randrange(1, 4), rng.randrange(0, 3))
        i = rng.randrange(len(tx["ins"]))
        inp = tx["ins"][i]
        m = rng.randrange(7)
        if m == 0:
            inp["witness"] = []
        elif m == 1:
            inp["script_sig"] = T.d_script([])
        elif m == 2:
            inp["witness"] = inp["witness"] + [b""]
        elif m == 3 and inp["witness"]:
            w = bytearray(inp["witness"][-1] or b"\x00")
            w = bytes(w[:-1]) if rng.random() < 0.5 else bytes(w) + b"\x00"
            inp["witness"] = inp["witness"][:-1] + [w]
        elif m == 4:
            inp["spk"] = None
        elif m == 5:
            inp["value"] = None
        elif m == 6 and inp["witness"]:
            inp["witness"] = inp["witness"][:-1] + [bytes([inp["witness"][-1][0] if inp["witness"][-1] else 0]) + b"\x00" * 32]
        inp["norule"] = True
        for ht in rng.sample(STD, 2):
            singles.append(("malformed", tx, q_auto(i, ht)))

    # histories on one object: queries (each possibly repeated), interleaved over inputs / hash types / algorithms,
    # in-place edits of what the inputs hold, and the same question asked again after every edit
    import copy
    maxlen = 10 if ctx.thorough else 6
    for hn in range(ctx.n(1500)):
        kinds = None
        if hn % 3 == 0:
            kinds = [rng.choice(["p2tr_script", "p2tr_script_annex", "p2tr_key", "p2tr_key_annex"]), rng.choice(KINDS)]
        elif hn % 3 == 1:
            kinds = [rng.choice(["p2wsh", "p2sh_p2wsh", "p2sh_ms", "p2sh_p2wpkh", "p2wpkh", "p2pkh"]), rng.choice(KINDS)]
        tx0 = gen_tx(rng, rng.randrange(1, 5), rng.randrange(0, 4), kinds)
        cur = copy.deepcopy(tx0)
        focus = 0
        ops, last = [], None          # last = (input, hash type, "A" | "D")
        L = rng.randrange(3, maxlen + 1)

        def ask(i, ht, how):
            q = q_auto(i, ht) if how == "A" else (q_direct(cur, i, ht) or q_auto(i, ht))
            ops.append(("Q", q))

        while len(ops) < L:
            r = rng.random()
            focus = min(focus, len(cur["ins"]) - 1)
            if last is not None and last[0] < len(cur["ins"]) and r < 0.18:
                ask(*last)                                           # the same question again
            elif last is None or r < 0.55:
                i = focus if rng.random() < 0.65 else rng.randrange(len(cur["ins"]))
                last = (i, rng.choice(STD), rng.choice("AAD"))
                ask(*last)
            else:
                e = gen_inplace(rng, cur, focus) if rng.random() < 0.7 else None
                e = e or gen_edit(rng, cur)
                edit_desc(cur, e)
                ops.append(("E", e))
                if last is not None and last[0] < len(cur["ins"]) and len(ops) < L:
                    ask(*last)                                       # and again after the edit
        if ops[-1][0] != "Q":
            i = min(focus, len(cur["ins"]) - 1)
            ops.append(("Q", q_auto(i, last[1] if last else rng.choice(STD))))
        hists.append((tx0, ops))

    # ---- the specification's dispatcher against the rule each generated input was built for
    disp = []
    for _, tx, _ in singles[:: max(1, len(singles) // ctx.n(400))]:
        for inp in tx["ins"]:
            if rule_of(inp) and inp.get("spk"):
                redeem = "-"
                if inp["kind"].startswith("p2sh"):
                    redeem = xb(inp["script_sig"]["cmds"][-1])
                disp.append((inp, f"spec_dispatch {xb(T.raw_script(inp['spk']))} {redeem} {T.t_witness(inp['witness'])}"))
    for (inp, line), got in zip(disp, drv.batch([l for _, l in disp])):
        rule = rule_of(inp)
        if rule[0] == "bip341":
            want = f"bip341 {1 if rule[2] else 0} {'-' if rule[1] is None else xb(rule[1])}"
        else:
            want = f"{rule[0]} {xb(rule[1])}"
        if got == want:
            rec.ok("spec_dispatch", line[:300])
        else:
            rec.disagreement("spec_dispatch", {"line": line, "kind": inp["kind"]}, want, got,
                             note="Spec.Sighash.dispatch differs from the rule the input was generated for")

    # ---- model and specification answers
    single_lines = [f"q {T.t_tx(tx)} {q}" for _, tx, q in singles]
    single_specs = [spec_line(tx, q) if kind in ("auto", "direct", "legacy_any") else None
                    for kind, tx, q in singles]
    mats = [materialise(tx0, ops) for tx0, ops in hists]
    hist_lines = [hist_line(tx0, full) for (tx0, _), (full, _) in zip(hists, mats)]
    fcases = [(fid, tx0) + materialise(tx0, ops) for fid, tx0, ops in finding_cases(rng)]
    f_specs = [s for _, _, _, specs in fcases for s in specs]
    spec_reqs = [s for s in single_specs if s] + [s for _, specs in mats for s in specs if s] + f_specs
    answers = batch_parallel(drv, single_lines + hist_lines + spec_reqs, workers=ctx.workers)
    m_single = answers[:len(single_lines)]
    m_hist = answers[len(single_lines):len(single_lines) + len(hist_lines)]
    spec_ans = iter(answers[len(single_lines) + len(hist_lines):])

    # ---- single queries
    for (kind, tx, q), line, model, sreq in zip(singles, single_lines, m_single, single_specs):
        impl = impl_line(line)
        case = {"line": line, "spec": sreq}
        if sreq is not None:
            want = next(spec_ans)
            rec.compare(kind + ":spec", case, impl, want, determined=True, key=line[-200:] + kind, nontrivial=impl != REJECT,
                        note="implementation vs specification", finding=tag(tx, q))
            if rec.compare(kind, case, impl, model, determined=True, key=line[-200:], nontrivial=impl != REJECT,
                           note="implementation vs model", finding=tag(tx, q)):
                rec.sample(kind, {"query": q, "kinds": [i["kind"] for i in tx["ins"]], "outs": len(tx["outs"]), "answer": model[:80]}, limit=1)
        else:
            rec.compare(kind, case, impl, model, determined=False, key=line[-200:], nontrivial=impl != REJECT)
        if impl == REJECT:
            rec.count(kind + ":reject")
        rec.count("ht:" + q.split(" ")[-1] if int(q.split(" ")[-1]) in STD else "ht:other")

    # ---- histories
    for (tx0, ops), (full, specs), line, model in zip(hists, mats, hist_lines, m_hist):
        impl = impl_history(tx0, full)
        m = model.split(" ")[1:]
        want = [next(spec_ans) if s else None for s in specs]
        case = {"hist": line, "specs": specs, "tx0": tx0, "ops": [list(o) for o in full]}
        bad = None
        for k, (a, b, w) in enumerate(zip(impl, m, want)):
            if w is not None and a != w:
                bad = (k, a, w, "specification of the current fields")
                break
            if a != b:
                bad = (k, a, b, "model")
                break
        nq = len(impl)
        rec.count("history:queries", nq)
        rec.count(f"history:len{len(ops)}")
        for o in ops:
            if o[0] == "E":
                rec.count("history:edit:" + o[1]["op"])
        rec.count("history:repeated-query", sum(1 for a, b in zip(ops, ops[1:]) if a[0] == "Q" and a == b))
        rec.count("history:requery-after-edit", sum(1 for a, b in zip(ops, ops[1:]) if a[0] == "E" and b[0] == "Q"))
        if bad is None and len(impl) == len(m):
            rec.ok("history", line[-300:], nontrivial=True)
            rec.sample("history", {"ops": [o[1] if o[0] == "Q" else "edit:" + o[1]["op"] for o in ops], "answers": [a[:24] for a in impl]}, limit=2)
        else:
            k, a, w, what = bad if bad else (-1, len(impl), len(m), "answer count")
            rec.violation("history", case, impl, want if "spec" in what else m,
                          note=f"query #{k}: implementation {a} differs from the {what} {w}")

    # ---- observations outside the property's quantifier: recorded in the evidence, never violations.
    #  O05h  all 256 hash-type bytes for legacy / BIP143: the library masks with 3, Core with 0x1f; on the bytes where the
    #        decodings agree (ht & 3 < 2 or ht & 0x1f < 4; theorems *_all_bytes) the digests must still be Core's
    #  O05j  OP_CODESEPARATOR inside a legacy script code: Core strips it, the library does not
    obs = []
    for _ in range(ctx.n(150)):
        kind = rng.choice(["p2pkh", "p2sh_ms", "p2wpkh", "p2wsh", "p2sh_p2wpkh", "p2sh_p2wsh"])
        tx = gen_tx(rng, 2, rng.randrange(1, 4), [kind])
        ht = rng.randrange(256)
        obs.append(("O05h:agree" if (ht % 4 < 2 or ht % 32 < 4) else "O05h:mask-differs", tx, q_auto(rng.randrange(2), ht)))
    for _ in range(ctx.n(40)):
        tx = gen_tx(rng, 2, 2, ["p2sh_ms"])
        pk = bytes([2]) + rbytes(rng, 32)
        tx["ins"][0]["script_sig"]["cmds"][-1] = T.raw_script(T.d_script(rng.choice([[0xAB, 0x51], [0x51, 0xAB, pk, 0xAC], [pk, 0xAC, 0xAB]])))
        obs.append(("O05j:codeseparator", tx, q_auto(0, rng.choice(STD))))
    obs = [(lab, tx, q, f"q {T.t_tx(tx)} {q}", spec_line(tx, q, any_byte=True)) for lab, tx, q in obs]
    obs = [o for o in obs if o[4]]
    o_model = drv.batch([o[3] for o in obs])
    o_spec = drv.batch([o[4] for o in obs])
    for (lab, tx, q, line, sreq), model, want in zip(obs, o_model, o_spec):
        impl = impl_line(line)
        rec.compare("observation", {"line": line}, impl, model, determined=False, key=line[-200:], nontrivial=impl != REJECT)
        same = impl == want
        rec.count(f"observation:{lab}:{'equals-core' if same else 'differs-from-core'}")
        if lab == "O05h:agree" and not same:
            rec.disagreement("observation:O05h", {"line": line, "spec": sreq}, impl, want,
                             note="hash-type byte on which the decodings agree, yet the digest is not Core's")

    # ---- digest consumers (signatures over the SPEC digest of each signer's own hash type)
    run_consumers(ctx, drv, rng, rec)

    # ---- findings F05a..F05f (listed as fixed: a reproduction is a regression)
    for fid, tx0, full, specs in fcases:
        impl = impl_history(tx0, full)
        want = [next(spec_ans) for _ in specs]
        rec.finding(fid, impl != want, {"hist": hist_line(tx0, full), "specs": specs, "tx0": tx0, "ops": [list(o) for o in full],
                                        "impl": impl, "spec": want})



def run_consumers(ctx, drv, rng, rec):
    xonly_keys()
    for p in priv_pool():                      # the internal key of the multisig cases must count as a valid x-only key
        if p.point.xonly() not in _KEYS:
            _KEYS.append(p.point.xonly())
    judge_consumers(drv, consumer_jobs(ctx, rng), rec, workers=ctx.workers)


def judge_consumers(drv, jobs, rec, parallel=True, workers=None):
    from harness.common import pmap
    # 1. the specification's digests
    reqs = []
    for j in jobs:
        if j["what"] == "checksig":
            j["_req"] = spec_line(j["tx"], q_auto(j["i"], j["signs"]))
            reqs.append(j["_req"])
        else:
            hts = sorted({s["signs"] for r in j["rounds"] for s in r if s} | {s["byte"] for r in j["rounds"] for s in r if s})
            j["_hts"] = hts
            for h in hts:
                reqs.append(spec_line(j["tx"], q_auto(j["i"], h)))
    if any(r is None for r in reqs):
        raise MachineryError("harness: a consumer case has no specification request")
    ans = iter(drv.batch(reqs))
    for j in jobs:
        if j["what"] == "checksig":
            j["digest"] = next(ans)
        else:
            j["digests"] = {str(h): next(ans) for h in j["_hts"]}
    if any(v == REJECT for j in jobs for v in ([j.get("digest")] if j["what"] == "checksig" else j["digests"].values())):
        raise MachineryError("harness: the specification refuses a consumer case")
    # 2. sign and run the real consumers (EC arithmetic: spread over the cores)
    clean = [{k: v for k, v in j.items() if not k.startswith("_")} for j in jobs]
    results = pmap(consumer_worker, clean, workers=workers) if parallel else [consumer_worker(c) for c in clean]
    # 3. decide
    model_lines, model_jobs = [], []
    for j, r in zip(jobs, results):
        if j["what"] == "checksig":
            case = {"consumer": {k: v for k, v in j.items() if not k.startswith("_")}}
            kind = f"checksig:{j['kind']}"
            want = [j["expect"], j["expect"]]
            if r["res"] == want:
                rec.ok(kind, repr((j["kind"], j["byte"], j["signs"], r["elem"]))[:300])
                rec.count(f"checksig:{'accepts-own-digest' if j['expect'] else 'refuses-other-digest'}")
            else:
                rec.violation(kind, case, r["res"], want,
                              note=f"verify_input with a signature over the specification's digest for hash type {j['signs']:#x} "
                                   f"carrying hash-type byte {j['byte']:#x}")
            continue
        # finalize: expectation by construction, per round on the growing witness
        wit = [xb(x) for x in j["tx"]["ins"][j["i"]]["witness"]]
        points = r["points"]
        key_of = {xb(priv_pool()[kx].point.xonly()): kx for kx in j["keys"]}
        valid = []
        for rnd, got in zip(j["rounds"], r["rounds"]):
            picks = []
            for pt in points:
                pick = "x"
                for s, sb in zip(rnd, got["sigs"]):
                    if s and s["key"] == key_of[pt] and s["signs"] == s["byte"]:
                        pick = sb
                        break
                picks.append(pick)
            for s, sb in zip(rnd, got["sigs"]):
                if s:
                    valid.append((xb(priv_pool()[s["key"]].point.xonly()), j["digests"][str(s["signs"])], "x" + sb[1:129]))
            wit = list(reversed(picks)) + wit
            case = {"consumer": {k: v for k, v in j.items() if not k.startswith("_")}}
            if got["witness"] == wit:
                rec.ok("finalize:placement", repr((got["sigs"], wit))[:300])
            else:
                rec.violation("finalize:placement", case, got["witness"], wit,
                              note="finalize_p2tr_multisig: every signature must be matched against the BIP341 digest of its OWN "
                                   "hash type (co-signers: " + ", ".join(f"key{ s['key'] } byte { s['byte']:#x} signs { s['signs']:#x}" for s in rnd if s) + ")")
            rec.count("finalize:mixed-hashtypes" if len({s["byte"] for s in rnd if s}) > 1 else "finalize:one-hashtype")
            if rnd is j["rounds"][0]:
                nvalid = sum(1 for p_ in picks if p_ != "x")
                rec.count(f"finalize:verify_input={got['ok']}:valid={'k' if nvalid == j['k'] else ('<k' if nvalid < j['k'] else '>k')}")
                if got["ok"] is not None and got["ok"] != (nvalid == j["k"]):
                    rec.violation("finalize:verify_input", case, got["ok"], nvalid == j["k"],
                                  note=f"{nvalid} co-signers signed the BIP341 digest of their own hash type (k = {j['k']}): "
                                       "the finalised input must verify exactly when k did (op_checksigadd_schnorr takes each "
                                       "signature's own hash type)")
        # the model of the selection logic, round by round on the witness the implementation had
        cur = copy_desc(j["tx"])
        for rnd, got in zip(j["rounds"], r["rounds"]):
            toks = ["finalize", T.t_tx(cur), str(j["i"]), str(len(points))] + points + [str(len(got["sigs"]))] + got["sigs"]
            vs = sorted(set(valid))
            toks += [str(len(vs))] + [f"{a} {b} {c}" for a, b, c in vs] + [str(len(r["bad"]))] + r["bad"]
            model_lines.append(" ".join(toks))
            model_jobs.append((j, got))
            cur["ins"][j["i"]]["witness"] = [unx(x) for x in got["witness"]]
    for (j, got), model in zip(model_jobs, drv.batch(model_lines)):
        impl = " ".join([str(len(got["witness"]))] + got["witness"]) if got["ok"] is not None else REJECT
        rec.compare("finalize:model", {"consumer": {k: v for k, v in j.items() if not k.startswith("_")}}, impl, model,
                    determined=True, key=repr(got["sigs"])[:200], note="finalize_p2tr_multisig vs the model of its selection logic")


def tag(tx, q):
    """known-finding predicate (none at present: every F05 finding is fixed)"""
    return None


def replay(ctx, v):
    """re-execute one recorded violation exactly; True if it still violates"""
    case = v["case"]
    drv = ctx.driver("drv_c05")
    if "line" in case:
        impl = impl_line(case["line"])
        if case.get("spec") and impl != drv.one(case["spec"]):
            return True
        return impl != drv.one(model_line(case["line"]))
    if "consumer" in case:
        from harness.common import Recorder
        job = _unjson(case["consumer"])
        xonly_keys()
        for p in priv_pool():
            if p.point.xonly() not in _KEYS:
                _KEYS.append(p.point.xonly())
        tmp = Recorder("C05")
        judge_consumers(drv, [job], tmp, parallel=False)
        return bool(tmp.violations or tmp.disagreements)
    # a history: rebuild the initial object and apply the recorded operations to it IN PLACE, exactly as run() did
    tx0 = _unjson(case["tx0"])
    ops = [tuple(o) for o in _unjson(case["ops"])]
    impl = impl_history(tx0, ops)
    want = [drv.one(s) if s else None for s in case["specs"]]
    model = drv.one(case["hist"]).split(" ")[1:]
    return any((w is not None and a != w) or a != m for a, m, w in zip(impl, model, want))


def _unjson(x):
    """inverse of the recorder's JSON form: "x<hex>" strings are bytes"""
    import re
    if isinstance(x, str) and re.fullmatch(r"x([0-9a-f]{2})*", x):
        return bytes.fromhex(x[1:])
    if isinstance(x, list):
        return [_unjson(v) for v in x]
    if isinstance(x, dict):
        return {k: _unjson(v) for k, v in x.items()}
    return x
