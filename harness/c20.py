"""
C20 — BCUR / bc32 / CBOR: correspondence between the Lean model (lean/Buidl/Model/Bech32.lean,
Bcur.lean; driver drv_c20) and buidl/bech32.py (cbor_*, convertbits, bc32*), buidl/bcur.py, plus
the property predicates evaluated directly on the implementation (round trips across every CBOR
prefix boundary and chunk size; out-of-order / missing / foreign / corrupted parts are refused or
yield the same payload, never different data).

Structure (as harness/c19.py):
  impl_line(line)   evaluate one driver request line on the real code -> canonical answer
  PREDICATES[kind]  property predicates evaluated directly on the real code: case -> (ok, got, want)
  run(ctx)          generate request lines / predicate cases, run both sides, record
  replay(ctx, v)    re-execute one recorded violation exactly
"""
import itertools
from binascii import a2b_base64, b2a_base64

from harness.common import REJECT, xb, xs, unx, uns, batch_parallel, pmap

PROPERTY = "C20"
DRIVERS = ["drv_c20"]
ANCHORS = [
    ("buidl/bech32.py", "cbor_encode"), ("buidl/bech32.py", "cbor_decode"), ("buidl/bech32.py", "convertbits"),
    ("buidl/bech32.py", "bc32encode"), ("buidl/bech32.py", "bc32decode"), ("buidl/bech32.py", "bech32_polymod"),
    ("buidl/bech32.py", "uses_only_bech32_chars"), ("buidl/bech32.py", "BECH32_CHARS_RE"),
    ("buidl/bech32.py", "GEN"), ("buidl/bech32.py", "BECH32_ALPHABET"),
    ("buidl/bcur.py", "bcur_encode"), ("buidl/bcur.py", "bcur_decode"), ("buidl/bcur.py", "_parse_bcur_helper"),
    ("buidl/bcur.py", "BCURSingle.__init__"), ("buidl/bcur.py", "BCURSingle.encode"), ("buidl/bcur.py", "BCURSingle.parse"),
    ("buidl/bcur.py", "BCURMulti.__init__"), ("buidl/bcur.py", "BCURMulti.encode"), ("buidl/bcur.py", "BCURMulti.parse"),
    ("buidl/helper.py", "is_intable"),
]
RULE = ("cases come from one PRNG seeded by VERIF_SEED plus fixed catalogues: payload lengths 0..70000 including "
        "22..25, 254..257, 65534..65537; chunk sizes 1..2000 (and the default 300) with the number of parts capped "
        "at 4000; for encodings of at most 5 parts every permutation and every omission; parts of another payload "
        "spliced in; every single-character substitution (bech32 alphabet plus digits, separators, case changes) at "
        "every position of sampled parts; header variants of _parse_bcur_helper.  A case is non-trivial when the "
        "payload or string is not empty; distinct = distinct (operation, input) pairs")
CLAUSES = {
    "cbor_decode inverts cbor_encode for every length < 2^32, at each prefix boundary":
        "proved (cbor_roundtrip, cbor_encode_layout, cbor_encode_domain, cbor_encode_injective)",
    "convertbits 8->5 (pad) then 5->8 (no pad) is the identity": "proved (convertbits_roundtrip)",
    "bc32 decode inverts encode": "proved (bc32_roundtrip, bc32_encode_total; constants: spec_constants)",
    "a bc32 string with one substituted character is refused": "proved (bc32_single_substitution)",
    "BCURMulti.encode chunking: non-empty, at most the chunk size, equal length except the last, concatenation = payload":
        "proved (multi_encode_chunks, chunk_arithmetic; the text is shorter than 2^36 < 2^53 characters, for which float "
        "ceil(a/b) = integer ceiling is an assumption about CPython's correctly rounded division)",
    "parse (encode x) = x, single and multi": "proved relative to sha256 (single_roundtrip, multi_roundtrip)",
    "parts out of order / differing checksum / differing y are refused": "proved (multi_out_of_order, multi_checksum_mismatch, multi_y_mismatch)",
    "accepted parts yielding other data than the checksum's owner encoded exhibit a SHA-256 collision":
        "proved relative to sha256 (multi_collision_extraction, single_collision_extraction)",
    "the decoders accept canonical encodings only": "proved (bc32_decode_canonical, single_parse_canonical)",
    "objects do not remember earlier queries (BCURMulti/BCURSingle encoded repeatedly with different chunk sizes / "
    "flags, parse results re-encoded, every query issued twice)": "correspondence-only (multi_history, single_history, doubled requests)",
    "N20a: the 4-byte-length CBOR prefix is 0x60 (CBOR says 0x5a)": "observation outside the statement; modelled faithfully (Gen.cborEncP4 = Gen.cborDecCmp[4] = 96)",
}
TRUSTED = ["sha256 is a parameter of every theorem; the driver instantiates it with Buidl.Model.Hash.SHA256 "
           "(checked against hashlib by harness/hash_selftest.py)",
           "binascii.a2b_base64 / b2a_base64 are inverse to each other (the model works on the bytes text_b64 stands for)"]
ASSUMPTIONS = ["math.ceil(a / b) equals the integer ceiling for a < 2^53 (correctly rounded float division); lengths of "
               "strings in memory are far below that bound",
               "str.lower / str.strip / int(str) are modelled for ASCII strings only; Python maps U+212A KELVIN SIGN to 'k' "
               "under lower(), so an upper-case BCUR string containing it decodes like the one with 'K' (same payload; "
               "outside the statement)",
               "sys.get_int_max_str_digits() = 4300 (CPython default)"]

CHARSET = "qpzry9x8gf2tvdw0s3jn54khce6mua7l"


DIGIT_VALUES = [i for i, ch in enumerate(CHARSET) if ch.isdigit()]     # 5-bit values written as 0 2 3 4 5 6 7 8 9


def ref_polymod(values):
    gen = [0x3B6A57B2, 0x26508E6D, 0x1EA119FA, 0x3D4233DD, 0x2A1462B3]
    chk = 1
    for v in values:
        b = chk >> 25
        chk = (chk & 0x1FFFFFF) << 5 ^ v
        for i in range(5):
            chk ^= gen[i] if ((b >> i) & 1) else 0
    return chk


def ref_bc32(groups):
    """bc32 text of 5-bit groups (BCR-2020-004: polymod over [0] + groups, constant 0x3fffffff); library-independent"""
    pm = ref_polymod([0] + groups + [0] * 6) ^ 0x3FFFFFFF
    return "".join(CHARSET[g] for g in groups + [(pm >> 5 * (5 - i)) & 31 for i in range(6)])


def uncased_bytes(rng, nbytes, first_byte=None, tries=40000):
    """bytes whose bc32 text has NO cased character at all (only the digits of the alphabet, checksum included):
    the degenerate class for every `lower()/upper()/islower()/isupper()` style case test.  The 5-bit groups are drawn
    from the digit subset (constrained by `first_byte` and by zero padding bits), the six checksum characters are
    hit by search (probability (9/32)^6 per candidate).  None if the search budget is exhausted."""
    n = -(-8 * nbytes // 5)
    pad = 5 * n - 8 * nbytes
    for _ in range(tries):
        groups = []
        for i in range(n):
            cand = DIGIT_VALUES
            if first_byte is not None and i == 0:
                cand = [g for g in cand if g == first_byte >> 3]
            if first_byte is not None and i == 1:
                cand = [g for g in cand if g >> 2 == first_byte & 7]
            if i == n - 1:
                cand = [g for g in cand if g & ((1 << pad) - 1) == 0]
            if not cand:
                return None
            groups.append(rng.choice(cand))
        text = ref_bc32(groups)
        if all(ch.isdigit() for ch in text):
            bits = 0
            for g in groups:
                bits = (bits << 5) | g
            return (bits >> pad).to_bytes(nbytes, "big"), text
    return None


class UnknownOp(Exception):
    pass


def safe(fn, *a, **kw):
    """call the implementation while *generating* cases; a failure here is reported by the predicates, the
    generator just goes without the dependent cases"""
    try:
        return fn(*a, **kw)
    except Exception:
        return None


def rbytes(rng, n):
    return rng.getrandbits(8 * n).to_bytes(n, "little") if n else b""


def nats(l):
    return " ".join([str(len(l))] + [str(x) for x in l])


def b64(data):
    return b2a_base64(data).strip().decode()


def opt_s(s):
    return "-" if s is None else xs(s)


def un_opt(tok):
    return None if tok == "-" else uns(tok)


# ------------------------------------------------------------------ implementation side
def _impl(t):
    import buidl.bech32 as B32
    import buidl.bcur as BC

    op = t[0]
    if op == "cbor_enc":
        return xb(B32.cbor_encode(unx(t[1])))
    if op == "cbor_dec":
        r = B32.cbor_decode(unx(t[1]))
        return REJECT if r is None else xb(r)
    if op == "convertbits":
        n = int(t[4])
        r = B32.convertbits([int(x) for x in t[5:5 + n]], int(t[1]), int(t[2]), t[3] == "1")
        return REJECT if r is None else nats(r)
    if op == "bc32_enc":
        return xs(B32.bc32encode(unx(t[1])))
    if op == "bc32_dec":
        r = B32.bc32decode(uns(t[1]))
        return REJECT if r is None else xb(r)
    if op == "bcur_enc":
        e, h = BC.bcur_encode(unx(t[1]))
        return f"{xs(e)} {xs(h)}"
    if op == "bcur_dec":
        r = BC.bcur_decode(uns(t[1]), un_opt(t[2]))
        return REJECT if r is None else xb(r)
    if op == "helper":
        payload, checksum, x, y = BC._parse_bcur_helper(uns(t[1]))
        return f"{xs(payload)} {opt_s(checksum)} {x} {y}"
    if op == "single_enc":
        return xs(BC.BCURSingle(b64(unx(t[1]))).encode(use_checksum=(t[2] == "1")))
    if op == "single_parse":
        return xb(a2b_base64(BC.BCURSingle.parse(uns(t[1])).text_b64))
    if op == "multi_enc":
        parts = BC.BCURMulti(b64(unx(t[1]))).encode(max_size_per_chunk=int(t[2]), animate=(t[3] == "1"))
        return " ".join([str(len(parts))] + [xs(p) for p in parts])
    if op == "multi_parse":
        n = int(t[1])
        o = BC.BCURMulti.parse([uns(x) for x in t[2:2 + n]])
        return f"{xb(a2b_base64(o.text_b64))} {opt_s(o.checksum)}"
    if op == "py_int":
        return str(int(uns(t[1])))
    raise UnknownOp(op)


def impl_line(line):
    t = line.split(" ")
    try:
        return _impl(t)
    except UnknownOp:
        raise
    except Exception:
        return REJECT


def model_line(line):
    return line


def impl_twice(line):
    """every query is issued twice; differing answers (hidden state) can match no model answer"""
    a = impl_line(line)
    b = impl_line(line)
    return a if a == b else f"UNSTABLE {a[:200]} | {b[:200]}"


# ------------------------------------------------------------------ direct predicates
def p_cbor_rt(c):
    import buidl.bech32 as B32
    d = unx(c["d"])
    e = B32.cbor_encode(d)
    n = len(d)
    hdr = 1 if n <= 23 else 2 if n <= 255 else 3 if n <= 65535 else 5
    got = B32.cbor_decode(e)
    return got == d and len(e) == n + hdr, [len(e), xb(got)[:60]], [n + hdr, xb(d)[:60]]


def p_bc32_rt(c):
    import buidl.bech32 as B32
    d = unx(c["d"])
    s = B32.bc32encode(d)
    got = B32.bc32decode(s)
    ok = got == d and B32.bc32decode(s.upper()) == d and all(ch in CHARSET for ch in s)
    if "uncased_text" in c:
        ok = ok and s == c["uncased_text"] and not any(ch.isalpha() for ch in s)
    return ok, xb(got)[:80] if got is not None else None, xb(d)[:80]


def p_convertbits_rt(c):
    import buidl.bech32 as B32
    d = unx(c["d"])
    got = B32.convertbits(B32.convertbits(d, 8, 5), 5, 8, False)
    return got == list(d), str(got)[:80], str(list(d))[:80]


def p_single_rt(c):
    import buidl.bcur as BC
    d = unx(c["d"])
    got = []
    for use in (True, False):
        s = BC.BCURSingle(b64(d)).encode(use_checksum=use)
        got.append(a2b_base64(BC.BCURSingle.parse(s).text_b64))
    return got == [d, d], [xb(g)[:60] for g in got], xb(d)[:60]


def p_multi_rt(c):
    """parse(encode(x, chunk)) == x; chunks are non-empty, at most the chunk size, equal except the last, and
    concatenate to the single-part payload"""
    import buidl.bcur as BC
    d, m = unx(c["d"]), c["chunk"]
    o = BC.BCURMulti(b64(d))
    parts = o.encode(max_size_per_chunk=m, animate=c.get("animate", True))
    chunks = [p.split("/")[-1] for p in parts]
    n = len(parts)
    shape = (all(chunks) and "".join(chunks) == o.encoded and n >= 1
             and all(p.startswith(f"ur:bytes/{i + 1}of{n}/{o.enc_hash}/") for i, p in enumerate(parts))
             and len(set(len(x) for x in chunks[:-1])) <= 1 and (n == 1 or len(chunks[-1]) <= len(chunks[0])))
    if c.get("animate", True):
        shape = shape and all(len(x) <= m for x in chunks) and n == -(-len(o.encoded) // m)
    else:
        shape = shape and n == 1
    back = BC.BCURMulti.parse(parts)
    ok = shape and a2b_base64(back.text_b64) == d and back.checksum == o.enc_hash
    return ok, [n, [len(x) for x in chunks][:6], xb(a2b_base64(back.text_b64))[:40]], [xb(d)[:40]]


def p_reject_or_same(c):
    """a tampered list of parts is refused, or yields exactly the original payload"""
    import buidl.bcur as BC
    d = unx(c["d"])
    try:
        o = (BC.BCURSingle.parse(c["parts"][0]) if c.get("single") else BC.BCURMulti.parse(c["parts"]))
    except Exception:
        return True, REJECT, "REJECT or original"
    got = a2b_base64(o.text_b64)
    if c.get("must_reject"):
        return False, xb(got)[:80], REJECT
    return got == d, xb(got)[:80], xb(d)[:80]


def p_multi_history(c):
    """one BCURMulti object encoded with several chunk sizes in sequence (every query twice), the parse result
    re-encoded: all answers equal those of fresh objects, the object's attributes do not change"""
    import buidl.bcur as BC
    d = unx(c["d"])
    o = BC.BCURMulti(b64(d))
    before = (o.text_b64, o.encoded, o.enc_hash, o.checksum)
    got, want = [], []
    for m, anim in c["seq"]:
        for _ in range(2):
            got.append(o.encode(max_size_per_chunk=m, animate=anim))
        want += [BC.BCURMulti(b64(d)).encode(max_size_per_chunk=m, animate=anim)] * 2
    ok = got == want and (o.text_b64, o.encoded, o.enc_hash, o.checksum) == before
    # parse results re-encoded, twice, with the same and with another chunk size
    for parts, (m, anim) in zip(got[::2], c["seq"]):
        p1 = BC.BCURMulti.parse(parts)
        p2 = BC.BCURMulti.parse(parts)
        ok = ok and a2b_base64(p1.text_b64) == d and p1.text_b64 == p2.text_b64 and p1.checksum == p2.checksum
        ok = ok and p1.encode(max_size_per_chunk=m, animate=anim) == parts == p1.encode(max_size_per_chunk=m, animate=anim)
        m2 = c["seq"][0][0]
        ok = ok and p1.encode(max_size_per_chunk=m2) == BC.BCURMulti(b64(d)).encode(max_size_per_chunk=m2)
    return ok, [len(x) for x in got], [len(x) for x in want]


def p_single_history(c):
    """one BCURSingle object encoded with and without checksum in sequence (every query twice); parse results re-encoded"""
    import buidl.bcur as BC
    d = unx(c["d"])
    o = BC.BCURSingle(b64(d))
    before = (o.text_b64, o.encoded, o.enc_hash)
    got, want = [], []
    for use in c["seq"]:
        for _ in range(2):
            got.append(o.encode(use_checksum=use))
        want += [BC.BCURSingle(b64(d)).encode(use_checksum=use)] * 2
    ok = got == want and (o.text_b64, o.encoded, o.enc_hash) == before
    for s, use in zip(got[::2], c["seq"]):
        p1 = BC.BCURSingle.parse(s)
        ok = ok and a2b_base64(p1.text_b64) == d and p1.encode(use_checksum=use) == s == p1.encode(use_checksum=use)
        ok = ok and p1.encode(use_checksum=not use) == BC.BCURSingle(b64(d)).encode(use_checksum=not use)
        # the same text through BCURMulti.parse and back
        pm = BC.BCURMulti.parse([s])
        ok = ok and a2b_base64(pm.text_b64) == d and pm.encode(animate=False)[0].split("/")[-1] == o.encoded
    return ok, got[:2], want[:2]


PREDICATES = {"multi_history": p_multi_history, "single_history": p_single_history, "cbor_roundtrip": p_cbor_rt, "bc32_roundtrip": p_bc32_rt, "convertbits_roundtrip": p_convertbits_rt,
              "single_roundtrip": p_single_rt, "multi_roundtrip": p_multi_rt, "tampered_parts": p_reject_or_same}


def eval_pred(kind, case):
    try:
        return PREDICATES[kind](case)
    except Exception as e:
        return False, "raised " + type(e).__name__, "no exception"


def _heavy(job):
    what, arg = job
    if what == "line":
        return impl_twice(arg)
    if what == "bc32_subst":
        return bc32_subst_batch(arg)
    return eval_pred(arg[0], arg[1])


def _heavy_group(group):
    return [_heavy(j) for j in group]


def _job_size(job):
    what, arg = job
    if what == "line":
        return len(arg)
    if what == "bc32_subst":
        return 40 * len(arg)
    return len(arg[1].get("d", "")) * max(1, 600 // max(1, arg[1].get("chunk", 600))) + sum(len(p) for p in arg[1].get("parts", []))


def _pmap_grouped(jobs, workers):
    """one pool; expensive jobs (long payloads) first and alone, cheap ones in groups; order of results preserved"""
    order = sorted(range(len(jobs)), key=lambda i: -_job_size(jobs[i]))
    groups, cur, cur_size = [], [], 0
    for i in order:
        cur.append(i)
        cur_size += _job_size(jobs[i]) + 200
        if cur_size >= 30000:
            groups.append(cur)
            cur, cur_size = [], 0
    if cur:
        groups.append(cur)
    outs = pmap(_heavy_group, [[jobs[i] for i in g] for g in groups], workers=workers, chunksize=1)
    res = [None] * len(jobs)
    for g, o in zip(groups, outs):
        for i, r in zip(g, o):
            res[i] = r
    return res


def bc32_subst_batch(s):
    """every single-character substitution over the bech32 alphabet of a bc32 string must be refused"""
    import buidl.bech32 as B32
    bad = []
    for pos in range(len(s)):
        for ch in CHARSET:
            if ch != s[pos]:
                t = s[:pos] + ch + s[pos + 1:]
                try:
                    accepted = B32.bc32decode(t) is not None
                except Exception:
                    accepted = False
                if accepted:
                    bad.append(t)
    return bad


# ------------------------------------------------------------------ generation
def run(ctx):
    import buidl.bech32 as B32
    import buidl.bcur as BC

    rng, rec = ctx.rng, ctx.rec
    drv = ctx.driver("drv_c20")
    lines = []   # (kind, request line)
    preds = []   # (kind, case)

    # ---- CBOR across every prefix boundary
    lens = [0, 1, 2, 22, 23, 24, 25, 100, 254, 255, 256, 257, 1000, 65534, 65535, 65536, 65537, 70000]
    lens += [rng.randrange(0, 300) for _ in range(ctx.n(40))] + [rng.randrange(0, 70001) for _ in range(ctx.n(6))]
    for ln in lens:
        d = rbytes(rng, ln)
        lines.append(("cbor_enc", f"cbor_enc {xb(d)}"))
        e = safe(B32.cbor_encode, d)
        if isinstance(e, bytes):
            lines.append(("cbor_dec", f"cbor_dec {xb(e)}"))
        preds.append(("cbor_roundtrip", {"d": xb(d)}))
    streams = [b"", b"\x40", b"\x41", b"\x57", b"\x58", b"\x58\x05ab", b"\x59", b"\x59\x00", b"\x59\x00\x03abcd", b"\x5a\x00\x00\x00\x01a",
               b"\x60", b"\x60\x00\x00", b"\x60\x00\x00\x00\x02abc", b"\x3f", b"\x61a", b"\xff", b"\x00", b"\x45abc", b"\x42abcd"]
    for _ in range(ctx.n(300)):
        streams.append(bytes([rng.choice([0x40, 0x45, 0x57, 0x58, 0x59, 0x60, 0x5a, rng.getrandbits(8)])]) + rbytes(rng, rng.randrange(0, 12)))
    for s in streams:
        lines.append(("cbor_dec_raw", f"cbor_dec {xb(s)}"))

    # ---- convertbits
    for _ in range(ctx.n(300)):
        d = rbytes(rng, rng.randrange(0, 40))
        lines.append(("convertbits", f"convertbits 8 5 1 {nats(list(d))}"))
        lines.append(("convertbits", f"convertbits 8 5 0 {nats(list(d))}"))
        five = [rng.randrange(0, 32) for _ in range(rng.randrange(0, 40))]
        lines.append(("convertbits", f"convertbits 5 8 0 {nats(five)}"))
        lines.append(("convertbits", f"convertbits 5 8 1 {nats(five)}"))
        f, t = rng.randrange(1, 9), rng.randrange(1, 9)
        vals = [rng.randrange(0, 1 << f) if rng.random() < 0.97 else rng.randrange(0, 600) for _ in range(rng.randrange(0, 20))]
        lines.append(("convertbits", f"convertbits {f} {t} {rng.choice([0, 1])} {nats(vals)}"))
        preds.append(("convertbits_roundtrip", {"d": xb(d)}))

    # ---- bc32
    bc32_strings = []
    for ln in list(range(0, 40)) + [rng.randrange(40, 400) for _ in range(ctx.n(20))] + [5000]:
        d = rbytes(rng, ln)
        lines.append(("bc32_enc", f"bc32_enc {xb(d)}"))
        s = safe(B32.bc32encode, d)
        preds.append(("bc32_roundtrip", {"d": xb(d)}))
        if not isinstance(s, str) or not s:
            continue
        bc32_strings.append(s)
        for v in (s, s.upper(), s[:1].upper() + s[1:], s[:-1], s + "q", "q" + s, s[: len(s) // 2] + s[len(s) // 2 + 1:]):
            lines.append(("bc32_dec", f"bc32_dec {xs(v)}"))
    for s in ["", "q", "qqqqqq", "b", "1", " ", "qqqqqqq", "QQQQQQ", "é" * 0 + "Q" * 7]:
        lines.append(("bc32_dec", f"bc32_dec {xs(s)}"))
    rng.shuffle(bc32_strings)
    subst_jobs = [s for s in bc32_strings if len(s) <= 200][: ctx.n(12, 120)]
    for s in subst_jobs[: ctx.n(3, 12)]:      # the same through the model
        for pos in range(len(s)):
            for ch in CHARSET + "1bio" + s[pos].upper():
                if ch != s[pos]:
                    lines.append(("bc32_dec_corrupt", f"bc32_dec {xs(s[:pos] + ch + s[pos + 1:])}"))

    # ---- _parse_bcur_helper / int()
    sample = safe(lambda: BC.BCURMulti(b64(b"hello world, this is a payload")).encode(max_size_per_chunk=30))
    try:
        chk = sample[0].split("/")[2]
        pay = sample[0].split("/")[3]
    except Exception:
        chk, pay = "q" * 58, "qqqqqqqq"
    helpers = ["", "ur:bytes", "ur:bytes/", "ur:bytes//", "ur:bytes///", "ur:bytes////", "UR:BYTES/" + pay.upper(), "  ur:bytes/" + pay + "\n",
               "ur:bytes/" + pay, "ur:bytes/" + chk + "/" + pay, "ur:bytes/" + chk[:-1] + "/" + pay, "ur:bytes/" + chk + "q/" + pay,
               "ur:bytes/" + chk[:-1] + "b/" + pay, "ur:bytes/" + chk[:-1] + "\n/" + pay, "ur:bytes//" + pay, "ur:bytes/" + chk + "/",
               "ur:bytes/" + chk + "/" + pay + "b", "ur:bytes/" + chk + "/" + pay + "\n", "ur:bytes/" + chk + "/" + pay + " x",
               "xr:bytes/" + pay, "ur:bytes" + pay, "ur:byte/" + pay, "ur:bytes/1of1/" + chk + "/" + pay + "/extra"]
    for xy in ["1of1", "1of2", "2of1", "0of1", "-1of1", "+1of2", " 1of 2 ", "1_0of2_0", "1__0of20", "_1of2", "1_of2", "1of", "of1", "of", "1of2of3",
               "1 of 2", "1OF2", "01of02", "1.0of2", "0x1of2", "1e1of20", "٣of٤"[:0] + "3of4", "1" * 4300 + "of" + "2" * 4300,
               "1" * 4301 + "of" + "2" * 4301, "\t1\nof\r2\x0c", "1\x1cof2", "1\x00of2", "oof1", "1ofof2", "1oof2"]:
        helpers.append("ur:bytes/" + xy + "/" + chk + "/" + pay)
    for h in helpers:
        lines.append(("helper", f"helper {xs(h)}"))
        lines.append(("single_parse_raw", f"single_parse {xs(h)}"))
        lines.append(("multi_parse_raw", f"multi_parse 1 {xs(h)}"))
    for s in ["", " ", "0", "-0", "+", "-", "1_", "_", "1_2_3", "00012", " 12 ", "1 2", "12a", "１２"[:0] + "12", "\x1f7\x1e"]:
        lines.append(("py_int", f"py_int {xs(s)}"))
    lines.append(("multi_parse_raw", "multi_parse 0"))

    # ---- degenerate character class: texts without any cased character (digits only, checksum included)
    uncased = [(bytes.fromhex("294a529dea"), "99999802079894")]
    for nb in (3, 5, 6, 10, rng.choice([8, 11, 13, 15, 16, 20, 25])):     # lengths whose padding bits fit a digit
        r = uncased_bytes(rng, nb)
        if r is not None:
            uncased.append(r)
    for d, text in uncased:
        lines.append(("bc32_enc_uncased", f"bc32_enc {xb(d)}"))
        lines.append(("bc32_dec_uncased", f"bc32_dec {xs(text)}"))
        preds.append(("bc32_roundtrip", {"d": xb(d), "uncased_text": text}))
    # BCUR payloads whose CBOR + bc32 text is all digits: 16..23 bytes (CBOR prefix 0x50..0x57 starts with "2")
    uncased_payloads = [bytes.fromhex("ca5294a5294a5294a5294a5294a5294a52d3da")]
    for nb in (17, 20, 22, 19):     # the lengths in 16..23 whose padding bits fit a digit
        r = uncased_bytes(rng, nb + 1, first_byte=0x40 + nb)
        if r is not None:
            uncased_payloads.append(r[0][1:])
    for d in uncased_payloads:
        lines.append(("bcur_enc_uncased", f"bcur_enc {xb(d)}"))
        for use in (1, 0):
            lines.append(("single_enc_uncased", f"single_enc {xb(d)} {use}"))
        preds.append(("single_roundtrip", {"d": xb(d), "uncased": True}))
        preds.append(("single_history", {"d": xb(d), "seq": [True, False, True]}))
        for m in (1, 7, 20, 300):       # every chunk of every part is made of digits only
            lines.append(("multi_enc_uncased", f"multi_enc {xb(d)} {m} 1"))
            preds.append(("multi_roundtrip", {"d": xb(d), "chunk": m, "uncased": True}))
        preds.append(("multi_history", {"d": xb(d), "seq": [(9, True), (300, False), (2, True)]}))
        o = safe(BC.BCURMulti, b64(d))
        if o is not None:
            lines.append(("bcur_dec_uncased", f"bcur_dec {xs(o.encoded)} {xs(o.enc_hash)}"))
            lines.append(("bcur_dec_uncased", f"bcur_dec {xs(o.encoded)} -"))
            lines.append(("bc32_dec_uncased", f"bc32_dec {xs(o.encoded)}"))
            for m in (5, 300):
                parts = safe(o.encode, max_size_per_chunk=m)
                if isinstance(parts, list):
                    lines.append(("multi_parse_uncased", "multi_parse " + " ".join([str(len(parts))] + [xs(p) for p in parts])))
            s1 = safe(BC.BCURSingle, b64(d))
            for txt in ((safe(s1.encode), safe(s1.encode, use_checksum=False)) if s1 is not None else ()):
                if isinstance(txt, str):
                    lines.append(("single_parse_uncased", f"single_parse {xs(txt)}"))

    # ---- BCUR single / multi round trips over payload lengths and chunk sizes
    pl = [0, 1, 2, 17, 22, 23, 24, 25, 100, 254, 255, 256, 257, 500, 1000]
    pl += [rng.randrange(0, 2000) for _ in range(ctx.n(30))]
    # 65534 / 65537 are covered at the cbor_enc / bc32 level above; the full BCUR pipeline takes the boundary itself
    big = [65535, 65536, 70000] + [rng.randrange(2000, 70001) for _ in range(ctx.n(1, 10))]
    chunk_catalogue = [1, 2, 3, 7, 58, 59, 100, 299, 300, 301, 1000, 1999, 2000]
    encoded = []   # (payload, parts) for the tamper tests
    for ln in pl + big:
        d = rbytes(rng, ln)
        lines.append(("bcur_enc", f"bcur_enc {xb(d)}"))
        lines.append(("single_enc", f"single_enc {xb(d)} 1"))
        lines.append(("single_enc", f"single_enc {xb(d)} 0"))
        preds.append(("single_roundtrip", {"d": xb(d)}))
        enc_len = (ln + (1 if ln <= 23 else 2 if ln <= 255 else 3 if ln <= 65535 else 5)) * 8 // 5 + 8
        if ln > 2000 and not ctx.thorough:
            cs = {rng.choice(chunk_catalogue), rng.randrange(1, 2001), 300}
        else:
            cs = set(rng.sample(chunk_catalogue, 3)) | {rng.randrange(1, 2001) for _ in range(3)} | {300}
        if ln in (0, 24, 256):
            cs |= set(chunk_catalogue)
        for m in sorted(cs):
            if enc_len / m > 4000:
                continue
            lines.append(("multi_enc", f"multi_enc {xb(d)} {m} 1"))
            preds.append(("multi_roundtrip", {"d": xb(d), "chunk": m}))
        lines.append(("multi_enc", f"multi_enc {xb(d)} 300 0"))
        preds.append(("multi_roundtrip", {"d": xb(d), "chunk": 300, "animate": False}))
        lines.append(("multi_enc", f"multi_enc {xb(d)} 0 1"))
        if ln <= 2000:
            o = safe(BC.BCURMulti, b64(d))
            if o is not None:
                for m in (300, max(1, len(o.encoded) // rng.randrange(1, 6))):
                    parts = safe(o.encode, max_size_per_chunk=m)
                    if not isinstance(parts, list) or not all(isinstance(p, str) for p in parts):
                        continue
                    encoded.append((d, parts))
                    lines.append(("multi_parse", "multi_parse " + " ".join([str(len(parts))] + [xs(p) for p in parts])))
            s1 = safe(BC.BCURSingle, b64(d))
            if s1 is not None:
                for txt in (safe(s1.encode), safe(s1.encode, use_checksum=False)):
                    if isinstance(txt, str):
                        lines.append(("single_parse", f"single_parse {xs(txt)}"))
                lines.append(("bcur_dec", f"bcur_dec {xs(s1.encoded)} {xs(s1.enc_hash)}"))
                lines.append(("bcur_dec", f"bcur_dec {xs(s1.encoded)} -"))
                lines.append(("bcur_dec", f"bcur_dec {xs(s1.enc_hash)} {xs(s1.encoded)}"))

    # ---- object-reuse histories
    for ln in [0, 23, 24, 255, 256, 1000] + [rng.randrange(0, 3000) for _ in range(ctx.n(12))] + [65536]:
        d = rbytes(rng, ln)
        seq = [(rng.choice(chunk_catalogue + [rng.randrange(1, 2001)]), rng.random() < 0.8) for _ in range(rng.randrange(2, 5))]
        seq = [(m, a) for m, a in seq if (ln * 8 // 5 + 16) / m <= 3000 or not a] or [(300, True)]
        preds.append(("multi_history", {"d": xb(d), "seq": seq}))
        preds.append(("single_history", {"d": xb(d), "seq": [rng.random() < 0.5 for _ in range(3)]}))

    # ---- permutations, omissions, foreign parts for encodings of at most 5 parts
    small = [(d, p) for d, p in encoded if len(p) <= 5]
    rng.shuffle(small)
    other_d = rbytes(rng, 40)
    for d, parts in small[: ctx.n(25, 200)]:
        n = len(parts)
        seqs = set()
        for k in range(0, n + 1):
            for sub in itertools.permutations(range(n), k):
                seqs.add(sub)
        for sub in sorted(seqs):
            cand = [parts[i] for i in sub]
            case = {"d": xb(d), "parts": cand, "what": f"parts {list(sub)} of {n}"}
            if list(sub) != list(range(n)):
                case["must_reject"] = True
            preds.append(("tampered_parts", case))
            lines.append(("multi_parse_perm", "multi_parse " + " ".join([str(len(cand))] + [xs(p) for p in cand])))
        # a part of another payload encoded with the same number of parts, spliced in at every position
        fo = safe(BC.BCURMulti, b64(other_d + d[:5]))
        foreign = safe(fo.encode, max_size_per_chunk=max(1, -(-len(fo.encoded) // n))) if fo is not None else None
        if not isinstance(foreign, list) or not foreign or any(p.count("/") != 3 for p in parts + foreign):
            continue
        for i in range(n):
            if i < len(foreign):
                cand = parts[:i] + [foreign[i]] + parts[i + 1:]
                if n >= 2:      # for n = 1 the foreign part alone is simply another valid message
                    preds.append(("tampered_parts", {"d": xb(d), "parts": cand, "must_reject": True, "what": f"part {i} from another payload"}))
                lines.append(("multi_parse_foreign", "multi_parse " + " ".join([str(len(cand))] + [xs(p) for p in cand])))
                # the foreign chunk under the right checksum header
                hdr = parts[i].rsplit("/", 1)[0]
                cand = parts[:i] + [hdr + "/" + foreign[i].rsplit("/", 1)[1]] + parts[i + 1:]
                preds.append(("tampered_parts", {"d": xb(d), "parts": cand, "must_reject": True, "what": f"chunk {i} replaced"}))
                lines.append(("multi_parse_foreign", "multi_parse " + " ".join([str(len(cand))] + [xs(p) for p in cand])))
        # header tampering: y changed everywhere / in one part, checksum of another payload everywhere
        fchk = foreign[0].split("/")[2]
        for what, cand in (("y+1 in all", [p.replace(f"of{n}/", f"of{n + 1}/", 1) for p in parts]),
                           ("y+1 in last", parts[:-1] + [parts[-1].replace(f"of{n}/", f"of{n + 1}/", 1)]),
                           ("foreign checksum in all", [p.replace(p.split("/")[2], fchk, 1) for p in parts]),
                           ("no checksum, 2-part form", ["ur:bytes/" + "".join(p.split("/")[-1] for p in parts)]),
                           ("upper case", [p.upper() for p in parts]),
                           ("whitespace", ["  " + p + "\n" for p in parts])):
            case = {"d": xb(d), "parts": cand, "what": what}
            if what in ("y+1 in last", "foreign checksum in all") and n >= 1 and not (what == "y+1 in last" and n == 1):
                case["must_reject"] = True
            preds.append(("tampered_parts", case))
            lines.append(("multi_parse_header", "multi_parse " + " ".join([str(len(cand))] + [xs(p) for p in cand])))

    # ---- every single-character substitution of sampled parts
    alphabet = CHARSET + "1bio/:0129QZ \n"
    pool = [(d, parts) for d, parts in encoded if len(parts) <= 3 and sum(len(p) for p in parts) < 400]
    rng.shuffle(pool)
    n_sub = 0
    for d, parts in pool[: ctx.n(4, 60)]:
        for pi, p in enumerate(parts):
            for pos in range(len(p)):
                for ch in alphabet:
                    if ch == p[pos]:
                        continue
                    q = p[:pos] + ch + p[pos + 1:]
                    cand = parts[:pi] + [q] + parts[pi + 1:]
                    preds.append(("tampered_parts", {"d": xb(d), "parts": cand, "what": f"part {pi} pos {pos} -> {ch!r}"}))
                    n_sub += 1
                    if n_sub % 7 == 0:
                        lines.append(("multi_parse_subst", "multi_parse " + " ".join([str(len(cand))] + [xs(x) for x in cand])))
        s = safe(lambda: BC.BCURSingle(b64(d)).encode()) if len(parts) == 1 else None
        if isinstance(s, str):
            for pos in range(len(s)):
                for ch in CHARSET[:8] + "/1Q ":
                    if ch != s[pos]:
                        q = s[:pos] + ch + s[pos + 1:]
                        preds.append(("tampered_parts", {"d": xb(d), "parts": [q], "single": True, "what": f"single pos {pos} -> {ch!r}"}))
                        if (pos + ord(ch)) % 5 == 0:
                            lines.append(("single_parse_subst", f"single_parse {xs(q)}"))

    # ---- run both sides (one process pool for the implementation; the native driver runs meanwhile)
    heavy = [("line", l) for _, l in lines] + [("pred", kc) for kc in preds] + [("bc32_subst", s) for s in subst_jobs]
    from concurrent.futures import ThreadPoolExecutor
    with ThreadPoolExecutor(max_workers=1) as ex:
        fut = ex.submit(batch_parallel, drv, [model_line(l) for _, l in lines], max(2, ctx.workers // 2))
        res = _pmap_grouped(heavy, ctx.workers)
        answers = fut.result()
    impl_ans = res[: len(lines)]
    pred_res = res[len(lines): len(lines) + len(preds)]
    subst_res = res[len(lines) + len(preds):]
    corrupt_kinds = ("multi_parse_subst", "single_parse_subst", "multi_parse_header")
    for (kind, line), impl, model in zip(lines, impl_ans, answers):
        if rec.compare(kind, {"line": line}, impl, model, determined=kind not in corrupt_kinds, key=line[:300],
                       nontrivial=not line.endswith(" x") and not line.endswith(" s")):
            rec.sample(kind, {"request": line[:600], "answer": model[:300]})
        if impl == REJECT:
            rec.count(kind + ":reject")
    for (kind, case), (ok, got, want) in zip(preds, pred_res):
        if ok:
            rec.ok(kind, repr(case)[:300])
            rec.sample(kind, {k: (v if not isinstance(v, str) else v[:200]) for k, v in case.items()}, limit=1)
        else:
            rec.violation(kind, dict(case, pred=kind), got, want, note=case.get("what", ""))
    n_s = 0
    for s, bad in zip(subst_jobs, subst_res):
        n_s += 31 * len(s)
        for t in bad:
            rec.violation("bc32_subst", {"line": f"bc32_dec {xs(t)}", "orig": s}, "accepted", REJECT,
                          note="bc32 string with one substituted character accepted")
    rec.ok("bc32_subst_single", "exhaustive", n=n_s)
    rec.note("N20a (observation, outside the statement): the prefix byte for a 4-byte CBOR length is 0x60 on both the "
             "encode and the decode side (CBOR: 0x5a); self-consistent, exercised by the 65536..70000-byte payloads")


def replay(ctx, v):
    """re-execute one recorded violation exactly; True if it still violates"""
    case = v["case"]
    if "line" in case:
        if v.get("kind") == "bc32_subst":
            return impl_line(case["line"]) != REJECT
        return impl_line(case["line"]) != ctx.driver("drv_c20").one(model_line(case["line"]))
    ok, _, _ = eval_pred(case["pred"], case)
    return not ok
