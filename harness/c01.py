"""
C01 — ECDSA: correspondence between the Lean model (lean/Buidl/Model/ECDSA.lean over Model/EC.lean; driver
drv_c01), the Lean specifications (Spec/RFC6979.lean: RFC 6979 nonce, ECDSA validity predicate) and
buidl/pecc.py (PrivateKey.deterministic_k / sign, S256Point.verify, Signature.der / parse), plus the
property predicates evaluated directly on the implementation (sign → verify, low S, DER round trip,
mutations rejected) and the replay of the witnesses of the repaired findings F01a, F01b, F01c.

  impl_line(line)   evaluate one driver request line on the real code -> canonical answer
  PREDICATES[kind]  property predicates evaluated directly on the real code: case -> (ok, got, want)
  run(ctx)          generate request lines / predicate cases, run both sides, record
  replay(ctx, v)    re-execute one recorded violation exactly
"""
import time

from harness.common import REJECT, xb, unx, batch_parallel, pmap

PROPERTY = "C01"
DRIVERS = ["drv_c01"]
PROPS_MODULES = ["Buidl.Props.C01", "Buidl.Props.C01Message"]
ANCHORS = [
    ("buidl/pecc.py", "PrivateKey.__init__"), ("buidl/pecc.py", "PrivateKey.parse"), ("buidl/pecc.py", "PrivateKey.wif"), ("buidl/pecc.py", "PrivateKey.deterministic_k"),
    ("buidl/pecc.py", "PrivateKey.sign"), ("buidl/pecc.py", "S256Point.verify"),
    ("buidl/pecc.py", "PrivateKey.sign_message"), ("buidl/pecc.py", "S256Point.verify_message"),
    ("buidl/pecc.py", "Signature.der"), ("buidl/pecc.py", "Signature.parse"),
    ("buidl/pecc.py", "S256Point.__rmul__"), ("buidl/pecc.py", "Point.__rmul__"), ("buidl/pecc.py", "Point.__add__"),
    ("buidl/pecc.py", "S256Point.parse"), ("buidl/pecc.py", "S256Point.parse_sec"),
    ("buidl/helper.py", "int_to_big_endian"), ("buidl/helper.py", "big_endian_to_int"),
]
RULE = ("secrets and digests: the quantifier's boundary list (1, 2, 3, n-1, n-2, 2^128±1, 2^255±1; 0, 1, n-1, n, n+1, "
        "2^255, 2^256-1, and three values ≥ 2^256) crossed, plus pairs from one PRNG seeded by VERIF_SEED; every "
        "signature produced is verified as is and under the whole mutation catalogue (other digest, other key, r±1, "
        "s±1, n-s, s+n, r+n, 0, n, 2^256-1 for r and for s), each answer compared with the Lean model AND with the "
        "Lean specification (RFC 6979 / ECDSA validity predicate); DER: boundary and random (r, s), and parse of "
        "well-formed, 33-byte-integer, padded, truncated, extended and corrupted strings; signatures CONSTRUCTED "
        "from the ECDSA equation with a chosen small s (1, 2, 3, p-n-1, p-n, p-n+1, 2^64, 2^127-1, random < 2^127) and "
        "their catalogue (s+n, s+2n, r+n, s = n, p-1, p), each query issued twice; histories executed in one "
        "process on SHARED objects (one PrivateKey signing several digests repeatedly, one Signature object "
        "verified under several keys/digests right-first and wrong-first, the keys d and n-d on one digest), every "
        "step compared with the stateless model and specification on the CURRENT arguments; key CONFIGURATIONS: "
        "PrivateKey(d, network, compressed) for all 8 combinations and PrivateKey.parse of both WIF forms (mainnet, "
        "testnet), each signing / deriving nonces with the answer required to equal the configuration-free model "
        "and RFC 6979 / low-S specification.  A case is non-trivial "
        "when it is not rejected by a range/length check alone; distinct = distinct request lines")
CLAUSES = {
    "verification true exactly when the ECDSA equation holds — the case x(u1*G + u2*Q) in [n, p)":
        "partial(known finding F01d): verify compares x(R) with r without reducing modulo n; verify_complete is "
        "proved under the explicit hypothesis x(R) < n; a tuple with x(R) = r + n (constructed on every run: R with "
        "x(R) in [n, p), Q = (x-n)^-1 (sR - zG)) satisfies the specification's predicate and is refused",
    "message signing (sign_message / verify_message: digest = big-endian hash256 of the message)":
        "proved relative to hash256 (message_functions_use_one_digest, verify_message_sign_message, "
        "verify_message_sound, verify_message_out_of_range, sign_message_lowS); the digest is checked against hashlib on every run (signmsg / "
        "verifymsg stream, msg_sign_verify predicate)",
    "signature is the deterministic RFC 6979 signature":
        "proved (deterministicK_rfc6979, deterministicK_fuel, deterministicK_range, deterministicK_N); the signing "
        "equation is the model's signWith by correspondence",
    "the signature verifies under the matching public key":
        "proved (verify_signWith for every nonce in [1, n-1], verify_sign for the RFC 6979 nonce: group law of "
        "secp256k1, order of G, N prime, Fermat inverse, x(-R) = x(R)) under the explicit negligible-event "
        "hypotheses s ≠ 0 and x(kG) < n",
    "low S": "proved (signWith_lowS, sign_lowS, lowS_threshold)",
    "DER encoding and decoding": "proved (der_roundtrip, der_minimal)",
    "verification true exactly when r, s in [1, n-1] and the ECDSA equation holds":
        "proved (verify_sound, verify_true_in_range; verify_complete under the explicit hypothesis x(R) < n)",
    "r or s equal to 0 or >= n rejected": "proved (out_of_range_rejected, F01a_fixed)",
}
TRUSTED = ["HMAC-SHA256 is a parameter of every theorem (any function with 32-byte outputs); the driver instantiates "
           "it with Buidl.Model.Hash.HMAC (checked against hashlib/hmac by harness/hash_selftest.py and by every "
           "detk case of this run)",
           "group-law facts come from Buidl.Proofs.ECGroup / Secp256k1 (Mathlib's WeierstrassCurve.Affine.Point)"]
ASSUMPTIONS = ["int.to_bytes / int.from_bytes, pow(b, e, m), hmac.new(..., sha256).digest() behave as documented",
               "io.BytesIO.read(n) returns min(n, remaining) bytes",
               "negligible events stated as hypotheses: x(kG) ≥ n (probability ≈ 2^-128) for completeness",
               "points are those of the subgroup generated by G where a theorem needs the group order"]

N = 0xFFFFFFFFFFFFFFFFFFFFFFFFFFFFFFFEBAAEDCE6AF48A03BBFD25E8CD0364141
P = 2**256 - 2**32 - 977


class UnknownOp(Exception):
    pass


# --------------------------------------------------------------------------------- implementation side
def _point(tok):
    import buidl.ecc as E
    b = unx(tok)
    if b == b"":
        return E.S256Point(None, None)
    return E.S256Point.parse(b)


CONFIGS = [f"c{c}:{n}" for c in (1, 0) for n in ("mainnet", "testnet", "signet", "regtest")] + \
          [f"wif{c}:{n}" for c in (1, 0) for n in ("mainnet", "testnet")]


def mk_key(d, cfg=None):
    """the PrivateKey for secret d under a configuration: None = PrivateKey(d); `c<0|1>:<network>` =
    PrivateKey(d, network=…, compressed=…); `wif<0|1>:<network>` = PrivateKey.parse of the (un)compressed WIF.
    Neither the model nor the specifications have these options: the expected answers do not depend on them."""
    import buidl.ecc as E
    if not cfg:
        return E.PrivateKey(d)
    kind, net = cfg.split(":")
    if kind.startswith("wif"):
        return E.PrivateKey.parse(E.PrivateKey(d, network=net).wif(compressed=kind == "wif1"))
    return E.PrivateKey(d, network=net, compressed=kind == "c1")


def split_op(tok):
    """`op@cfg` -> (op, cfg)"""
    op, _, cfg = tok.partition("@")
    return op, (cfg or None)


def _impl(t):
    import buidl.ecc as E
    op, cfg = split_op(t[0])
    if op in ("detk", "spec_rfc6979"):
        return str(mk_key(int(t[1]), cfg).deterministic_k(int(t[2])))
    if op == "sign":
        sig = mk_key(int(t[1]), cfg).sign(int(t[2]))
        return f"{sig.r} {sig.s}"
    if op == "signwith":
        pk = mk_key(int(t[2]), cfg)
        k = int(t[1])
        pk.deterministic_k = lambda z: k      # the nonce is chosen; everything else is PrivateKey.sign
        sig = pk.sign(int(t[3]))
        return f"{sig.r} {sig.s}"
    if op in ("verify", "spec_valid"):
        ok = _point(t[1]).verify(int(t[2]), E.Signature(int(t[3]), int(t[4])))
        return "1" if ok is True else REJECT
    if op == "signmsg":
        sig = mk_key(int(t[1]), cfg).sign_message(unx(t[2]))
        return f"{sig.r} {sig.s}"
    if op == "verifymsg":
        ok = _point(t[1]).verify_message(unx(t[2]), E.Signature(int(t[3]), int(t[4])))
        return "1" if ok is True else REJECT
    if op == "der":
        return xb(E.Signature(int(t[1]), int(t[2])).der())
    if op == "parseder":
        sig = E.Signature.parse(unx(t[1]))
        return f"{sig.r} {sig.s}"
    raise UnknownOp(op)


# impl-side requests that are answered by the same computation (the spec ops ask the implementation the
# question the specification answers)
IMPL_ALIAS = {"spec_rfc6979": "detk", "spec_valid": "verify"}


def impl_line(line):
    t = line.split(" ")
    try:
        return _impl(t)
    except UnknownOp:
        raise
    except Exception:
        return REJECT


def impl_history(lines):
    """evaluate request lines in order in ONE process on SHARED objects — one PrivateKey per secret, one S256Point
    per key encoding (the `.point` of the PrivateKey when a signing step created it), one Signature object per (r, s)
    (the object returned by `sign` when an earlier step produced it).  Stale state kept on any of these objects
    between calls shows up as an answer that differs from the stateless model / specification."""
    import buidl.ecc as E
    pool, out = {}, []
    for line in lines:
        t = line.split(" ")
        try:
            op, cfg = split_op(t[0])
            if op in ("sign", "detk", "spec_rfc6979"):
                if ("sk", t[1], cfg) not in pool:
                    pk = pool[("sk", t[1], cfg)] = mk_key(int(t[1]), cfg)
                    for comp in (True, False):
                        pool.setdefault(("pt", xb(pk.point.sec(comp))), pk.point)
                pk = pool[("sk", t[1], cfg)]
                if op == "sign":
                    sig = pk.sign(int(t[2]))
                    pool.setdefault(("sig", sig.r, sig.s), sig)
                    out.append(f"{sig.r} {sig.s}")
                else:
                    out.append(str(pk.deterministic_k(int(t[2]))))
            elif op in ("verify", "spec_valid"):
                if ("pt", t[1]) not in pool:
                    pool[("pt", t[1])] = _point(t[1])
                key = ("sig", int(t[3]), int(t[4]))
                if key not in pool:
                    pool[key] = E.Signature(int(t[3]), int(t[4]))
                out.append("1" if pool[("pt", t[1])].verify(int(t[2]), pool[key]) is True else REJECT)
            else:
                out.append(_impl(t))
        except UnknownOp:
            raise
        except Exception:
            out.append(REJECT)
    return out


def impl_key(line):
    t = line.split(" ")
    op, cfg = split_op(t[0])
    t[0] = IMPL_ALIAS.get(op, op) + (f"@{cfg}" if cfg else "")
    return " ".join(t)


def model_line(line):
    """the driver request: the key configuration is dropped (the model and the specifications have none)"""
    t = line.split(" ")
    t[0] = split_op(t[0])[0]
    return " ".join(t)


# --------------------------------------------------------------------------------- direct predicates
def p_sign_verify(c):
    """the signature produced verifies under the matching public key (both SEC forms), has r, s in range and low S,
    and survives DER"""
    import buidl.ecc as E
    d, z = c["d"], c["z"]
    pk = mk_key(d, c.get("cfg"))
    sig = pk.sign(z)
    got = {"verify": pk.point.verify(z, sig) is True,
           "verify_parsed_key": c.get("compressed") is None or
           E.S256Point.parse(pk.point.sec(c["compressed"])).verify(z, sig) is True,
           "range": 1 <= sig.r < N and 1 <= sig.s < N,
           "low_s": sig.s <= (N - 1) // 2}
    sig2 = E.Signature.parse(sig.der())
    got["der_roundtrip"] = (sig2.r, sig2.s) == (sig.r, sig.s)
    got["der_len"] = len(sig.der()) <= 71
    want = {k: True for k in got}
    return got == want, got, want


def p_must_reject(c):
    """a tuple that cannot be valid (r or s outside [1, n-1]) must be reported invalid"""
    import buidl.ecc as E
    try:
        ok = _point(c["pt"]).verify(c["z"], E.Signature(c["r"], c["s"]))
    except Exception:
        return True, REJECT, REJECT
    return ok is not True, ("1" if ok is True else REJECT), REJECT


def p_der_rt(c):
    """Signature.parse(Signature(r, s).der()) == (r, s), and the bytes are the strict DER encoding
    (positive minimal INTEGERs), computed here independently"""
    import buidl.ecc as E
    enc = E.Signature(c["r"], c["s"]).der()
    sig = E.Signature.parse(enc)
    got = [sig.r, sig.s, xb(enc)]
    want = [c["r"], c["s"], xb(der_of(der_int(c["r"]), der_int(c["s"])))]
    return got == want, got, want


def p_small_s_valid(c):
    """a signature constructed from the ECDSA equation (chosen nonce, chosen small s) is accepted"""
    import buidl.ecc as E
    ok = _point(c["pt"]).verify(c["z"], E.Signature(c["r"], c["s"]))
    return ok is True, ("1" if ok is True else REJECT), "1"


PREDICATES = {"small_s_valid": p_small_s_valid, "sign_verify": p_sign_verify, "must_reject": p_must_reject, "der_roundtrip": p_der_rt}


def p_msg_sign_verify(c):
    """sign_message then verify_message on the same message accepts; on another message refuses; the signature is
    the one `sign` gives for the hashlib digest"""
    import hashlib
    import buidl.ecc as E
    d, m = c["d"], unx(c["m"])
    pk = E.PrivateKey(d)
    sig = pk.sign_message(m)
    z = int.from_bytes(hashlib.sha256(hashlib.sha256(m).digest()).digest(), "big")
    ref = E.PrivateKey(d).sign(z)
    got = [pk.point.verify_message(m, sig) is True, pk.point.verify_message(m + b"x", sig) is True,
           (sig.r, sig.s) == (ref.r, ref.s), pk.point.verify(z, sig) is True]
    return got == [True, False, True, True], got, [True, False, True, True]


PREDICATES["msg_sign_verify"] = p_msg_sign_verify


def eval_pred(kind, case=None):
    if case is None:
        kind, case = kind
    try:
        return PREDICATES[kind](case)
    except Exception as e:
        return False, "raised " + type(e).__name__, "no exception"


# --------------------------------------------------------------------------------- findings (all repaired)
def f01a_witness():
    """F01a: verify accepted (r, s + N)"""
    import buidl.ecc as E
    d, z = 0xC0FFEE, 0x1234567890ABCDEF1234567890ABCDEF1234567890ABCDEF1234567890ABCDEF
    pk = E.PrivateKey(d)
    sig = pk.sign(z)
    w = {"d": d, "z": z, "r": sig.r, "s_plus_N": sig.s + N}
    try:
        acc = pk.point.verify(z, E.Signature(sig.r, sig.s + N)) is True
        acc = acc or pk.point.verify(z, E.Signature(sig.r + N, sig.s)) is True
    except Exception:
        acc = False
    return acc, w


def f01b_witness():
    """F01b: with the float threshold an s in (n/2, 2^255] was not normalised.  Chosen nonce k; the digest is
    solved for so that the raw s is n//2 + 1."""
    import buidl.ecc as E
    d, k = 0xB0B, 0x5EED5EED5EED
    r = (k * E.G).x.num
    s0 = N // 2 + 1
    z = (s0 * k - r * d) % N
    pk = E.PrivateKey(d)
    pk.deterministic_k = lambda _z: k
    sig = pk.sign(z)
    return sig.s != N - s0, {"d": d, "k": k, "z": z, "raw_s": s0, "returned_s": sig.s}


def f01c_witness(drv):
    """F01c: deterministic_k(N) differed from RFC 6979 (bits2octets reduces z = N to 0)"""
    import buidl.ecc as E
    d = 0xD00D
    got = E.PrivateKey(d).deterministic_k(N)
    want = drv.one(f"spec_rfc6979 {d} {N}")
    return str(got) != want, {"d": d, "z": N, "impl_k": got, "rfc6979_k": want}


# --------------------------------------------------------------------------------- generation
def hash_order(l):
    """a fixed pseudo-random order so that expensive requests are spread evenly over the workers"""
    import hashlib
    return hashlib.blake2b(l.encode(), digest_size=8).digest()


def spread(drv, lines, workers):
    """batch_parallel over a fixed permutation of the requests (cheap and expensive ones interleaved)"""
    order = sorted(range(len(lines)), key=lambda i: hash_order(f"{i}:{lines[i][:40]}"))
    out = batch_parallel(drv, [lines[i] for i in order], workers=workers)
    res = [None] * len(lines)
    for i, a in zip(order, out):
        res[i] = a
    return res


SECRETS_B = [1, 2, 3, N - 1, N - 2, 2**128 - 1, 2**128 + 1, 2**255 - 1, 2**255 + 1]
DIGESTS_B = [0, 1, N - 1, N, N + 1, 2**255, 2**256 - 1, 2**128]
BAD_SECRETS = [0, N, N + 1, 2**256]
BIG_DIGESTS = [2**256, 2**256 + N - 1, 2**256 + N]


def rint(rng, bits_choices=(256,)):
    return rng.getrandbits(rng.choice(bits_choices))


def der_int(n, pad=0):
    """DER INTEGER content of n ≥ 0 with `pad` superfluous leading zero octets"""
    b = n.to_bytes(max(1, (n.bit_length() + 7) // 8), "big")
    if b[0] & 0x80:
        b = b"\x00" + b
    return b"\x00" * pad + b


def der_of(rb, sb):
    body = bytes([2, len(rb)]) + rb + bytes([2, len(sb)]) + sb
    return bytes([0x30, len(body) & 0xFF]) + body


def run(ctx):
    import buidl.ecc as E

    rng, rec = ctx.rng, ctx.rec
    drv = ctx.driver("drv_c01")
    lines = []   # (kind, request line, determined)
    preds = []   # (kind, case)

    # ---- findings: replayed on every run
    acc, w = f01a_witness()
    rec.finding("F01a", acc, w)
    bad, w = f01b_witness()
    gen_items = {i["name"]: i["value"] for i in getattr(ctx, "gen", {"items": []})["items"]}
    thr_float = gen_items.get("Ecdsa.lowSIsInt", "true") != "true" or gen_items.get("Ecdsa.lowSRhs", str(N // 2)) != str(N // 2)
    rec.finding("F01b", bad or thr_float, dict(w, threshold_is_int=gen_items.get("Ecdsa.lowSIsInt"),
                                               threshold=gen_items.get("Ecdsa.lowSRhs")))
    bad, w = f01c_witness(drv)
    rec.finding("F01c", bad, w)

    # ---- sign / verify cases
    pairs = []
    for i, d in enumerate(SECRETS_B):
        for j, z in enumerate(DIGESTS_B):
            if ctx.thorough or (i + j) % 3 == 0 or d in (1, N - 1) and z in (0, N, 2**256 - 1):
                pairs.append((d, z))
    n_rand = ctx.n(300) - len(pairs)
    for _ in range(max(n_rand, 50)):
        d = rng.choice([rng.randrange(1, N), rng.randrange(1, N), rng.randrange(1, 2**64), N - rng.randrange(1, 2**64)])
        z = rng.choice([rng.getrandbits(256), rng.getrandbits(256), rng.getrandbits(rng.choice([8, 64, 255])),
                        N + rng.randrange(0, 2**128)])
        pairs.append((d, z))
    for d, z in pairs:
        lines.append(("detk", f"detk {d} {z}", True))
        lines.append(("spec_rfc6979", f"spec_rfc6979 {d} {z}", True))
        lines.append(("sign", f"sign {d} {z}", True))
    for d in BAD_SECRETS:
        lines.append(("sign_bad_secret", f"sign {d} {rng.getrandbits(256)}", True))
        lines.append(("detk_bad_secret", f"detk {d} {rng.getrandbits(256)}", True))
    for z in BIG_DIGESTS:   # outside the quantifier (digests are < 2^256): model against code only
        lines.append(("detk_big_digest", f"detk {rng.randrange(1, N)} {z}", False))
    # chosen nonces: the signing equation and the low-S flip on both sides of the threshold
    for _ in range(ctx.n(24)):
        d, k = rng.randrange(1, N), rng.choice([1, 2, N - 1, rng.randrange(1, N), rng.randrange(1, N)])
        r = (k * E.G).x.num
        for s0 in (N // 2, N // 2 + 1, 2**255, rng.randrange(1, N)):
            z = (s0 * k - r * d) % N
            lines.append(("signwith", f"signwith {k} {d} {z}", True))
    # message signing: sign_message / verify_message use z = big-endian hash256(message); the expected signature
    # comes from the model driver on a digest computed with hashlib (independent of buidl.helper.hash256)
    import hashlib as _hl
    MSGS = [b"", b"\x00", b"a", b"Hello, world", bytes(32), bytes(range(64)), b"\xff" * 55, b"\x80" + bytes(63)] + \
        [bytes(rng.getrandbits(8) for _ in range(rng.choice([1, 31, 32, 33, 55, 56, 64, 100]))) for _ in range(ctx.n(8))]
    mpairs = [(rng.choice([1, 2, N - 1, rng.randrange(1, N), rng.randrange(1, N)]), m) for m in MSGS]
    zs = [int.from_bytes(_hl.sha256(_hl.sha256(m).digest()).digest(), "big") for _, m in mpairs]
    msigs = drv.batch([f"sign {d} {z}" for (d, _), z in zip(mpairs, zs)])
    for (d, m), z, sg in zip(mpairs, zs, msigs):
        lines.append(("signmsg", f"signmsg {d} {xb(m)}", True))
        if sg in (REJECT, "FUEL"):
            continue
        r, sv = sg.split(" ")
        sec = xb((d * E.G).sec(len(m) % 2 == 0))
        lines.append(("verifymsg:valid", f"verifymsg {sec} {xb(m)} {r} {sv}", True))
        lines.append(("verifymsg:other_message", f"verifymsg {sec} {xb(m + b'!')} {r} {sv}", True))
        m0 = bytes(1) + m
        lines.append(("verifymsg:other_message", f"verifymsg {sec} {xb(m0)} {r} {sv}", True))
        lines.append(("verifymsg:s+n", f"verifymsg {sec} {xb(m)} {r} {int(sv) + N}", True))
        lines.append(("verifymsg:digest_as_message", f"verifymsg {sec} {xb(z.to_bytes(32, 'big'))} {r} {sv}", True))
        preds.append(("msg_sign_verify", {"d": d, "m": xb(m)}))
    for d in BAD_SECRETS[:2]:
        lines.append(("signmsg_bad_secret", f"signmsg {d} x00", True))
    lines.append(("signwith_k0", f"signwith 0 5 7", False))
    lines.append(("signwith_kN", f"signwith {N} 5 7", False))

    # signatures (implementation) for the verification catalogue
    sigs = pmap(impl_line, [f"sign {d} {z}" for d, z in pairs], workers=ctx.workers)
    vcases = 0
    for idx, ((d, z), sg) in enumerate(zip(pairs, sigs)):
        if sg == REJECT:
            rec.violation("sign_raised", {"line": f"sign {d} {z}"}, sg, "a signature", note="valid secret and digest")
            continue
        r, s = (int(x) for x in sg.split(" "))
        if not (1 <= r < N and 1 <= s <= (N - 1) // 2):
            # the model line `sign d z` below reports it too; no verification catalogue for a malformed signature
            rec.violation("sign_out_of_range", {"line": f"sign {d} {z}"}, sg, "1 <= r < n and 1 <= s <= (n-1)/2",
                          note="signature returned by PrivateKey.sign")
            continue
        preds.append(("sign_verify", {"d": d, "z": z, "compressed": [True, False, None, None][idx % 4]}))
        pt = E.PrivateKey(d).point if idx < 40 or idx % 4 == 0 else None
        if pt is None:
            continue
        vcases += 1
        sec = xb(pt.sec(idx % 3 != 0))
        other = xb((rng.randrange(1, N) * E.G).sec())
        muts = [("valid", sec, z, r, s), ("other_digest", sec, (z + 1) % 2**256, r, s),
                ("other_digest", sec, rng.getrandbits(256), r, s), ("other_key", other, z, r, s),
                ("r+1", sec, z, r + 1, s), ("r-1", sec, z, r - 1, s), ("s+1", sec, z, r, s + 1), ("s-1", sec, z, r, s - 1),
                ("n-s", sec, z, r, N - s), ("z+n", sec, z + N, r, s)]
        oor = [("s+n", r, s + N), ("r+n", r + N, s), ("r=0", 0, s), ("s=0", r, 0), ("r=n", N, s), ("s=n", r, N),
               ("r=2^256-1", 2**256 - 1, s), ("s=2^256-1", r, 2**256 - 1), ("n-s+n", r, 2 * N - s)]
        if not ctx.thorough and idx >= 40:
            muts = muts[:1] + rng.sample(muts[1:], 4)
            oor = rng.sample(oor, 3)
        for name, p_, z_, r_, s_ in muts:
            lines.append(("verify:" + name, f"verify {p_} {z_} {r_} {s_}", True))
            lines.append(("spec_valid:" + name, f"spec_valid {p_} {z_} {r_} {s_}", True))
        for name, r_, s_ in oor:
            lines.append(("verify:" + name, f"verify {sec} {z} {r_} {s_}", True))
            lines.append(("spec_valid:" + name, f"spec_valid {sec} {z} {r_} {s_}", True))
            preds.append(("must_reject", {"pt": sec, "z": z, "r": r_, "s": s_, "why": name}))
    # r in [n, p) that IS the x coordinate of a curve point, with a key constructed so that the ECDSA equation
    # holds for r mod n: only the range rule makes the tuple invalid (hand-written affine arithmetic, no library code)
    P_, G_ = 2**256 - 2**32 - 977, (E.G.x.num, E.G.y.num)

    def _add(p, q):
        if p is None or q is None:
            return q if p is None else p
        (x1, y1), (x2, y2) = p, q
        if x1 == x2 and (y1 + y2) % P_ == 0:
            return None
        lam = (3 * x1 * x1 * pow(2 * y1, P_ - 2, P_) if p == q else (y2 - y1) * pow(x2 - x1, P_ - 2, P_)) % P_
        x3 = (lam * lam - x1 - x2) % P_
        return x3, (lam * (x1 - x3) - y1) % P_

    def _mul(k, p):
        k %= N
        acc = None
        while k:
            if k & 1:
                acc = _add(acc, p)
            p = _add(p, p)
            k >>= 1
        return acc

    xs, x = [], N + 1 + (rng.randrange(0, 2**100) if ctx.seed else 0)
    while len(xs) < 3:
        rhs = (pow(x, 3, P_) + 7) % P_
        y = pow(rhs, (P_ + 1) // 4, P_)
        if y * y % P_ == rhs and x < P_:
            xs.append((x, y))
        x += 1
    for x, y in xs:
        for s_, z_ in ((rng.randrange(1, N), rng.getrandbits(256)), (N - 5, 0)):
            zg = _mul(z_, G_)
            Q = _mul(pow(x - N, N - 2, N), _add(_mul(s_, (x, y)), None if zg is None else (zg[0], (P_ - zg[1]) % P_)))
            if Q is None:
                continue
            sec = xb(b"\x04" + Q[0].to_bytes(32, "big") + Q[1].to_bytes(32, "big"))
            lines.append(("verify:r_xcoord_ge_n", f"verify {sec} {z_} {x} {s_}", True))
            lines.append(("spec_valid:r_xcoord_ge_n", f"spec_valid {sec} {z_} {x} {s_}", True))
            lines.append(("verify:r_xcoord_mod_n", f"verify {sec} {z_} {x - N} {s_}", True))
            lines.append(("spec_valid:r_xcoord_mod_n", f"spec_valid {sec} {z_} {x - N} {s_}", True))
            preds.append(("must_reject", {"pt": sec, "z": z_, "r": x, "s": s_, "why": "r in [n, p) is an x coordinate"}))
    # the point at infinity and an undecodable key as public key
    lines.append(("verify:inf_key", f"verify x {rng.getrandbits(256)} {rng.randrange(1, N)} {rng.randrange(1, N)}", False))
    lines.append(("verify:bad_key", f"verify x05{'11' * 32} 1 1 1", True))

    # ---- key configuration: every (compressed, network) combination and keys parsed from both WIF forms; the answers
    #      must be the same RFC 6979 nonce and the same low-S signature as for the default key
    cfg_hist = {}
    for i in range(ctx.n(48)):
        d, z = pairs[(i * 5 + 1) % len(pairs)] if i % 3 else (rng.randrange(1, N), rng.getrandbits(256))
        if not (1 <= d < N):
            continue
        cfg = CONFIGS[i % len(CONFIGS)]
        lines.append(("sign@cfg", f"sign@{cfg} {d} {z}", True))
        lines.append(("detk@cfg", f"detk@{cfg} {d} {z}", True))
        lines.append(("spec_rfc6979@cfg", f"spec_rfc6979@{cfg} {d} {z}", True))
        rec.count("config:" + cfg)
        if i % 2 == 0:
            preds.append(("sign_verify", {"d": d, "z": z, "cfg": cfg, "compressed": None}))
        cfg_hist.setdefault(i % 4, []).append((cfg, d, z))

    # ---- constructed signatures with a chosen small s: r = x(kG) mod n, z = (s k - r d) mod n.  (r, s + n) is below p
    #      only when s < p - n ≈ 2^128, so a range check against the wrong modulus shows only on such signatures
    small_s = [1, 2, 3, P - N - 1, P - N, P - N + 1, 2**127 - 1, 2**64] + [rng.getrandbits(rng.choice([16, 100, 126, 127]))
                                                                        or 1 for _ in range(ctx.n(10))]
    small_hist = []
    for i, s0 in enumerate(small_s):
        d, k = rng.randrange(1, N), rng.randrange(1, N)
        r = (k * E.G).x.num % N
        if r == 0:
            continue
        z = (s0 * k - r * d) % N
        sec = xb((d * E.G).sec(i % 2 == 0))
        cat = [("valid", z, r, s0, None), ("s+1", z, r, s0 + 1, None), ("z+1", z + 1, r, s0, None),
               ("s+n", z, r, s0 + N, True), ("s+2n", z, r, s0 + 2 * N, True), ("r+n", z, r + N, s0, True),
               ("s=n", z, r, N, True), ("s=p-1", z, r, P - 1, True), ("s=p", z, r, P, True), ("r=p-1", z, P - 1, s0, True)]
        for name, z_, r_, s_, must in cat:
            lines.append(("verify:small_s:" + name, f"verify {sec} {z_} {r_} {s_}", True))
            lines.append(("spec_valid:small_s:" + name, f"spec_valid {sec} {z_} {r_} {s_}", True))
            if must:
                preds.append(("must_reject", {"pt": sec, "z": z_, "r": r_, "s": s_, "why": "small s: " + name}))
        preds.append(("small_s_valid", {"pt": sec, "z": z, "r": r, "s": s0}))
        small_hist.append((sec, z, r, s0))

    # ---- histories on shared objects (one process each): one PrivateKey signing several digests, one Signature
    #      object verified under several keys and digests in varying order, the keys d and n-d on one digest
    hists = []   # (kind, [(impl line, [model lines])])

    def vstep(sec, z, r, s):
        return (f"verify {sec} {z} {r} {s}", [f"verify {sec} {z} {r} {s}", f"spec_valid {sec} {z} {r} {s}"])

    def sstep(d, z):
        return (f"sign {d} {z}", [f"sign {d} {z}"])

    def kstep(d, z):
        return (f"detk {d} {z}", [f"detk {d} {z}", f"spec_rfc6979 {d} {z}"])

    for grp in cfg_hist.values():      # differently configured key objects for the SAME secret in one process
        cfg0, d, z = grp[0]
        steps = []
        for cfg, _, _ in grp[:6]:
            steps += [(f"sign@{cfg} {d} {z}", [f"sign {d} {z}"]), (f"detk@{cfg} {d} {z}", [f"detk {d} {z}", f"spec_rfc6979 {d} {z}"])]
        hists.append(("history:key_configurations", steps + steps[:2]))
    for sec, z, r, s0 in small_hist:   # every query twice, on the same point and Signature objects
        hists.append(("history:small_s", [vstep(sec, z, r, s0), vstep(sec, z, r, s0 + N), vstep(sec, z, r + N, s0),
                                          vstep(sec, z, r, s0), vstep(sec, z, r, s0 + N), vstep(sec, z + 1, r, s0)]))
    usable = [(d, z, sg) for (d, z), sg in zip(pairs, sigs) if sg != REJECT and z < 2**256]
    for i in range(ctx.n(16)):
        d, z, sg = usable[(i * 7) % len(usable)]
        r, s_ = (int(x) for x in sg.split(" "))
        z2, z3 = rng.getrandbits(256), (z + 1) % 2**256
        d2 = usable[(i * 7 + 3) % len(usable)][0]
        sec = xb((d * E.G).sec(i % 2 == 0))
        sec2 = xb((d2 * E.G).sec())
        if i % 4 == 0:      # one PrivateKey object, several digests, repeated
            steps = [sstep(d, z), kstep(d, z2), sstep(d, z2), sstep(d, z), kstep(d, z), sstep(d, z3), sstep(d, z2)]
        elif i % 4 == 1:    # the Signature object returned by sign: right triple first, then altered digest / key
            steps = [sstep(d, z), vstep(sec, z, r, s_), vstep(sec, z2, r, s_), vstep(sec2, z, r, s_), vstep(sec, z, r, s_),
                     vstep(sec, z3, r, s_)]
        elif i % 4 == 2:    # a constructed Signature object: wrong triple first, then the right one
            steps = [vstep(sec, z2, r, s_), vstep(sec2, z, r, s_), vstep(sec, z, r, s_), vstep(sec, z, r, s_),
                     vstep(sec, z3, r, s_), vstep(sec, z, r, s_ + N)]
        else:               # d and n - d (same x coordinate of the public key) on one digest
            nd = N - d
            secn = xb((nd * E.G).sec(i % 2 == 0))
            steps = [sstep(d, z), sstep(nd, z), vstep(sec, z, r, s_), vstep(secn, z, r, s_), sstep(d, z),
                     kstep(nd, z), kstep(d, z)]
            hists.append(("history:neg_key_sigs", [sstep(nd, z)]))   # placeholder so that sign n-d z is answered below
        hists.append((["history:one_key_many_digests", "history:sig_object_right_first", "history:sig_object_wrong_first",
                       "history:d_and_n_minus_d"][i % 4], steps))
    # the signature of n - d verified under both keys (needs the implementation's answer first)
    nd_sigs = pmap(impl_line, [st[0][0] for k_, st in hists if k_ == "history:neg_key_sigs"], workers=ctx.workers)
    it = iter(nd_sigs)
    for k_, st in hists:
        if k_ == "history:neg_key_sigs":
            sg = next(it)
            if sg != REJECT:
                dn, z = (int(x) for x in st[0][0].split(" ")[1:])
                r, s_ = (int(x) for x in sg.split(" "))
                st += [vstep(xb((dn * E.G).sec()), z, r, s_), vstep(xb(((N - dn) * E.G).sec()), z, r, s_),
                       vstep(xb((dn * E.G).sec()), z, r, s_)]

    # ---- DER
    rs_vals = [0, 1, 127, 128, 255, 256, 2**255 - 1, 2**255, 2**255 + 1, N - 1, N, 2**256 - 1, 2**256, 2**248 - 1, 2**248,
               2**247, 2**8 * 127, 1 << 15, (1 << 15) - 1]
    der_pairs = [(a, b) for a in rs_vals for b in (1, 2**255, rs_vals[(rs_vals.index(a) * 7 + 3) % len(rs_vals)])]
    der_pairs += [(b, a) for a, b in der_pairs[:20]]
    for _ in range(ctx.n(400)):
        bits = rng.choice([1, 7, 8, 9, 63, 127, 128, 248, 249, 255, 256])
        der_pairs.append((rng.getrandbits(bits) | (1 << (bits - 1)) * rng.choice([0, 1]), rng.getrandbits(rng.choice([8, 255, 256]))))
    for r, s in der_pairs:
        lines.append(("der", f"der {r} {s}", 1 <= r < 2**256 and 1 <= s < 2**256))
        if 1 <= r < 2**256 and 1 <= s < 2**256:
            preds.append(("der_roundtrip", {"r": r, "s": s}))
            good = der_of(der_int(r), der_int(s))
            lines.append(("parseder:valid", f"parseder {xb(good)}", True))
    # strings the encoder never emits: 33-byte integers, padding, corruption (the property does not fix the answer)
    weird = [b"", b"\x30", b"\x30\x00", b"\x30\x02\x02\x00", b"\x30\x04\x02\x00\x02\x00", b"\x30\x06\x02\x01\x01\x02\x01\x01",
             b"\x30\x06\x02\x01\x01\x02\x01", b"\x31\x06\x02\x01\x01\x02\x01\x01", b"\x30\x06\x03\x01\x01\x02\x01\x01",
             b"\x30\x06\x02\x01\x01\x03\x01\x01", b"\x30\x06\x02\x02\x01\x02\x01\x01", b"\x30\x07\x02\x01\x01\x02\x01\x01\x00",
             b"\x30\x06\x02\x01\x01\x02\x02\x01", b"\x30\x05\x02\x00\x02\x01\x01\x01"]
    for _ in range(ctx.n(150)):
        r, s = rng.getrandbits(rng.choice([255, 256])), rng.getrandbits(rng.choice([255, 256]))
        rb, sb = der_int(r, rng.choice([0, 0, 1, 2])), der_int(s, rng.choice([0, 0, 1]))
        if rng.random() < 0.3:
            rb = b"\x00" + r.to_bytes(32, "big")          # 33-byte integer whatever the top bit
        if rng.random() < 0.3:
            sb = b"\x00" + s.to_bytes(32, "big")
        good = der_of(rb, sb)
        weird.append(good)
        bad = bytearray(good)
        k = rng.choice([0, 1, 2, 3, 4 + len(rb), 5 + len(rb), rng.randrange(len(good))])
        bad[k] ^= rng.choice([1, 0x80, rng.randrange(1, 256)])
        weird.append(bytes(bad))
        weird.append(good[: rng.randrange(0, len(good))])
        weird.append(good + bytes(rng.randrange(1, 3)))
    for b in weird:
        lines.append(("parseder:other", f"parseder {xb(b)}", False))

    # ---- run both sides
    t0 = time.time()
    impl_seed = {f"sign {d} {z}": sg for (d, z), sg in zip(pairs, sigs)}
    uniq = sorted({impl_key(l) for _, l, _ in lines} - set(impl_seed), key=lambda l: hash_order(l))
    impl_ans = dict(zip(uniq, pmap(impl_line, uniq, workers=ctx.workers, chunksize=8)))
    impl_ans.update(impl_seed)
    t1 = time.time()
    hist_impl = pmap(impl_history, [[st[0] for st in steps] for _, steps in hists], workers=ctx.workers, chunksize=1)
    hmodel = [(hi, si, ml) for hi, (_, steps) in enumerate(hists) for si, st in enumerate(steps) for ml in st[1]]
    all_answers = spread(drv, [model_line(l) for _, l, _ in lines] + [ml for _, _, ml in hmodel], ctx.workers)
    answers, hanswers = all_answers[: len(lines)], all_answers[len(lines):]
    t2 = time.time()
    for (hi, si, ml), model in zip(hmodel, hanswers):
        kind, steps = hists[hi]
        case = {"line": ml, "hist": [st[0] for st in steps], "step": si}
        rec.compare(kind.split(":")[0], case, hist_impl[hi][si], model, determined=True,
                    key=f"{hi}:{si}:{ml[:300]}", note=kind)
        rec.count(kind)
    for (kind, line, det), model in zip(lines, answers):
        impl = impl_ans[impl_key(line)]
        if model == "FUEL":
            rec.note(f"model ran out of fuel on {line[:200]}")
        trivial = impl == REJECT and kind.split(":")[-1] in ("s+n", "r+n", "r=0", "s=0", "r=n", "s=n", "r=2^256-1", "s=2^256-1", "n-s+n")
        base = kind.split(":")[0]
        fid = None
        if kind == "spec_valid:r_xcoord_mod_n":
            # F01d (known): S256Point.verify compares x(R) with r without reducing x(R) modulo n, so a tuple that
            # satisfies the ECDSA equation with x(R) in [n, p) is refused (verify_complete carries x(R) < n)
            fid = "F01d"
            rec.finding("F01d", impl == REJECT and model == "1", {"line": line, "oracle": "spec", "impl": impl, "spec": model})
        if rec.compare(base, {"line": line}, impl, model, determined=det, key=line[:400], nontrivial=not trivial,
                       note=kind, finding=fid):
            rec.sample(base, {"request": line[:300], "answer": model[:200]})
        if kind != base:
            rec.count(kind)
        rec.count(base + (":reject" if impl == REJECT else ":accept"))
    rec.count("verify_catalogue_signatures", vcases)
    pres = pmap(eval_pred, preds, workers=ctx.workers, chunksize=8)
    rec.note(f"timing: generation {t0 - ctx.t0:.1f}s, implementation {t1 - t0:.1f}s ({len(uniq)} requests), "
             f"model+spec {t2 - t1:.1f}s ({len(lines)} requests), predicates {time.time() - t2:.1f}s ({len(preds)})")
    for (kind, case), (ok, got, want) in zip(preds, pres):
        if ok:
            rec.ok(kind, repr(case)[:300])
            rec.sample(kind, case, limit=1)
            rec.cov_pred(kind, case)
        else:
            rec.violation(kind, dict(case, pred=kind), got, want, note=str(case.get("why", "")))


def replay(ctx, v):
    """re-execute one recorded violation exactly; True if it still violates"""
    case = v["case"]
    if v.get("kind", "").startswith("regression:"):
        fid = v["kind"].split(":")[1]
        import_ok = {"F01a": lambda: f01a_witness()[0], "F01b": lambda: f01b_witness()[0],
                     "F01c": lambda: f01c_witness(ctx.driver("drv_c01"))[0]}
        return bool(import_ok[fid]())
    if "hist" in case:
        return impl_history(case["hist"])[case["step"]] != ctx.driver("drv_c01").one(model_line(case["line"]))
    if "line" in case:
        return impl_line(case["line"]) != ctx.driver("drv_c01").one(model_line(case["line"]))
    ok, _, _ = eval_pred((case["pred"], case))
    return not ok
