"""
Token encoding of scripts, witnesses and transactions for drv_c04 / drv_c05 (the Lean side is
lean/Buidl/Drv/TxTok.lean), built from / into the Python objects of /repo through its API.

    script  := k cmd… raw          cmd := decimal opcode | x<hex> push;  raw := - | x<hex>
    witness := k x<hex>…
    txin    := x<prev_tx> prev_index script sequence witness (-|value) (-|S script)
    txout   := amount script
    tx      := version k txin… k' txout… locktime segwit
    stx     := version k (x<hash> n x<scriptSig> seq)… k' (value x<spk>)… locktime     (specification side)
"""
from harness.common import xb, unx, MachineryError


# ------------------------------------------------------------------ formatting (objects -> tokens)
def f_cmd(c):
    if isinstance(c, int) and not isinstance(c, bool):
        return str(c)
    return xb(c)


def f_script(s):
    raw = "-" if s.raw is None else xb(s.raw)
    return " ".join([str(len(s.commands))] + [f_cmd(c) for c in s.commands] + [raw])


def f_witness(w):
    return " ".join([str(len(w.items))] + [xb(i) for i in w.items])


def f_txin(i):
    v = "-" if i._value is None else str(i._value)
    spk = "-" if i._script_pubkey is None else "S " + f_script(i._script_pubkey)
    return f"{xb(i.prev_tx)} {i.prev_index} {f_script(i.script_sig)} {int(i.sequence)} {f_witness(i.witness)} {v} {spk}"


def f_txout(o):
    return f"{o.amount} {f_script(o.script_pubkey)}"


def f_tx(t):
    return " ".join([str(t.version), str(len(t.tx_ins))] + [f_txin(i) for i in t.tx_ins]
                    + [str(len(t.tx_outs))] + [f_txout(o) for o in t.tx_outs]
                    + [str(int(t.locktime)), "1" if t.segwit else "0"])


# ------------------------------------------------------------------ parsing (tokens -> objects, via the API)
class Toks:
    def __init__(self, toks, pos=0):
        self.t = toks
        self.p = pos

    def next(self):
        if self.p >= len(self.t):
            raise MachineryError("token stream exhausted")
        v = self.t[self.p]
        self.p += 1
        return v

    def done(self):
        return self.p == len(self.t)


def p_script(ts, cls=None):
    from buidl.script import Script
    n = int(ts.next())
    cmds = []
    for _ in range(n):
        t = ts.next()
        cmds.append(unx(t) if t.startswith("x") else int(t))
    raw = ts.next()
    s = (cls or Script)(cmds)
    if raw != "-":
        s.raw = unx(raw)
    return s


def p_optscript(ts, cls=None):
    t = ts.next()
    if t == "-":
        return None
    if t != "S":
        raise MachineryError("bad optional script token " + t)
    return p_script(ts, cls)


def p_witness(ts):
    from buidl.witness import Witness
    n = int(ts.next())
    return Witness([unx(ts.next()) for _ in range(n)])


def p_txin(ts):
    from buidl.tx import TxIn
    prev = unx(ts.next())
    idx = int(ts.next())
    sc = p_script(ts)
    seq = int(ts.next())
    w = p_witness(ts)
    v = ts.next()
    spk = p_optscript(ts)
    i = TxIn(prev, idx, sc, seq)          # Sequence(seq) may raise: the caller reports REJECT
    i.witness = w
    i._value = None if v == "-" else int(v)
    i._script_pubkey = spk
    return i


def p_txout(ts):
    from buidl.tx import TxOut
    a = int(ts.next())
    return TxOut(a, p_script(ts))


def p_tx(ts):
    from buidl.tx import Tx
    version = int(ts.next())
    ins = [p_txin(ts) for _ in range(int(ts.next()))]
    outs = [p_txout(ts) for _ in range(int(ts.next()))]
    locktime = int(ts.next())
    segwit = ts.next() == "1"
    return Tx(version, ins, outs, locktime, network="mainnet", segwit=segwit)


# ------------------------------------------------------------------ plain-data descriptions (generator side)
# A transaction is generated as plain data (dict) so that the same description can be turned into
# tokens without the library (`d_tx`), into library objects (`p_tx` on the tokens), and into the
# specification's raw-bytes form (`stx_tokens`, which needs the raw script bytes: `raw_script`).
def d_script(cmds, raw=None):
    return {"cmds": list(cmds), "raw": raw}


def t_script(s):
    return " ".join([str(len(s["cmds"]))] + [f_cmd(c) for c in s["cmds"]] + ["-" if s["raw"] is None else xb(s["raw"])])


def t_witness(items):
    return " ".join([str(len(items))] + [xb(i) for i in items])


def t_txin(i):
    v = "-" if i.get("value") is None else str(i["value"])
    spk = "-" if i.get("spk") is None else "S " + t_script(i["spk"])
    return f"{xb(i['prev_tx'])} {i['prev_index']} {t_script(i['script_sig'])} {i['sequence']} {t_witness(i.get('witness', []))} {v} {spk}"


def t_txout(o):
    return f"{o['amount']} {t_script(o['spk'])}"


def t_tx(t):
    return " ".join([str(t["version"]), str(len(t["ins"]))] + [t_txin(i) for i in t["ins"]]
                    + [str(len(t["outs"]))] + [t_txout(o) for o in t["outs"]]
                    + [str(t["locktime"]), "1" if t.get("segwit") else "0"])


def raw_script(s):
    """raw bytes of a described script, computed here from the push rules of the protocol (direct push
    1..75, OP_PUSHDATA1 76..255, OP_PUSHDATA2 256..65535) — not with the library"""
    if s["raw"]:
        return s["raw"]
    out = b""
    for c in s["cmds"]:
        if isinstance(c, int):
            out += bytes([c])
        else:
            n = len(c)
            if n <= 75:
                out += bytes([n]) + c
            elif n <= 255:
                out += bytes([76, n]) + c
            elif n <= 65535:
                out += bytes([77]) + n.to_bytes(2, "little") + c
            else:
                out += bytes([78]) + n.to_bytes(4, "little") + c
    return out


def stx_tokens(t):
    """specification-side transaction: raw bytes only"""
    toks = [str(t["version"]), str(len(t["ins"]))]
    for i in t["ins"]:
        toks += [xb(i["prev_tx"][::-1]), str(i["prev_index"]), xb(raw_script(i["script_sig"])), str(i["sequence"])]
    toks.append(str(len(t["outs"])))
    for o in t["outs"]:
        toks += [str(o["amount"]), xb(raw_script(o["spk"]))]
    toks.append(str(t["locktime"]))
    return " ".join(toks)


def spent_tokens(t):
    toks = [str(len(t["ins"]))]
    for i in t["ins"]:
        toks += [str(i["value"]), xb(raw_script(i["spk"]))]
    return " ".join(toks)
