"""
C12 — taproot output keys commit to the script tree; control blocks.  Correspondence between the
Lean model (lean/Buidl/Model/Taproot.lean, EC.lean, Script.lean; driver drv_c12) and buidl/taproot.py,
pecc.py, witness.py, phash.py, plus the property predicates evaluated directly on the implementation
(tweak formula, private/public tweak agreement, sibling-order independence, control-block round trip
and key/parity reproduction for every leaf, rejection of every single-byte alteration).

Structure as harness/c19.py: impl_line / PREDICATES / run / replay.
"""
import contextlib
import hashlib
import io
import itertools

from harness.common import REJECT, xb, unx, blist, batch_parallel, pmap

PROPERTY = "C12"
DRIVERS = ["drv_c12"]
ANCHORS = [
    ("buidl/taproot.py", "TapLeaf.__init__"), ("buidl/taproot.py", "TapLeaf.__eq__"), ("buidl/taproot.py", "TapLeaf.hash"),
    ("buidl/taproot.py", "TapLeaf.leaves"), ("buidl/taproot.py", "TapLeaf.path_hashes"),
    ("buidl/taproot.py", "TapLeaf.external_pubkey"), ("buidl/taproot.py", "TapLeaf.control_block"),
    ("buidl/taproot.py", "TapBranch.__init__"), ("buidl/taproot.py", "TapBranch.hash"), ("buidl/taproot.py", "TapBranch.leaves"),
    ("buidl/taproot.py", "TapBranch.path_hashes"), ("buidl/taproot.py", "TapBranch.external_pubkey"),
    ("buidl/taproot.py", "TapBranch.control_block"), ("buidl/taproot.py", "TapBranch.combine"),
    ("buidl/taproot.py", "ControlBlock.__init__"), ("buidl/taproot.py", "ControlBlock.__eq__"),
    ("buidl/taproot.py", "ControlBlock.merkle_root"), ("buidl/taproot.py", "ControlBlock.external_pubkey"),
    ("buidl/taproot.py", "ControlBlock.serialize"), ("buidl/taproot.py", "ControlBlock.parse"),
    ("buidl/taproot.py", "P2PKTapScript.__init__"), ("buidl/taproot.py", "locktime_commands"),
    ("buidl/taproot.py", "sequence_commands"),
    ("buidl/pecc.py", "S256Point.even_point"), ("buidl/pecc.py", "S256Point.tweak"), ("buidl/pecc.py", "S256Point.tweaked_key"),
    ("buidl/pecc.py", "S256Point.p2tr_script"), ("buidl/pecc.py", "S256Point.xonly"), ("buidl/pecc.py", "S256Point.parse_xonly"),
    ("buidl/pecc.py", "S256Point.__add__"), ("buidl/pecc.py", "S256Point.__rmul__"),
    ("buidl/pecc.py", "PrivateKey.__init__"), ("buidl/pecc.py", "PrivateKey.even_secret"), ("buidl/pecc.py", "PrivateKey.tweaked_key"),
    ("buidl/script.py", "P2TRScriptPubKey.__init__"), ("buidl/script.py", "Script.__eq__"),
    ("buidl/witness.py", "Witness.has_annex"), ("buidl/witness.py", "Witness.control_block"),
    ("buidl/witness.py", "Witness.tap_script"), ("buidl/witness.py", "Witness.tap_leaf"),
    ("buidl/phash.py", "tagged_hash"), ("buidl/phash.py", "hash_tapleaf"), ("buidl/phash.py", "hash_tapbranch"),
    ("buidl/phash.py", "hash_taptweak"),
    ("buidl/op.py", "encode_minimal_num"), ("buidl/op.py", "encode_num"), ("buidl/op.py", "number_to_op_code"),
    ("buidl/helper.py", "int_to_byte"),
]
RULE = ("cases come from one PRNG seeded by VERIF_SEED plus fixed catalogues: internal keys from a pool of private keys "
        "with both Y parities (counted as key:even / key:odd) and x-only parsed keys; binary tree shapes with 1..8 leaves "
        "(quick: all shapes up to 4 leaves and a sample of larger ones; thorough: all 626 shapes), leaf versions "
        "0xc0 and other even values (odd and > 255 values as out-of-domain cases), leaf scripts built from commands "
        "(P2PK tapscripts, pushes across the 75/76/255/256/520/521 boundaries, empty script) and parsed from raw bytes; "
        "every leaf of every tree; every single-byte alteration of sampled control blocks and leaf scripts; control "
        "block byte strings of every length class (0, 1, 32, 33, 34, 64, 65, 33+32m, 33+32*128, 33+32*129). A case is "
        "non-trivial when it involves at least one hash or curve operation; distinct = distinct request lines / predicate inputs. "
        "Object-reuse histories: ONE TapBranch/TapLeaf object is used with 2-3 internal keys of mixed parity in turn (and the "
        "first one again), every query (hash, leaves, external_pubkey, control_block for every leaf with the tree's own and "
        "with separately built equal leaf objects, serialize, parse, merkle_root / external_pubkey on the parsed block, "
        "p2tr script and address) is issued at least twice, objects obtained under earlier keys are queried again after the "
        "key has changed; every answer is compared with the model evaluated on the CURRENT arguments, and the parsed block "
        "must recompute the output key and parity that freshly built objects give for the current key")
CLAUSES = {
    "output key = even(P) + H_TapTweak(x(P) || root) * G": "proved (tweaked_key_formula, tweaked_key_infinity, "
        "external_pubkey_formula, even_point_even)",
    "tweaked private key is the discrete log of the tweaked public key":
        "proved (even_secret_point, priv_tweaked_key_point, priv_tweaked_key_none_iff) — instances of the `_relGroup` "
        "lemmas of Buidl.Proofs.TaprootRel with GroupLaw discharged by Buidl.Proofs.TaprootGroup from the secp256k1 "
        "development of C03",
    "Merkle root independent of sibling order": "proved (branch_hash_comm, tree_hash_swap)",
    "control block of every leaf recomputes root, key and parity":
        "proved (control_block_exists, control_block_merkle_root, control_block_external_pubkey, coherent_of_no_raw) "
        "for every tree and leaf, by induction on the tree",
    "control block parses back identically": "proved (cb_roundtrip, cb_roundtrip_key, cb_serialize_parse, cb_parse_fields) "
        "for at most 128 hashes of 32 bytes",
    "lengths other than 33 + 32m (m <= 128) rejected": "proved (cb_parse_length)",
    "altered control block or leaf script is rejected or does not reproduce key and parity":
        "proved as collision extraction relative to the hashes (opening_sound, opening_is_leaf, tamper_script_collision, "
        "tamper_control_block_collision): an accepted (control block, script) is a genuine opening of a leaf occurrence of "
        "the committed tree or exhibits a collision of H_TapLeaf / H_TapBranch / between them / of the tweak map; a byte "
        "string other than the library's block accepted with the same script exhibits a collision",
    "object state": "proved (leaves_memo_transparent, leaves_memo_history): the `_leaves` memo of TapBranch — the only cache in "
        "taproot.py — modelled as explicit state (MTree) is transparent under its invariant, which fresh objects satisfy; that "
        "nothing else is kept on tree / control-block objects is checked by the object-reuse histories",
    "P2TR script, witness accessors, TapBranch.combine, locktime/sequence commands": "model tied to the code by correspondence",
}
TRUSTED = ["the tagged hashes are arbitrary functions in every theorem (fields of `Hashes`); the driver instantiates them "
           "with Buidl.Model.Hash.SHA256 and the tag strings re-extracted from buidl/phash.py (checked against hashlib by "
           "harness/hash_selftest.py and by every case of this run)",
           "curve arithmetic of the driver is Buidl.Model.EC (checked against buidl/pecc.py by this run and by C03)"]
ASSUMPTIONS = ["H_TapLeaf and H_TapBranch return 32-byte strings — hypothesis of the tamper theorems (the control block "
               "layout fixes 32-byte path elements)",
               "theorems about private keys and about re-parsed internal keys quantify over points k*G (every key the "
               "library derives from a secret): Mathlib has no Hasse bound, so membership of arbitrary curve points in "
               "<G> is not available",
               "the tweak H_TapTweak(..) = -even_secret mod N (tweaked key at infinity) is an explicit Option-none case "
               "(priv_tweaked_key_none_iff)",
               "tree hypotheses of tamper_control_block_collision: leaves equal under TapLeaf.__eq__ hash alike (true for "
               "scripts built from commands: Script.__eq__ ignores the `raw` attribute), pairwise different leaf "
               "preimages, no second leaf with the same script bytes under another version"]


class UnknownOp(Exception):
    pass


def par_batch(driver, lines, workers=16):
    """like common.batch_parallel, but splits small batches too: a request here costs up to a second of curve
    arithmetic in the driver, so even a few dozen lines are worth several driver processes (order preserved)"""
    lines = list(lines)
    if len(lines) < 2 or workers <= 1:
        return driver.batch(lines)
    from concurrent.futures import ThreadPoolExecutor
    k = min(workers, len(lines))
    parts = [lines[i::k] for i in range(k)]          # interleaved: neighbouring (similar-cost) lines are spread out
    with ThreadPoolExecutor(max_workers=k) as ex:
        outs = list(ex.map(driver.batch, parts))
    res = [None] * len(lines)
    for i, o in enumerate(outs):
        res[i::k] = o
    return res


N = 0xFFFFFFFFFFFFFFFFFFFFFFFFFFFFFFFEBAAEDCE6AF48A03BBFD25E8CD0364141


def rbytes(rng, n):
    return rng.getrandbits(8 * n).to_bytes(n, "little") if n else b""


# --------------------------------------------------------------------------------- token codecs (harness <-> both sides)
def tok_pt(p):
    return "inf" if p.x is None else f"pt {p.x.num} {p.y.num}"


def tok_pt_par(p):
    return "inf" if p.x is None else f"pt {p.x.num} {p.y.num} {p.parity}"


def tok_cmds(cmds):
    return " ".join([str(len(cmds))] + [f"o{c}" if isinstance(c, int) else xb(c) for c in cmds])


def tok_script(spec):
    """spec: ("C", [cmds]) | ("R", raw)"""
    return "C " + tok_cmds(spec[1]) if spec[0] == "C" else "R " + xb(spec[1])


def tok_leaf(leaf):
    """leaf spec: (version, script spec)"""
    return f"{leaf[0]} {tok_script(leaf[1])}"


def tok_tree(t):
    """tree spec: ("L", leafspec) | ("B", l, r)"""
    return "L " + tok_leaf(t[1]) if t[0] == "L" else f"B {tok_tree(t[1])} {tok_tree(t[2])}"


def fmt_script(s):
    return tok_cmds(s.commands) + " " + ("raw " + xb(s.raw) if s.raw is not None else "noraw")


def fmt_leaf(l):
    return f"{l.tapleaf_version} {fmt_script(l.tap_script)}"


def fmt_cb(cb):
    return f"{cb.tapleaf_version} {cb.parity} {tok_pt(cb.internal_pubkey)} {blist(cb.hashes)}"


class Toks:
    def __init__(self, toks):
        self.t, self.i = toks, 0

    def next(self):
        v = self.t[self.i]
        self.i += 1
        return v

    def done(self):
        if self.i != len(self.t):
            raise UnknownOp("trailing tokens")

    def point(self):
        from buidl.ecc import S256Point
        a = self.next()
        if a == "inf":
            return S256Point(None, None)
        if a != "pt":
            raise UnknownOp("point")
        x, y = int(self.next()), int(self.next())
        return S256Point(x, y)

    def script(self):
        from buidl.script import Script
        k = self.next()
        if k == "C":
            n = int(self.next())
            cmds = []
            for _ in range(n):
                c = self.next()
                cmds.append(int(c[1:]) if c[0] == "o" else unx(c))
            return Script(cmds)
        if k == "R":
            with contextlib.redirect_stdout(io.StringIO()):
                return Script.parse(raw=unx(self.next()))
        raise UnknownOp("script")

    def leaf(self):
        from buidl.taproot import TapLeaf
        v = int(self.next())
        return TapLeaf(self.script(), v)

    def tree(self):
        from buidl.taproot import TapBranch
        k = self.next()
        if k == "L":
            return self.leaf()
        if k == "B":
            l = self.tree()
            r = self.tree()
            return TapBranch(l, r)
        raise UnknownOp("tree")

    def optleaf(self):
        k = self.next()
        if k == "-":
            return None
        return self.leaf()

    def optnat(self):
        k = self.next()
        return None if k == "-" else int(k)

    def bytes_list(self):
        n = int(self.next())
        return [unx(self.next()) for _ in range(n)]


# --------------------------------------------------------------------------------- implementation side
def _impl(t):
    from buidl.ecc import PrivateKey
    from buidl.taproot import ControlBlock, P2PKTapScript, locktime_commands, sequence_commands
    from buidl.timelock import Locktime, Sequence
    from buidl.witness import Witness

    op, T = t[0], Toks(t[1:])
    if op == "leaf_hash":
        l = T.leaf(); T.done()
        return xb(l.hash())
    if op == "tree_hash":
        tr = T.tree(); T.done()
        return xb(tr.hash())
    if op == "tree_leaves":
        tr = T.tree(); T.done()
        ls = tr.leaves()
        return " ".join([str(len(ls))] + [fmt_leaf(l) for l in ls])
    if op == "path_hashes":
        tr = T.tree(); l = T.leaf(); T.done()
        p = tr.path_hashes(l)
        return REJECT if p is None else blist(p)
    if op == "tweak":
        p = T.point(); root = unx(T.next()); T.done()
        return xb(p.tweak(root))
    if op == "tweaked_key":
        p = T.point(); root = unx(T.next()); T.done()
        return tok_pt_par(p.tweaked_key(root))
    if op == "even_point":
        p = T.point(); T.done()
        return tok_pt(p.even_point())
    if op == "even_secret":
        return str(PrivateKey(int(T.next())).even_secret())
    if op == "priv_tweaked":
        d = int(T.next()); root = unx(T.next()); T.done()
        k = PrivateKey(d).tweaked_key(root)
        return f"{k.secret} {tok_pt(k.point)}"
    if op == "external_pubkey":
        tr = T.tree(); p = T.point(); T.done()
        return tok_pt_par(tr.external_pubkey(p))
    if op == "control_block":
        tr = T.tree(); p = T.point(); l = T.optleaf(); T.done()
        cb = tr.control_block(p, l)
        if cb is None:
            return REJECT
        try:
            ser = xb(cb.serialize())
        except Exception:
            ser = REJECT
        return f"{fmt_cb(cb)} {ser}"
    if op == "cb_parse":
        return fmt_cb(ControlBlock.parse(unx(T.next())))
    if op == "cb_ser":
        v, par = int(T.next()), int(T.next())
        p = T.point(); hs = T.bytes_list(); T.done()
        return xb(ControlBlock(v, par, p, hs).serialize())
    if op == "cb_root":
        b = unx(T.next()); s = T.script(); T.done()
        return xb(ControlBlock.parse(b).merkle_root(s))
    if op == "cb_external":
        b = unx(T.next()); s = T.script(); T.done()
        cb = ControlBlock.parse(b)
        q = cb.external_pubkey(s)
        return f"{tok_pt(q)} {q.parity} {cb.parity}"
    if op == "cb_accepts":
        b = unx(T.next()); s = T.script(); qx = unx(T.next()); T.done()
        return "1" if accepts(b, s, qx) else REJECT
    if op == "cb_external_obj":
        v, par = int(T.next()), int(T.next())
        p = T.point(); hs = T.bytes_list(); s = T.script(); T.done()
        q = ControlBlock(v, par, p, hs).external_pubkey(s)
        return f"{tok_pt(q)} {q.parity}"
    if op == "p2tr":
        p = T.point(); root = unx(T.next()); T.done()
        return xb(p.p2tr_script(root).raw_serialize())
    if op == "p2pk_tap":
        p = T.point(); T.done()
        return xb(P2PKTapScript(p).raw_serialize())
    if op == "timelock_cmds":
        l, s = T.optnat(), T.optnat(); T.done()
        if l is not None and s is not None:
            return REJECT   # the TapScript constructors raise ValueError before building either
        if l is not None:
            return tok_cmds(locktime_commands(Locktime(l)))
        if s is not None:
            return tok_cmds(sequence_commands(Sequence(s)))
        return tok_cmds([])
    if op == "witness_cb":
        items = T.bytes_list(); T.done()
        return fmt_cb(Witness(items).control_block())
    if op == "witness_leaf":
        items = T.bytes_list(); T.done()
        with contextlib.redirect_stdout(io.StringIO()):
            l = Witness(items).tap_leaf()
        try:
            h = xb(l.hash())
        except Exception:
            h = REJECT
        return f"{fmt_leaf(l)} {h}"
    raise UnknownOp(op)


def impl_line(line):
    t = line.split(" ")
    try:
        return _impl(t)
    except UnknownOp:
        raise
    except Exception:
        return REJECT


# --------------------------------------------------------------------------------- direct predicates
def tagged(tag, msg):
    th = hashlib.sha256(tag).digest()
    return hashlib.sha256(th + th + msg).digest()


def build_tree(spec):
    from buidl.script import Script
    from buidl.taproot import TapBranch, TapLeaf
    if spec[0] == "L":
        v, (kind, body) = spec[1]
        if kind == "C":
            s = Script(list(body))
        else:
            with contextlib.redirect_stdout(io.StringIO()):
                s = Script.parse(raw=body)
        return TapLeaf(s, v)
    return TapBranch(build_tree(spec[1]), build_tree(spec[2]))


def build_point(c):
    from buidl.ecc import S256Point
    return S256Point(c["px"], c["py"])


def p_tweak_formula(c):
    """Q = even(P) + int(H_TapTweak(x(P) || root)) * G, the hash recomputed with hashlib"""
    from buidl.ecc import G
    p, root = build_point(c), unx(c["root"])
    q = p.tweaked_key(root)
    t = int.from_bytes(tagged(b"TapTweak", p.x.num.to_bytes(32, "big") + root), "big")
    even = p if p.y.num % 2 == 0 else (N - 1) * p
    want = even + (t % N) * G
    if q != want:
        return False, tok_pt(q), tok_pt(want)
    # the secondary entry points that take the tweak itself (tweaked_key(tweak=…), p2tr_script(tweak=…)) must give
    # the same output key — the internal key may have odd Y (PrivateKey(d).point), BIP341 lifts it first
    tw = tagged(b"TapTweak", p.x.num.to_bytes(32, "big") + root)
    q2 = p.tweaked_key(tweak=tw)
    if q2 != want:
        return False, "tweaked_key(tweak=): " + tok_pt(q2), tok_pt(want)
    spk = [c_ for c_ in p.p2tr_script(tweak=tw).commands]
    want_spk = [0x51, want.x.num.to_bytes(32, "big")]
    return spk == want_spk, "p2tr_script(tweak=): " + repr(spk), repr(want_spk)


def p_priv_tweak(c):
    """PrivateKey(d).tweaked_key(root).point == PrivateKey(d).point.tweaked_key(root)"""
    from buidl.ecc import PrivateKey
    pk, root = PrivateKey(c["d"]), unx(c["root"])
    a = pk.tweaked_key(root).point
    b = pk.point.tweaked_key(root)
    return a == b, tok_pt(a), tok_pt(b)


def p_even_secret(c):
    from buidl.ecc import PrivateKey, G
    pk = PrivateKey(c["d"])
    a = pk.even_secret() * G
    b = pk.point.even_point()
    return a == b and b.parity == 0, tok_pt_par(a), tok_pt_par(b)


def p_sibling_order(c):
    from buidl.taproot import TapBranch
    l, r = build_tree(c["l"]), build_tree(c["r"])
    a, b = TapBranch(l, r).hash(), TapBranch(r, l).hash()
    return a == b, xb(a), xb(b)


def p_tree_leaves(c):
    """every leaf: control block parses back identically and recomputes the output key and parity"""
    from buidl.taproot import ControlBlock
    tree, p = build_tree(c["tree"]), build_point(c)
    q = tree.external_pubkey(p)
    root = tree.hash()
    want = [xb(q.xonly()), q.parity]
    for i, leaf in enumerate(tree.leaves()):
        cb = tree.control_block(p, leaf)
        if cb is None:
            return False, f"leaf {i}: control_block returned None", want
        ser = cb.serialize()
        back = ControlBlock.parse(ser)
        if back.serialize() != ser or back != cb or back.hashes != cb.hashes or back.parity != cb.parity \
                or back.tapleaf_version != cb.tapleaf_version or back.internal_pubkey.xonly() != p.xonly():
            return False, f"leaf {i}: parse(serialize(cb)) differs", xb(ser)
        if len(ser) != 33 + 32 * len(cb.hashes):
            return False, f"leaf {i}: serialized length {len(ser)}", 33 + 32 * len(cb.hashes)
        for blk in (cb, back):
            if blk.merkle_root(leaf.tap_script) != root:
                return False, f"leaf {i}: merkle root not reproduced", xb(root)
        e = back.external_pubkey(leaf.tap_script)
        got = [xb(e.xonly()), e.parity]
        if got != want or back.parity != q.parity or cb.parity != q.parity:
            return False, [f"leaf {i}"] + got + [back.parity], want
    return True, want, want


def accepts(cb_bytes, script, qx):
    """the acceptance test of the script-path branch of Script.evaluate: control block parses, recomputed key has the
    parity recorded in the block and the x coordinate of the output key"""
    from buidl.taproot import ControlBlock
    try:
        cb = ControlBlock.parse(cb_bytes)
        e = cb.external_pubkey(script)
        return e.parity == cb.parity and e.xonly() == qx
    except Exception:
        return False


def p_cb_alter(c):
    """a control block altered in one byte must not be accepted for the same script and output key"""
    tree = build_tree(("L", c["leaf"]))
    cbb, qx = unx(c["cb"]), unx(c["qx"])
    if c.get("check_original", False) and not accepts(cbb, tree.tap_script, qx):
        return False, "original control block not accepted", "accepted"
    bad = bytearray(cbb)
    bad[c["pos"]] ^= c["delta"]
    ok = not accepts(bytes(bad), tree.tap_script, qx)
    return ok, "accepted" if not ok else "refused", "refused"


def p_script_alter(c):
    """a leaf script altered in one byte (as it travels in the witness) must not be accepted with the original
    control block"""
    from buidl.script import Script
    cbb, qx = unx(c["cb"]), unx(c["qx"])
    raw = bytearray(unx(c["raw"]))
    raw[c["pos"]] ^= c["delta"]
    with contextlib.redirect_stdout(io.StringIO()):
        try:
            s = Script.parse(raw=bytes(raw))
        except Exception:
            return True, "refused", "refused"
        ok = not accepts(cbb, s, qx)
        if ok:
            # the same question on ONE live ControlBlock object that has already been asked about the genuine
            # script (and, second object, the other way round): the answer may not depend on earlier queries
            try:
                from buidl.taproot import ControlBlock
                good = Script.parse(raw=unx(c["raw"]))
                cb = ControlBlock.parse(cbb)
                e0 = cb.external_pubkey(good)
                first_ok = e0.parity == cb.parity and e0.xonly() == qx
                e1 = cb.external_pubkey(s)
                if first_ok and e1.parity == cb.parity and e1.xonly() == qx:
                    return False, "accepted on a control block object already used for the genuine script", "refused"
                cb2 = ControlBlock.parse(cbb)
                cb2.external_pubkey(s)
                e2 = cb2.external_pubkey(good)
                if first_ok and not (e2.parity == cb2.parity and e2.xonly() == qx):
                    return False, "genuine script refused after an altered one was asked on the same object", "accepted"
            except Exception:
                pass
    return ok, "accepted" if not ok else "refused", "refused"


def p_cb_length(c):
    """ControlBlock.parse refuses every length that is not 33 + 32m with 0 <= m <= 128"""
    from buidl.taproot import ControlBlock
    b = unx(c["b"])
    legal = len(b) >= 33 and (len(b) - 33) % 32 == 0 and (len(b) - 33) // 32 <= 128
    try:
        ControlBlock.parse(b)
        parsed = True
    except Exception:
        parsed = False
    if legal:
        return True, parsed, parsed   # a legal length may still fail on the x-only key
    return not parsed, parsed, False


# --------------------------------------------------------------------------------- object-reuse histories
def history_steps(rng, n_leaves, n_keys):
    """a sequence of queries on ONE tree object: the internal keys are visited in turn (and the first one again at the
    end), every query is issued at least twice, control blocks / parsed control blocks obtained under earlier keys are
    queried again after the key has changed, and the order inside a visit is shuffled"""
    steps = [["hash"], ["leaves"]]
    visits = list(range(n_keys)) + [0]
    seen = []
    for j in visits:
        block = [["ext", j], ["p2tr", j]]
        for i in rng.sample(range(n_leaves), n_leaves):
            block += [["cb", j, i, rng.randrange(2)], ["ser", j, i], ["parse", j, i], ["pcb_ext", j, i],
                      ["pcb_root", j, i], ["accepts", j, i]]
            if rng.random() < 0.5:
                block += [["pcb_ext", j, i], ["cb", j, i, rng.randrange(2)]]
        # queries on objects obtained under earlier keys, now that the tree has been used with another key
        for (pj, pi) in rng.sample(seen, min(len(seen), 2)):
            block += [["pcb_ext", pj, pi], ["ser", pj, pi], ["accepts", pj, pi]]
        block += [["ext", j], ["addr", j], ["hash"], ["path", rng.randrange(n_leaves)]]
        head, tail = block[:1], block[1:]
        # keep each object's producer before its consumers: shuffle only whole per-leaf groups
        steps += head + tail
        if rng.random() < 0.5:
            steps += [["ext", visits[0]], ["ext", j]]
        seen += [(j, i) for i in range(n_leaves)]
    return steps


def history_c12(case):
    """run the steps on persistent objects; returns [(kind, request line for the model, implementation answer)]"""
    from buidl.ecc import S256Point
    from buidl.script import address_to_script_pubkey
    from buidl.taproot import ControlBlock

    spec = case["tree"]
    tree = build_tree(spec)
    tt = tok_tree(spec)
    lspecs = leaves_of(spec)
    inner = tree.leaves()                                   # the leaf objects inside the tree
    fresh = [build_tree(("L", l)) for l in lspecs]          # equal leaves built separately
    keys = [S256Point(k[1], k[2]) for k in case["keys"]]
    ptoks = [f"pt {k[1]} {k[2]}" for k in case["keys"]]
    cbs, pcbs, qx = {}, {}, {}
    out = []

    def emit(kind, line, fn):
        try:
            with contextlib.redirect_stdout(io.StringIO()):
                a = fn()
        except Exception:
            a = REJECT
        out.append((kind, line, a))

    for st in case["steps"]:
        op = st[0]
        if op == "hash":
            emit("tree_hash", f"tree_hash {tt}", lambda: xb(tree.hash()))
        elif op == "leaves":
            emit("tree_leaves", f"tree_leaves {tt}",
                 lambda: " ".join([str(len(tree.leaves()))] + [fmt_leaf(l) for l in tree.leaves()]))
        elif op == "path":
            i = st[1]
            def f(i=i):
                pth = tree.path_hashes(inner[i])
                return REJECT if pth is None else blist(pth)
            emit("path_hashes", f"path_hashes {tt} {tok_leaf(lspecs[i])}", f)
        elif op == "ext":
            j = st[1]
            emit("external_pubkey", f"external_pubkey {tt} {ptoks[j]}", lambda j=j: tok_pt_par(tree.external_pubkey(keys[j])))
        elif op == "p2tr":
            j = st[1]
            root = tree.hash()
            emit("p2tr", f"p2tr {ptoks[j]} {xb(root)}", lambda j=j: xb(keys[j].p2tr_script(root).raw_serialize()))
        elif op == "addr":
            j = st[1]
            root = tree.hash()
            emit("p2tr_address", f"p2tr {ptoks[j]} {xb(root)}",
                 lambda j=j: xb(address_to_script_pubkey(keys[j].p2tr_address(root)).raw_serialize()))
        elif op == "cb":
            j, i, use_fresh = st[1], st[2], st[3]
            def f(j=j, i=i, use_fresh=use_fresh):
                cb = tree.control_block(keys[j], fresh[i] if use_fresh else inner[i])
                if cb is None:
                    return REJECT
                cbs[(j, i)] = cb
                return f"{fmt_cb(cb)} {xb(cb.serialize())}"
            emit("control_block", f"control_block {tt} {ptoks[j]} + {tok_leaf(lspecs[i])}", f)
        elif (st[1], st[2]) not in cbs:
            continue
        elif op == "ser":
            cb = cbs[(st[1], st[2])]
            emit("cb_ser", f"cb_ser {cb.tapleaf_version} {cb.parity} {tok_pt(cb.internal_pubkey)} {blist(cb.hashes)}",
                 lambda cb=cb: xb(cb.serialize()))
        elif op == "parse":
            b = cbs[(st[1], st[2])].serialize()
            def f(b=b, key=(st[1], st[2])):
                pcbs[key] = ControlBlock.parse(b)
                return fmt_cb(pcbs[key])
            emit("cb_parse", f"cb_parse {xb(b)}", f)
        elif (st[1], st[2]) not in pcbs:
            continue
        elif op == "pcb_ext":
            key = (st[1], st[2])
            b = cbs[key].serialize()
            def f(key=key):
                q = pcbs[key].external_pubkey(inner[key[1]].tap_script)
                return f"{tok_pt(q)} {q.parity} {pcbs[key].parity}"
            emit("cb_external", f"cb_external {xb(b)} {tok_script(lspecs[key[1]][1])}", f)
        elif op == "pcb_root":
            key = (st[1], st[2])
            b = cbs[key].serialize()
            emit("cb_root", f"cb_root {xb(b)} {tok_script(lspecs[key[1]][1])}",
                 lambda key=key: xb(pcbs[key].merkle_root(fresh[key[1]].tap_script)))
        elif op == "accepts":
            # direct predicate: the parsed block recomputes the output key and parity of the CURRENT internal key,
            # the expected key coming from freshly built objects (no shared state)
            key = (st[1], st[2])
            if st[1] not in qx:
                qx[st[1]] = build_tree(spec).external_pubkey(S256Point(case["keys"][st[1]][1], case["keys"][st[1]][2])).xonly()
            b = cbs[key].serialize()
            def f(key=key):
                e = pcbs[key].external_pubkey(inner[key[1]].tap_script)
                return "1" if (e.parity == pcbs[key].parity and e.xonly() == qx[key[0]]) else REJECT
            emit("cb_accepts", f"cb_accepts {xb(b)} {tok_script(lspecs[key[1]][1])} {xb(qx[st[1]])}", f)
    return out


def check_histories(ctx, drv, cases, run_one, label):
    """implementation answers from persistent objects against the model evaluated on the current arguments"""
    rec = ctx.rec
    outs = pmap(run_one, cases, workers=ctx.workers, chunksize=1)
    uniq = sorted({line for o in outs for _, line, _ in o})
    answers = dict(zip(uniq, par_batch(drv, uniq, workers=ctx.workers)))
    for case, o in zip(cases, outs):
        rec.count(f"{label}:histories")
        for step, (kind, line, im) in enumerate(o):
            m = answers[line]
            if rec.compare(f"{label}:{kind}", {"history": case, "step": step, "line": line}, im, m, determined=True,
                           key=f"{id(case)}:{step}:{line[:200]}"):
                rec.sample(f"{label}:{kind}", {"step": step, "request": line[:200], "answer": m[:200]}, limit=1)
            else:
                break    # later steps of a broken history are not informative


def replay_history(ctx, drv_name, case, run_one):
    hist = _untuple(case["history"])
    o = run_one(hist)
    step = case["step"]
    if step >= len(o):
        return False
    kind, line, im = o[step]
    return im != ctx.driver(drv_name).one(line)


def _untuple(x):
    if isinstance(x, list):
        return tuple(_untuple(y) for y in x)
    if isinstance(x, dict):
        return {k: _untuple(v) for k, v in x.items()}
    if isinstance(x, str) and x.startswith("x") and _ishex(x):
        return unx(x)
    return x


def varstr(b):
    n = len(b)
    if n < 0xFD:
        return bytes([n]) + b
    if n < 0x10000:
        return b"\xfd" + n.to_bytes(2, "little") + b
    return b"\xfe" + n.to_bytes(4, "little") + b


def bip341_digest_script_path_annex(tx, leaf_hash, annex):
    """BIP341 SigMsg for input 0 of a one-input transaction, SIGHASH_DEFAULT, script path (ext_flag 1) WITH annex
    (spend_type = 2 * 1 + 1, sha_annex), written from the BIP text with hashlib"""
    sha = lambda b: hashlib.sha256(b).digest()
    tx_in, = tx.tx_ins
    spk = tx_in._script_pubkey.raw_serialize()
    m = b"\x00"                                                      # hash_type
    m += tx.version.to_bytes(4, "little") + tx.locktime.to_bytes(4, "little")
    m += sha(tx_in.prev_tx[::-1] + tx_in.prev_index.to_bytes(4, "little"))
    m += sha(tx_in._value.to_bytes(8, "little"))
    m += sha(varstr(spk))
    m += sha(int(tx_in.sequence).to_bytes(4, "little"))
    m += sha(b"".join(o.amount.to_bytes(8, "little") + varstr(o.script_pubkey.raw_serialize()) for o in tx.tx_outs))
    m += bytes([3])                                                  # spend_type: ext_flag * 2 + annex present
    m += (0).to_bytes(4, "little")                                   # input index
    m += sha(varstr(annex))
    m += leaf_hash + b"\x00" + b"\xff\xff\xff\xff"                  # tapleaf hash, key_version, codesep_pos
    return tagged(b"TapSighash", b"\x00" + m)


def p_witness_annex(c):
    """script-path witnesses WITH an annex, for every leaf: control_block() / tap_script() pick items[-2] / items[-3],
    tap_leaf().hash() is H_TapLeaf(version from the control block's first byte & 0xFE || varstr(script)) recomputed
    with hashlib, the commitment check accepts, and (P2PK leaves) a spend signed over the BIP341 digest with annex —
    computed here from the BIP text — passes Tx.verify_input"""
    from buidl.ecc import PrivateKey
    from buidl.script import P2TRScriptPubKey
    from buidl.tx import Tx, TxIn, TxOut
    from buidl.witness import Witness
    tree, p = build_tree(c["tree"]), build_point(c)
    q = tree.external_pubkey(p)
    annex = unx(c["annex"])
    stack = [unx(x) for x in c["stack"]]
    for i, leaf in enumerate(tree.leaves()):
        cb = tree.control_block(p, leaf)
        cbb, raw = cb.serialize(), leaf.tap_script.raw_serialize()
        want_hash = tagged(b"TapLeaf", bytes([cbb[0] & 0xFE]) + varstr(raw))
        for items in (stack + [raw, cbb, annex], stack + [raw, cbb]):
            with contextlib.redirect_stdout(io.StringIO()):
                w = Witness(list(items))
                has = bool(w.has_annex())
                if has != (items[-1] is annex):
                    return False, f"leaf {i}: has_annex {has}", items[-1] is annex
                if w.control_block().serialize() != cbb:
                    return False, f"leaf {i}: control_block() did not pick the control block", xb(cbb)
                if w.tap_script().raw_serialize() != raw:
                    return False, f"leaf {i}: tap_script() did not pick the script", xb(raw)
                got = w.tap_leaf().hash()
                if got != want_hash:
                    return False, f"leaf {i} (annex {has}): tap_leaf().hash() = {got.hex()}", xb(want_hash)
                if not accepts(cbb, w.tap_script(), q.xonly()):
                    return False, f"leaf {i}: commitment check refuses", "accepted"
    # end to end: leaf 0 is `<key> OP_CHECKSIG` for the secret c["d"]
    if c.get("d"):
        priv = PrivateKey(c["d"])
        leaf = tree.leaves()[0]
        cb = tree.control_block(p, leaf)
        raw = leaf.tap_script.raw_serialize()
        tx_in = TxIn(bytes(range(32)), 0)
        tx_in._value = 70000
        tx_in._script_pubkey = p.p2tr_script(tree.hash())
        tx = Tx(1, [tx_in], [TxOut(60000, P2TRScriptPubKey(bytes(range(32))))], 0, network="signet", segwit=True)
        digest = bip341_digest_script_path_annex(tx, tagged(b"TapLeaf", bytes([cb.serialize()[0] & 0xFE]) + varstr(raw)), annex)
        sig = priv.sign_schnorr(digest).serialize()
        tx_in.witness = Witness([sig, raw, cb.serialize(), annex])
        with contextlib.redirect_stdout(io.StringIO()):
            try:
                ok = bool(tx.verify_input(0))
            except Exception as e:
                return False, "verify_input raised " + type(e).__name__, True
        if not ok:
            return False, "a spend signed over the BIP341 digest with annex does not verify", True
    return True, len(tree.leaves()), len(tree.leaves())


PREDICATES = {"witness_annex": p_witness_annex, "tweak_formula": p_tweak_formula, "priv_tweak": p_priv_tweak, "even_secret": p_even_secret,
              "sibling_order": p_sibling_order, "tree_leaves": p_tree_leaves, "cb_alter": p_cb_alter,
              "script_alter": p_script_alter, "cb_length": p_cb_length}


def eval_pred(kc):
    kind, case = kc
    try:
        return PREDICATES[kind](case)
    except Exception as e:
        return False, "raised " + type(e).__name__ + ": " + str(e)[:100], "no exception"


# --------------------------------------------------------------------------------- generation
def shapes(n):
    """all binary tree shapes with n leaves, as nested tuples of None"""
    if n == 1:
        return [None]
    res = []
    for k in range(1, n):
        for l in shapes(k):
            for r in shapes(n - k):
                res.append((l, r))
    return res


def random_shape(rng, n):
    if n == 1:
        return None
    k = rng.randrange(1, n)
    return (random_shape(rng, k), random_shape(rng, n - k))


def depth(shape):
    return 0 if shape is None else 1 + max(depth(shape[0]), depth(shape[1]))


def random_script(rng):
    """a leaf script as a command list"""
    r = rng.random()
    if r < 0.35:
        return [rbytes(rng, 32), 0xAC]                                  # P2PK tapscript
    if r < 0.5:
        n = rng.randrange(2, 4)
        cmds = [rbytes(rng, 32), 0xAC]
        for _ in range(n - 1):
            cmds += [rbytes(rng, 32), 0xBA]
        return cmds + [0x50 + rng.randrange(1, n + 1), 0x87]            # multisig tapscript
    if r < 0.6:
        return [rng.choice([0x51, 0x00, 0x6A, 0xB1, 0xFF])] * rng.randrange(0, 3)
    if r < 0.8:
        ln = rng.choice([0, 1, 2, 20, 33, 74, 75, 76, 77, 255, 256, 257, 519, 520])
        return [rbytes(rng, ln), 0x75, 0x51]
    return [rng.choice([rbytes(rng, rng.randrange(0, 40)), rng.randrange(0, 256)]) for _ in range(rng.randrange(0, 6))]


def fill(rng, shape, leaves):
    if shape is None:
        return ("L", leaves.pop())
    l = fill(rng, shape[0], leaves)
    r = fill(rng, shape[1], leaves)
    return ("B", l, r)


def leaves_of(spec):
    return [spec[1]] if spec[0] == "L" else leaves_of(spec[1]) + leaves_of(spec[2])


def count_leaves(shape):
    return 1 if shape is None else count_leaves(shape[0]) + count_leaves(shape[1])


def _key_of(d):
    from buidl.ecc import PrivateKey
    p = PrivateKey(d).point
    return (d, p.x.num, p.y.num)


def _cb_of(a):
    spec, k, leaf = a
    from buidl.ecc import S256Point
    tree = build_tree(spec)
    p = S256Point(k[1], k[2])
    lf = build_tree(("L", leaf))
    cb = tree.control_block(p, lf)
    return cb.serialize(), tree.external_pubkey(p).xonly(), lf.tap_script.raw_serialize()


def make_keys(rng, n):
    """private keys with their points; both parities guaranteed"""
    from buidl.ecc import PrivateKey
    ds = [1, 2, 3, N - 1, N - 2] + [rng.randrange(1, N) for _ in range(n)]
    out = pmap(_key_of, ds)
    assert any(y % 2 == 0 for _, _, y in out) and any(y % 2 == 1 for _, _, y in out)
    return out


def run(ctx):
    rng, rec = ctx.rng, ctx.rec
    drv = ctx.driver("drv_c12")
    lines = []   # (kind, line, determined)
    preds = []   # (kind, case)

    def add(kind, line, determined=True):
        lines.append((kind, line, determined))

    def flush():
        """run model and implementation on what has been generated so far; False once the property has failed
        (the search for a failing input ends there: the remaining, more expensive sweeps are skipped)"""
        if lines:
            from concurrent.futures import ThreadPoolExecutor
            with ThreadPoolExecutor(max_workers=1) as ex:      # the model (native driver) runs while the real code does
                fut = ex.submit(par_batch, drv, [l for _, l, _ in lines], ctx.workers)
                impl = pmap(impl_line, [l for _, l, _ in lines], workers=ctx.workers, chunksize=4)
                model = fut.result()
            for (kind, line, det), m, im in zip(lines, model, impl):
                if rec.compare(kind, {"line": line}, im, m, determined=det, key=line[:300]):
                    rec.sample(kind, {"request": line[:300], "answer": m[:300]}, limit=1)
                if im == REJECT:
                    rec.count(kind + ":reject")
                if kind == "control_block" and im != REJECT:
                    rec.count(f"cb:hashes={im.split(' ')[5] if im.split(' ')[2] == 'pt' else '?'}")
                    rec.count(f"cb:parity={im.split(' ')[1]}")
        if preds:
            results = pmap(eval_pred, preds, workers=ctx.workers, chunksize=1)
            for (kind, case), (ok, got, want) in zip(preds, results):
                if ok:
                    rec.ok(kind, repr(case)[:300])
                    rec.sample(kind, case, limit=1)
                else:
                    rec.violation(kind, dict(case, pred=kind), got, want,
                                  note=case.get("why", "") if isinstance(case, dict) else "")
        lines.clear()
        preds.clear()
        return not (rec.violations or rec.disagreements)

    keys = make_keys(rng, ctx.n(10, 40))
    evens = [k for k in keys if k[2] % 2 == 0]
    odds = [k for k in keys if k[2] % 2 == 1]

    def pick_key(i):
        pool = evens if i % 2 == 0 else odds
        return pool[rng.randrange(len(pool))]

    def ptok(k):
        return f"pt {k[1]} {k[2]}"

    # ---- tweaks, private keys
    roots = [b"", bytes(32), b"\xff" * 32, b"\x01", bytes(range(33))]
    for i in range(ctx.n(24, 200)):
        k = pick_key(i)
        root = roots[i] if i < len(roots) else rbytes(rng, rng.choice([32, 32, 32, 0, 31, 64]))
        rec.count("key:even" if k[2] % 2 == 0 else "key:odd")
        add("tweak", f"tweak {ptok(k)} {xb(root)}")
        add("tweaked_key", f"tweaked_key {ptok(k)} {xb(root)}")
        add("priv_tweaked", f"priv_tweaked {k[0]} {xb(root)}")
        add("even_secret", f"even_secret {k[0]}")
        add("p2tr", f"p2tr {ptok(k)} {xb(root)}")
        preds.append(("tweak_formula", {"px": k[1], "py": k[2], "root": xb(root)}))
        preds.append(("priv_tweak", {"d": k[0], "root": xb(root)}))
        if i < 12:
            preds.append(("even_secret", {"d": k[0]}))
            add("even_point", f"even_point {ptok(k)}")
            add("p2pk_tap", f"p2pk_tap {ptok(k)}")
    for d in (0, N, N + 1, 2 ** 256):
        add("priv_range", f"priv_tweaked {d} x")
        add("priv_range", f"even_secret {d}")
    add("inf", "tweaked_key inf x")
    add("inf", "even_point inf")
    add("inf", "tweak inf x" + "00" * 32)
    add("inf", "p2pk_tap inf")
    for l, s in [(None, None), (0, None), (1, None), (16, None), (17, None), (127, None), (128, None), (255, None),
                 (256, None), (500000000, None), (2 ** 32 - 1, None), (None, 0), (None, 5), (None, 16), (None, 17),
                 (None, 0x400000 | 7), (None, 2 ** 32 - 1), (3, 4)] + \
                [(rng.getrandbits(rng.choice([8, 16, 24, 32])), None) for _ in range(ctx.n(20))] + \
                [(None, rng.getrandbits(rng.choice([8, 16, 24, 32]))) for _ in range(ctx.n(20))]:
        add("timelock_cmds", f"timelock_cmds {'-' if l is None else l} {'-' if s is None else s}")

    # ---- trees
    shape_list = []
    if ctx.thorough:
        for n in range(1, 9):
            shape_list += shapes(n)
    else:
        for n in range(1, 5):
            shape_list += shapes(n)
        for n in range(5, 9):
            allsh = shapes(n)
            shape_list += rng.sample(allsh, 8)
            shape_list += [random_shape(rng, n) for _ in range(8)]
        # the two extreme shapes with 8 leaves: a comb and the balanced tree
        comb = None
        for _ in range(7):
            comb = (comb, None)
        shape_list.append(comb)
        shape_list.append((((None, None), (None, None)), ((None, None), (None, None))))
    versions = [0xC0] * 6 + [0xC2, 0x00, 0xFE, 0x66]
    trees = []
    for i, sh in enumerate(shape_list):
        n = count_leaves(sh)
        ver = versions[rng.randrange(len(versions))]
        leaves = [(ver if rng.random() < 0.8 else rng.choice(versions), ("C", random_script(rng))) for _ in range(n)]
        if n >= 2 and rng.random() < 0.06:
            leaves[0] = leaves[-1]                 # the same leaf twice
        spec = fill(rng, sh, list(leaves))
        k = pick_key(i)
        trees.append((spec, k))
        rec.count(f"tree:leaves={n}")
        rec.count(f"tree:depth={depth(sh)}")
        rec.count("treekey:even" if k[2] % 2 == 0 else "treekey:odd")
    rng.shuffle(trees)
    for ti, (spec, k) in enumerate(trees):
        if ti == 20:
            if not flush():     # a first slice of every kind of case: stop here when the property already fails
                rec.note("stopped after the first slice: failing input found")
                return
            # object-reuse histories: one tree object, several internal keys of mixed parity, repeated queries
            hcases = []
            for hi in range(ctx.n(10, 60)):
                n = 1 + hi % 4
                hspec = fill(rng, random_shape(rng, n), [(rng.choice([0xC0, 0xC0, 0xC2]), ("C", random_script(rng)))
                                                         for _ in range(n)])
                if any(len(tok_leaf(l)) > 300 for l in leaves_of(hspec)):
                    continue
                nk = 2 + hi % 2
                hkeys = [pick_key(hi + a) for a in range(nk)]     # consecutive indices alternate the parity
                hcases.append({"tree": hspec, "keys": hkeys, "steps": history_steps(rng, n, nk)})
                rec.count(f"history:keys={nk}")
                rec.count("history:parities=" + "".join(str(k[2] % 2) for k in hkeys))
            # script-path witnesses with an annex, every leaf; leaf 0 a P2PK tapscript spent end to end
            for wi in range(ctx.n(8, 60)):
                n = 1 + wi % 4
                wk = keys[rng.randrange(len(keys))]
                wleaves = [(rng.choice([0xC0, 0xC0, 0xC2]), ("C", random_script(rng))) for _ in range(n)]
                wleaves[-1] = (0xC0, ("C", [wk[1].to_bytes(32, "big"), 0xAC]))      # popped first by fill(): leaf 0
                wspec = fill(rng, random_shape(rng, n), wleaves)
                ik = pick_key(wi)
                preds.append(("witness_annex", {"tree": wspec, "px": ik[1], "py": ik[2],
                                                "d": wk[0] if leaves_of(wspec)[0][1][1][0] == wk[1].to_bytes(32, "big") else 0,
                                                "annex": xb(b"\x50" + rbytes(rng, rng.randrange(0, 9))),
                                                "stack": [xb(rbytes(rng, rng.choice([0, 64])))] * (wi % 2)}))
            if not flush():
                rec.note("stopped after the annex witnesses: failing input found")
                return
            check_histories(ctx, drv, hcases, history_c12, "history")
            if rec.violations or rec.disagreements:
                rec.note("stopped after the object-reuse histories: failing input found")
                return
        tt = tok_tree(spec)
        add("tree_hash", f"tree_hash {tt}")
        add("external_pubkey", f"external_pubkey {tt} {ptok(k)}")
        add("tree_leaves", f"tree_leaves {tt}")
        for leaf in leaves_of(spec):
            add("control_block", f"control_block {tt} {ptok(k)} + {tok_leaf(leaf)}")
            add("path_hashes", f"path_hashes {tt} {tok_leaf(leaf)}")
        stranger = (0xC0, ("C", [rbytes(rng, 32), 0xAC]))
        add("control_block:stranger", f"control_block {tt} {ptok(k)} + {tok_leaf(stranger)}")
        add("control_block:none", f"control_block {tt} {ptok(k)} -")
        preds.append(("tree_leaves", {"tree": spec, "px": k[1], "py": k[2]}))
        if spec[0] == "B":
            preds.append(("sibling_order", {"l": spec[1], "r": spec[2]}))

    # ---- out-of-domain leaves (odd / large versions, unserialisable scripts, scripts carrying `raw`)
    odd_leaves = [(0xC1, ("C", [0x51])), (0x01, ("C", [rbytes(rng, 32), 0xAC])), (255, ("C", [0x51])),
                  (256, ("C", [0x51])), (1000, ("C", [])), (0xC0, ("C", [rbytes(rng, 521)])),
                  (0xC0, ("C", [256])), (0xC0, ("R", bytes([5, 1, 2]))), (0xC0, ("R", bytes([0x4C]))),
                  (0xC0, ("R", bytes([0x4D, 5]))), (0xC0, ("R", b"")), (0xC0, ("R", bytes([0x4C, 1, 0xAA, 0x51]))),
                  (0xC0, ("C", []))]
    k = pick_key(1)
    for leaf in odd_leaves:
        add("leaf_hash:ood", f"leaf_hash {tok_leaf(leaf)}", determined=False)
        spec = ("B", ("L", leaf), ("L", (0xC0, ("C", [0x51, 0x51]))))
        add("tree_hash:ood", f"tree_hash {tok_tree(spec)}", determined=False)
        add("control_block:ood", f"control_block {tok_tree(spec)} {ptok(k)} + {tok_leaf(leaf)}", determined=False)
        add("control_block:ood", f"control_block L {tok_leaf(leaf)} {ptok(k)} -", determined=False)
    # leaves equal under TapLeaf.__eq__ (commands) but with different `raw`
    twin_a, twin_b = (0xC0, ("R", bytes([5, 1, 2]))), (0xC0, ("C", [bytes([1, 2])]))
    spec = ("B", ("L", twin_a), ("L", twin_b))
    for leaf in (twin_a, twin_b):
        add("control_block:ood", f"control_block {tok_tree(spec)} {ptok(k)} + {tok_leaf(leaf)}", determined=False)
        add("path_hashes:ood", f"path_hashes {tok_tree(spec)} {tok_leaf(leaf)}", determined=False)

    # ---- control block codec: lengths, object serialisation
    lens = [0, 1, 31, 32, 33, 34, 64, 65, 66, 96, 97, 98, 33 + 32 * 127, 33 + 32 * 128, 33 + 32 * 128 + 1, 33 + 32 * 129,
            33 + 32 * 128 - 1]
    lens += [rng.randrange(0, 400) for _ in range(ctx.n(40))] + [33 + 32 * rng.randrange(0, 12) for _ in range(ctx.n(30))]
    for i, ln in enumerate(lens):
        kk = pick_key(0)   # x-only bytes are those of an even key: always parseable
        body = rbytes(rng, ln)
        if ln >= 33 and i % 3 != 2:
            body = body[:1] + kk[1].to_bytes(32, "big") + body[33:]
        add("cb_parse", f"cb_parse {xb(body)}")
        preds.append(("cb_length", {"b": xb(body)}))
    add("cb_parse", "cb_parse x" + "c0" + "00" * 32)           # x = 0 parses as the point at infinity
    add("cb_parse", "cb_parse x" + "c1" + "ff" * 32)           # x >= p
    add("cb_parse", "cb_parse x" + "c0" + "00" * 31 + "05")    # x = 5 is not on the curve
    add("cb_external", "cb_external x" + "c0" + "00" * 32 + " C 1 o81")   # infinity as internal key: refused later
    for i in range(ctx.n(30)):
        kk = pick_key(i)
        v = rng.choice([0xC0, 0xC0, 0xC2, 0, 0xFE, 0xC1, 0xFF, 256, 300])
        par = rng.choice([0, 1, 1, 2])
        hs = [rbytes(rng, rng.choice([32, 32, 32, 31, 0, 33])) for _ in range(rng.randrange(0, 4))]
        add("cb_ser", f"cb_ser {v} {par} {ptok(kk)} {blist(hs)}", determined=(v % 2 == 0 and v < 256 and par < 2))
        sc = ("C", random_script(rng))
        add("cb_external_obj", f"cb_external_obj {v} {par} {ptok(kk)} {blist(hs)} {tok_script(sc)}",
            determined=(v < 256))

    # ---- witness accessors
    for i in range(ctx.n(40)):
        kk = pick_key(i)
        m = rng.randrange(0, 4)
        cbb = bytes([rng.choice([0xC0, 0xC1, 0xC2])]) + kk[1].to_bytes(32, "big") + rbytes(rng, 32 * m)
        raw = rng.choice([bytes([0x20]) + rbytes(rng, 32) + b"\xac", b"\x51", b"", bytes([0x4C, 2, 1, 2]), bytes([5, 1, 2])])
        annex = bytes([0x50]) + rbytes(rng, rng.randrange(0, 5))
        stack = [rbytes(rng, rng.choice([0, 64, 65])) for _ in range(rng.randrange(0, 3))]
        for items in (stack + [raw, cbb], stack + [raw, cbb, annex], [cbb], [raw, cbb, b""], [], [annex], [cbb, annex]):
            add("witness_cb", f"witness_cb {blist(items)}")
            add("witness_leaf", f"witness_leaf {blist(items)}")

    if not flush():
        rec.note("alteration sweeps skipped: failing input found")
        return

    # ---- alterations: every byte of sampled control blocks and of their leaf scripts
    alter_trees = [tk for tk in trees if all(l[0] % 2 == 0 for l in leaves_of(tk[0]))]
    rng.shuffle(alter_trees)
    alter_trees.sort(key=lambda tk: len(leaves_of(tk[0])) % 4)   # mix sizes
    budget = ctx.n(8, 100)
    specs = []
    for spec, k in alter_trees:
        ls = leaves_of(spec)
        leaf = ls[rng.randrange(len(ls))]
        if len(tok_leaf(leaf)) > 400:
            continue
        specs.append((spec, k, leaf))
        if len(specs) >= budget:
            break

    for (spec, k, leaf), (cbb, qx, raw) in zip(specs, pmap(_cb_of, specs, workers=ctx.workers, chunksize=1)):
        first = True
        for pos in range(len(cbb)):
            deltas = [1, 0x80, rng.randrange(1, 256)] if pos == 0 else [rng.choice([1, 0x80, rng.randrange(1, 256)])]
            for delta in deltas:
                case = {"leaf": leaf, "cb": xb(cbb), "qx": xb(qx), "pos": pos, "delta": delta, "check_original": first,
                        "why": f"control block byte {pos} xor {delta:#x}"}
                first = False
                preds.append(("cb_alter", case))
                if pos == 0 or rng.random() < 0.12:
                    bad = bytearray(cbb)
                    bad[pos] ^= delta
                    add("cb_external:altered", f"cb_external {xb(bad)} {tok_script(leaf[1])}")
                    add("cb_accepts:altered", f"cb_accepts {xb(bad)} {tok_script(leaf[1])} {xb(qx)}")
        for pos in range(len(raw)):
            delta = rng.choice([1, 0x80, rng.randrange(1, 256)])
            preds.append(("script_alter", {"cb": xb(cbb), "qx": xb(qx), "raw": xb(raw), "pos": pos, "delta": delta,
                                           "why": f"leaf script byte {pos} xor {delta:#x}"}))
            if rng.random() < 0.15:
                bad = bytearray(raw)
                bad[pos] ^= delta
                add("cb_external:altered_script", f"cb_external {xb(cbb)} R {xb(bad)}")
        for cut in (0, 1, 32, len(cbb) - 1, len(cbb) - 32):
            if 0 <= cut < len(cbb):
                add("cb_external:truncated", f"cb_external {xb(cbb[:cut])} {tok_script(leaf[1])}")
        add("cb_external:extended", f"cb_external {xb(cbb + bytes(32))} {tok_script(leaf[1])}")
        add("cb_external:original", f"cb_external {xb(cbb)} {tok_script(leaf[1])}")
        add("cb_root", f"cb_root {xb(cbb)} {tok_script(leaf[1])}")
        add("cb_accepts:original", f"cb_accepts {xb(cbb)} {tok_script(leaf[1])} {xb(qx)}")
        add("cb_accepts:otherkey", f"cb_accepts {xb(cbb)} {tok_script(leaf[1])} {xb(rbytes(rng, 32))}")
    flush()


def replay(ctx, v):
    """re-execute one recorded violation exactly; True if it still violates"""
    case = v["case"]
    if "history" in case:
        return replay_history(ctx, "drv_c12", case, history_c12)
    if "line" in case:
        return impl_line(case["line"]) != ctx.driver("drv_c12").one(case["line"])

    def untuple(x):
        if isinstance(x, list):
            return tuple(untuple(y) for y in x)
        if isinstance(x, str) and x.startswith("x") and _ishex(x):
            return unx(x)
        return x
    c = dict(case)
    for f in ("tree", "l", "r", "leaf"):
        if f in c:
            c[f] = untuple(c[f])
    ok, _, _ = eval_pred((c["pred"], c))
    return not ok


def _ishex(x):
    try:
        bytes.fromhex(x[1:])
        return True
    except ValueError:
        return False
