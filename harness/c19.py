"""
C19 — P2P framing and primitive wire codecs: correspondence between the Lean model
(lean/Buidl/Model/Bytes.lean, Wire.lean; driver drv_c19) and buidl/network.py, helper.py,
block.py, compactfilter.py, merkleblock.py, plus the property predicates evaluated directly on
the implementation (round trips, rejection of corrupted envelopes).

Structure (the pattern every harness follows):
  impl_line(line)   evaluate one driver request line on the real code -> canonical answer
  PREDICATES[kind]  property predicates evaluated directly on the real code: case -> (ok, got, want)
  run(ctx)          generate request lines / predicate cases, run both sides, record
  replay(ctx, v)    re-execute one recorded violation exactly
"""
import io

from harness.common import REJECT, xb, xs, unx, uns, blist, batch_parallel, boundary_ints

PROPERTY = "C19"
DRIVERS = ["drv_c19"]
ANCHORS = [
    ("buidl/helper.py", "read_varint"), ("buidl/helper.py", "encode_varint"),
    ("buidl/helper.py", "read_varstr"), ("buidl/helper.py", "encode_varstr"),
    ("buidl/helper.py", "int_to_little_endian"), ("buidl/helper.py", "little_endian_to_int"),
    ("buidl/helper.py", "int_to_big_endian"), ("buidl/helper.py", "big_endian_to_int"),
    ("buidl/network.py", "NetworkEnvelope.parse"), ("buidl/network.py", "NetworkEnvelope.serialize"),
    ("buidl/network.py", "VersionMessage.serialize"), ("buidl/network.py", "GetHeadersMessage.serialize"),
    ("buidl/network.py", "HeadersMessage.parse"), ("buidl/network.py", "GetDataMessage.serialize"),
    ("buidl/network.py", "PingMessage.parse"), ("buidl/network.py", "PongMessage.parse"),
    ("buidl/block.py", "Block.parse_header"), ("buidl/block.py", "Block.serialize"), ("buidl/block.py", "Block.hash"),
    ("buidl/compactfilter.py", "GetCFiltersMessage.serialize"), ("buidl/compactfilter.py", "CFilterMessage.parse"),
    ("buidl/compactfilter.py", "GetCFHeadersMessage.serialize"), ("buidl/compactfilter.py", "CFHeadersMessage.parse"),
    ("buidl/compactfilter.py", "GetCFCheckPointMessage.serialize"), ("buidl/compactfilter.py", "CFCheckPointMessage.parse"),
    ("buidl/merkleblock.py", "MerkleBlock.parse"),
]
RULE = ("cases are generated from one PRNG seeded by VERIF_SEED plus a fixed boundary catalogue (integer width "
        "boundaries, command lengths 0..13, payload lengths across 0/1/0xfc/0xfd/0xffff/0x10000/100000, every "
        "single-byte corruption and truncation of sampled envelopes); a case is non-trivial when its input is not "
        "empty; distinct = distinct (operation, input) pairs")
CLAUSES = {
    "envelope round trip": "proved (envelope_roundtrip, envelope_serialize)",
    "envelope rejects wrong magic / checksum / short payload": "proved (envelope_parse_sound, envelope_wrong_magic)",
    "compact-size integers": "proved (varint_domain, varint_roundtrip, varint_layout, varint_bytes)",
    "variable-length strings": "proved (varstr_roundtrip)",
    "fixed-width LE/BE integers": "proved (le_roundtrip, le_decode_encode, be_roundtrip, be_decode_encode, le_domain)",
    "block header codec": "proved (header_roundtrip, header_parse_serialize, header_serialize)",
    "ping/pong": "proved (pingpong_roundtrip)",
    "parse-only message classes (headers, cfilter, cfheaders, cfcheckpt)": "proved: parse (Spec.encode m) = m (headers_parse_encode, headers_rejects_txcount, cfilter_parse_encode, cfheaders_parse_encode, cfcheckpt_parse_encode); Spec = Buidl.Spec.Wire written from the protocol documentation",
    "serialise-only message classes (getheaders, getdata, getcfilters/getcfheaders, getcfcheckpt)": "proved: Spec.decode (serialize m) = m (getheaders_decode_serialize, getdata_decode_serialize, getcfilters_decode_serialize, getcfcheckpt_decode_serialize)",
    "message objects do not remember earlier calls (GetDataMessage add/serialize histories, envelope / version / header re-serialised after a field change, every query twice)": "correspondence-only (getdata_history against the model's serialisation of the items added so far; object_reuse against a freshly built object)",
    "version message": "proved: Spec.decodeVersion (serialize m) = m for fields of protocol width (version_decode_serialize, version_serialize_eq); observation O19c: ports are written little-endian (the protocol says big-endian), self-consistent, version is never parsed by the library",
    "merkleblock parse": "model = byte layout transcribed from the protocol documentation (Spec.encodeMerkleBlock); correspondence-only at the message level, the proof content of merkleblock is C17's",
}
TRUSTED = ["hash256 is a parameter of every theorem; the driver instantiates it with Buidl.Model.Hash.SHA256 "
           "(checked against hashlib by harness/hash_selftest.py)"]
ASSUMPTIONS = ["io.BytesIO.read(n) returns min(n, remaining) bytes", "int.to_bytes / int.from_bytes behave as documented"]

class UnknownOp(Exception):
    pass


NETS = ["mainnet", "testnet", "signet", "regtest"]


def rbytes(rng, n):
    return rng.getrandbits(8 * n).to_bytes(n, "little") if n else b""


def fmt_header(h):
    return f"{h.version} {xb(h.prev_block)} {xb(h.merkle_root)} {h.timestamp} {xb(h.bits)} {xb(h.nonce)}"


# --------------------------------------------------------------------------------- implementation side
def _impl(t):
    import buidl.helper as H
    import buidl.network as N
    import buidl.block as B
    import buidl.compactfilter as CF
    import buidl.merkleblock as MB

    op = t[0]
    if op == "varint_enc":
        return xb(H.encode_varint(int(t[1])))
    if op == "varint_dec":
        s = io.BytesIO(unx(t[1]))
        n = H.read_varint(s)
        return f"{n} {xb(s.read())}"
    if op == "varstr_enc":
        return xb(H.encode_varstr(unx(t[1])))
    if op == "varstr_dec":
        s = io.BytesIO(unx(t[1]))
        v = H.read_varstr(s)
        return f"{xb(v)} {xb(s.read())}"
    if op == "le_enc":
        return xb(H.int_to_little_endian(int(t[1]), int(t[2])))
    if op == "be_enc":
        return xb(H.int_to_big_endian(int(t[1]), int(t[2])))
    if op == "le_dec":
        return str(H.little_endian_to_int(unx(t[1])))
    if op == "be_dec":
        return str(H.big_endian_to_int(unx(t[1])))
    if op == "env_ser":
        return xb(N.NetworkEnvelope(unx(t[2]), unx(t[3]), network=uns(t[1])).serialize())
    if op == "env_parse":
        s = io.BytesIO(unx(t[2]))
        e = N.NetworkEnvelope.parse(s, network=uns(t[1]))
        return f"{xb(e.command)} {xb(e.payload)} {xb(e.magic)} {xb(s.read())}"
    if op == "hdr_parse":
        s = io.BytesIO(unx(t[1]))
        h = B.Block.parse_header(s)
        return f"{fmt_header(h)} {xb(s.read())}"
    if op in ("hdr_ser", "hdr_hash"):
        b = B.Block(int(t[1]), unx(t[2]), unx(t[3]), int(t[4]), unx(t[5]), unx(t[6]))
        return xb(b.serialize() if op == "hdr_ser" else b.hash())
    if op == "version_ser":
        m = N.VersionMessage(version=int(t[1]), services=int(t[2]), timestamp=int(t[3]), receiver_services=int(t[4]),
                             receiver_ip=unx(t[5]), receiver_port=int(t[6]), sender_services=int(t[7]),
                             sender_ip=unx(t[8]), sender_port=int(t[9]), nonce=unx(t[10]), user_agent=unx(t[11]),
                             latest_block=int(t[12]), relay=(t[13] == "1"))
        return xb(m.serialize())
    if op == "getheaders_ser":
        return xb(N.GetHeadersMessage(version=int(t[1]), num_hashes=int(t[2]), start_block=unx(t[3]),
                                      end_block=unx(t[4])).serialize())
    if op == "headers_parse":
        s = io.BytesIO(unx(t[1]))
        m = N.HeadersMessage.parse(s)
        return " ".join([str(len(m.headers))] + [fmt_header(h) for h in m.headers] + [xb(s.read())])
    if op == "getdata_ser":
        m = N.GetDataMessage()
        for i in range(int(t[1])):
            m.add_data(int(t[2 + 2 * i]), unx(t[3 + 2 * i]))
        return xb(m.serialize())
    if op in ("ping_parse", "pong_parse"):
        s = io.BytesIO(unx(t[1]))
        m = (N.PingMessage if op == "ping_parse" else N.PongMessage).parse(s)
        return f"{xb(m.nonce)} {xb(s.read())}"
    if op in ("getcfilters_ser", "getcfheaders_ser"):
        cls = CF.GetCFiltersMessage if op == "getcfilters_ser" else CF.GetCFHeadersMessage
        return xb(cls(filter_type=int(t[1]), start_height=int(t[2]), stop_hash=unx(t[3])).serialize())
    if op == "getcfcheckpt_ser":
        return xb(CF.GetCFCheckPointMessage(filter_type=int(t[1]), stop_hash=unx(t[2])).serialize())
    if op == "cfilter_parse":
        s = io.BytesIO(unx(t[1]))
        m = CF.CFilterMessage.parse(s)
        return f"{m.filter_type} {xb(m.block_hash)} {xb(m.filter_bytes)} {xb(s.read())}"
    if op == "cfheaders_parse":
        s = io.BytesIO(unx(t[1]))
        m = CF.CFHeadersMessage.parse(s)
        return (f"{m.filter_type} {xb(m.stop_hash)} {xb(m.previous_filter_header)} {blist(m.filter_hashes)} "
                f"{xb(m.last_header)} {xb(s.read())}")
    if op == "cfcheckpt_parse":
        s = io.BytesIO(unx(t[1]))
        m = CF.CFCheckPointMessage.parse(s)
        return f"{m.filter_type} {xb(m.stop_hash)} {blist(m.filter_headers)} {xb(s.read())}"
    if op == "merkleblock_parse":
        s = io.BytesIO(unx(t[1]))
        m = MB.MerkleBlock.parse(s)
        return f"{fmt_header(m.header)} {m.total} {blist(m.hashes)} {xb(m.flags)} {xb(s.read())}"
    raise UnknownOp(op)


# ops whose model request name differs from the implementation-side name
MODEL_OP = {"pong_parse": "ping_parse", "getcfheaders_ser": "getcfilters_ser"}


def impl_line(line):
    t = line.split(" ")
    try:
        return _impl(t)
    except UnknownOp:
        raise
    except Exception:
        return REJECT


def model_line(line):
    t = line.split(" ")
    if t[0] in MODEL_OP:
        t[0] = MODEL_OP[t[0]]
    return " ".join(t)


# --------------------------------------------------------------------------------- direct predicates
def p_varint_rt(c):
    import buidl.helper as H
    n, rest = c["n"], unx(c["rest"])
    s = io.BytesIO(H.encode_varint(n) + rest)
    got = [H.read_varint(s), xb(s.read())]
    return got == [n, xb(rest)], got, [n, xb(rest)]


def p_env_rt(c):
    import buidl.network as N
    cmd, pl, rest, net = unx(c["cmd"]), unx(c["payload"]), unx(c["rest"]), c["net"]
    raw = N.NetworkEnvelope(cmd, pl, network=net).serialize()
    s = io.BytesIO(raw + rest)
    e = N.NetworkEnvelope.parse(s, network=net)
    got = [xb(e.command), xb(e.payload), xb(e.magic), xb(s.read())]
    want = [xb(cmd), xb(pl), xb(N.MAGIC[net]), xb(rest)]
    return got == want, got, want


def p_env_must_reject(c):
    """a corrupted / truncated / over-declared envelope must be refused"""
    import buidl.network as N
    try:
        e = N.NetworkEnvelope.parse(io.BytesIO(unx(c["stream"])), network=c["net"])
    except Exception:
        return True, REJECT, REJECT
    return False, [xb(e.command), xb(e.payload)], REJECT


def p_hdr_ps(c):
    import buidl.block as B
    raw = unx(c["b"])
    got = B.Block.parse_header(io.BytesIO(raw)).serialize()
    return got == raw[:80], xb(got), xb(raw[:80])


def p_pingpong_rt(c):
    import buidl.network as N
    cls = getattr(N, c["cls"])
    n8 = unx(c["nonce"])
    got = cls.parse(io.BytesIO(cls(n8).serialize())).nonce
    return got == n8, xb(got), xb(n8)


def p_getdata_history(c):
    """one GetDataMessage object: add_data / serialize interleaved; every serialize must be the protocol
    encoding of the items added SO FAR (expected values supplied by the model driver in c['expect'])"""
    import buidl.network as N
    m = N.GetDataMessage()
    got, k = [], 0
    for step in c["steps"]:
        if step[0] == "add":
            m.add_data(step[1], unx(step[2]))
        else:
            got.append(xb(m.serialize()))
            got.append(xb(m.serialize()))  # asked twice
    want = [e for e in c["expect"] for _ in (0, 1)]
    return got == want, got[:6], want[:6]


def p_object_reuse(c):
    """serialise / hash the same message object several times, and again after a field change"""
    import buidl.network as N
    import buidl.block as B
    kind = c["obj"]
    if kind == "envelope":
        e = N.NetworkEnvelope(unx(c["cmd"]), unx(c["payload"]), network=c["net"])
        a = e.serialize(); b = e.serialize()
        e.payload = unx(c["payload2"])
        d = e.serialize()
        fresh = N.NetworkEnvelope(unx(c["cmd"]), unx(c["payload2"]), network=c["net"]).serialize()
        return a == b and d == fresh, [xb(a) == xb(b), xb(d)[:60]], [True, xb(fresh)[:60]]
    if kind == "version":
        kw = dict(version=c["v"], services=0, timestamp=c["ts"], receiver_services=0, receiver_ip=b"\x01\x02\x03\x04",
                  receiver_port=c["rp"], sender_services=0, sender_ip=b"\x05\x06\x07\x08", sender_port=c["sp"],
                  nonce=unx(c["nonce"]), user_agent=b"/x/", latest_block=5, relay=True)
        m = N.VersionMessage(**kw)
        a = m.serialize(); b = m.serialize()
        m.sender_port = c["sp2"]; m.latest_block = 6
        d = m.serialize()
        kw.update(sender_port=c["sp2"], latest_block=6)
        fresh = N.VersionMessage(**kw).serialize()
        return a == b and d == fresh, [a == b, xb(d)], [True, xb(fresh)]
    if kind == "header":
        raw = unx(c["raw"])
        h = B.Block.parse_header(io.BytesIO(raw))
        a = (h.serialize(), h.hash()); b = (h.serialize(), h.hash())
        h.nonce = unx(c["nonce2"])
        d = (h.serialize(), h.hash())
        f = B.Block.parse_header(io.BytesIO(raw[:76] + unx(c["nonce2"])))
        fresh = (f.serialize(), f.hash())
        return a == b and d == fresh, [a == b, xb(d[1])], [True, xb(fresh[1])]
    raise KeyError(kind)


PREDICATES = {"getdata_history": p_getdata_history, "object_reuse": p_object_reuse,
              "varint_roundtrip": p_varint_rt, "env_roundtrip": p_env_rt, "env_must_reject": p_env_must_reject,
              "hdr_parse_serialize": p_hdr_ps, "pingpong_roundtrip": p_pingpong_rt}


def eval_pred(kind, case):
    try:
        return PREDICATES[kind](case)
    except Exception as e:
        return False, "raised " + type(e).__name__, "no exception"


# --------------------------------------------------------------------------------- generation
def run(ctx):
    import buidl.helper as H
    import buidl.network as N
    import buidl.compactfilter as CF

    rng, rec = ctx.rng, ctx.rec
    drv = ctx.driver("drv_c19")
    lines = []   # (kind, request line)
    preds = []   # (kind, case)

    # integers
    ints = set(boundary_ints())
    for b in list(ints):
        for d in (-2, -1, 1, 2):
            if b + d >= 0:
                ints.add(b + d)
    for _ in range(ctx.n(3000)):
        ints.add(rng.getrandbits(rng.choice([7, 8, 15, 16, 17, 31, 32, 33, 63, 64, 65, 70])))
    for n in sorted(ints):
        lines.append(("varint_enc", f"varint_enc {n}"))
        for w in (1, 2, 4, 8, 32):
            lines.append(("le_enc", f"le_enc {n} {w}"))
            lines.append(("be_enc", f"be_enc {n} {w}"))
        if n < 2 ** 64:
            preds.append(("varint_roundtrip", {"n": n, "rest": xb(rbytes(rng, rng.choice([0, 1, 9])))}))

    streams = [b""]
    for first in (0, 1, 0xFC, 0xFD, 0xFE, 0xFF):
        for ln in range(0, 10):
            streams.append(bytes([first]) + rbytes(rng, ln))
    for _ in range(ctx.n(2000)):
        streams.append(bytes([rng.choice([rng.getrandbits(8), 0xFD, 0xFE, 0xFF])]) + rbytes(rng, rng.randrange(0, 12)))
    for b in streams:
        for op in ("varint_dec", "varstr_dec", "le_dec", "be_dec"):
            lines.append((op, f"{op} {xb(b)}"))
    for ln in [0, 1, 0xFC, 0xFD, 0xFE, 0x100, 0xFFFF, 0x10000] + [rng.randrange(0, 70000) for _ in range(ctx.n(8))]:
        lines.append(("varstr_enc", f"varstr_enc {xb(rbytes(rng, ln))}"))

    # envelopes
    cmds = [b"", b"version", b"verack", b"ping", b"getcfcheckpt", b"a" * 12, b"a" * 13, b"\x00abc", b"abc\x00",
            b"ab\x00cd", b"\x00", b"sendheaders\x00"]
    for _ in range(ctx.n(60)):
        cmds.append(rbytes(rng, rng.randrange(0, 13)))
    paylens = [0, 1, 2, 0xFC, 0xFD, 0xFFFF, 0x10000, 100000] + [rng.randrange(0, 3000) for _ in range(ctx.n(40))]
    envs = []
    for i, cmd in enumerate(cmds):
        for j in range(2):
            net = rng.choice(NETS + (["nonet"] if i % 7 == 0 else []))
            ln = paylens[(i * 2 + j) % len(paylens)] if (i + j) % 3 == 0 else rng.randrange(0, 200)
            envs.append((net, cmd, rbytes(rng, ln)))
    for net, cmd, pl in envs:
        lines.append(("env_ser", f"env_ser {xs(net)} {xb(cmd)} {xb(pl)}"))
        if net not in NETS:
            continue
        raw = N.MAGIC[net] + cmd + b"\x00" * (12 - len(cmd)) + len(pl).to_bytes(4, "little") + H.hash256(pl)[:4] + pl
        rest = rbytes(rng, rng.choice([0, 0, 5, 24]))
        for pnet in (net, rng.choice(NETS)):
            lines.append(("env_parse", f"env_parse {xs(pnet)} {xb(raw + rest)}"))
        if len(cmd) <= 12 and not cmd.startswith(b"\x00") and not cmd.endswith(b"\x00"):
            preds.append(("env_roundtrip", {"net": net, "cmd": xb(cmd), "payload": xb(pl), "rest": xb(rest)}))
    small = [e for e in envs if len(e[2]) <= 40 and len(e[1]) <= 12 and e[0] in NETS]
    rng.shuffle(small)
    for net, cmd, pl in small[: ctx.n(6, 60)]:
        raw = N.MAGIC[net] + cmd + b"\x00" * (12 - len(cmd)) + len(pl).to_bytes(4, "little") + H.hash256(pl)[:4] + pl
        for pos in range(len(raw)):
            for delta in (1, 0x80, rng.randrange(1, 256)):
                bad = bytearray(raw)
                bad[pos] ^= delta
                lines.append(("env_corrupt", f"env_parse {xs(net)} {xb(bad)}"))
                if not (4 <= pos < 16):  # a change inside the command field yields another valid command
                    preds.append(("env_must_reject", {"net": net, "stream": xb(bad), "why": f"byte {pos} altered"}))
        for cut in range(len(raw)):
            lines.append(("env_trunc", f"env_parse {xs(net)} {xb(raw[:cut])}"))
            preds.append(("env_must_reject", {"net": net, "stream": xb(raw[:cut]), "why": f"truncated to {cut}/{len(raw)}"}))
        for extra in (1, 12, 1000):
            body = raw[:16] + (len(pl) + extra).to_bytes(4, "little") + raw[20:]
            lines.append(("env_shortpayload", f"env_parse {xs(net)} {xb(body)}"))
            preds.append(("env_must_reject", {"net": net, "stream": xb(body), "why": f"declares {extra} bytes more than present"}))

    # headers
    for k in range(ctx.n(300)):
        raw = rbytes(rng, rng.choice([80, 80, 80, 81, 100, 79, 40, 0, 4, 36]))
        lines.append(("hdr_parse", f"hdr_parse {xb(raw)}"))
        if len(raw) >= 80:
            preds.append(("hdr_parse_serialize", {"b": xb(raw)}))
        version = rng.choice([0, 1, 2, 0x20000000, 2 ** 32 - 1, 2 ** 32, rng.getrandbits(32)])
        ts = rng.choice([0, 1231006505, 2 ** 32 - 1, 2 ** 32, rng.getrandbits(32)])
        toks = (f"{version} {xb(rbytes(rng, rng.choice([32, 32, 32, 31])))} {xb(rbytes(rng, 32))} {ts} "
                f"{xb(rbytes(rng, rng.choice([4, 4, 4, 3])))} {xb(rbytes(rng, 4))}")
        lines.append(("hdr_ser", "hdr_ser " + toks))
        lines.append(("hdr_hash", "hdr_hash " + toks))

    # messages
    def rint(bits):
        return rng.choice([0, 1, 2 ** bits - 1, 2 ** bits, rng.getrandbits(bits)])

    for k in range(ctx.n(200)):
        lines.append(("version_ser", "version_ser " + " ".join(str(x) for x in [
            rint(32), rint(64), rint(64), rint(64), xb(rbytes(rng, rng.choice([4, 4, 16, 0]))), rint(16), rint(64),
            xb(rbytes(rng, 4)), rint(16), xb(rbytes(rng, rng.choice([8, 8, 0, 9]))),
            xb(rbytes(rng, rng.choice([0, 27, 252, 253, 300]))), rint(32), rng.choice([0, 1])])))
        nh = rng.choice([0, 1, 2, 0xFC, 0xFD, 0x10000, 2 ** 64, rng.getrandbits(20)])
        lines.append(("getheaders_ser", f"getheaders_ser {rint(32)} {nh} {xb(rbytes(rng, 32))} "
                                        f"{xb(rbytes(rng, rng.choice([32, 32, 0])))}"))
        items = [(rng.choice([1, 2, 3, 4, (1 << 30) + 1, 2 ** 32 - 1, 2 ** 32]), rbytes(rng, 32))
                 for _ in range(rng.choice([0, 1, 2, 3, 252, 253] if k % 20 == 0 else [0, 1, 2, 3]))]
        lines.append(("getdata_ser", "getdata_ser " + " ".join([str(len(items))] + [f"{t} {xb(i)}" for t, i in items])))
        pb = rbytes(rng, rng.choice([8, 8, 0, 3, 12]))
        lines.append(("ping_parse", f"ping_parse {xb(pb)}"))
        lines.append(("pong_parse", f"pong_parse {xb(pb)}"))
        for cls in ("PingMessage", "PongMessage"):
            preds.append(("pingpong_roundtrip", {"cls": cls, "nonce": xb(rbytes(rng, 8))}))
        ft, sh, stop = rng.choice([0, 0, 1, 255, 256]), rint(32), rbytes(rng, 32)
        lines.append(("getcfilters_ser", f"getcfilters_ser {ft} {sh} {xb(stop)}"))
        lines.append(("getcfheaders_ser", f"getcfheaders_ser {ft} {sh} {xb(stop)}"))
        lines.append(("getcfcheckpt_ser", f"getcfcheckpt_ser {ft} {xb(stop)}"))
        # parse-only classes: streams are Spec.encode of random field values (+ truncations / trailing bytes)
        nhd = rng.choice([0, 1, 2, 3])
        stream = H.encode_varint(nhd)
        for i in range(nhd):
            stream += rbytes(rng, 80) + (b"\x00" if rng.random() < 0.9 else bytes([rng.choice([1, 0xFD])]))
        if rng.random() < 0.2:
            stream = stream[: rng.randrange(0, len(stream) + 1)]
        lines.append(("headers_parse", f"headers_parse {xb(stream + rbytes(rng, rng.choice([0, 0, 3])))}"))
        fb = rng.choice([b"\x00", CF.encode_gcs(rbytes(rng, 16), [rbytes(rng, 5) for _ in range(rng.randrange(1, 4))])])
        cstream = bytes([rng.getrandbits(8)]) + rbytes(rng, 32) + H.encode_varstr(fb) + rbytes(rng, rng.choice([0, 2]))
        if rng.random() < 0.1:
            cstream = cstream[: rng.choice([0, 1, 20, 33])]
        lines.append(("cfilter_parse", f"cfilter_parse {xb(cstream)}"))
        nfh = rng.choice([0, 1, 2, 5])
        hs = bytes([rng.getrandbits(8)]) + rbytes(rng, 64) + H.encode_varint(nfh) + rbytes(rng, 32 * nfh)
        if rng.random() < 0.15:
            hs = hs[: rng.randrange(0, len(hs) + 1)]
        lines.append(("cfheaders_parse", f"cfheaders_parse {xb(hs + rbytes(rng, rng.choice([0, 0, 7])))}"))
        cs = bytes([rng.getrandbits(8)]) + rbytes(rng, 32) + H.encode_varint(nfh) + rbytes(rng, 32 * nfh)
        if rng.random() < 0.15:
            cs = cs[: rng.randrange(0, len(cs) + 1)]
        lines.append(("cfcheckpt_parse", f"cfcheckpt_parse {xb(cs)}"))
        nm = rng.choice([0, 1, 3])
        ms = rbytes(rng, 84) + H.encode_varint(nm) + rbytes(rng, 32 * nm) + H.encode_varstr(rbytes(rng, rng.choice([0, 1, 2])))
        if rng.random() < 0.15:
            ms = ms[: rng.randrange(0, len(ms) + 1)]
        lines.append(("merkleblock_parse", f"merkleblock_parse {xb(ms + rbytes(rng, rng.choice([0, 0, 2])))}"))

    # object-reuse histories (the library's message objects must not remember earlier calls)
    hist = []
    for k in range(ctx.n(40)):
        steps, items, ser_lines = [], [], []
        for _ in range(rng.randrange(2, 9)):
            if rng.random() < 0.55 or not steps:
                t, i = rng.choice([1, 2, 3, (1 << 30) + 1]), rbytes(rng, 32)
                steps.append(["add", t, xb(i)])
                items.append((t, i))
            else:
                steps.append(["ser"])
                ser_lines.append("getdata_ser " + " ".join([str(len(items))] + [f"{t} {xb(i)}" for t, i in items]))
        steps.append(["ser"])
        ser_lines.append("getdata_ser " + " ".join([str(len(items))] + [f"{t} {xb(i)}" for t, i in items]))
        hist.append((steps, ser_lines))
    flat = [l for _, sl in hist for l in sl]
    hans = batch_parallel(drv, flat, workers=ctx.workers) if flat else []
    pos = 0
    for steps, sl in hist:
        preds.append(("getdata_history", {"steps": steps, "expect": hans[pos:pos + len(sl)]}))
        pos += len(sl)
    for k in range(ctx.n(30)):
        preds.append(("object_reuse", {"obj": "envelope", "net": rng.choice(NETS), "cmd": xb(rbytes(rng, rng.randrange(1, 12)).strip(b"\x00") or b"a"),
                                       "payload": xb(rbytes(rng, rng.randrange(0, 60))), "payload2": xb(rbytes(rng, rng.randrange(0, 60)))}))
        preds.append(("object_reuse", {"obj": "version", "v": rng.getrandbits(31), "ts": rng.getrandbits(40), "rp": rng.getrandbits(16),
                                       "sp": rng.getrandbits(16), "sp2": rng.getrandbits(16), "nonce": xb(rbytes(rng, 8))}))
        preds.append(("object_reuse", {"obj": "header", "raw": xb(rbytes(rng, 80)), "nonce2": xb(rbytes(rng, 4))}))

    # run both sides
    answers = batch_parallel(drv, [model_line(l) for _, l in lines], workers=ctx.workers)
    for (kind, line), model in zip(lines, answers):
        impl = impl_line(line)
        if rec.compare(kind, {"line": line}, impl, model, determined=True, key=line[:300],
                       nontrivial=not line.endswith(" x")):
            rec.sample(kind, {"request": line, "answer": model})
        if impl == REJECT:
            rec.count(kind + ":reject")
    for kind, case in preds:
        ok, got, want = eval_pred(kind, case)
        rec.cov_pred(kind, case)
        if ok:
            rec.ok(kind, repr(case)[:300])
            rec.sample(kind, case, limit=1)
        else:
            rec.violation(kind, dict(case, pred=kind), got, want, note=case.get("why", ""))


def replay(ctx, v):
    """re-execute one recorded violation exactly; True if it still violates"""
    case = v["case"]
    if "line" in case:
        return impl_line(case["line"]) != ctx.driver("drv_c19").one(model_line(case["line"]))
    ok, _, _ = eval_pred(case["pred"], case)
    return not ok
