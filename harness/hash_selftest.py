#!/usr/bin/env python3
"""Self-test of the native Lean hash driver (lean/.lake/build/bin/drv_hash) against
hashlib / hmac / hashlib.pbkdf2_hmac.

    python3 harness/hash_selftest.py [path-to-drv_hash]

Inputs are drawn from random.Random(int(VERIF_SEED or 0)). Prints
`hash-selftest: N cases, 0 mismatches` and exits 0, or prints the first mismatches and exits 1.
Standard library only.
"""
import hashlib
import hmac
import os
import random
import shutil
import subprocess
import sys
import tempfile

HERE = os.path.dirname(os.path.abspath(__file__))
DEFAULT_DRIVER = os.path.join(HERE, "..", "lean", ".lake", "build", "bin", "drv_hash")

BADOP = "bad-op"
MAX_SHOWN = 10


def xb(b):
    """bytes token of the line protocol"""
    return "x" + b.hex()


def ripemd160(b):
    return hashlib.new("ripemd160", b).digest()


def sha256(b):
    return hashlib.sha256(b).digest()


UNARY = {
    "sha256": sha256,
    "sha512": lambda b: hashlib.sha512(b).digest(),
    "sha1": lambda b: hashlib.sha1(b).digest(),
    "ripemd160": ripemd160,
    "hash160": lambda b: ripemd160(sha256(b)),
    "hash256": lambda b: sha256(sha256(b)),
}


def tagged(tag, msg):
    t = sha256(tag)
    return sha256(t + t + msg)


def gen_cases(rng):
    """list of (request line, expected response line)"""
    cases = []

    def add(req, expected_bytes):
        cases.append((req, xb(expected_bytes)))

    # every hash on every length 0..300, then a few long messages
    for n in list(range(0, 301)) + [1000, 4096, 65536]:
        msg = rng.randbytes(n)
        for op, f in UNARY.items():
            add("%s %s" % (op, xb(msg)), f(msg))
        tag = rng.randbytes(rng.randrange(0, 20))
        add("tagged %s %s" % (xb(tag), xb(msg)), tagged(tag, msg))
    msg = rng.randbytes(1_000_000)
    add("sha256 %s" % xb(msg), sha256(msg))

    # fixed answers for the empty string and "abc" (independent of the seed)
    for msg in (b"", b"abc"):
        for op, f in UNARY.items():
            add("%s %s" % (op, xb(msg)), f(msg))
    add("tagged %s %s" % (xb(b"BIP0340/challenge"), xb(b"abc")), tagged(b"BIP0340/challenge", b"abc"))

    # HMAC: key lengths 0..200 cross both block sizes (64 and 128)
    for klen in range(0, 201):
        key = rng.randbytes(klen)
        msg = rng.randbytes(rng.randrange(0, 301))
        add("hmac256 %s %s" % (xb(key), xb(msg)), hmac.new(key, msg, hashlib.sha256).digest())
        add("hmac512 %s %s" % (xb(key), xb(msg)), hmac.new(key, msg, hashlib.sha512).digest())
    for klen in (0, 64, 65, 128, 129):
        key = rng.randbytes(klen)
        add("hmac256 %s x" % xb(key), hmac.new(key, b"", hashlib.sha256).digest())
        add("hmac512 %s x" % xb(key), hmac.new(key, b"", hashlib.sha512).digest())

    # PBKDF2
    for plen in (0, 8, 64, 65, 128, 129, 200):
        for iterations in (1, 2, 2048):
            for dklen in (1, 20, 64, 65, 100):
                pw = rng.randbytes(plen)
                salt = rng.randbytes(rng.randrange(0, 80))
                tail = "%s %s %d %d" % (xb(pw), xb(salt), iterations, dklen)
                add("pbkdf2_512 " + tail, hashlib.pbkdf2_hmac("sha512", pw, salt, iterations, dklen))
                add("pbkdf2_256 " + tail, hashlib.pbkdf2_hmac("sha256", pw, salt, iterations, dklen))
    # BIP39 shape: mnemonic sentence, salt "mnemonic"+passphrase, 2048 iterations, 64 bytes
    pw = b"abandon abandon abandon abandon abandon abandon abandon abandon abandon abandon abandon about"
    salt = b"mnemonicTREZOR"
    add("pbkdf2_512 %s %s 2048 64" % (xb(pw), xb(salt)), hashlib.pbkdf2_hmac("sha512", pw, salt, 2048, 64))

    # the driver never defaults: malformed or uncovered requests answer bad-op
    for req in (
        "",
        "sha256",
        "sha256 616263",
        "sha256 xabc",
        "sha256 xzz",
        "sha256 x61 x62",
        "sha3 x61",
        "SHA256 x61",
        "hmac256 x61",
        "hmac512 x61 62",
        "tagged x61",
        "pbkdf2_512 x61 x62 1",
        "pbkdf2_512 x61 x62 0 32",
        "pbkdf2_512 x61 x62 1 0",
        "pbkdf2_256 x61 x62 -1 32",
        "pbkdf2_256 x61 x62 x01 32",
    ):
        cases.append((req, BADOP))
    return cases


def raise_stack_limit():
    try:
        import resource

        resource.setrlimit(resource.RLIMIT_STACK, (resource.RLIM_INFINITY, resource.RLIM_INFINITY))
    except Exception:
        pass


def run_driver(driver, cases):
    tmp = tempfile.mkdtemp(prefix="hash_selftest_")
    try:
        req_path = os.path.join(tmp, "requests.txt")
        with open(req_path, "w") as f:
            for req, _ in cases:
                f.write(req)
                f.write("\n")
        with open(req_path, "rb") as f:
            proc = subprocess.run(
                [driver],
                stdin=f,
                stdout=subprocess.PIPE,
                stderr=subprocess.PIPE,
                preexec_fn=raise_stack_limit,
            )
    finally:
        shutil.rmtree(tmp, ignore_errors=True)
    return proc


def short(s, n=100):
    return s if len(s) <= n else "%s...(%d chars)" % (s[:n], len(s))


def main():
    driver = sys.argv[1] if len(sys.argv) > 1 else DEFAULT_DRIVER
    if not os.path.exists(driver):
        print("hash-selftest: driver not found: %s (run `lake build drv_hash` in lean/)" % driver)
        return 1
    seed = int(os.environ.get("VERIF_SEED", "0"))
    cases = gen_cases(random.Random(seed))
    proc = run_driver(driver, cases)
    answers = proc.stdout.decode("utf-8", "replace").split("\n")
    if answers and answers[-1] == "":
        answers.pop()

    mismatches = []
    if proc.returncode != 0:
        mismatches.append("driver exited with status %d: %s" % (proc.returncode, short(proc.stderr.decode("utf-8", "replace"), 500)))
    if len(answers) != len(cases):
        mismatches.append("driver answered %d lines for %d requests" % (len(answers), len(cases)))
    for i, (req, expected) in enumerate(cases):
        got = answers[i] if i < len(answers) else "<no answer>"
        if got != expected:
            mismatches.append("line %d: %s\n    expected %s\n    got      %s" % (i + 1, short(req), short(expected, 140), short(got, 140)))

    if mismatches:
        print("hash-selftest: %d cases, %d mismatches (seed %d)" % (len(cases), len(mismatches), seed))
        for m in mismatches[:MAX_SHOWN]:
            print("  " + m)
        if len(mismatches) > MAX_SHOWN:
            print("  ... and %d more" % (len(mismatches) - MAX_SHOWN))
        return 1
    print("hash-selftest: %d cases, 0 mismatches" % len(cases))
    return 0


if __name__ == "__main__":
    sys.exit(main())
