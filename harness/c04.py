"""
C04 — transaction wire codec, txid, fetcher: correspondence between the Lean model
(lean/Buidl/Model/Script.lean, Tx.lean; driver drv_c04) and buidl/tx.py, script.py, witness.py,
helper.py, timelock.py, plus the property predicates evaluated directly on the implementation
(round trips through the API, parse→serialize on canonical bytes, txid = witness-stripped hash and
its (in)variance, the fetcher's integrity check with `urlopen` stubbed — the network is never touched).

Structure as harness/c19.py: impl_line / PREDICATES / run / replay.
"""
import contextlib
import hashlib
import io
import json
import os
import re

from harness.common import REJECT, REPO, xb, xs, unx, uns, batch_parallel
from harness import txtok as T

PROPERTY = "C04"
DRIVERS = ["drv_c04"]
ANCHORS = [
    ("buidl/tx.py", "Tx.parse"), ("buidl/tx.py", "Tx.parse_legacy"), ("buidl/tx.py", "Tx.parse_segwit"),
    ("buidl/tx.py", "Tx.serialize"), ("buidl/tx.py", "Tx.serialize_legacy"), ("buidl/tx.py", "Tx.serialize_segwit"),
    ("buidl/tx.py", "Tx.serialize_witness"), ("buidl/tx.py", "Tx.hash"), ("buidl/tx.py", "Tx.id"),
    ("buidl/tx.py", "TxIn.parse"), ("buidl/tx.py", "TxIn.serialize"), ("buidl/tx.py", "TxOut.parse"),
    ("buidl/tx.py", "TxOut.serialize"), ("buidl/tx.py", "TxFetcher.fetch"), ("buidl/tx.py", "TxFetcher.get_url"),
    ("buidl/script.py", "Script.parse"), ("buidl/script.py", "Script.raw_serialize"), ("buidl/script.py", "Script.serialize"),
    ("buidl/script.py", "ScriptPubKey.parse"), ("buidl/script.py", "Script.is_p2pkh"), ("buidl/script.py", "Script.is_p2sh"),
    ("buidl/script.py", "Script.is_p2wpkh"), ("buidl/script.py", "Script.is_p2wsh"), ("buidl/script.py", "Script.is_p2tr"),
    ("buidl/witness.py", "Witness.parse"), ("buidl/witness.py", "Witness.serialize"),
    ("buidl/timelock.py", "Locktime.__new__"), ("buidl/timelock.py", "Locktime.parse"), ("buidl/timelock.py", "Locktime.serialize"),
    ("buidl/timelock.py", "Sequence.__new__"), ("buidl/timelock.py", "Sequence.parse"), ("buidl/timelock.py", "Sequence.serialize"),
    ("buidl/helper.py", "read_varint"), ("buidl/helper.py", "encode_varint"),
    ("buidl/helper.py", "read_varstr"), ("buidl/helper.py", "encode_varstr"), ("buidl/helper.py", "int_to_byte"),
]
RULE = ("transactions are built through /repo's API from plain-data descriptions drawn from one PRNG seeded by VERIF_SEED plus a "
        "fixed catalogue (one script per push length 0..521, every opcode 0..255, input/output counts 0,1,2,252,253,300, "
        "amounts and widths at their boundaries, witness items of 0,1,252,253,65535,65536,70000 bytes); byte streams are the "
        "61 transactions of buidl/test/tx.cache, the hex vectors of test_tx.py, serialisations of the built transactions, "
        "every truncation and sampled single-byte corruptions of small ones; fetcher responses: canonical, upper-case, "
        "white space, non-minimal push, trailing bytes, another transaction, non-hex; histories of 2..6 fetch calls on one "
        "class-level cache (emptied between histories) mixing those servers, same and different ids, fresh True/False, "
        "with the cache contents compared after every call.  A case is non-trivial when its input "
        "is not empty; distinct = distinct (operation, input) pairs")
CLAUSES = {
    "script parse(raw_serialize(c)) = canon c for pushes 0..520 and opcodes outside 1..78 (N04c: the empty push is OP_0)":
        "proved (script_roundtrip, script_stream_roundtrip, script_canon_serialize)",
    "Witness / TxIn / TxOut / Tx parse(serialize t ++ rest) = (t, rest)":
        "proved (witness_roundtrip, txin_roundtrip, txout_roundtrip, tx_roundtrip_legacy, tx_roundtrip_segwit, tx_roundtrip)",
    "serialize(parse b) = b on canonically encoded bytes": "proved (tx_parse_serialize)",
    "txid = reversed hash256 of the witness-stripped serialisation": "proved (txid_def, txid_legacy_bytes)",
    "txid unchanged by any change to witness data": "proved (txid_witness_invariant)",
    "txid changed by any change to non-witness data": "proved relative to hash256 (txid_collision_extraction, serializeLegacy_injective)",
    "fetcher: a returned transaction hashes to the requested id, whatever the response": "proved (fetch_sound) for the repaired code (F04b)",
    "… after any history of fetch calls on the shared class-level cache (fresh or not, any response sequence)":
        "proved (fetch_history_sound, fetch_cache_invariant, fetch_failure_leaves_cache) over the state machine fetchStep / fetchRun",
    "legacy form needs ≥ 1 input (N04d: zero-input legacy bytes are a segwit marker)": "proved (zero_input_legacy_ambiguous)",
    "arbitrary byte strings: model totality, parse soundness, truncation":
        "proved (script_parse_fuel_independent, script_parse_opcodes, script_parse_raw, parsed_script_fixpoint, "
        "parsed_script_not_fixpoint, parsers_leave_suffix, witness_parse_sound, tx_parse_sound, tx_truncation, "
        "serialization_prefix_free, truncated_locktime_accepted, tx_parse_short); which streams are REFUSED is "
        "correspondence-only (model = code on every generated truncated / garbled stream)",
}
TRUSTED = ["hash256 is a parameter of every theorem; the driver instantiates it with Buidl.Model.Hash.SHA256 "
           "(checked against hashlib by harness/hash_selftest.py)",
           "urllib.request.urlopen is replaced by a stub returning the response under test"]
ASSUMPTIONS = ["io.BytesIO.read(n) returns min(n, remaining) bytes; seek(-5, 1) raises ValueError when fewer than 5 bytes were read",
               "int.to_bytes / int.from_bytes, bytes.fromhex, str.strip behave as documented",
               "byte strings and lists are shorter than 2^63 (theorem hypotheses Script.WF / Tx.WF)"]

FIXDIR = os.path.join(REPO, "buidl", "test")


class UnknownOp(Exception):
    pass


def rbytes(rng, n):
    return rng.getrandbits(8 * n).to_bytes(n, "little") if n else b""


class _Resp:
    def __init__(self, body):
        self.body = body

    def read(self):
        return self.body


def _fetch(net, txid, response):
    """TxFetcher.fetch with urlopen stubbed; the class-level cache is left as found"""
    import buidl.tx as TX

    saved_urlopen, saved_cache = TX.urlopen, dict(TX.TxFetcher.cache)
    TX.urlopen = lambda req: _Resp(response.encode("utf-8"))
    try:
        return TX.TxFetcher.fetch(txid, network=net, fresh=True)
    finally:
        TX.urlopen = saved_urlopen
        TX.TxFetcher.cache.clear()
        TX.TxFetcher.cache.update(saved_cache)


def run_fetch_history(calls):
    """2..6 calls of TxFetcher.fetch on ONE class-level cache (emptied first, restored afterwards), urlopen stubbed
    to answer each call with that call's response.  Returns per call (answer tokens | REJECT, returned id | None,
    cache dump after the call)."""
    import buidl.tx as TX

    saved_urlopen, saved_cache = TX.urlopen, dict(TX.TxFetcher.cache)
    TX.TxFetcher.cache.clear()
    current = {}
    TX.urlopen = lambda req: _Resp(current["response"].encode("utf-8"))
    out = []
    try:
        for net, txid, resp, fresh in calls:
            current["response"] = resp
            try:
                tx = TX.TxFetcher.fetch(txid, network=net, fresh=fresh)
                ans, rid = T.f_tx(tx), tx.id()
            except Exception:
                ans, rid = REJECT, None
            cache = sorted(TX.TxFetcher.cache.items())
            dump = " ".join([str(len(cache))] + [f"{xs(k)} {T.f_tx(v)}" for k, v in cache])
            out.append((ans, rid, dump))
    finally:
        TX.urlopen = saved_urlopen
        TX.TxFetcher.cache.clear()
        TX.TxFetcher.cache.update(saved_cache)
    return out


def hist_calls(t):
    n = int(t[1])
    return [(uns(t[2 + 4 * k]), uns(t[3 + 4 * k]), uns(t[4 + 4 * k]), t[5 + 4 * k] == "1") for k in range(n)]


def fetch_hist_line(calls):
    return " ".join(["fetch_hist", str(len(calls))] + [f"{xs(n)} {xs(i)} {xs(r)} {'1' if f else '0'}" for n, i, r, f in calls])


# --------------------------------------------------------------------------------- implementation side
def _impl(t):
    import buidl.script as S
    import buidl.tx as TX
    import buidl.witness as W

    op = t[0]
    if op == "script_parse_raw":
        return T.f_script(S.Script.parse(raw=unx(t[1])))
    if op in ("script_parse", "spk_parse"):
        s = io.BytesIO(unx(t[1]))
        sc = (S.Script if op == "script_parse" else S.ScriptPubKey).parse(s)
        return f"{T.f_script(sc)} {xb(s.read())}"
    if op in ("script_rawser", "script_ser"):
        sc = T.p_script(T.Toks(t, 1))
        return xb(sc.raw_serialize() if op == "script_rawser" else sc.serialize())
    if op == "wit_parse":
        s = io.BytesIO(unx(t[1]))
        w = W.Witness.parse(s)
        return f"{T.f_witness(w)} {xb(s.read())}"
    if op == "wit_ser":
        return xb(T.p_witness(T.Toks(t, 1)).serialize())
    if op == "txin_parse":
        s = io.BytesIO(unx(t[1]))
        i = TX.TxIn.parse(s)
        return f"{T.f_txin(i)} {xb(s.read())}"
    if op == "txin_ser":
        return xb(T.p_txin(T.Toks(t, 1)).serialize())
    if op == "txout_parse":
        s = io.BytesIO(unx(t[1]))
        o = TX.TxOut.parse(s)
        return f"{T.f_txout(o)} {xb(s.read())}"
    if op == "txout_ser":
        return xb(T.p_txout(T.Toks(t, 1)).serialize())
    if op == "tx_parse":
        s = io.BytesIO(unx(t[1]))
        tx = TX.Tx.parse(s)
        return f"{T.f_tx(tx)} {xb(s.read())}"
    if op in ("tx_ser", "tx_ser_legacy", "tx_ser_segwit", "tx_hash", "tx_id"):
        tx = T.p_tx(T.Toks(t, 1))
        if op == "tx_ser":
            return xb(tx.serialize())
        if op == "tx_ser_legacy":
            return xb(tx.serialize_legacy())
        if op == "tx_ser_segwit":
            return xb(tx.serialize_segwit())
        if op == "tx_hash":
            return xb(tx.hash())
        return xs(tx.id())
    if op == "fetch":
        return T.f_tx(_fetch(uns(t[1]), uns(t[2]), uns(t[3])))
    if op == "fetch_hist":
        return " | ".join(f"{a} ; {c}" for a, _, c in run_fetch_history(hist_calls(t)))
    raise UnknownOp(op)


def impl_line(line):
    t = line.split(" ")
    try:
        with contextlib.redirect_stdout(io.StringIO()):   # Script.parse prints on a length mismatch
            return _impl(t)
    except UnknownOp:
        raise
    except Exception:
        return REJECT


def model_line(line):
    return line


# --------------------------------------------------------------------------------- direct predicates
def _canon_cmds(cmds):
    return [0 if c == b"" else c for c in cmds]


def _fields(tx, strip_witness=False):
    return [tx.version,
            [[xb(i.prev_tx), i.prev_index, [T.f_cmd(c) for c in _canon_cmds(i.script_sig.commands)], int(i.sequence),
              [] if strip_witness else [xb(w) for w in i.witness.items]] for i in tx.tx_ins],
            [[o.amount, [T.f_cmd(c) for c in _canon_cmds(o.script_pubkey.commands)]] for o in tx.tx_outs],
            int(tx.locktime)]


def p_tx_roundtrip(c):
    """serialise a transaction built through the API, parse it back (followed by `rest`): every field is
    reproduced (the empty push reads back as OP_0, N04c; the legacy form carries no witnesses)"""
    import buidl.tx as TX
    tx = T.p_tx(T.Toks(c["tx"].split(" ")))
    rest = unx(c["rest"])
    raw = tx.serialize()
    s = io.BytesIO(raw + rest)
    back = TX.Tx.parse(s)
    got = [_fields(back), back.segwit, xb(s.read())]
    want = [_fields(tx, strip_witness=not tx.segwit), tx.segwit, xb(rest)]
    if got != want:
        return False, got, want
    again = back.serialize()
    return again == raw, xb(again), xb(raw)


def p_script_roundtrip(c):
    import buidl.script as S
    sc = T.p_script(T.Toks(c["script"].split(" ")))
    raw = sc.raw_serialize()
    back = S.Script.parse(raw=raw)
    got = [[T.f_cmd(x) for x in back.commands], back.raw is None, xb(back.raw_serialize())]
    want = [[T.f_cmd(x) for x in _canon_cmds(sc.commands)], True, xb(raw)]
    return got == want, got, want


def p_witness_roundtrip(c):
    import buidl.witness as W
    items = [unx(x) for x in c["items"]]
    rest = unx(c["rest"])
    s = io.BytesIO(W.Witness(list(items)).serialize() + rest)
    back = W.Witness.parse(s)
    got = [[xb(i) for i in back.items], xb(s.read())]
    want = [[xb(i) for i in items], xb(rest)]
    return got == want, got, want


def p_txid(c):
    """txid = reversed double-SHA256 (hashlib) of the legacy serialisation; unchanged by a witness change;
    changed by a change of a non-witness field"""
    import buidl.witness as W
    tx = T.p_tx(T.Toks(c["tx"].split(" ")))
    leg = tx.serialize_legacy()
    want = hashlib.sha256(hashlib.sha256(leg).digest()).digest()[::-1]
    h0 = tx.hash()
    if tx.hash() != h0 or tx.serialize_legacy() != leg:      # the same object, asked twice
        return False, xb(tx.hash()), xb(h0) + " (second call on the same object)"
    if h0 != want or tx.id() != want.hex():
        return False, [xb(h0), tx.id()], [xb(want), want.hex()]
    # witness changes
    seg0 = tx.segwit
    for i in tx.tx_ins:
        i.witness = W.Witness([unx(x) for x in c["new_witness"]])
    tx.segwit = not seg0
    if tx.hash() != h0:
        return False, xb(tx.hash()), xb(h0) + " (after witness change)"
    # one non-witness change
    what = c["mutate"]
    if what == "version":
        tx.version = (tx.version + 1) % 2 ** 32
    elif what == "locktime":
        from buidl.timelock import Locktime
        tx.locktime = Locktime((int(tx.locktime) + 1) % 2 ** 32)
    elif what == "amount" and tx.tx_outs:
        tx.tx_outs[-1].amount = (tx.tx_outs[-1].amount + 1) % 2 ** 64
    elif what == "sequence" and tx.tx_ins:
        from buidl.timelock import Sequence
        tx.tx_ins[0].sequence = Sequence((int(tx.tx_ins[0].sequence) + 1) % 2 ** 32)
    elif what == "prev_index" and tx.tx_ins:
        tx.tx_ins[-1].prev_index = (tx.tx_ins[-1].prev_index + 1) % 2 ** 32
    elif what == "prev_tx" and tx.tx_ins:
        b = bytearray(tx.tx_ins[0].prev_tx)
        b[c["pos"] % 32] ^= 1 + c["pos"] % 255
        tx.tx_ins[0].prev_tx = bytes(b)
    elif what == "script" and tx.tx_outs:
        tx.tx_outs[0].script_pubkey.commands.append(0x51)
    elif what == "drop_output" and tx.tx_outs:
        tx.tx_outs.pop()
    else:
        tx.version = (tx.version + 1) % 2 ** 32
    h1 = tx.hash()
    return h1 != h0, xb(h1), "a different id after changing " + what


def p_fetch(c):
    """whatever the server returns: fetch raises, or returns a transaction whose id is the requested one"""
    try:
        tx = _fetch(c["net"], c["txid"], c["response"])
    except Exception:
        return True, REJECT, "REJECT or a transaction with the requested id"
    return tx.id() == c["txid"], tx.id(), c["txid"]


def p_fetch_history(c):
    """after ANY history of fetch calls on the shared cache: whatever a call returns has the id that call requested"""
    t = c["hist"].split(" ")
    calls = hist_calls(t)
    for k, ((net, txid, resp, fresh), (ans, rid, _)) in enumerate(zip(calls, run_fetch_history(calls))):
        if ans != REJECT and rid != txid:
            return False, f"call #{k} (fresh={fresh}) for {txid} returned a transaction with id {rid}", "REJECT or a transaction with the requested id"
    return True, "ok", "ok"


def p_parse_sound(c):
    """parse soundness on ANY stream the real parser accepts (tx_parse_sound): the unread rest is a suffix of the input,
    and a returned transaction without an empty / oversized data element (and not the zero-input legacy form)
    serialises to bytes that parse back to the same fields and the same id"""
    import buidl.tx as TX
    b = unx(c["b"])
    s = io.BytesIO(b)
    try:
        t = TX.Tx.parse(s)
    except Exception:
        return True, REJECT, REJECT
    rest = s.read()
    if not b.endswith(rest):
        return False, xb(rest), "a suffix of the input"
    scripts = [i.script_sig for i in t.tx_ins] + [o.script_pubkey for o in t.tx_outs]
    reenc = all(sc.raw is not None or all(isinstance(x, int) or 0 < len(x) <= 520 for x in sc.commands) for sc in scripts)
    if not reenc or (not t.segwit and not t.tx_ins):
        return True, "not re-encodable", "not re-encodable"
    e = t.serialize()
    tail = b"\x01\x02\x03"
    s2 = io.BytesIO(e + tail)
    t2 = TX.Tx.parse(s2)
    got = [T.f_tx(t2), xb(s2.read()), t2.id(), xb(t2.serialize())]
    want = [T.f_tx(t), xb(tail), t.id(), xb(e)]
    return got == want, got, want


def p_parse_serialize(c):
    """bytes that are the serialisation of a transaction built through the API (canonical by construction)
    re-serialise to themselves"""
    import buidl.tx as TX
    raw = unx(c["b"])
    got = TX.Tx.parse(io.BytesIO(raw)).serialize()
    return got == raw, xb(got), xb(raw)


def ref_push(d):
    """minimal push encoding written here (BIP62 rule 3 for the length forms), independent of Script.raw_serialize"""
    n = len(d)
    if n <= 75:
        return bytes([n]) + d
    if n <= 255:
        return b"\x4c" + bytes([n]) + d
    return b"\x4d" + n.to_bytes(2, "little") + d


def ref_cs(n):
    return bytes([n]) if n < 0xFD else (b"\xfd" + n.to_bytes(2, "little") if n < 0x10000 else b"\xfe" + n.to_bytes(4, "little"))


def ref_legacy_tx(sig_pushes, pk_pushes, seq=0xFFFFFFFE, locktime=7):
    """hand-encoded one-input one-output legacy transaction: scriptSig = the given pushes, scriptPubKey = the given
    pushes followed by OP_DROPs and OP_1"""
    ssig = b"".join(ref_push(d) for d in sig_pushes)
    spk = b"".join(ref_push(d) for d in pk_pushes) + b"\x75" * len(pk_pushes) + b"\x51"
    return ((2).to_bytes(4, "little") + b"\x01" + bytes(range(32)) + (1).to_bytes(4, "little") + ref_cs(len(ssig)) + ssig
            + seq.to_bytes(4, "little") + b"\x01" + (123456).to_bytes(8, "little") + ref_cs(len(spk)) + spk + locktime.to_bytes(4, "little"))


def p_canon_bytes(c):
    """bytes encoded HERE (not by the library) with minimal pushes: parsing and re-serialising reproduces them, the
    script bodies re-serialise to themselves, and the id is the reversed double-SHA256 (hashlib) of the bytes"""
    import buidl.tx as TX
    import buidl.script as S
    raw = unx(c["b"])
    t = TX.Tx.parse(io.BytesIO(raw))
    want_id = hashlib.sha256(hashlib.sha256(raw).digest()).digest()[::-1].hex()
    body = unx(c["script"])
    got = [xb(t.serialize()), t.id(), xb(S.Script.parse(raw=body).raw_serialize()),
           xb(S.Script(list(S.Script.parse(raw=body).commands)).raw_serialize())]
    want = [xb(raw), want_id, xb(body), xb(body)]
    return got == want, got, want


PREDICATES = {"tx_roundtrip": p_tx_roundtrip, "script_roundtrip": p_script_roundtrip, "witness_roundtrip": p_witness_roundtrip,
              "txid": p_txid, "fetch_sound": p_fetch, "parse_serialize": p_parse_serialize, "fetch_history": p_fetch_history, "parse_sound": p_parse_sound, "canon_bytes": p_canon_bytes}


def eval_pred(kind, case):
    try:
        with contextlib.redirect_stdout(io.StringIO()):
            return PREDICATES[kind](case)
    except Exception as e:
        return False, "raised " + type(e).__name__, "no exception"


# --------------------------------------------------------------------------------- generation
PUSH_LENS = [0, 1, 2, 20, 32, 33, 74, 75, 76, 77, 78, 255, 256, 257, 519, 520]
TEMPLATES = ["p2pkh", "p2sh", "p2wpkh", "p2wsh", "p2tr"]


def template(rng, kind):
    if kind == "p2pkh":
        return [0x76, 0xA9, rbytes(rng, 20), 0x88, 0xAC]
    if kind == "p2sh":
        return [0xA9, rbytes(rng, 20), 0x87]
    if kind == "p2wpkh":
        return [0, rbytes(rng, 20)]
    if kind == "p2wsh":
        return [0, rbytes(rng, 32)]
    return [0x51, rbytes(rng, 32)]


def gen_cmds(rng, wf=True, maxn=6):
    """random command list; wf: only what the round-trip theorem covers (opcodes outside 1..78, pushes ≤ 520)"""
    r = rng.random()
    if r < 0.35:
        return template(rng, rng.choice(TEMPLATES))
    cmds = []
    for _ in range(rng.randrange(0, maxn)):
        if rng.random() < 0.5:
            if wf:
                cmds.append(rng.choice([0, 79, 80, 81, 96, 0xAC, 0xAE, 255, rng.randrange(79, 256)]))
            else:
                cmds.append(rng.choice([rng.randrange(0, 256), rng.randrange(1, 79), 256, 300]))
        else:
            ln = rng.choice(PUSH_LENS + [rng.randrange(0, 521)])
            if not wf and rng.random() < 0.3:
                ln = rng.choice([521, 600, 65535, 65536])
            cmds.append(rbytes(rng, ln))
    return cmds


def gen_tx(rng, nin=None, nout=None, segwit=None, wf=True, big_wit=False):
    if segwit is None:
        segwit = rng.random() < 0.5
    nin = rng.choice([1, 1, 2, 3, 0 if segwit or not wf else 1]) if nin is None else nin
    nout = rng.choice([0, 1, 2, 3]) if nout is None else nout
    ins = []
    for _ in range(nin):
        wit = []
        if segwit:
            wit = [rbytes(rng, rng.choice([0, 1, 33, 64, 72, 0xFC, 0xFD, 300] + ([0xFFFF, 0x10000, 70000] if big_wit else [])))
                   for _ in range(rng.choice([0, 1, 2, 3]))]
        ins.append({"prev_tx": rbytes(rng, 32), "prev_index": rng.choice([0, 1, 0xFFFFFFFF, rng.getrandbits(32)]),
                    "script_sig": T.d_script(gen_cmds(rng, wf, 4)),
                    "sequence": rng.choice([0, 0xFFFFFFFE, 0xFFFFFFFF, rng.getrandbits(32)]), "witness": wit})
    outs = [{"amount": rng.choice([0, 1, 546, 2 ** 63 - 1, 2 ** 63, 2 ** 64 - 1, rng.getrandbits(64), rng.getrandbits(40)]),
             "spk": T.d_script(gen_cmds(rng, wf, 5))} for _ in range(nout)]
    return {"version": rng.choice([0, 1, 2, 2 ** 31, 2 ** 32 - 1, rng.getrandbits(32)]), "ins": ins, "outs": outs,
            "locktime": rng.choice([0, 499999999, 500000000, 2 ** 32 - 1, rng.getrandbits(32)]), "segwit": segwit}


def fixtures():
    """(name, raw bytes) of every transaction in buidl/test/tx.cache and the long hex literals of test_tx.py"""
    out = []
    try:
        d = json.load(open(os.path.join(FIXDIR, "tx.cache")))
        for k in sorted(d):
            out.append(("tx.cache:" + k[:16], bytes.fromhex(d[k])))
    except Exception:
        pass
    try:
        src = open(os.path.join(FIXDIR, "test_tx.py")).read()
        for n, m in enumerate(re.finditer(r'"([0-9a-fA-F]{120,})"', src)):
            if len(m.group(1)) % 2 == 0:
                out.append((f"test_tx.py#{n}", bytes.fromhex(m.group(1))))
    except Exception:
        pass
    return out


def run(ctx):
    import buidl.tx as TX

    rng, rec = ctx.rng, ctx.rec
    drv = ctx.driver("drv_c04")
    lines = []   # (kind, request line)
    preds = []   # (kind, case)

    # ---- scripts: one per push length 0..521, every opcode, random command lists
    scripts = [T.d_script([rbytes(rng, n)]) for n in range(0, 522)]
    scripts += [T.d_script([op]) for op in range(0, 258)]
    scripts += [T.d_script(template(rng, k)) for k in TEMPLATES]
    scripts += [T.d_script([rbytes(rng, n)]) for n in (600, 65535, 65536)]
    for _ in range(ctx.n(400)):
        scripts.append(T.d_script(gen_cmds(rng, wf=rng.random() < 0.7)))
    scripts.append(T.d_script([0x51], raw=b"\x05abc"))   # an object carrying `raw` serialises it verbatim
    scripts.append(T.d_script([0x51], raw=b""))
    for s in scripts:
        tok = T.t_script(s)
        lines.append(("script_rawser", "script_rawser " + tok))
        lines.append(("script_ser", "script_ser " + tok))
        ok = s["raw"] is None and all((isinstance(c, int) and (c == 0 or 79 <= c <= 255)) or
                                      (isinstance(c, bytes) and len(c) <= 520) for c in s["cmds"])
        if ok:
            preds.append(("script_roundtrip", {"script": tok}))
            raw = T.raw_script(s)
            lines.append(("script_parse_raw", "script_parse_raw " + xb(raw)))
            lines.append(("spk_parse", "spk_parse " + xb(bytes([len(raw)]) + raw if len(raw) < 253 else b"\xfd" + len(raw).to_bytes(2, "little") + raw)))
    # raw script streams: random bytes, short pushes, PUSHDATA with missing length bytes, non-minimal pushes
    raws = [b"", b"\x00", b"\x4c", b"\x4d\x01", b"\x4e\x01\x00\x00", b"\x4c\x00", b"\x4c\x01\xaa", b"\x4d\x01\x00\xaa", b"\x4e\x01\x00\x00\x00\xaa",
            b"\x05abc", b"\x4c\x05abc", b"\x4b" + b"a" * 75, b"\x4b" + b"a" * 74, b"\x00\x4c\x14" + b"h" * 20, b"\x00\x4c\x20" + b"h" * 20]
    for _ in range(ctx.n(600)):
        raws.append(rbytes(rng, rng.choice([1, 2, 3, 5, 8, 24, 80, 300])))
    for raw in raws:
        lines.append(("script_parse_raw", "script_parse_raw " + xb(raw)))
        pre = rng.choice([bytes([len(raw)]) if len(raw) < 253 else b"\xfd" + len(raw).to_bytes(2, "little"),
                          bytes([min(252, len(raw) + 3)]), b"\xfd\xff\xff", b"\xff" + b"\xff" * 8])
        for op in ("script_parse", "spk_parse"):
            lines.append((op, f"{op} {xb(pre + raw + rbytes(rng, rng.choice([0, 2])))}"))

    # ---- witnesses
    wits = [[], [b""], [b"", b""], [rbytes(rng, 0xFC)], [rbytes(rng, 0xFD)], [rbytes(rng, 0xFFFF)], [rbytes(rng, 0x10000)],
            [rbytes(rng, 70000)], [b"\x50"], [rbytes(rng, 64), b"\x50" + rbytes(rng, 5)], [b"a"] * 252, [b"b"] * 253, [b""] * 300]
    for _ in range(ctx.n(200)):
        wits.append([rbytes(rng, rng.choice([0, 1, 32, 64, 72, 73, 252, 253, 520, rng.randrange(0, 2000)])) for _ in range(rng.randrange(0, 6))])
    for w in wits:
        rest = rbytes(rng, rng.choice([0, 0, 4]))
        lines.append(("wit_ser", "wit_ser " + T.t_witness(w)))
        preds.append(("witness_roundtrip", {"items": [xb(i) for i in w], "rest": xb(rest)}))
    for _ in range(ctx.n(300)):
        n = rng.choice([0, 1, 2, 3, 0xFC, 0xFD, 0xFF])
        body = bytes([n]) + b"".join(bytes([rng.choice([0, 1, 2, 5])]) + rbytes(rng, rng.choice([0, 1, 2, 5])) for _ in range(rng.randrange(0, 4)))
        lines.append(("wit_parse", "wit_parse " + xb(body)))

    # ---- transactions built through the API
    txs = []
    for nin, nout in [(1, 0), (1, 1), (252, 1), (253, 2), (300, 3), (1, 252), (2, 253), (1, 300), (0, 1), (0, 0), (0, 2)]:
        for sw in (False, True):
            txs.append(gen_tx(rng, nin, nout, sw, wf=True))
    txs.append(gen_tx(rng, 2, 2, True, wf=True, big_wit=True))
    for _ in range(ctx.n(250)):
        txs.append(gen_tx(rng, wf=True, big_wit=rng.random() < 0.02))
    for tx in txs:
        tok = T.t_tx(tx)
        for op in ("tx_ser", "tx_ser_legacy", "tx_ser_segwit", "tx_hash"):
            lines.append((op, f"{op} {tok}"))
        in_range = all(o["amount"] < 2 ** 64 for o in tx["outs"])
        if in_range and (tx["segwit"] or len(tx["ins"]) >= 1):
            preds.append(("tx_roundtrip", {"tx": tok, "rest": xb(rbytes(rng, rng.choice([0, 0, 1, 7])))}))
        if in_range:
            preds.append(("txid", {"tx": tok, "new_witness": [xb(rbytes(rng, rng.choice([0, 1, 70])))],
                                   "mutate": rng.choice(["version", "locktime", "amount", "sequence", "prev_index", "prev_tx", "script", "drop_output"]),
                                   "pos": rng.randrange(0, 1000)}))
    # out-of-range fields and scripts the serialiser refuses
    for _ in range(ctx.n(80)):
        tx = gen_tx(rng, wf=False)
        k = rng.randrange(6)
        if k == 0:
            tx["version"] = rng.choice([2 ** 32, 2 ** 40])
        elif k == 1:
            tx["locktime"] = 2 ** 32
        elif k == 2 and tx["ins"]:
            tx["ins"][0]["sequence"] = 2 ** 32
        elif k == 3 and tx["outs"]:
            tx["outs"][0]["amount"] = 2 ** 64
        elif k == 4 and tx["ins"]:
            tx["ins"][0]["prev_index"] = 2 ** 32
        elif k == 5 and tx["ins"]:
            tx["ins"][0]["prev_tx"] = rbytes(rng, rng.choice([0, 31, 33]))
        tok = T.t_tx(tx)
        for op in ("tx_ser", "tx_hash"):
            lines.append((op + ":odd", f"{op} {tok}"))
    # components
    for tx in txs[: ctx.n(120)]:
        for i in tx["ins"][:2]:
            lines.append(("txin_ser", "txin_ser " + T.t_txin(i)))
        for o in tx["outs"][:2]:
            lines.append(("txout_ser", "txout_ser " + T.t_txout(o)))

    # ---- byte streams: parse, and parse → serialize
    streams = []
    for name, raw in fixtures():
        streams.append((name, raw))
    nfix = len(streams)
    small = []
    for tx in txs:
        try:
            obj = T.p_tx(T.Toks(T.t_tx(tx).split(" ")))
            raw = obj.serialize()
        except Exception:
            continue
        streams.append(("built", raw + rbytes(rng, rng.choice([0, 0, 3]))))
        if tx["segwit"] or tx["ins"]:      # N04d: a zero-input legacy serialisation is not a canonical encoding
            preds.append(("parse_serialize", {"b": xb(raw)}))
        if len(raw) < 400:
            small.append(raw)
    rng.shuffle(small)
    for raw in small[: ctx.n(12, 120)]:
        for cut in range(len(raw)):
            streams.append(("truncated", raw[:cut]))
        for _ in range(40):
            bad = bytearray(raw)
            bad[rng.randrange(len(bad))] ^= rng.randrange(1, 256)
            streams.append(("garbled", bytes(bad)))
    # canonical bytes encoded by the harness itself (the oracle must not go through Script.raw_serialize): every push
    # length 1..80 and the PUSHDATA1/2 boundaries, in scriptSig and in scriptPubKey
    for L in list(range(1, 81)) + [254, 255, 256, 257, 519, 520]:
        d = rbytes(rng, L)
        for sigp, pkp in (([d], []), ([], [d]), ([rbytes(rng, 71), d], [d])):
            raw = ref_legacy_tx(sigp, pkp)
            body = b"".join(ref_push(x) for x in (sigp or pkp))
            preds.append(("canon_bytes", {"b": xb(raw), "script": xb(body), "why": f"push length {L}"}))
    # zero-input legacy bytes (N04d) and marker edge cases
    for nout in (0, 1, 2):
        body = (1).to_bytes(4, "little") + b"\x00" + bytes([nout]) + b"".join((5).to_bytes(8, "little") + b"\x01\x51" for _ in range(nout)) + b"\x00" * 4
        streams.append(("zero_input_legacy", body))
    streams += [("marker", b"\x01\x00\x00\x00\x00\x02" + b"\x00" * 10), ("short", b"\x01\x00\x00\x00"), ("short", b""), ("short", b"\x01\x00\x00\x00\x00")]
    for name, raw in streams:
        lines.append(("tx_parse:" + name.split(":")[0].split("#")[0], "tx_parse " + xb(raw)))
        preds.append(("parse_sound", {"b": xb(raw), "why": name}))
    for name, raw in streams[:nfix]:
        # component parsers on the fixtures: first input / first output located by parsing with the library is
        # avoided; instead feed the bytes after the version (+ marker) to the component parsers
        off = 6 if raw[4:5] == b"\x00" else 4
        lines.append(("txin_parse", "txin_parse " + xb(raw[off + 1: off + 1 + 400])))
    for _ in range(ctx.n(200)):
        b = rbytes(rng, rng.choice([0, 8, 9, 10, 12, 36, 37, 41, 60]))
        lines.append(("txin_parse", "txin_parse " + xb(b)))
        lines.append(("txout_parse", "txout_parse " + xb(b)))

    # ---- fetcher (urlopen stubbed)
    fx = fixtures()
    sample = [fx[i] for i in sorted(rng.sample(range(len(fx)), min(len(fx), ctx.n(14, 61))))]
    legacy_small = [t for t in txs if not t["segwit"] and t["ins"] and len(t["ins"]) < 4]
    for tx in legacy_small[:6] + [t for t in txs if t["segwit"] and len(t["ins"]) < 4][:4]:
        try:
            sample.append(("built", T.p_tx(T.Toks(T.t_tx(tx).split(" "))).serialize()))
        except Exception:
            pass
    other = fx[0][1]
    for name, raw in sample:
        try:
            with contextlib.redirect_stdout(io.StringIO()):
                txid = TX.Tx.parse(io.BytesIO(raw)).id()
        except Exception:
            continue
        true_id = hashlib.sha256(hashlib.sha256(raw).digest()).digest()[::-1].hex() if raw[4:5] != b"\x00" else txid
        hexs = raw.hex()
        responses = [("canonical", hexs), ("newline", hexs + "\n"), ("spaces", "  " + hexs[:10] + " " + hexs[10:] + "\t\n"),
                     ("upper", hexs.upper()), ("trailing_byte", hexs + "00"), ("trailing_bytes", hexs + "deadbeef"),
                     ("other_tx", other.hex()), ("non_hex", "<html>502 Bad Gateway</html>"), ("odd", hexs[:-1]),
                     ("empty", ""), ("inner_space", hexs[:9] + " " + hexs[9:])]
        # a non-minimal push: re-encode the first direct push of the first scriptSig as OP_PUSHDATA1
        nm = non_minimal(raw)
        if nm is not None:
            responses.append(("non_minimal_push", nm.hex()))
        for rname, resp in responses:
            for req_id in {txid, true_id, hashlib.sha256(hashlib.sha256(bytes.fromhex(resp)).digest()).digest()[::-1].hex()
                           if rname in ("trailing_byte", "trailing_bytes", "non_minimal_push", "other_tx") else txid}:
                for net in ("mainnet", rng.choice(["testnet", "signet", "regtest", "nonet"])):
                    lines.append(("fetch:" + rname, f"fetch {xs(net)} {xs(req_id)} {xs(resp)}"))
                    preds.append(("fetch_sound", {"net": net, "txid": req_id, "response": resp, "why": rname}))
        lines.append(("fetch:upper_id", f"fetch {xs('mainnet')} {xs(txid.upper())} {xs(hexs)}"))

    # ---- fetcher histories: 2..6 calls on one cache, mixing honest and lying servers, same / different ids, fresh or not
    pool = []
    for name, raw in sample:
        if len(raw) > 1500:
            continue
        try:
            with contextlib.redirect_stdout(io.StringIO()):
                obj = TX.Tx.parse(io.BytesIO(raw))
                if obj.serialize() != raw:
                    continue
                pool.append((obj.id(), raw))
        except Exception:
            continue

    def server(kind, txid, raw):
        if kind == "honest":
            return raw.hex()
        if kind == "honest_ws":
            return " " + raw.hex().upper() + "\n"
        if kind == "other":
            return rng.choice([r for i, r in pool if i != txid] or [raw]).hex()
        if kind == "tampered":      # well-formed, one locktime / amount byte changed: another id
            b = bytearray(raw)
            b[-1] ^= 1
            return bytes(b).hex()
        if kind == "trailing":
            return raw.hex() + "00"
        if kind == "non_minimal":
            nm = non_minimal(raw)
            return (nm or raw + b"\x00").hex()
        if kind == "non_hex":
            return "<html>503</html>"
        return ""

    kinds = ["honest", "honest", "honest_ws", "other", "tampered", "tampered", "trailing", "non_minimal", "non_hex", "empty"]
    hists = []
    for _ in range(ctx.n(1000)):
        ids = rng.sample(pool, min(len(pool), rng.choice([1, 1, 2, 3])))
        calls = []
        for _ in range(rng.randrange(2, 7)):
            txid, raw = rng.choice(ids)
            calls.append((rng.choice(["mainnet", "mainnet", "mainnet", "testnet", "signet", "regtest"]), txid,
                          server(rng.choice(kinds), txid, raw), rng.random() < 0.3))
        hists.append(calls)
    # the shapes that matter, always present: refuse then retry from the cache; honest then lying with and without fresh
    if pool:
        (i0, r0) = pool[0]
        for first in ("other", "tampered", "trailing", "non_minimal"):
            for f1 in (False, True):
                hists.append([("mainnet", i0, server(first, i0, r0), f1), ("mainnet", i0, server("non_hex", i0, r0), False),
                              ("mainnet", i0, server("honest", i0, r0), False), ("regtest", i0, server("other", i0, r0), False),
                              ("mainnet", i0, server("tampered", i0, r0), True), ("mainnet", i0, server("empty", i0, r0), False)])
    for calls in hists:
        rec.count("fetch_hist:calls", len(calls))
        rec.count("fetch_hist:fresh", sum(1 for c in calls if c[3]))
        rec.count("fetch_hist:repeated-id", len(calls) - len({c[1] for c in calls}))
        line = fetch_hist_line(calls)
        lines.append(("fetch_hist", line))
        preds.append(("fetch_history", {"hist": line}))

    # ---- known finding F04b (fixed): a legacy response with a trailing byte, requested under hash256(response)
    wit = f04b_witness()
    ok, got, want = eval_pred("fetch_sound", wit)
    rec.finding("F04b", not ok, wit)

    # run both sides
    answers = batch_parallel(drv, [model_line(l) for _, l in lines], workers=ctx.workers)
    for (kind, line), model in zip(lines, answers):
        impl = impl_line(line)
        if rec.compare(kind, {"line": line}, impl, model, determined=True, key=line[:300],
                       nontrivial=not line.endswith(" x")):
            rec.sample(kind, {"request": line[:600], "answer": model[:300]}, limit=1)
        if impl == REJECT:
            rec.count(kind + ":reject")
    for kind, case in preds:
        ok, got, want = eval_pred(kind, case)
        if ok:
            rec.ok(kind, repr(case)[:300])
            rec.sample(kind, case, limit=1)
            if kind == "fetch_sound" and got != REJECT:
                rec.count("fetch_sound:returned")
        else:
            rec.violation(kind, dict(case, pred=kind), got, want, note=case.get("why", ""))


def non_minimal(raw):
    """legacy transaction bytes whose first scriptSig starts with a direct push 1..75: the same transaction with
    that push written as OP_PUSHDATA1 (one byte longer; the script length byte is bumped)"""
    if raw[4:5] == b"\x00" or len(raw) < 47:
        return None
    if raw[4] == 0 or raw[4] >= 0xFD:
        return None
    pos = 5 + 36
    slen = raw[pos]
    if slen == 0 or slen >= 0xFC:
        return None
    first = raw[pos + 1]
    if not (1 <= first <= 75) or first + 1 > slen:
        return None
    return raw[:pos] + bytes([slen + 1]) + b"\x4c" + raw[pos + 1:]


def f04b_witness():
    raw = bytes.fromhex("01000000" "01" + "11" * 32 + "00000000" "00" "ffffffff" "01" "0100000000000000" "0151" "00000000") + b"\x00"
    rid = hashlib.sha256(hashlib.sha256(raw).digest()).digest()[::-1].hex()
    return {"net": "mainnet", "txid": rid, "response": raw.hex(), "why": "legacy response with a trailing byte, requested under hash256(response)"}


def replay(ctx, v):
    """re-execute one recorded violation exactly; True if it still violates"""
    case = v["case"]
    if "line" in case:
        return impl_line(case["line"]) != ctx.driver("drv_c04").one(model_line(case["line"]))
    ok, _, _ = eval_pred(case["pred"], case)
    return not ok
