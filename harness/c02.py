"""
C02 — BIP340 Schnorr: correspondence between the Lean model (lean/Buidl/Model/Schnorr.lean over Model/EC.lean;
driver drv_c02), the Lean specification (Spec/BIP340.lean: lift_x, sign, verify over SHA-256) and
buidl/pecc.py (PrivateKey.even_secret / bip340_k / sign_schnorr, S256Point.verify_schnorr, SchnorrSignature) with
buidl/phash.py (tagged_hash and its TAG_HASH_CACHE), plus the property predicates evaluated directly on the
implementation (sign → verify, every mutation rejected, cache transparency, the BIP340 test vectors).

  impl_line(line)   evaluate one driver request line on the real code -> canonical answer
  PREDICATES[kind]  property predicates evaluated directly on the real code: case -> (ok, got, want)
  run(ctx)          generate request lines / predicate cases, run both sides, record
  replay(ctx, v)    re-execute one recorded violation exactly
"""
import hashlib
import time

from harness.common import REJECT, xb, unx, batch_parallel, pmap

PROPERTY = "C02"
DRIVERS = ["drv_c02"]
ANCHORS = [
    ("buidl/phash.py", "tagged_hash"), ("buidl/phash.py", "hash_aux"), ("buidl/phash.py", "hash_nonce"),
    ("buidl/phash.py", "hash_challenge"),
    ("buidl/pecc.py", "PrivateKey.__init__"), ("buidl/pecc.py", "PrivateKey.parse"), ("buidl/pecc.py", "PrivateKey.wif"), ("buidl/pecc.py", "PrivateKey.even_secret"),
    ("buidl/pecc.py", "PrivateKey.bip340_k"), ("buidl/pecc.py", "PrivateKey.sign_schnorr"),
    ("buidl/pecc.py", "S256Point.verify_schnorr"), ("buidl/pecc.py", "S256Point.__init__"),
    ("buidl/pecc.py", "S256Point.__add__"), ("buidl/pecc.py", "S256Point.__rmul__"),
    ("buidl/pecc.py", "S256Point.xonly"), ("buidl/pecc.py", "S256Point.parse"), ("buidl/pecc.py", "S256Point.parse_xonly"),
    ("buidl/pecc.py", "S256Field.sqrt"),
    ("buidl/pecc.py", "SchnorrSignature.__init__"), ("buidl/pecc.py", "SchnorrSignature.serialize"),
    ("buidl/pecc.py", "SchnorrSignature.parse"), ("buidl/helper.py", "xor_bytes"),
]
RULE = ("secrets: boundary values (1, 2, 3, n-1, n-2, 2^128±1, 2^255±1) and PRNG draws (seeded by VERIF_SEED), kept until "
        "both public-key parities and both nonce parities are represented (counted in the distribution); messages / "
        "aux: zeros, ones, random, aux None; the 16 BIP340 vectors of buidl/test/test_schnorr.py; candidate "
        "signatures: valid ones, single-bit flips at 16 sampled positions of R, of s, of the message and of the "
        "key, R = 0, R ∈ {p, p+1, 2^256-1}, a non-residue R, s ∈ {0, n-1, n, 2^256-1}, n-s, swapped halves, 63/65-byte "
        "strings; every answer compared with the Lean model AND the Lean BIP340 specification; histories executed in "
        "one process on SHARED objects (one PrivateKey signing the same message under different aux values and "
        "different messages under the same aux, interleaved and repeated; one SchnorrSignature object — as returned "
        "by sign_schnorr and as parsed — verified 5-6 times against right/altered messages and right/other keys, "
        "right-first and wrong-first), every step compared with the stateless model and specification on the CURRENT "
        "arguments, and the observable state of every shared object (secret, point coordinates/parity, even_secret(), "
        "R, s) compared with its initial snapshot after every step; signatures CONSTRUCTED from the BIP340 equations "
        "with chosen nonces (1, 2, 7, n-1, d, n-d, 2d, d+1, sha256(m), random) must be accepted, their bit flips and "
        "the s = e·d signature (infinite result) rejected; keys that lift_x refuses (00…00, x ≥ p, x off the curve) "
        "with signatures x(s·G) ‖ s that would verify if the key were taken for infinity; an odd-Y PrivateKey whose "
        "own point object rejects tampered signatures (odd-y result, x mismatch, infinite result) and then signs "
        "again; key CONFIGURATIONS: PrivateKey(d, network, compressed) for all 8 combinations and PrivateKey.parse of "
        "both WIF forms, each signing / deriving nonces with the answer required to equal the configuration-free "
        "model and BIP340 specification.  Non-trivial = not "
        "rejected by a length/range check alone; distinct = distinct request lines")
CLAUSES = {
    "tagged hashes (cache transparency)": "proved (taggedHash_cache_transparent, taggedHash_invariant, tags)",
    "signing returns exactly the BIP340 signature":
        "proved (signSchnorr_eq_spec, signSchnorr_aux_default): same bytes for every secret in [1, n-1], message, aux "
        "and cache state; both sides fail only when the nonce k' is 0",
    "the signature verifies under the x-only key / the self-check never raises":
        "proved (sign_verifies) under the explicit hypothesis nonce k' ≠ 0",
    "verification accepts exactly when BIP340 verification accepts":
        "proved (verifySchnorr_eq_spec) for all 32-byte keys, messages and 64-byte signatures",
    "R not an x coordinate / R ≥ p / s ≥ n rejected":
        "proved (verifySchnorr_eq_spec; parse_sound, parse_rejects_s_ge_n, parse_rejects_r_ge_p, parse_rejects_non_x, "
        "mkSig_rejects)",
    "lift_x": "proved (liftX_complete, liftX_sound, parseXonly_is_liftX)",
    "the all-zero key (read as infinity by the code) and every key lift_x refuses are rejected":
        "proved (verify_rejects_zero_key, verifySchnorr_eq_spec with liftX_sound)",
    "64-byte codec": "proved (parse_serialize, serialize_parse, parse_sound)",
}
TRUSTED = ["SHA-256 is a parameter of every theorem; the driver instantiates it with Buidl.Model.Hash.SHA256 (checked "
           "against hashlib by harness/hash_selftest.py and by every tagged-hash case of this run)",
           "the specification's group operations are the model's sadd/smul, proved to be the secp256k1 group law in "
           "Buidl.Proofs.ECGroup / Secp256k1 (Mathlib's WeierstrassCurve.Affine.Point)"]
ASSUMPTIONS = ["hashlib.sha256, int.to_bytes / int.from_bytes, pow(b, e, m) behave as documented",
               "io.BytesIO.read(n) returns min(n, remaining) bytes; dict preserves insertion order",
               "negligible event stated as hypothesis: the BIP340 nonce k' = 0 (probability ≈ 2^-256)",
               "O02a (recorded, outside the quantifier): SchnorrSignature.parse ignores bytes after the 64th and accepts "
               "a short s field"]

N = 0xFFFFFFFFFFFFFFFFFFFFFFFFFFFFFFFEBAAEDCE6AF48A03BBFD25E8CD0364141
P = 2**256 - 2**32 - 977

# buidl/test/test_schnorr.py (BIP340 test vectors): (secret, pubkey, aux, msg, sig) / (pubkey, msg, sig, valid)
VEC_SIGN = [
    ("0000000000000000000000000000000000000000000000000000000000000003", "F9308A019258C31049344F85F89D5229B531C845836F99B08601F113BCE036F9", "0000000000000000000000000000000000000000000000000000000000000000", "0000000000000000000000000000000000000000000000000000000000000000", "E907831F80848D1069A5371B402410364BDF1C5F8307B0084C55F1CE2DCA821525F66A4A85EA8B71E482A74F382D2CE5EBEEE8FDB2172F477DF4900D310536C0"),
    ("B7E151628AED2A6ABF7158809CF4F3C762E7160F38B4DA56A784D9045190CFEF", "DFF1D77F2A671C5F36183726DB2341BE58FEAE1DA2DECED843240F7B502BA659", "0000000000000000000000000000000000000000000000000000000000000001", "243F6A8885A308D313198A2E03707344A4093822299F31D0082EFA98EC4E6C89", "6896BD60EEAE296DB48A229FF71DFE071BDE413E6D43F917DC8DCF8C78DE33418906D11AC976ABCCB20B091292BFF4EA897EFCB639EA871CFA95F6DE339E4B0A"),
    ("C90FDAA22168C234C4C6628B80DC1CD129024E088A67CC74020BBEA63B14E5C9", "DD308AFEC5777E13121FA72B9CC1B7CC0139715309B086C960E18FD969774EB8", "C87AA53824B4D7AE2EB035A2B5BBBCCC080E76CDC6D1692C4B0B62D798E6D906", "7E2D58D8B3BCDF1ABADEC7829054F90DDA9805AAB56C77333024B9D0A508B75C", "5831AAEED7B44BB74E5EAB94BA9D4294C49BCF2A60728D8B4C200F50DD313C1BAB745879A5AD954A72C45A91C3A51D3C7ADEA98D82F8481E0E1E03674A6F3FB7"),
    ("0B432B2677937381AEF05BB02A66ECD012773062CF3FA2549E44F58ED2401710", "25D1DFF95105F5253C4022F628A996AD3A0D95FBF21D468A1B33F8C160D8F517", "FFFFFFFFFFFFFFFFFFFFFFFFFFFFFFFFFFFFFFFFFFFFFFFFFFFFFFFFFFFFFFFF", "FFFFFFFFFFFFFFFFFFFFFFFFFFFFFFFFFFFFFFFFFFFFFFFFFFFFFFFFFFFFFFFF", "7EB0509757E246F19449885651611CB965ECC1A187DD51B64FDA1EDC9637D5EC97582B9CB13DB3933705B32BA982AF5AF25FD78881EBB32771FC5922EFC66EA3"),
]
VEC_VERIFY = [
    ("D69C3509BB99E412E68B0FE8544E72837DFA30746D8BE2AA65975F29D22DC7B9", "4DF3C3F68FCC83B27E9D42C90431A72499F17875C81A599B566C9889B9696703", "00000000000000000000003B78CE563F89A0ED9414F5AA28AD0D96D6795F9C6376AFB1548AF603B3EB45C9F8207DEE1060CB71C04E80F593060B07D28308D7F4", True),
    ("d0fa46cb883e940ac3dc5421f05b03859972639f51ed2eccbf3dc5a62e2e1b15", "11864b0142c248fdb090d08893745e0b36a78f988a8334d2056814ad5f541596", "23b1d4ff27b16af4b0fcb9672df671701a1a7f5a6bb7352b051f461edbc614aa6068b3e5313a174f90f3d95dc4e06f69bebd9cf5a3098fde034b01e69e8e7889", True),
    ("EEFDEA4CDB677750A420FEE807EACF21EB9898AE79B9768766E4FAA04A2D4A34", "243F6A8885A308D313198A2E03707344A4093822299F31D0082EFA98EC4E6C89", "6CFF5C3BA86C69EA4B7376F31A9BCB4F74C1976089B2D9963DA2E5543E17776969E89B4C5564D00349106B8497785DD7D1D713A8AE82B32FA79D5F7FC407D39B", False),
    ("DFF1D77F2A671C5F36183726DB2341BE58FEAE1DA2DECED843240F7B502BA659", "243F6A8885A308D313198A2E03707344A4093822299F31D0082EFA98EC4E6C89", "FFF97BD5755EEEA420453A14355235D382F6472F8568A18B2F057A14602975563CC27944640AC607CD107AE10923D9EF7A73C643E166BE5EBEAFA34B1AC553E2", False),
    ("DFF1D77F2A671C5F36183726DB2341BE58FEAE1DA2DECED843240F7B502BA659", "243F6A8885A308D313198A2E03707344A4093822299F31D0082EFA98EC4E6C89", "1FA62E331EDBC21C394792D2AB1100A7B432B013DF3F6FF4F99FCB33E0E1515F28890B3EDB6E7189B630448B515CE4F8622A954CFE545735AAEA5134FCCDB2BD", False),
    ("DFF1D77F2A671C5F36183726DB2341BE58FEAE1DA2DECED843240F7B502BA659", "243F6A8885A308D313198A2E03707344A4093822299F31D0082EFA98EC4E6C89", "6CFF5C3BA86C69EA4B7376F31A9BCB4F74C1976089B2D9963DA2E5543E177769961764B3AA9B2FFCB6EF947B6887A226E8D7C93E00C5ED0C1834FF0D0C2E6DA6", False),
    ("DFF1D77F2A671C5F36183726DB2341BE58FEAE1DA2DECED843240F7B502BA659", "243F6A8885A308D313198A2E03707344A4093822299F31D0082EFA98EC4E6C89", "0000000000000000000000000000000000000000000000000000000000000000123DDA8328AF9C23A94C1FEECFD123BA4FB73476F0D594DCB65C6425BD186051", False),
    ("DFF1D77F2A671C5F36183726DB2341BE58FEAE1DA2DECED843240F7B502BA659", "243F6A8885A308D313198A2E03707344A4093822299F31D0082EFA98EC4E6C89", "00000000000000000000000000000000000000000000000000000000000000017615FBAF5AE28864013C099742DEADB4DBA87F11AC6754F93780D5A1837CF197", False),
    ("DFF1D77F2A671C5F36183726DB2341BE58FEAE1DA2DECED843240F7B502BA659", "243F6A8885A308D313198A2E03707344A4093822299F31D0082EFA98EC4E6C89", "4A298DACAE57395A15D0795DDBFD1DCB564DA82B0F269BC70A74F8220429BA1D69E89B4C5564D00349106B8497785DD7D1D713A8AE82B32FA79D5F7FC407D39B", False),
    ("DFF1D77F2A671C5F36183726DB2341BE58FEAE1DA2DECED843240F7B502BA659", "243F6A8885A308D313198A2E03707344A4093822299F31D0082EFA98EC4E6C89", "FFFFFFFFFFFFFFFFFFFFFFFFFFFFFFFFFFFFFFFFFFFFFFFFFFFFFFFEFFFFFC2F69E89B4C5564D00349106B8497785DD7D1D713A8AE82B32FA79D5F7FC407D39B", False),
    ("DFF1D77F2A671C5F36183726DB2341BE58FEAE1DA2DECED843240F7B502BA659", "243F6A8885A308D313198A2E03707344A4093822299F31D0082EFA98EC4E6C89", "6CFF5C3BA86C69EA4B7376F31A9BCB4F74C1976089B2D9963DA2E5543E177769FFFFFFFFFFFFFFFFFFFFFFFFFFFFFFFEBAAEDCE6AF48A03BBFD25E8CD0364141", False),
    ("FFFFFFFFFFFFFFFFFFFFFFFFFFFFFFFFFFFFFFFFFFFFFFFFFFFFFFFEFFFFFC30", "243F6A8885A308D313198A2E03707344A4093822299F31D0082EFA98EC4E6C89", "6CFF5C3BA86C69EA4B7376F31A9BCB4F74C1976089B2D9963DA2E5543E17776969E89B4C5564D00349106B8497785DD7D1D713A8AE82B32FA79D5F7FC407D39B", False),
]


class UnknownOp(Exception):
    pass


# --------------------------------------------------------------------------------- implementation side
def _aux(tok):
    return None if tok == "-" else unx(tok)


def _fmt_pt(p):
    if p.x is None:
        return "inf"
    return xb(p.x.num.to_bytes(32, "big") + p.y.num.to_bytes(32, "big"))


CONFIGS = [f"c{c}:{n}" for c in (1, 0) for n in ("mainnet", "testnet", "signet", "regtest")] + \
          [f"wif{c}:{n}" for c in (1, 0) for n in ("mainnet", "testnet")]


def mk_key(d, cfg=None):
    """the PrivateKey for secret d under a configuration: None = PrivateKey(d); `c<0|1>:<network>` =
    PrivateKey(d, network=…, compressed=…); `wif<0|1>:<network>` = PrivateKey.parse of the (un)compressed WIF.
    Neither the model nor the specifications have these options: the expected answers do not depend on them."""
    import buidl.ecc as E
    if not cfg:
        return E.PrivateKey(d)
    kind, net = cfg.split(":")
    if kind.startswith("wif"):
        return E.PrivateKey.parse(E.PrivateKey(d, network=net).wif(compressed=kind == "wif1"))
    return E.PrivateKey(d, network=net, compressed=kind == "c1")


def split_op(tok):
    """`op@cfg` -> (op, cfg)"""
    op, _, cfg = tok.partition("@")
    return op, (cfg or None)


def _impl(t):
    import buidl.ecc as E
    import buidl.hash as H
    import buidl.phash as PH
    op, cfg = split_op(t[0])
    if op == "tagged":
        k = int(t[1])
        PH.TAG_HASH_CACHE.clear()
        ds = [H.tagged_hash(unx(t[2 + 2 * i]), unx(t[3 + 2 * i])) for i in range(k)]
        cache = sorted(PH.TAG_HASH_CACHE.items())
        return " ".join([str(k)] + [xb(d) for d in ds] + [str(len(cache))] + [f"{xb(a)} {xb(b)}" for a, b in cache])
    if op == "spec_tagged":
        return xb(H.tagged_hash(unx(t[1]), unx(t[2])))
    if op == "bip340k":
        return str(mk_key(int(t[1]), cfg).bip340_k(unx(t[2]), _aux(t[3])))
    if op in ("schnorr_sign", "spec_sign"):
        return xb(mk_key(int(t[1]), cfg).sign_schnorr(unx(t[2]), _aux(t[3])).serialize())
    if op in ("schnorr_verify", "spec_verify"):
        pk = E.S256Point.parse(unx(t[1]))
        sig = E.SchnorrSignature.parse(unx(t[3]))
        return "1" if pk.verify_schnorr(unx(t[2]), sig) is True else REJECT
    if op == "schnorr_parse":
        sig = E.SchnorrSignature.parse(unx(t[1]))
        return f"{_fmt_pt(sig.r)} {sig.s}"
    if op == "schnorr_roundtrip":
        return xb(E.SchnorrSignature.parse(unx(t[1])).serialize())
    if op == "spec_liftx":
        x = int(t[1])
        if x == 0:
            return REJECT   # parse_xonly(0) is the point at infinity by the code's convention; lift_x(0) fails
        p = E.S256Point.parse_xonly(x.to_bytes(32, "big"))
        return _fmt_pt(p)
    raise UnknownOp(op)


def _snap(o):
    """observable state of a PrivateKey / S256Point / SchnorrSignature object"""
    import buidl.ecc as E
    if isinstance(o, E.PrivateKey):
        return ("sk", o.secret, _snap(o.point), o.even_secret())
    if isinstance(o, E.SchnorrSignature):
        return ("sig", _snap(o.r), o.s)
    if o.x is None:
        return ("inf",)
    return ("pt", o.x.num, o.y.num, getattr(o, "parity", None))


def impl_history(lines):
    """evaluate request lines in order in ONE process on SHARED objects — one PrivateKey per secret, one S256Point
    per key encoding (the `.point` of the PrivateKey when a signing step created it), one SchnorrSignature object per
    64-byte string (the object returned by sign_schnorr, which has already been self-verified, when an earlier step
    produced that string; otherwise the parsed object).  TAG_HASH_CACHE is shared as well.  Stale state kept on any
    of these between calls shows up as an answer that differs from the stateless model / specification.
    "Signing and verification do not modify their arguments": the observable state of every pooled object (secret,
    point coordinates and parity, even_secret(), R and s) is snapshotted when the object enters the pool and compared
    after every step; a change is appended to the step's answer as ` STATE-CHANGED …` (so it can never equal the
    model's answer)."""
    import buidl.ecc as E
    pool, snap0, out = {}, {}, []

    def put(key, obj):
        if key not in pool:
            pool[key] = obj
            try:
                snap0[key] = _snap(obj)
            except Exception:
                snap0[key] = ("unsnappable",)
        return pool[key]

    for line in lines:
        t = line.split(" ")
        try:
            op, cfg = split_op(t[0])
            if op in ("schnorr_sign", "spec_sign", "bip340k"):
                if ("sk", t[1], cfg) not in pool:
                    pk = put(("sk", t[1], cfg), mk_key(int(t[1]), cfg))
                    put(("pt", xb(pk.point.xonly())), pk.point)
                    put(("pt", xb(pk.point.sec())), pk.point)
                pk = pool[("sk", t[1], cfg)]
                if op == "bip340k":
                    ans = str(pk.bip340_k(unx(t[2]), _aux(t[3])))
                else:
                    sig = pk.sign_schnorr(unx(t[2]), _aux(t[3]))
                    raw = sig.serialize()
                    put(("sig", xb(raw)), sig)
                    ans = xb(raw)
            elif op in ("schnorr_verify", "spec_verify"):
                if ("pt", t[1]) not in pool:
                    put(("pt", t[1]), E.S256Point.parse(unx(t[1])))
                if ("sig", t[3]) not in pool:
                    put(("sig", t[3]), E.SchnorrSignature.parse(unx(t[3])))
                ans = "1" if pool[("pt", t[1])].verify_schnorr(unx(t[2]), pool[("sig", t[3])]) is True else REJECT
            else:
                ans = _impl(t)
        except UnknownOp:
            raise
        except Exception:
            ans = REJECT
        changed = []
        for key, obj in pool.items():
            try:
                now = _snap(obj)
            except Exception:
                now = ("unsnappable",)
            if now != snap0[key]:
                changed.append(f"{key[0]}:{str(key[1])[:18]}")
        if changed:
            ans += " STATE-CHANGED " + ",".join(sorted(changed))
        out.append(ans)
    return out


def th(tag, msg):
    """BIP340 tagged hash, computed here with hashlib only"""
    t = hashlib.sha256(tag).digest()
    return hashlib.sha256(t + t + msg).digest()


def craft(args):
    """signatures CONSTRUCTED from the BIP340 equations with chosen nonces (the signer never produces these):
    (d, msg, [(name, k)]) -> [(name, x-only key, 64-byte signature)], plus one (name 'inf_result') whose
    s·G − e·P is the point at infinity (s = e·d)"""
    import buidl.ecc as E
    d, msg, ks = args
    Pt = d * E.G
    xo = Pt.x.num.to_bytes(32, "big")
    de = d if Pt.y.num % 2 == 0 else N - d
    out = []
    for name, k in ks:
        k %= N
        if k == 0:
            continue
        R = k * E.G
        if R.y.num % 2:
            k = N - k
        rx = R.x.num.to_bytes(32, "big")
        e = int.from_bytes(th(b"BIP0340/challenge", rx + xo + msg), "big") % N
        out.append((name, xo, rx + ((k + e * de) % N).to_bytes(32, "big")))
        if name == "k=1":
            out.append(("inf_result", xo, rx + ((e * de) % N).to_bytes(32, "big")))
    return out


def x_of_sG(s):
    """(x(s·G), s') with s' ∈ {s, n−s} such that s'·G has even y"""
    import buidl.ecc as E
    R = (s % N) * E.G
    return R.x.num.to_bytes(32, "big"), (s % N if R.y.num % 2 == 0 else N - s % N)


IMPL_ALIAS = {"spec_sign": "schnorr_sign", "spec_verify": "schnorr_verify"}


def impl_line(line):
    t = line.split(" ")
    try:
        return _impl(t)
    except UnknownOp:
        raise
    except Exception:
        return REJECT


def impl_key(line):
    t = line.split(" ")
    op, cfg = split_op(t[0])
    t[0] = IMPL_ALIAS.get(op, op) + (f"@{cfg}" if cfg else "")
    return " ".join(t)


def model_line(line):
    """the driver request: the key configuration is dropped (the model and the specification have none)"""
    t = line.split(" ")
    t[0] = split_op(t[0])[0]
    return " ".join(t)


# --------------------------------------------------------------------------------- direct predicates
def p_sign_verify(c):
    """signing yields 64 bytes that verify under the x-only key (and under the SEC key), parse back to themselves,
    and R has even y / s < n"""
    import buidl.ecc as E
    pk = mk_key(c["d"], c.get("cfg"))
    msg, aux = unx(c["msg"]), _aux(c["aux"])
    sig = pk.sign_schnorr(msg, aux)
    raw = sig.serialize()
    got = {"len64": len(raw) == 64,
           "verify_xonly": E.S256Point.parse(pk.point.xonly()).verify_schnorr(msg, E.SchnorrSignature.parse(raw)) is True,
           "verify_point": pk.point.verify_schnorr(msg, sig) is True,
           "reparse": E.SchnorrSignature.parse(raw).serialize() == raw,
           "s_lt_n": sig.s < N, "R_even": sig.r.y.num % 2 == 0}
    want = {k: True for k in got}
    return got == want, got, want


def p_must_reject(c):
    """an altered message, key, R or s must not verify"""
    import buidl.ecc as E
    try:
        pk = E.S256Point.parse(unx(c["pk"]))
        ok = pk.verify_schnorr(unx(c["msg"]), E.SchnorrSignature.parse(unx(c["sig"])))
    except Exception:
        return True, REJECT, REJECT
    return ok is not True, ("1" if ok is True else REJECT), REJECT


def p_vector(c):
    """a BIP340 test vector"""
    import buidl.ecc as E
    got = {}
    if "d" in c:
        got["sign"] = xb(E.PrivateKey(c["d"]).sign_schnorr(unx(c["msg"]), unx(c["aux"])).serialize())
        got["pubkey"] = xb(E.PrivateKey(c["d"]).point.xonly())
        want = {"sign": c["sig"], "pubkey": c["pk"]}
    else:
        want = {}
    try:
        v = E.S256Point.parse(unx(c["pk"])).verify_schnorr(unx(c["msg"]), E.SchnorrSignature.parse(unx(c["sig"]))) is True
    except Exception:
        v = False
    got["verify"] = v
    want["verify"] = c["valid"]
    return got == want, got, want


def p_cache(c):
    """tagged_hash after an arbitrary history (cache NOT cleared) is sha256(sha256(tag)*2 + msg)"""
    import buidl.hash as H
    got, want = [], []
    for tag, msg in c["calls"]:
        tag, msg = unx(tag), unx(msg)
        got.append(xb(H.tagged_hash(tag, msg)))
        th = hashlib.sha256(tag).digest()
        want.append(xb(hashlib.sha256(th + th + msg).digest()))
    return got == want, got, want


def p_must_accept(c):
    """a signature constructed from the BIP340 equations (any nonce) is accepted"""
    import buidl.ecc as E
    ok = E.S256Point.parse(unx(c["pk"])).verify_schnorr(unx(c["msg"]), E.SchnorrSignature.parse(unx(c["sig"])))
    return ok is True, ("1" if ok is True else REJECT), "1"


PREDICATES = {"must_accept": p_must_accept, "sign_verify": p_sign_verify, "must_reject": p_must_reject, "bip340_vector": p_vector, "cache_transparent": p_cache}


def eval_pred(kind, case=None):
    if case is None:
        kind, case = kind
    try:
        return PREDICATES[kind](case)
    except Exception as e:
        return False, "raised " + type(e).__name__, "no exception"


# --------------------------------------------------------------------------------- generation
def hash_order(l):
    return hashlib.blake2b(l.encode(), digest_size=8).digest()


def spread(drv, lines, workers):
    """batch_parallel over a fixed permutation of the requests (cheap and expensive ones interleaved)"""
    order = sorted(range(len(lines)), key=lambda i: hash_order(f"{i}:{lines[i][:40]}"))
    out = batch_parallel(drv, [lines[i] for i in order], workers=workers)
    res = [None] * len(lines)
    for i, a in zip(order, out):
        res[i] = a
    return res


def rbytes(rng, n):
    return rng.getrandbits(8 * n).to_bytes(n, "big") if n else b""


def non_residue_x(rng):
    while True:
        x = rng.randrange(1, P)
        c = (pow(x, 3, P) + 7) % P
        if pow(c, (P - 1) // 2, P) != 1:
            return x


def flip(b, bit):
    a = bytearray(b)
    a[bit // 8] ^= 0x80 >> (bit % 8)
    return bytes(a)


def sign_info(args):
    """(d, msg, aux) -> (sig bytes | None, key parity, nonce parity) on the implementation"""
    import buidl.ecc as E
    d, msg, aux = args
    try:
        pk = E.PrivateKey(d)
        k = pk.bip340_k(msg, aux)
        kp = (k * E.G).parity
        return pk.sign_schnorr(msg, aux).serialize(), pk.point.parity, kp, pk.point.xonly(), pk.point.sec()
    except Exception:
        return None, None, None, None, None


SECRETS_B = [1, 2, 3, N - 1, N - 2, 2**128 - 1, 2**128 + 1, 2**255 - 1, 2**255 + 1]


def run(ctx):
    rng, rec = ctx.rng, ctx.rec
    drv = ctx.driver("drv_c02")
    lines = []   # (kind, request line, determined)
    preds = []   # (kind, case)

    # ---- tagged hash histories (cache as state)
    tags = [b"BIP0340/aux", b"BIP0340/nonce", b"BIP0340/challenge", b"TapTweak", b"", b"a", b"\x00", b"a" * 64, b"a" * 65]
    for _ in range(ctx.n(120)):
        pool = rng.sample(tags, rng.randrange(1, 5)) + [rbytes(rng, rng.choice([1, 5, 32, 55, 56, 64, 100]))]
        calls = [(rng.choice(pool), rbytes(rng, rng.choice([0, 1, 31, 32, 33, 64, 96, 119, 120, 200]))) for _ in range(rng.randrange(1, 9))]
        lines.append(("tagged", "tagged " + " ".join([str(len(calls))] + [f"{xb(a)} {xb(b)}" for a, b in calls]), True))
        preds.append(("cache_transparent", {"calls": [(xb(a), xb(b)) for a, b in calls]}))
        a, b = calls[-1]
        lines.append(("spec_tagged", f"spec_tagged {xb(a)} {xb(b)}", True))

    # ---- BIP340 vectors
    for d, pk, aux, msg, sig in VEC_SIGN:
        d = int(d, 16)
        m, a, s, p = (xb(bytes.fromhex(v)) for v in (msg, aux, sig, pk))
        preds.append(("bip340_vector", {"d": d, "pk": p, "aux": a, "msg": m, "sig": s, "valid": True}))
        lines.append(("vector:sign", f"schnorr_sign {d} {m} {a}", True))
        lines.append(("vector:spec_sign", f"spec_sign {d} {m} {a}", True))
        lines.append(("vector:verify", f"schnorr_verify {p} {m} {s}", True))
        lines.append(("vector:spec_verify", f"spec_verify {p} {m} {s}", True))
    for pk, msg, sig, valid in VEC_VERIFY:
        m, s, p = (xb(bytes.fromhex(v)) for v in (msg, sig, pk))
        preds.append(("bip340_vector", {"pk": p, "msg": m, "sig": s, "valid": valid}))
        lines.append(("vector:verify", f"schnorr_verify {p} {m} {s}", True))
        lines.append(("vector:spec_verify", f"spec_verify {p} {m} {s}", True))

    # ---- sign cases; keep drawing until both key parities and both nonce parities are present
    nsign = ctx.n(150)
    cand = []
    for i, d in enumerate(SECRETS_B):
        cand.append((d, bytes(32) if i % 2 else rbytes(rng, 32), None if i % 3 == 0 else rbytes(rng, 32)))
    while len(cand) < nsign:
        d = rng.choice([rng.randrange(1, N), rng.randrange(1, N), rng.randrange(1, 2**32), N - rng.randrange(1, 2**32)])
        msg = rng.choice([rbytes(rng, 32), rbytes(rng, 32), bytes(32), b"\xff" * 32])
        aux = rng.choice([rbytes(rng, 32), rbytes(rng, 32), None, bytes(32), b"\xff" * 32])
        cand.append((d, msg, aux))
    infos = pmap(sign_info, cand, workers=ctx.workers, chunksize=4)
    for _ in range(5):
        have = {(kp, np_) for _, kp, np_, _, _ in infos}
        if {(0, 0), (0, 1), (1, 0), (1, 1)} <= have:
            break
        extra = [(rng.randrange(1, N), rbytes(rng, 32), rbytes(rng, 32)) for _ in range(16)]
        cand += extra
        infos += pmap(sign_info, extra, workers=ctx.workers, chunksize=1)
    impl_seed = {}
    vsig = 0
    for idx, ((d, msg, aux), (sig, kpar, npar, xo, sec)) in enumerate(zip(cand, infos)):
        a = "-" if aux is None else xb(aux)
        line = f"schnorr_sign {d} {xb(msg)} {a}"
        if sig is None:
            rec.violation("sign_raised", {"line": line}, REJECT, "a signature", note="valid secret, 32-byte message and aux")
            continue
        impl_seed[line] = xb(sig)
        rec.count(f"key_parity={kpar},nonce_parity={npar}")
        lines.append(("schnorr_sign", line, True))
        if aux is not None:
            lines.append(("spec_sign", f"spec_sign {d} {xb(msg)} {a}", True))
        else:
            lines.append(("spec_sign", f"spec_sign {d} {xb(msg)} {xb(bytes(32))}", True))
            impl_seed[f"schnorr_sign {d} {xb(msg)} {xb(bytes(32))}"] = xb(sig)
        if idx % 3 == 0:
            lines.append(("bip340k", f"bip340k {d} {xb(msg)} {a}", True))
        if idx % 3 != 2 or ctx.thorough:
            preds.append(("sign_verify", {"d": d, "msg": xb(msg), "aux": a}))
        # verification catalogue on a subset (≈ 10 verifications per signature)
        if not (idx < ctx.n(24) or idx % 3 == 0):
            continue
        vsig += 1
        R, s = sig[:32], sig[32:]
        si = int.from_bytes(s, "big")
        muts = [("valid", xo, msg, sig), ("valid_sec_key", sec, msg, sig)]
        full = idx < ctx.n(12)
        bits = 16 if full else 2
        for b in rng.sample(range(256), bits):
            muts.append(("flip_R", xo, msg, flip(R, b) + s))
        for b in rng.sample(range(256), bits):
            muts.append(("flip_s", xo, msg, R + flip(s, b)))
        for b in rng.sample(range(256), max(1, bits // 4)):
            muts.append(("flip_msg", xo, flip(msg, b), sig))
            muts.append(("flip_key", flip(xo, b), msg, sig))
        special = [("R=0", bytes(32) + s), ("R=p", P.to_bytes(32, "big") + s), ("R=p+1", (P + 1).to_bytes(32, "big") + s),
                   ("R=2^256-1", b"\xff" * 32 + s), ("R_nonresidue", non_residue_x(rng).to_bytes(32, "big") + s),
                   ("s=0", R + bytes(32)), ("s=n-1", R + (N - 1).to_bytes(32, "big")), ("s=n", R + N.to_bytes(32, "big")),
                   ("s=2^256-1", R + b"\xff" * 32), ("s=n-s", R + ((N - si) % N).to_bytes(32, "big")),
                   ("s+n", R + (si + N).to_bytes(32, "big") if si + N < 2**256 else R + b"\xff" * 32), ("swapped", s + R),
                   ("other_key", None)]
        if not full:
            special = rng.sample(special, 4)
        for name, sg in special:
            if name == "other_key":
                other = cand[(idx + 1) % len(cand)]
                oi = infos[(idx + 1) % len(cand)]
                if oi[3] is not None and oi[3] != xo:
                    muts.append(("other_key", oi[3], msg, sig))
            else:
                muts.append((name, xo, msg, sg))
        for name, pk_, m_, sg in muts:
            lines.append(("schnorr_verify:" + name, f"schnorr_verify {xb(pk_)} {xb(m_)} {xb(sg)}", True))
            if len(pk_) == 32:
                lines.append(("spec_verify:" + name, f"spec_verify {xb(pk_)} {xb(m_)} {xb(sg)}", True))
            if not name.startswith("valid") and (full or len(preds) % 2 == 0):
                preds.append(("must_reject", {"pk": xb(pk_), "msg": xb(m_), "sig": xb(sg), "why": name}))
        if idx < ctx.n(20):
            # outside the quantifier (not 64 bytes / not a 32-byte key): model against code only — observation O02a
            for name, pk_, sg in (("sig63", xo, sig[:63]), ("sig65", xo, sig + b"\x00"), ("sig32", xo, sig[:32]), ("sig0", xo, b""),
                                  ("key31", xo[:31], sig), ("key_uncompressed_garbage", b"\x04" + xo + xo, sig), ("key0", bytes(32), sig)):
                lines.append(("schnorr_verify:" + name, f"schnorr_verify {xb(pk_)} {xb(msg)} {xb(sg)}", False))
            lines.append(("schnorr_parse", f"schnorr_parse {xb(sig)}", True))
            lines.append(("schnorr_roundtrip", f"schnorr_roundtrip {xb(sig)}", True))
            lines.append(("schnorr_parse:short", f"schnorr_parse {xb(sig[: rng.randrange(0, 64)])}", False))
            lines.append(("schnorr_roundtrip:long", f"schnorr_roundtrip {xb(sig + rbytes(rng, 3))}", False))
    # ---- histories on shared objects (one process each)
    hists = []   # (kind, [(impl line, [model lines])])

    def sgn(d, msg, aux):
        a = "-" if aux is None else xb(aux)
        sa = xb(bytes(32)) if aux is None else xb(aux)
        return (f"schnorr_sign {d} {xb(msg)} {a}", [f"schnorr_sign {d} {xb(msg)} {a}", f"spec_sign {d} {xb(msg)} {sa}"])

    def ver(pk_, msg, sg):
        l = f"schnorr_verify {xb(pk_)} {xb(msg)} {xb(sg)}"
        return (l, [l] + ([f"spec_verify {xb(pk_)} {xb(msg)} {xb(sg)}"] if len(pk_) == 32 and len(sg) == 64 else []))

    good = [(c_, i_) for c_, i_ in zip(cand, infos) if i_[0] is not None]
    for i in range(ctx.n(12)):
        # (a) ONE PrivateKey object: the same message with different aux values, different messages with the same aux,
        #     interleaved and repeated; each answer must be the BIP340 signature for the CURRENT (msg, aux)
        d = good[(i * 5) % len(good)][0][0]
        m1, m2 = rbytes(rng, 32), rbytes(rng, 32)
        a1, a2, a3 = rbytes(rng, 32), rbytes(rng, 32), rng.choice([None, bytes(32), rbytes(rng, 32)])
        order = [(m1, a1), (m1, a2), (m2, a1), (m1, a1), (m1, a3), (m2, a2), (m1, a2)]
        if i % 2:
            order = [(m1, a2), (m2, a2), (m1, a1), (m2, a1), (m1, a2), (m1, a3)]
        hists.append(("history:one_key_msg_aux", [sgn(d, m, a) for m, a in order]))
    for i in range(ctx.n(24)):
        # (b) ONE SchnorrSignature object verified several times against different messages and keys
        (d, msg, aux), (sig, kpar, npar, xo, sec) = good[(i * 3 + 1) % len(good)]
        xo2 = good[(i * 3 + 2) % len(good)][1][3]
        msg2, msg3 = flip(msg, rng.randrange(256)), rbytes(rng, 32)
        right, wrong_m, wrong_m3, wrong_k = ver(xo, msg, sig), ver(xo, msg2, sig), ver(xo, msg3, sig), ver(xo2, msg, sig)
        v = i % 4
        if v == 0:      # the object returned by sign_schnorr (self-verified on the right message), then altered message
            steps = [sgn(d, msg, aux), wrong_m, right, wrong_k, wrong_m3, right]
        elif v == 1:    # the same, right first
            steps = [sgn(d, msg, aux), right, wrong_m, wrong_k, right, ver(sec, msg, sig)]
        elif v == 2:    # a parsed object: right message first, then the altered ones
            steps = [right, wrong_m, wrong_k, right, wrong_m3]
        else:           # a parsed object: a wrong message first, then the right one
            steps = [wrong_m, right, wrong_k, right, wrong_m, ver(sec, msg, sig)]
        hists.append((["history:signed_object_wrong_first", "history:signed_object_right_first",
                       "history:parsed_object_right_first", "history:parsed_object_wrong_first"][v], steps))

    # ---- key configuration: every (compressed, network) combination and keys parsed from both WIF forms must give
    #      the same BIP340 nonce and signature bytes as the default key (checked against model and specification)
    cfg_cases = []
    for i in range(ctx.n(24)):
        (d, msg, aux), _ = good[(i * 7 + 3) % len(good)]
        if i % 3 == 0:
            msg, aux = rbytes(rng, 32), rbytes(rng, 32)
        cfg = CONFIGS[i % len(CONFIGS)]
        a = "-" if aux is None else xb(aux)
        sa = xb(bytes(32)) if aux is None else xb(aux)
        lines.append(("schnorr_sign@cfg", f"schnorr_sign@{cfg} {d} {xb(msg)} {a}", True))
        lines.append(("spec_sign@cfg", f"spec_sign@{cfg} {d} {xb(msg)} {sa}", True))
        lines.append(("bip340k@cfg", f"bip340k@{cfg} {d} {xb(msg)} {a}", True))
        rec.count("config:" + cfg)
        if i % 3 == 0:
            preds.append(("sign_verify", {"d": d, "msg": xb(msg), "aux": a, "cfg": cfg}))
        cfg_cases.append((cfg, d, msg, aux))
    for j in range(0, len(cfg_cases), 6):    # differently configured key objects for the SAME secret in one process
        _, d, msg, aux = cfg_cases[j]
        steps = []
        for cfg, _, _, _ in cfg_cases[j: j + 6][:4]:
            l, ml = sgn(d, msg, aux)
            steps.append((l.replace("schnorr_sign ", f"schnorr_sign@{cfg} ", 1), ml))
        hists.append(("history:key_configurations", steps + steps[:1]))

    # ---- signatures CONSTRUCTED with chosen nonces (completeness on inputs the signer cannot produce): k = 1, 2, 7, n-1,
    #      d, n-d (R.x = P.x), 2d, d+1, sha256(m), random; all must be accepted; their bit flips must be rejected
    jobs = []
    for i in range(ctx.n(6)):
        d = good[(i * 11 + 2) % len(good)][0][0] if i % 2 else rng.choice(SECRETS_B)
        msg = rbytes(rng, 32)
        ks = [("k=1", 1), ("k=2", 2), ("k=7", 7), ("k=n-1", N - 1), ("k=d", d), ("k=n-d", N - d), ("k=2d", 2 * d),
              ("k=d+1", d + 1), ("k=sha256(m)", int.from_bytes(hashlib.sha256(msg).digest(), "big")),
              ("k=random", rng.randrange(1, N))]
        jobs.append((d, msg, ks))
    for (d, msg, ks), res in zip(jobs, pmap(craft, jobs, workers=ctx.workers, chunksize=1)):
        for name, xo, sg in res:
            l = f"{xb(xo)} {xb(msg)} {xb(sg)}"
            if name == "inf_result":
                lines.append(("schnorr_verify:crafted:inf_result", "schnorr_verify " + l, True))
                lines.append(("spec_verify:crafted:inf_result", "spec_verify " + l, True))
                preds.append(("must_reject", {"pk": xb(xo), "msg": xb(msg), "sig": xb(sg), "why": "sG - eP is infinite"}))
                continue
            lines.append(("schnorr_verify:crafted:" + name, "schnorr_verify " + l, True))
            lines.append(("spec_verify:crafted:" + name, "spec_verify " + l, True))
            preds.append(("must_accept", {"pk": xb(xo), "msg": xb(msg), "sig": xb(sg), "why": "constructed with nonce " + name}))
            for fb, what in ((rng.randrange(256), "R"), (256 + rng.randrange(256), "s")):
                bad = flip(sg, fb)
                lines.append((f"schnorr_verify:crafted_flip_{what}", f"schnorr_verify {xb(xo)} {xb(msg)} {xb(bad)}", True))
                lines.append((f"spec_verify:crafted_flip_{what}", f"spec_verify {xb(xo)} {xb(msg)} {xb(bad)}", True))
        # shared objects: the crafted signatures of one key verified in one process, each twice
        hists.append(("history:crafted_nonces", [ver(xo, msg, sg) for name, xo, sg in res] +
                      [ver(xo, msg, sg) for name, xo, sg in res[:4]]))

    # ---- special keys that lift_x refuses: 00…00 (the code reads it as the point at infinity), x ≥ p, x not on the
    #      curve — with signatures that WOULD satisfy s·G − e·P = R if the key were taken for infinity (R = x(s·G)),
    #      and with a genuine signature of another key
    sg_s = [1, 2, 3, N - 1, rng.randrange(1, N), rng.randrange(1, N)]
    xs = pmap(x_of_sG, sg_s, workers=ctx.workers, chunksize=1)
    forged = [x + s2.to_bytes(32, "big") for x, s2 in xs] + [x + (N - s2).to_bytes(32, "big") for x, s2 in xs[:2]]
    special_keys = [("zero", bytes(32)), ("x=p", P.to_bytes(32, "big")), ("x=p+1", (P + 1).to_bytes(32, "big")),
                    ("x=2^256-1", b"\xff" * 32), ("x_off_curve", non_residue_x(rng).to_bytes(32, "big")),
                    ("x_off_curve", non_residue_x(rng).to_bytes(32, "big"))]
    for name, key in special_keys:
        msgs = [bytes(32), rbytes(rng, 32)]
        for j, sg in enumerate(forged + [good[j_ % len(good)][1][0] for j_ in (0, 1)]):
            for msg in (msgs if j < 3 else msgs[1:]):
                l = f"{xb(key)} {xb(msg)} {xb(sg)}"
                lines.append(("schnorr_verify:key_" + name, "schnorr_verify " + l, True))
                lines.append(("spec_verify:key_" + name, "spec_verify " + l, True))
                preds.append(("must_reject", {"pk": xb(key), "msg": xb(msg), "sig": xb(sg), "why": "key " + name}))
        hists.append(("history:special_key", [ver(key, msgs[0], forged[0]), ver(key, msgs[1], forged[1]),
                                              ver(key, msgs[0], forged[0])]))

    # ---- verification must not modify its arguments: ONE PrivateKey object with an odd-Y point signs, its own `.point`
    #      object then verifies tampered signatures (odd-y result, x mismatch, infinite result), a good one, and the key
    #      signs again (same and new message); object state is compared after every step (see impl_history)
    odd = [(c_, i_) for c_, i_ in good if i_[1] == 1] or good
    jobs = [(c_[0], c_[1], [("k=1", 1)]) for c_, i_ in odd[: ctx.n(8)]]
    for ((d, msg, aux), (sig, kpar, npar, xo, sec)), res in zip(odd[: ctx.n(8)], pmap(craft, jobs, workers=ctx.workers, chunksize=1)):
        inf_sig = [sg for name, _, sg in res if name == "inf_result"]
        tampered = [flip(sig, 256 + rng.randrange(256)) for _ in range(4)] + [flip(sig, rng.randrange(256))] + inf_sig
        msg2 = rbytes(rng, 32)
        steps = [sgn(d, msg, aux)] + [ver(xo, msg, tsg) for tsg in tampered[:3]] + [ver(xo, msg, sig)] + \
                [ver(xo, msg, tsg) for tsg in tampered[3:]] + [ver(xo, msg2, sig), sgn(d, msg, aux), sgn(d, msg2, aux),
                                                              ver(xo, msg, sig)]
        hists.append(("history:odd_key_verify_then_sign", steps))

    # bad inputs to signing
    for d, msg, aux in [(0, bytes(32), bytes(32)), (N, bytes(32), bytes(32)), (N + 1, bytes(32), None), (5, bytes(31), bytes(32)),
                        (5, bytes(33), bytes(32)), (5, bytes(32), bytes(31)), (5, b"", None), (5, bytes(32), b"")]:
        a = "-" if aux is None else xb(aux)
        lines.append(("schnorr_sign:bad_input", f"schnorr_sign {d} {xb(msg)} {a}", True))
        lines.append(("bip340k:bad_input", f"bip340k {d} {xb(msg)} {a}", True))
    # lift_x on boundary and random x
    for x in [0, 1, 2, 3, P - 1, P, P + 1, 2**256 - 1] + [rng.randrange(1, P) for _ in range(ctx.n(60))]:
        lines.append(("liftx", f"spec_liftx {x}", True))

    # ---- run both sides
    t0 = time.time()
    uniq = sorted({impl_key(l) for _, l, _ in lines} - set(impl_seed), key=hash_order)
    impl_ans = dict(zip(uniq, pmap(impl_line, uniq, workers=ctx.workers, chunksize=8)))
    impl_ans.update(impl_seed)
    t1 = time.time()
    hist_impl = pmap(impl_history, [[st[0] for st in steps] for _, steps in hists], workers=ctx.workers, chunksize=1)
    hmodel = [(hi, si, ml) for hi, (_, steps) in enumerate(hists) for si, st in enumerate(steps) for ml in st[1]]
    all_answers = spread(drv, [model_line(l) for _, l, _ in lines] + [ml for _, _, ml in hmodel], ctx.workers)
    answers, hanswers = all_answers[: len(lines)], all_answers[len(lines):]
    t2 = time.time()
    for (hi, si, ml), model in zip(hmodel, hanswers):
        kind, steps = hists[hi]
        case = {"line": ml, "hist": [st[0] for st in steps], "step": si}
        rec.compare(kind.split(":")[0], case, hist_impl[hi][si], model, determined=True,
                    key=f"{hi}:{si}:{ml[:300]}", note=kind)
        rec.count(kind)
    for (kind, line, det), model in zip(lines, answers):
        impl = impl_ans[impl_key(line)]
        trivial = kind.split(":")[-1] in ("R=p", "R=p+1", "R=2^256-1", "s=n", "s=2^256-1", "s+n", "bad_input")
        base = kind.split(":")[0]
        if rec.compare(base, {"line": line}, impl, model, determined=det, key=line[:400], nontrivial=not trivial,
                       note=kind):
            rec.sample(base, {"request": line[:300], "answer": model[:200]})
        if kind != base:
            rec.count(kind)
        rec.count(base + (":reject" if impl == REJECT else ":accept"))
    rec.count("verify_catalogue_signatures", vsig)
    preds.sort(key=lambda kc: hash_order(repr(kc)))     # expensive and cheap predicates interleaved
    pres = pmap(eval_pred, preds, workers=ctx.workers, chunksize=4)
    rec.note(f"timing: generation {t0 - ctx.t0:.1f}s, implementation {t1 - t0:.1f}s ({len(uniq)} requests), "
             f"model+spec {t2 - t1:.1f}s ({len(lines)} requests), predicates {time.time() - t2:.1f}s ({len(preds)})")
    for (kind, case), (ok, got, want) in zip(preds, pres):
        if ok:
            rec.ok(kind, repr(case)[:300])
            rec.sample(kind, case, limit=1)
            rec.cov_pred(kind, case)
        else:
            rec.violation(kind, dict(case, pred=kind), got, want, note=str(case.get("why", "")))


def replay(ctx, v):
    """re-execute one recorded violation exactly; True if it still violates"""
    case = v["case"]
    if "hist" in case:
        return impl_history(case["hist"])[case["step"]] != ctx.driver("drv_c02").one(model_line(case["line"]))
    if "line" in case:
        return impl_line(case["line"]) != ctx.driver("drv_c02").one(model_line(case["line"]))
    ok, _, _ = eval_pred((case["pred"], case))
    return not ok
