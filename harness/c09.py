"""
C09 — Base58Check, Bech32/Bech32m, WIF, addresses: correspondence between the Lean model
(lean/Buidl/Model/Base58.lean, Bech32.lean, Address.lean; driver drv_c09) and buidl/helper.py,
bech32.py, script.py, tx.py, pecc.py, plus the property predicates evaluated directly on the
implementation (round trips, "accepted iff checksum matches", constant selection, corrupted
segwit addresses are refused).

Structure (as harness/c19.py):
  impl_line(line)   evaluate one driver request line on the real code -> canonical answer
  PREDICATES[kind]  property predicates evaluated directly on the real code: case -> (ok, got, want)
  run(ctx)          generate request lines / predicate cases, run both sides, record
  replay(ctx, v)    re-execute one recorded violation exactly
"""
import hashlib

from harness.common import REJECT, xb, xs, unx, uns, batch_parallel, pmap

PROPERTY = "C09"
DRIVERS = ["drv_c09"]
ANCHORS = [
    ("buidl/helper.py", "encode_base58"), ("buidl/helper.py", "encode_base58_checksum"),
    ("buidl/helper.py", "raw_decode_base58"), ("buidl/helper.py", "decode_base58"),
    ("buidl/bech32.py", "bech32_polymod"), ("buidl/bech32.py", "bech32_hrp_expand"),
    ("buidl/bech32.py", "bech32_verify_checksum"), ("buidl/bech32.py", "bech32_create_checksum"),
    ("buidl/bech32.py", "bech32m_verify_checksum"), ("buidl/bech32.py", "bech32m_create_checksum"),
    ("buidl/bech32.py", "group_32"), ("buidl/bech32.py", "encode_bech32"),
    ("buidl/bech32.py", "encode_bech32_checksum"), ("buidl/bech32.py", "decode_bech32"),
    ("buidl/bech32.py", "GEN"), ("buidl/bech32.py", "BECH32_ALPHABET"), ("buidl/bech32.py", "PREFIX"),
    ("buidl/bech32.py", "NET_FOR_PREFIX"), ("buidl/bech32.py", "BECH32M_CONSTANT"),
    ("buidl/script.py", "P2PKHScriptPubKey.__init__"), ("buidl/script.py", "P2PKHScriptPubKey.address"),
    ("buidl/script.py", "P2SHScriptPubKey.__init__"), ("buidl/script.py", "P2SHScriptPubKey.address"),
    ("buidl/script.py", "SegwitPubKey.address"), ("buidl/script.py", "P2WPKHScriptPubKey.__init__"),
    ("buidl/script.py", "P2WSHScriptPubKey.__init__"), ("buidl/script.py", "P2TRScriptPubKey.__init__"),
    ("buidl/script.py", "P2TRScriptPubKey.address"), ("buidl/script.py", "address_to_script_pubkey"),
    ("buidl/tx.py", "TxOut.to_address"), ("buidl/pecc.py", "PrivateKey.wif"), ("buidl/pecc.py", "PrivateKey.parse"),
]
RULE = ("cases come from one PRNG seeded by VERIF_SEED plus fixed catalogues: Base58 payloads of every length 0..82 "
        "with every leading-zero run; every witness version 0..16 (and 17..31, outside the statement) x every program "
        "length 2..40 x 4 networks; WIF boundary secrets x compressed x networks; 5 templates x 4 networks; every "
        "single substitution over the bech32 alphabet at every data-part position of sampled segwit addresses, sampled "
        "double substitutions; addresses built by a specification encoder for every witness version 0..16 x program length "
        "{2,20,32,33,40} x both checksum constants x 4 networks; Base58Check strings with altered characters.  A case is non-trivial when its input is "
        "not empty; distinct = distinct (operation, input) pairs")
CLAUSES = {
    "Base58 decoding inverts encoding for every payload (leading zeros)":
        "proved (base58_decode_encode, base58_encode_decode, base58_encode_domain, base58check_roundtrip)",
    "Base58Check accepted exactly when the 4-byte checksum matches":
        "proved relative to hash256 (base58check_accept_iff, base58check_checksum)",
    "Bech32/Bech32m decode inverts encode, versions 0-16, lengths 2-40, every network":
        "proved (bech32_roundtrip, group32_value)",
    "version 0 uses the Bech32 constant, versions 1+ Bech32m (both sides)":
        "proved (bech32_constants, bech32_encode_constant, bech32_decode_constant)",
    "generator, character sets, checksum constants and version bytes are those of BIP173 / BIP350 / Base58Check":
        "proved (spec_constants; re-extracted from the source on every run)",
    "WIF round trip": "proved relative to hash256 (wif_roundtrip)",
    "scriptPubKey <-> address bijection per template and network":
        "proved relative to hash256 (address_roundtrip_p2pkh, address_roundtrip_p2sh, address_roundtrip_p2wpkh, "
        "address_roundtrip_p2wsh, address_roundtrip_p2tr, segwit_template; first-character dispatch: base58_first_char_dispatch)",
    "one substituted character of the data part is rejected (every length)":
        "proved (polymod_affine, polymod_step_injective, polymod_single_substitution, bech32_single_substitution; when the "
        "substituted character is the version character AND the substitution switches the checksum constant the proof "
        "covers at most 89 following characters, i.e. every address of <= 90 characters)",
    "ANY two substituted characters of the data part are rejected (address length <= 90), including the case where "
    "one of them is the version character and the checksum constant switches between 1 and 0x2bc830a3":
        "proved (polymod_double_substitution, polymod_double_substitution_switch, bech32_double_substitution; kernel "
        "tables orbit_table (31x89) and syndrome_table (2790 syndromes in a verified search tree))",
    "what the decoders accept (soundness): data characters in the alphabet, version < 32, program 2..40 bytes; "
    "upper-case data characters are refused (O09c: BIP173's all-upper-case form is not implemented)":
        "proved (bech32_decode_sound, bech32_uppercase_rejected, base58_decode_chars)",
    "TxOut.to_address inverts address() (F09a, fixed)": "proved for the repaired prefix list on every network "
        "(address_roundtrip_*); for the pre-fix list on every network but regtest (toAddress_roundtrip_partial) and "
        "F09a_witness for regtest; which list the source has is re-extracted on every run (Gen.toAddrSegwitPrefixes)",
    "address -> script accepts only the (version, length, checksum kind) triples the library has a script type for "
    "(v0/20, v0/32 bech32; v1/32 bech32m), returns the script of THAT version, and refuses versions 2..16":
        "proved (toAddress_segwit_sound, toAddress_segwit_refuses, addressToScriptPubkey_other_version, "
        "bech32_decode_constant); on the real code: segwit_grid (specification-built addresses, 17 versions x 5 lengths x "
        "2 constants x 4 networks through both consumers)",
    "objects do not remember earlier queries (ScriptPubKey.address on several networks, PrivateKey.wif with different "
    "arguments, every query issued twice)": "correspondence-only (spk_history, wif_history, doubled requests)",
}
TRUSTED = ["hash256 is a parameter of every theorem; the driver instantiates it with Buidl.Model.Hash.SHA256 "
           "(checked against hashlib by harness/hash_selftest.py)",
           "Buidl.Model.Script.rawSerialize (shared model) for the witness program of segwit templates"]
ASSUMPTIONS = ["int.to_bytes / int.from_bytes, str.split, str.startswith, str.index behave as documented",
               "encode_bech32_checksum is modelled for first bytes 0 and >= 0x50 only (for 1..0x4f the code computes a "
               "negative version and indexes the alphabet from its end; outside the statement)"]

NETS = ["mainnet", "testnet", "signet", "regtest"]
CHARSET = "qpzry9x8gf2tvdw0s3jn54khce6mua7l"
B58 = "123456789ABCDEFGHJKLMNPQRSTUVWXYZabcdefghijkmnopqrstuvwxyz"
HRP = {"mainnet": "bc", "testnet": "tb", "signet": "tb", "regtest": "bcrt"}
NET_BACK = {"mainnet": "mainnet", "testnet": "testnet", "signet": "testnet", "regtest": "regtest"}
SECP_N = 0xFFFFFFFFFFFFFFFFFFFFFFFFFFFFFFFEBAAEDCE6AF48A03BBFD25E8CD0364141


class UnknownOp(Exception):
    pass


def safe(fn, *a, **kw):
    """call the implementation while *generating* cases; a failure here is reported by the predicates, the
    generator just goes without the dependent cases"""
    try:
        return fn(*a, **kw)
    except Exception:
        return None


def rbytes(rng, n):
    return rng.getrandbits(8 * n).to_bytes(n, "little") if n else b""


def nats(l):
    return " ".join([str(len(l))] + [str(x) for x in l])


# ------------------------------------------------------------------ independent references (BIP173 / BIP350 text)
def ref_polymod(values):
    gen = [0x3B6A57B2, 0x26508E6D, 0x1EA119FA, 0x3D4233DD, 0x2A1462B3]
    chk = 1
    for v in values:
        b = chk >> 25
        chk = (chk & 0x1FFFFFF) << 5 ^ v
        for i in range(5):
            chk ^= gen[i] if ((b >> i) & 1) else 0
    return chk


def ref_hrp_expand(s):
    return [ord(x) >> 5 for x in s] + [0] + [ord(x) & 31 for x in s]


def ref_b58_combined(s):
    """bytes a Base58 string stands for (leading '1' = zero byte), None if a character is foreign"""
    n, zeros, lead = 0, 0, True
    for c in s:
        if c not in B58:
            return None
        if lead and c == "1":
            zeros += 1
        else:
            lead = False
            n = n * 58 + B58.index(c)
    body = n.to_bytes((n.bit_length() + 7) // 8, "big") if n else b""
    return b"\x00" * zeros + body


def ref_convertbits_8_5(data):
    """BIP173 reference regrouping of bytes into 5-bit groups, zero padded"""
    acc, bits, out = 0, 0, []
    for b in data:
        acc = (acc << 8) | b
        bits += 8
        while bits >= 5:
            bits -= 5
            out.append((acc >> bits) & 31)
    if bits:
        out.append((acc << (5 - bits)) & 31)
    return out


def ref_segwit_address(hrp, version, prog, const):
    """address text per BIP173/BIP350 with the given checksum constant; independent of the library"""
    data = [version] + ref_convertbits_8_5(prog)
    pm = ref_polymod(ref_hrp_expand(hrp) + data + [0] * 6) ^ const
    return hrp + "1" + "".join(CHARSET[d] for d in data + [(pm >> 5 * (5 - i)) & 31 for i in range(6)])


BECH32_CONST, BECH32M_CONST = 1, 0x2BC830A3
DIGIT_VALUES = [i for i, ch in enumerate(CHARSET) if ch.isdigit()]


def uncased_segwit(rng, hrp, nbytes, tries=40000):
    """(version, program, address) whose whole data part - version character, program groups and checksum - consists
    of digits only: the degenerate class for any case test in a decoder (the hrp keeps its letters)"""
    n = -(-8 * nbytes // 5)
    pad = 5 * n - 8 * nbytes
    last = [g for g in DIGIT_VALUES if g & ((1 << pad) - 1) == 0]
    if not last:
        return None
    for _ in range(tries):
        v = rng.choice([g for g in DIGIT_VALUES if 1 <= g <= 16])
        groups = [rng.choice(DIGIT_VALUES) for _ in range(n - 1)] + [rng.choice(last)]
        bits = 0
        for g in groups:
            bits = (bits << 5) | g
        prog = (bits >> pad).to_bytes(nbytes, "big")
        addr = ref_segwit_address(hrp, v, prog, BECH32M_CONST)
        if all(ch.isdigit() for ch in addr[len(hrp) + 1:]):
            return v, prog, addr
    return None


def h256(b):
    return hashlib.sha256(hashlib.sha256(b).digest()).digest()


# ------------------------------------------------------------------ implementation side
SPK_CLASSES = ["P2PKHScriptPubKey", "P2SHScriptPubKey", "P2WPKHScriptPubKey", "P2WSHScriptPubKey", "P2TRScriptPubKey"]


def fmt_spk(spk):
    import buidl.script as SC
    for k, nm in enumerate(SPK_CLASSES):
        if type(spk) is getattr(SC, nm):
            idx = {0: 2, 1: 1, 2: 1, 3: 1, 4: 1}[k]
            return f"{k} {xb(spk.commands[idx])}"
    raise RuntimeError("not one of the five templates")


def mk_spk(kind, h):
    import buidl.script as SC
    return getattr(SC, SPK_CLASSES[kind])(h)


def _impl(t):
    import buidl.helper as H
    import buidl.bech32 as B32
    import buidl.script as SC
    import buidl.tx as TX
    import buidl.pecc as PE

    op = t[0]
    if op == "b58_enc":
        return xs(H.encode_base58(unx(t[1])))
    if op == "b58_enc_chk":
        return xs(H.encode_base58_checksum(unx(t[1])))
    if op == "b58_raw_dec":
        return xb(H.raw_decode_base58(uns(t[1])))
    if op == "b58_dec":
        return xb(H.decode_base58(uns(t[1])))
    if op == "polymod":
        return str(B32.bech32_polymod([int(x) for x in t[2:2 + int(t[1])]]))
    if op == "hrp_expand":
        return nats(B32.bech32_hrp_expand(uns(t[1])))
    if op == "group32":
        return nats(B32.group_32(unx(t[1])))
    if op == "b32_enc":
        return xs(B32.encode_bech32_checksum(unx(t[1]), uns(t[2])))
    if op == "b32_dec":
        net, v, h = B32.decode_bech32(uns(t[1]))
        return f"{xs(net)} {v} {xb(h)}"
    if op == "addr":
        return xs(mk_spk(int(t[1]), unx(t[2])).address(uns(t[3])))
    if op == "a2s":
        return fmt_spk(SC.address_to_script_pubkey(uns(t[1])))
    if op == "to_addr":
        return fmt_spk(TX.TxOut.to_address(uns(t[1]), 1000).script_pubkey)
    if op == "wif":
        return xs(PE.PrivateKey(int(t[1]), network=uns(t[2])).wif(compressed=(t[3] == "1")))
    if op == "wif_parse":
        k = PE.PrivateKey.parse(uns(t[1]))
        return f"{k.secret} {xs(k.network)} {1 if k.compressed else 0}"
    raise UnknownOp(op)


def impl_line(line):
    t = line.split(" ")
    try:
        return _impl(t)
    except UnknownOp:
        raise
    except Exception:
        return REJECT


def model_line(line):
    return line


def impl_twice(line):
    """every query is issued twice; differing answers (hidden state) can match no model answer"""
    a = impl_line(line)
    b = impl_line(line)
    return a if a == b else f"UNSTABLE {a} | {b}"


# ------------------------------------------------------------------ direct predicates
def p_b58_rt(c):
    """raw Base58: the bytes the string stands for are the payload (decoder: reference big-integer conversion)"""
    import buidl.helper as H
    b = unx(c["b"])
    s = H.encode_base58(b)
    got = ref_b58_combined(s)
    return got == b, xb(got) if got is not None else None, xb(b)


def p_b58check_rt(c):
    import buidl.helper as H
    b = unx(c["b"])
    got = H.raw_decode_base58(H.encode_base58_checksum(b))
    return got == b, xb(got), xb(b)


def p_b58check_iff(c):
    """accepted exactly when the last four bytes are hash256(rest)[:4]; the result is then `rest`"""
    import buidl.helper as H
    s = c["s"]
    comb = ref_b58_combined(s)
    should = comb is not None and len(comb) >= 4 and h256(comb[:-4])[:4] == comb[-4:]
    try:
        got = H.raw_decode_base58(s)
    except Exception:
        got = None
    want = comb[:-4] if should else None
    return got == want, (xb(got) if got is not None else REJECT), (xb(want) if want is not None else REJECT)


def p_b32_rt(c):
    """decode(encode(program)) == (network, version, program) and the constant is the version's"""
    import buidl.bech32 as B32
    v, prog, net = c["v"], unx(c["prog"]), c["net"]
    vb = 0 if v == 0 else 0x50 + v
    addr = B32.encode_bech32_checksum(bytes([vb, len(prog)]) + prog, net)
    got = B32.decode_bech32(addr)
    hrp = HRP[net]
    ok = got == [NET_BACK[net], v, prog] and addr.startswith(hrp + "1") and addr == addr.lower()
    if "uncased_address" in c:
        ok = ok and addr == c["uncased_address"] and not any(ch.isalpha() for ch in addr[len(hrp) + 1:])
    pm = ref_polymod(ref_hrp_expand(hrp) + [CHARSET.index(ch) for ch in addr[len(hrp) + 1:]])
    const = 1 if v == 0 else 0x2BC830A3
    ok = ok and pm == const
    return ok, [got[0], got[1], xb(got[2]), pm], [NET_BACK[net], v, xb(prog), const]


def p_b32_wrong_constant(c):
    """an address whose checksum was made with the other constant must be refused"""
    import buidl.bech32 as B32
    v, prog, net = c["v"], unx(c["prog"]), c["net"]
    hrp = HRP[net]
    data = [v] + B32.group_32(prog)
    const = 0x2BC830A3 if v == 0 else 1        # the wrong one
    pm = ref_polymod(ref_hrp_expand(hrp) + data + [0] * 6) ^ const
    chk = [(pm >> 5 * (5 - i)) & 31 for i in range(6)]
    addr = hrp + "1" + "".join(CHARSET[d] for d in data + chk)
    try:
        got = B32.decode_bech32(addr)
    except Exception:
        return True, REJECT, REJECT
    return False, [got[0], got[1], xb(got[2])], REJECT


def _must_reject_addr(addr):
    """all three address consumers must refuse"""
    import buidl.bech32 as B32
    import buidl.script as SC
    import buidl.tx as TX
    acc = []
    for nm, fn in (("decode_bech32", B32.decode_bech32), ("address_to_script_pubkey", SC.address_to_script_pubkey),
                   ("TxOut.to_address", lambda a: TX.TxOut.to_address(a, 1))):
        try:
            fn(addr)
            acc.append(nm)
        except Exception:
            pass
    return acc


def p_subst(c):
    """a segwit address with 1 or 2 substituted data-part characters is refused"""
    addr = c["addr"]
    s = list(addr)
    for pos, ch in c["subst"]:
        s[pos] = ch
    acc = _must_reject_addr("".join(s))
    return not acc, acc or REJECT, REJECT


def subst_batch(job):
    """worker: all substitutions of one job; returns the list of accepted corruptions"""
    addr, substs = job
    bad = []
    for sub in substs:
        s = list(addr)
        for pos, ch in sub:
            s[pos] = ch
        acc = _must_reject_addr("".join(s))
        if acc:
            bad.append((sub, acc))
    return bad


def p_wif_rt(c):
    import buidl.pecc as PE
    k = PE.PrivateKey(c["secret"], network=c["net"])
    w = k.wif(compressed=c["compressed"])
    p = PE.PrivateKey.parse(w)
    got = [p.secret, p.network, bool(p.compressed)]
    want = [c["secret"], "mainnet" if c["net"] == "mainnet" else "testnet", c["compressed"]]
    return got == want, got, want


def p_a2s_rt(c):
    import buidl.script as SC
    spk = mk_spk(c["kind"], unx(c["h"]))
    got = SC.address_to_script_pubkey(spk.address(c["net"]))
    return type(got) is type(spk) and got.commands == spk.commands, fmt_spk(got), fmt_spk(spk)


def p_to_address_rt(c):
    import buidl.tx as TX
    spk = mk_spk(c["kind"], unx(c["h"]))
    got = TX.TxOut.to_address(spk.address(c["net"]), 5000)
    ok = type(got.script_pubkey) is type(spk) and got.script_pubkey.commands == spk.commands and got.amount == 5000
    return ok, fmt_spk(got.script_pubkey), fmt_spk(spk)


def p_spk_history(c):
    """one ScriptPubKey object asked for its address on several networks in sequence, every query twice:
    the answers equal those of fresh objects and the object is unchanged"""
    import buidl.script as SC
    h = unx(c["h"])
    obj = mk_spk(c["kind"], h)
    before = (list(obj.commands), obj.raw_serialize())
    got, want = [], []
    for net in c["nets"]:
        for _ in range(2):
            got.append(canon_str(lambda: obj.address(net)))
        want += [canon_str(lambda: mk_spk(c["kind"], h).address(net))] * 2
    back = [canon_str(lambda: fmt_spk(SC.address_to_script_pubkey(a))) for a in got if a != REJECT]
    ok = got == want and (list(obj.commands), obj.raw_serialize()) == before and all(b == fmt_spk(obj) for b in back)
    return ok, got, want


def p_wif_history(c):
    """one PrivateKey object asked for wif() with different arguments in sequence, every query twice"""
    import buidl.pecc as PE
    k = PE.PrivateKey(c["secret"], network=c["net"])
    got, want = [], []
    for comp in c["seq"]:
        for _ in range(2):
            got.append(k.wif(compressed=comp))
        want += [PE.PrivateKey(c["secret"], network=c["net"]).wif(compressed=comp)] * 2
    parsed = [(PE.PrivateKey.parse(w).secret, bool(PE.PrivateKey.parse(w).compressed)) for w in got]
    ok = got == want and k.secret == c["secret"] and parsed == [(c["secret"], comp) for comp in c["seq"] for _ in range(2)]
    return ok, got, want


def canon_str(fn):
    try:
        return fn()
    except Exception:
        return REJECT


def p_segwit_grid(c):
    """An address built by the specification encoder (witness version, program length, checksum kind) goes through
    address_to_script_pubkey and TxOut.to_address.  Both accept it only when the library has a script type for the
    triple - v0/20 and v0/32 with the bech32 constant, v1/32 with the bech32m constant - and then the script is
    exactly OP_n <program> of THAT version and script.address(net) gives the address back; anything else is refused."""
    import buidl.script as SC
    import buidl.tx as TX
    v, prog, const, net = c["v"], unx(c["prog"]), c["const"], c["net"]
    addr = ref_segwit_address(HRP[net], v, prog, const)
    ok_triple = (v == 0 and len(prog) in (20, 32) and const == BECH32_CONST) or \
                (v == 1 and len(prog) == 32 and const == BECH32M_CONST)
    opn = 0 if v == 0 else 0x50 + v
    want = [opn, xb(prog), addr] if ok_triple else REJECT
    got = []
    for fn in (SC.address_to_script_pubkey, lambda a: TX.TxOut.to_address(a, 7).script_pubkey):
        try:
            spk = fn(addr)
            cmds = spk.commands
            got.append([cmds[0], xb(cmds[1]), spk.address(net)] if len(cmds) == 2 and isinstance(cmds[1], bytes)
                       else ["unexpected commands", repr(cmds)[:80]])
        except Exception:
            got.append(REJECT)
    return got == [want, want], {"address": addr, "address_to_script_pubkey": got[0], "to_address": got[1]}, want


PREDICATES = {"segwit_grid": p_segwit_grid, "spk_history": p_spk_history, "wif_history": p_wif_history, "b58_roundtrip": p_b58_rt, "b58check_roundtrip": p_b58check_rt, "b58check_iff": p_b58check_iff,
              "bech32_roundtrip": p_b32_rt, "bech32_wrong_constant": p_b32_wrong_constant, "bech32_subst": p_subst,
              "wif_roundtrip": p_wif_rt, "a2s_roundtrip": p_a2s_rt, "to_address_roundtrip": p_to_address_rt}


def eval_pred(kind, case):
    try:
        return PREDICATES[kind](case)
    except Exception as e:
        return False, "raised " + type(e).__name__, "no exception"


def in_f09a(case):
    """input predicate of finding F09a: TxOut.to_address on a regtest segwit address"""
    return case.get("pred") == "to_address_roundtrip" and case.get("net") == "regtest" and case.get("kind") in (2, 3, 4)


def f09a_witness():
    """replayed on every run: address_to_script_pubkey accepts the bcrt1 address, TxOut.to_address refuses it"""
    import buidl.script as SC
    import buidl.tx as TX
    h = bytes(range(20))
    addr = safe(lambda: SC.P2WPKHScriptPubKey(h).address("regtest"))
    spk = safe(SC.address_to_script_pubkey, addr)
    ok_a2s = spk is not None and spk.commands == [0, h]
    try:
        TX.TxOut.to_address(addr, 1)
        refused = False
    except Exception:
        refused = True
    return ok_a2s and refused, {"address": addr, "pred": "to_address_roundtrip", "kind": 2, "h": xb(h), "net": "regtest"}


def _impl_many(lines):
    return [impl_line(l) for l in lines]


# ------------------------------------------------------------------ generation
def run(ctx):
    import buidl.helper as H
    import buidl.bech32 as B32

    rng, rec = ctx.rng, ctx.rec
    drv = ctx.driver("drv_c09")
    lines = []   # (kind, request line)
    preds = []   # (kind, case)

    # ---- Base58: every length 0..82, every leading-zero run for short ones, sampled runs for long ones
    payloads = [b""]
    for ln in range(1, 83):
        zs = set(range(0, ln + 1)) if ln <= 12 else {0, 1, 2, ln - 1, ln} | {rng.randrange(0, ln + 1) for _ in range(3)}
        for z in sorted(zs):
            body = rbytes(rng, ln - z)
            if body and body[0] == 0 and rng.random() < 0.5:
                body = bytes([rng.randrange(1, 256)]) + body[1:]
            payloads.append(b"\x00" * z + body)
    for _ in range(ctx.n(300)):
        ln = rng.randrange(0, 83)
        payloads.append(rbytes(rng, ln))
    payloads += [b"\x00", b"\xff", b"\x00\xff", b"\x01\x00", b"\x00" * 82, b"\xff" * 82, bytes([57]), bytes([58]), bytes([0, 58])]
    encs = []
    for b in payloads:
        lines.append(("b58_enc", f"b58_enc {xb(b)}"))
        lines.append(("b58_enc_chk", f"b58_enc_chk {xb(b)}"))
        if b:
            preds.append(("b58_roundtrip", {"b": xb(b)}))
        preds.append(("b58check_roundtrip", {"b": xb(b)}))
        s = safe(H.encode_base58_checksum, b)
        if isinstance(s, str):
            encs.append(s)
            lines.append(("b58_raw_dec", f"b58_raw_dec {xs(s)}"))
            lines.append(("b58_dec", f"b58_dec {xs(s)}"))
        raw = safe(H.encode_base58, b) if b else None       # usually no valid checksum: exercises the refusal
        if isinstance(raw, str):
            lines.append(("b58_raw_dec", f"b58_raw_dec {xs(raw)}"))
            preds.append(("b58check_iff", {"s": raw}))
    # altered Base58Check strings: accepted exactly when the checksum matches
    odd = ["", "1", "11", "1111", "11111", "0", "O", "I", "l", "1l", " 1", "1 ", "é", "z" * 5, "2" * 11, "3yQ", "1" * 40]
    # strings whose four checksum bytes are right although they were not produced by the encoder
    for comb in (b"", b"\x00", b"\x00\x00\x00", b"\x05" * 3, b"\x00\x01"):
        full = comb + h256(comb)[:4]
        n = int.from_bytes(full, "big")
        s = ""
        while n:
            n, m = divmod(n, 58)
            s = B58[m] + s
        odd.append("1" * (len(full) - len(full.lstrip(b"\x00"))) + s)
    for s in odd:
        lines.append(("b58_raw_dec", f"b58_raw_dec {xs(s)}"))
        lines.append(("b58_dec", f"b58_dec {xs(s)}"))
        preds.append(("b58check_iff", {"s": s}))
    sample = [s for s in encs if s]
    rng.shuffle(sample)
    for s in sample[: ctx.n(150)]:
        for _ in range(8):
            t = list(s)
            k = rng.choice([1, 1, 1, 2, 3])
            for _ in range(k):
                pos = rng.randrange(len(t))
                mode = rng.random()
                if mode < 0.75:
                    t[pos] = rng.choice(B58)
                elif mode < 0.85:
                    t[pos] = rng.choice("0OIl+/ ")
                elif mode < 0.93:
                    del t[pos]
                    if not t:
                        break
                else:
                    t.insert(pos, rng.choice(B58))
            t = "".join(t)
            lines.append(("b58_altered", f"b58_raw_dec {xs(t)}"))
            preds.append(("b58check_iff", {"s": t}))

    # ---- Bech32 / Bech32m: all versions x lengths x networks
    addrs = []   # (addr, hrp) valid segwit addresses for the corruption part
    for net in NETS:
        for v in range(0, 17):
            for ln in range(2, 41):
                prog = rbytes(rng, ln)
                vb = 0 if v == 0 else 0x50 + v
                wp = bytes([vb, ln]) + prog
                lines.append(("b32_enc", f"b32_enc {xb(wp)} {xs(net)}"))
                preds.append(("bech32_roundtrip", {"v": v, "prog": xb(prog), "net": net}))
                if (v + ln) % 3 == 0:
                    preds.append(("bech32_wrong_constant", {"v": v, "prog": xb(prog), "net": net}))
                a = safe(B32.encode_bech32_checksum, wp, net)
                if not isinstance(a, str):
                    continue
                lines.append(("b32_dec", f"b32_dec {xs(a)}"))
                if v <= 1 and ln in (20, 32) and not (v == 1 and ln == 20):
                    addrs.append((a, HRP[net]))
                    for _ in range(ctx.n(2, 30)):      # more addresses of the three standard shapes
                        p2 = rbytes(rng, ln)
                        a2 = safe(B32.encode_bech32_checksum, bytes([vb, ln]) + p2, net)
                        if isinstance(a2, str):
                            addrs.append((a2, HRP[net]))
    # outside the statement, for the model only: versions 17..31 (O09b), odd lengths, length byte larger than the
    # data, unknown network, short programs, OP_RESERVED (0x50) as version byte
    for _ in range(ctx.n(400)):
        vb = rng.choice([0, 0x50, 0x51, 0x60, 0x61, 0x6F, 0x70, 0x7F, 0xFF, rng.randrange(0x50, 0x100)])
        ln = rng.choice([0, 1, 2, 40, 41, 42, 75, rng.randrange(0, 80)])
        data = rbytes(rng, rng.choice([ln, ln, ln, max(0, ln - 1), ln + 3]))
        net = rng.choice(NETS + ["nonet", ""])
        wp = bytes([vb, ln]) + data
        lines.append(("b32_enc_odd", f"b32_enc {xb(wp)} {xs(net)}"))
        try:
            a = B32.encode_bech32_checksum(wp, net)
            lines.append(("b32_dec_odd", f"b32_dec {xs(a)}"))
        except Exception:
            pass
    for wp in (b"", b"\x00", b"\x51"):
        lines.append(("b32_enc_odd", f"b32_enc {xb(wp)} {xs('mainnet')}"))
    for s in ["", "1", "bc1", "tb1", "bcrt1", "bc1q", "bcrt", "bcrtq", "bc1qqqqqqq", "bc11qqqqqq", "xx1qqqqqqq", "BC1QW508D6QEJXTDG4Y5R3ZARVARY0C5XW7KV8F3T4",
              "bc1qw508d6qejxtdg4y5r3zarvary0c5xw7kv8f3t4", "tb1qw508d6qejxtdg4y5r3zarvary0c5xw7kxpjzsx", "bcrtXqw508d6qejxtdg4y5r3zarvary0c5xw7kygt080",
              "bc1p0xlxvlhemja6c4dqv22uapctqupfhlxm9h8z3k2e72q4k9hcz7vqzk5jj0", "bc1é", "é1qqqqqqq"]:
        lines.append(("b32_dec_odd", f"b32_dec {xs(s)}"))
        lines.append(("a2s_odd", f"a2s {xs(s)}"))
        lines.append(("to_addr_odd", f"to_addr {xs(s)}"))
    for _ in range(ctx.n(300)):
        vals = [rng.randrange(0, 32) for _ in range(rng.randrange(0, 60))]
        lines.append(("polymod", "polymod " + nats(vals)))
        lines.append(("group32", f"group32 {xb(rbytes(rng, rng.randrange(0, 45)))}"))
    for s in ["bc", "tb", "bcrt", "", "A", "~", "é", "bc1"]:
        lines.append(("hrp_expand", f"hrp_expand {xs(s)}"))

    # ---- WIF
    secrets = [1, 2, 255, 256, 2 ** 128, 2 ** 248 - 1, 2 ** 248, 2 ** 255, SECP_N - 2, SECP_N - 1]
    secrets += [rng.randrange(1, SECP_N) for _ in range(ctx.n(4, 40))] + [rng.getrandbits(rng.choice([8, 64, 200])) + 1 for _ in range(ctx.n(2, 20))]
    wif_lines = []
    for k in secrets:
        for comp in (True, False):
            for net in NETS:
                wif_lines.append(("wif", f"wif {k} {xs(net)} {1 if comp else 0}"))
                preds.append(("wif_roundtrip", {"secret": k, "net": net, "compressed": comp}))
    for k in (0, SECP_N, SECP_N + 1, 2 ** 256 - 1, 2 ** 256):
        wif_lines.append(("wif", f"wif {k} {xs('mainnet')} 1"))
    lines += wif_lines
    wifs = []
    for k in secrets[:8] + secrets[-4:]:
        for comp in (True, False):
            for vb in (0x80, 0xEF):
                raw = bytes([vb]) + k.to_bytes(32, "big") + (b"\x01" if comp else b"")
                wifs.append(safe(H.encode_base58_checksum, raw))
    # well-formed Base58Check, wrong as WIF: other version byte, flag byte 2, 34 bytes with flag 0, short, secret 0 / N
    for raw in (bytes([0x81]) + bytes(31) + b"\x01", bytes([0x80]) + bytes(31) + b"\x05\x02", bytes([0x80]) + bytes(31) + b"\x05\x00",
                bytes([0x80]), b"", bytes([0xEF]) + b"\x07", bytes([0x80]) + bytes(32), bytes([0x80]) + SECP_N.to_bytes(32, "big") + b"\x01",
                bytes([0x80]) + b"\x01" * 40, bytes([0x80]) + b"\x00" * 31 + b"\x09" + b"\x01\x01"):
        wifs.append(safe(H.encode_base58_checksum, raw))
    for w in [w for w in wifs if isinstance(w, str) and w]:
        lines.append(("wif_parse", f"wif_parse {xs(w)}"))
        t = list(w)
        t[rng.randrange(len(t))] = rng.choice(B58)
        lines.append(("wif_parse", f"wif_parse {xs(''.join(t))}"))

    # ---- addresses: 5 templates x 4 networks
    want_len = {0: 20, 1: 20, 2: 20, 3: 32, 4: 32}
    for kind in range(5):
        for net in NETS + ["nonet"]:
            for rep in range(ctx.n(6)):
                h = rbytes(rng, want_len[kind])
                if rep == 0:
                    h = bytes(want_len[kind])
                elif rep == 1:
                    h = b"\xff" * want_len[kind]
                elif rep == 2:
                    z = rng.randrange(1, 6)
                    h = b"\x00" * z + h[z:-1] + b"\x00"
                lines.append(("addr", f"addr {kind} {xb(h)} {xs(net)}"))
                if net == "nonet" and kind >= 2:
                    continue
                a = safe(lambda: mk_spk(kind, h).address(net))
                if isinstance(a, str):
                    lines.append(("a2s", f"a2s {xs(a)}"))
                    lines.append(("to_addr", f"to_addr {xs(a)}"))
                if net in NETS:
                    preds.append(("a2s_roundtrip", {"kind": kind, "h": xb(h), "net": net}))
                    preds.append(("to_address_roundtrip", {"kind": kind, "h": xb(h), "net": net}))
            # hashes of other lengths (the constructors do not check): model correspondence only
            for ln in (0, 1, 19, 21, 31, 33, 40, 41, 75, 76):
                h = rbytes(rng, ln)
                lines.append(("addr_odd", f"addr {kind} {xb(h)} {xs(net)}"))
                try:
                    a = mk_spk(kind, h).address(net)
                except Exception:
                    continue
                lines.append(("a2s_odd", f"a2s {xs(a)}"))
                lines.append(("to_addr_odd", f"to_addr {xs(a)}"))

    # ---- specification-built segwit addresses: every version x program length x checksum kind x network
    for net in NETS:
        for v in range(0, 17):
            for ln in (2, 20, 32, 33, 40):
                for const in (BECH32_CONST, BECH32M_CONST):
                    prog = rbytes(rng, ln)
                    preds.append(("segwit_grid", {"v": v, "prog": xb(prog), "const": const, "net": net}))
                    a = ref_segwit_address(HRP[net], v, prog, const)
                    lines.append(("a2s_grid", f"a2s {xs(a)}"))
                    lines.append(("to_addr_grid", f"to_addr {xs(a)}"))
                    lines.append(("b32_dec_grid", f"b32_dec {xs(a)}"))

    # ---- degenerate character class: a data part without any cased character
    for net, nb in (("mainnet", 20), ("regtest", 33), ("testnet", rng.choice([5, 10, 13, 21, 40]))):
        r = uncased_segwit(rng, HRP[net], nb)
        if r is None:
            continue
        v, prog, a = r
        preds.append(("bech32_roundtrip", {"v": v, "prog": xb(prog), "net": net, "uncased_address": a}))
        lines.append(("b32_enc_uncased", f"b32_enc {xb(bytes([0x50 + v, nb]) + prog)} {xs(net)}"))
        for op in ("b32_dec", "a2s", "to_addr"):
            lines.append((op + "_uncased", f"{op} {xs(a)}"))
        lines.append(("b32_dec_uncased", f"b32_dec {xs(a.upper())}"))

    # ---- object-reuse histories (the codecs are stateless; the objects must not remember a network or a flag)
    for kind in range(5):
        for _ in range(ctx.n(4)):
            nets = [rng.choice(NETS + ["nonet"]) for _ in range(rng.randrange(2, 7))]
            preds.append(("spk_history", {"kind": kind, "h": xb(rbytes(rng, want_len[kind])), "nets": nets}))
    for k in secrets[:3] + secrets[-3:]:
        preds.append(("wif_history", {"secret": k, "net": rng.choice(NETS), "seq": [rng.random() < 0.5 for _ in range(4)]}))

    # ---- corrupted segwit addresses: exhaustive single substitutions, sampled double substitutions
    rng.shuffle(addrs)
    picked = addrs[: ctx.n(36, 400)]
    jobs = []
    n_single = n_double = 0
    for i, (a, hrp) in enumerate(picked):
        start = len(hrp) + 1
        singles = [[(pos, ch)] for pos in range(start, len(a)) for ch in CHARSET if ch != a[pos]]
        doubles = []
        for _ in range(ctx.n(400, 4000)):
            p1, p2 = sorted(rng.sample(range(start, len(a)), 2))
            doubles.append([(p1, rng.choice([c for c in CHARSET if c != a[p1]])),
                            (p2, rng.choice([c for c in CHARSET if c != a[p2]]))])
        # adjacent and extreme pairs always
        for p1 in range(start, len(a) - 1):
            doubles.append([(p1, rng.choice([c for c in CHARSET if c != a[p1]])),
                            (p1 + 1, rng.choice([c for c in CHARSET if c != a[p1 + 1]]))])
        doubles.append([(start, CHARSET[(CHARSET.index(a[start]) + 1) % 32]), (len(a) - 1, CHARSET[(CHARSET.index(a[-1]) + 1) % 32])])
        n_single += len(singles)
        n_double += len(doubles)
        jobs.append((a, singles + doubles))
        if i < ctx.n(4, 20):   # the same corruptions through the model
            for sub in singles + doubles[:200]:
                s = list(a)
                for pos, ch in sub:
                    s[pos] = ch
                lines.append(("b32_dec_corrupt", f"b32_dec {xs(''.join(s))}"))
            # other single-character damage: foreign characters, separator, case
            for pos in range(0, len(a)):
                for ch in ("1", "b", "i", "o", "Q", a[pos].upper()):
                    if ch != a[pos]:
                        s = a[:pos] + ch + a[pos + 1:]
                        lines.append(("b32_dec_corrupt", f"b32_dec {xs(s)}"))
                        lines.append(("a2s_corrupt", f"a2s {xs(s)}"))
    # ---- run both sides (one process pool for everything CPU-heavy on the implementation side)
    slow = [i for i, (k, _) in enumerate(lines) if k in ("wif", "wif_parse")]
    wif_preds = [(k, c) for k, c in preds if k in ("wif_roundtrip", "wif_history")]
    other = [(k, c) for k, c in preds if k not in ("wif_roundtrip", "wif_history")]
    heavy = ([("subst", j) for j in jobs] + [("line", lines[i][1]) for i in slow] + [("pred", kc) for kc in wif_preds])
    from concurrent.futures import ThreadPoolExecutor
    with ThreadPoolExecutor(max_workers=1) as ex:   # the native driver runs while the pool works
        fut = ex.submit(batch_parallel, drv, [model_line(l) for _, l in lines], max(2, ctx.workers // 2))
        heavy_res = pmap(_heavy, heavy, workers=ctx.workers, chunksize=1)
        answers = fut.result()
    bad = heavy_res[: len(jobs)]
    slow_ans = dict(zip(slow, heavy_res[len(jobs): len(jobs) + len(slow)]))
    wif_res = heavy_res[len(jobs) + len(slow):]
    rec.ok("bech32_subst_single", "exhaustive", n=n_single)
    rec.ok("bech32_subst_double", "sampled", n=n_double)
    for (a, _), b in zip(jobs, bad):
        for sub, acc in b:
            rec.violation("bech32_subst", {"pred": "bech32_subst", "addr": a, "subst": [list(x) for x in sub]}, acc, REJECT,
                          note="corrupted segwit address accepted")
    rec.sample("bech32_subst", {"addr": picked[0][0], "substitutions_tried": len(jobs[0][1])} if picked else {})
    for i, ((kind, line), model) in enumerate(zip(lines, answers)):
        impl = slow_ans[i] if i in slow_ans else impl_twice(line)
        if rec.compare(kind, {"line": line}, impl, model, determined=True, key=line[:300],
                       nontrivial=not line.endswith(" x") and not line.endswith(" s")):
            rec.sample(kind, {"request": line, "answer": model})
        if impl == REJECT:
            rec.count(kind + ":reject")
    results = [eval_pred(k, c) for k, c in other] + wif_res
    for (kind, case), (ok, got, want) in zip(other + wif_preds, results):
        if ok:
            rec.ok(kind, repr(case)[:300])
            rec.sample(kind, case, limit=1)
        else:
            c = dict(case, pred=kind)
            rec.violation(kind, c, got, want, finding="F09a" if in_f09a(c) else None)

    # ---- finding F09a: replay the witness on every run
    reproduces, wit = f09a_witness()
    rec.finding("F09a", reproduces, wit)
    rec.note("TxOut.to_address segwit prefixes in the source: " +
             next((i["value"] for i in ctx.gen["items"] if i["name"] == "Address.toAddrSegwitPrefixes"), "?")
             if hasattr(ctx, "gen") else "")
    rec.note("O09c (observation, outside the statement): decode_bech32 does no case folding, so the all-upper-case form "
             "BIP173 allows is refused (theorem bech32_uppercase_rejected); exercised by b32_dec_corrupt / b32_dec_odd")
    rec.note("O09b (observation, outside the statement): decode_bech32 does not refuse witness versions 17..31; "
             "modelled faithfully and exercised by b32_dec_odd")


def _heavy(job):
    what, arg = job
    if what == "subst":
        return subst_batch(arg)
    if what == "line":
        return impl_twice(arg)
    return eval_pred(arg[0], arg[1])


def replay(ctx, v):
    """re-execute one recorded violation exactly; True if it still violates"""
    case = v["case"]
    if "line" in case:
        return impl_line(case["line"]) != ctx.driver("drv_c09").one(model_line(case["line"]))
    if case.get("pred") == "bech32_subst":
        case = dict(case, subst=[tuple(x) for x in case["subst"]])
    ok, _, _ = eval_pred(case["pred"], case)
    return not ok
