"""
Shared by harness/c10.py and harness/c11.py: wallets, previous transactions and PSBTs built through the
real buidl API (never the network: TxFetcher.fetch is stubbed to raise), the recording oracle that
answers the model's abstract parameters (signature checks, input verification, BIP32 derivations), and
the token formats of the drv_c10 / drv_c11 request lines.

Nothing here imports buidl at module import time (./check imports the harness before the repository).
"""
import io
import itertools

from harness.common import REJECT, xb, unx

SCRIPT_TYPES = ["p2pkh", "p2wpkh", "p2sh-p2wpkh", "p2sh", "p2wsh", "p2sh-p2wsh"]
MULTI_TYPES = ["p2sh", "p2wsh", "p2sh-p2wsh"]
NET = "testnet"


def rbytes(rng, n):
    return rng.getrandbits(8 * n).to_bytes(n, "little") if n else b""


def no_network():
    """TxFetcher must never be used: make any attempt an exception (the properties treat it as a refusal)"""
    import buidl.tx as T

    def _refuse(*a, **k):
        raise RuntimeError("verification harness: network access refused")

    T.TxFetcher.fetch = classmethod(lambda cls, *a, **k: _refuse())
    T.TxFetcher.sendrawtransaction = classmethod(lambda cls, *a, **k: _refuse())


# ------------------------------------------------------------------------------------------ wallets
class Wallet:
    """m-of-n wallet (n = 1 for the single-key types) of HD keys; keys derived at base/<branch>/<index>"""

    def __init__(self, seeds, m, stype, base_path, base_paths=None):
        from buidl.hd import HDPrivateKey

        self.m, self.n, self.stype, self.base_path = m, len(seeds), stype, base_path
        # every cosigner may have exported his xpub at his OWN account path (different depths); default: one path for all
        self.base_paths = list(base_paths) if base_paths else [base_path] * len(seeds)
        self.roots = [HDPrivateKey.from_seed(s, network=NET) for s in seeds]
        self.xfps = [r.fingerprint().hex() for r in self.roots]
        self.accounts = [r.traverse(bp) for r, bp in zip(self.roots, self.base_paths)]  # HDPrivateKey at the base path
        self.map_order = list(range(len(seeds)))     # insertion order of hdpubkey_map()
        self._cache = {}

    def root_path(self, branch, index, k=0):
        return f"{self.base_paths[k]}/{branch}/{index}"

    def child_priv(self, k, branch, index):
        key = (k, branch, index)
        if key not in self._cache:
            self._cache[key] = self.accounts[k].child(branch).child(index)
        return self._cache[key]

    def secs(self, branch, index):
        return [self.child_priv(k, branch, index).private_key.point.sec() for k in range(self.n)]

    def scripts(self, branch, index, m=None, keys=None, sort=True):
        """(script_pubkey, redeem_script | None, witness_script | None) of the address at branch/index"""
        from buidl.script import (RedeemScript, WitnessScript, P2PKHScriptPubKey, P2WPKHScriptPubKey,
                                  P2SHScriptPubKey, P2WSHScriptPubKey)
        from buidl.helper import hash160

        m = self.m if m is None else m
        keys = self.secs(branch, index) if keys is None else keys
        st = self.stype
        if st == "p2pkh":
            return P2PKHScriptPubKey(hash160(keys[0])), None, None
        if st == "p2wpkh":
            return P2WPKHScriptPubKey(hash160(keys[0])), None, None
        if st == "p2sh-p2wpkh":
            rs = RedeemScript([0, hash160(keys[0])])
            return P2SHScriptPubKey(rs.hash160()), rs, None
        ks = sorted(keys) if sort else list(keys)
        cmds = [80 + m] + ks + [80 + len(ks), 174]
        if st == "p2sh":
            rs = RedeemScript(cmds)
            return P2SHScriptPubKey(rs.hash160()), rs, None
        ws = WitnessScript(cmds)
        if st == "p2wsh":
            return P2WSHScriptPubKey(ws.sha256()), None, ws
        rs = RedeemScript([0, ws.sha256()])
        return P2SHScriptPubKey(rs.hash160()), rs, ws

    def named(self, k, branch, index):
        """NamedHDPublicKey of cosigner k at branch/index with fingerprint and full root path"""
        from buidl.psbt import NamedHDPublicKey

        return NamedHDPublicKey.from_hd_pub(child_hd_pub=self.child_priv(k, branch, index).pub,
                                            xfp_hex=self.xfps[k], path=self.root_path(branch, index, k))

    def global_xpub(self, k):
        from buidl.psbt import NamedHDPublicKey
        from buidl.hd import HDPublicKey

        pub = self.accounts[k].pub
        clone = HDPublicKey(point=pub.point, chain_code=pub.chain_code, depth=pub.depth,
                            parent_fingerprint=pub.parent_fingerprint, child_number=pub.child_number,
                            network=pub.network, pub_version=pub.pub_version)
        return NamedHDPublicKey.from_hd_pub(child_hd_pub=clone, xfp_hex=self.xfps[k], path=self.base_paths[k])

    def hdpubkey_map(self):
        from buidl.hd import HDPublicKey

        return {self.xfps[k]: HDPublicKey.parse(self.accounts[k].xpub()) for k in self.map_order}


def make_wallet(rng, m, n, stype, mixed_depth=False):
    base = {"p2sh": "m/45'/0", "p2wsh": "m/48'/1'/0'/2'", "p2sh-p2wsh": "m/48'/1'/0'/1'",
            "p2pkh": "m/44'/1'/0'", "p2wpkh": "m/84'/1'/0'", "p2sh-p2wpkh": "m/49'/1'/0'"}[stype]
    seeds = [rbytes(rng, 16) for _ in range(n)]
    if not mixed_depth:
        return Wallet(seeds, m, stype, base)
    # each cosigner's account path has its own length 1..5 (hardened and plain components), so the xpubs have
    # different depths; the caller's hdpubkey_map is built in a shuffled order
    paths = []
    for _ in range(n):
        comps = [rng.choice(["45'", "48'", "1'", "0'", "2'", "0", "7"]) for _ in range(rng.randrange(1, 6))]
        paths.append("m/" + "/".join(comps))
    if n > 1 and len({len(p_.split("/")) for p_ in paths}) == 1:
        paths[-1] = paths[-1] + "/3" if len(paths[-1].split("/")) < 6 else "/".join(paths[-1].split("/")[:-1])
    w = Wallet(seeds, m, stype, paths[0], base_paths=paths)
    rng.shuffle(w.map_order)
    return w


def funding_tx(rng, outs, segwit=False):
    """a previous transaction paying `outs` = [(amount, script_pubkey)] (never broadcast, never fetched)"""
    from buidl.tx import Tx, TxIn, TxOut
    from buidl.script import Script
    from buidl.witness import Witness

    tx_in = TxIn(rbytes(rng, 32), rng.randrange(0, 4), Script([rbytes(rng, 71), rbytes(rng, 33)]) if not segwit else None)
    if segwit:
        tx_in.witness = Witness([rbytes(rng, 71), rbytes(rng, 33)])
    return Tx(rng.choice([1, 2]), [tx_in], [TxOut(a, s) for a, s in outs], 0, network=NET, segwit=segwit)


class Built:
    """an honest unsigned PSBT of a wallet plus everything needed to drive it"""
    pass


def add_unknowns(rng, psbt):
    """proprietary / unknown key-value pairs in the global, input and output maps"""
    psbt.extra_map[bytes([rng.choice([0x0F, 0xFC, 0x20])]) + rbytes(rng, rng.randrange(0, 6))] = rbytes(rng, rng.randrange(0, 9))
    for pi in psbt.psbt_ins:
        if rng.random() < 0.6:
            pi.extra_map[bytes([rng.choice([0x0F, 0xFC, 0x30])]) + rbytes(rng, rng.randrange(0, 6))] = rbytes(rng, rng.randrange(1, 9))
    for po in psbt.psbt_outs:
        if rng.random() < 0.4:
            po.extra_map[bytes([rng.choice([0x0F, 0xFC, 0x30])]) + rbytes(rng, rng.randrange(0, 6))] = rbytes(rng, rng.randrange(1, 9))


def split_amounts(rng, total, n_out, change_at, zero_out):
    """output amounts adding up to `total`; `zero_out` = "change" / "spend" makes that output carry exactly 0 sats
    (its share goes to a neighbour), when there is another output to take it"""
    amounts, remaining = [], total
    for o in range(n_out):
        amt = remaining if o == n_out - 1 else rng.randrange(1000, max(1001, remaining // (n_out - o)))
        remaining -= amt
        amounts.append(amt)
    j = None
    if zero_out == "change" and change_at is not None:
        j = change_at
    elif zero_out == "spend":
        spends = [o for o in range(n_out) if o != change_at]
        j = spends[0] if spends else None
    if j is not None and n_out > 1:
        k = (j + 1) % n_out
        amounts[k] += amounts[j]
        amounts[j] = 0
    return amounts


def spend_spk(rng, payees, same_payee):
    """the scriptPubKey of the next spend output: the first `same_payee` spend outputs all pay ONE address"""
    from buidl.script import P2WPKHScriptPubKey, P2PKHScriptPubKey

    if payees and len(payees) < same_payee:
        spk = payees[0]
    else:
        spk = rng.choice([P2WPKHScriptPubKey, P2PKHScriptPubKey])(rbytes(rng, 20))
    payees.append(spk)
    return spk


def branch_index(root_path):
    """(branch, index) of a wallet key's root path `<base>/<branch>/<index>`"""
    comps = root_path.split("/")
    return int(comps[-2]), int(comps[-1])


def build_psbt(rng, w, n_inputs=1, n_spend=1, with_change=True, global_xpubs=False, unknowns=False,
               segwit_flag=False, fee=None, defer=False, same_addr=False, change_at=None, zero_out=None, same_payee=0):
    """create + update through PSBT.create (tx_lookup / pubkey_lookup / redeem_lookup / witness_lookup)"""
    from buidl.tx import Tx, TxIn, TxOut
    from buidl.psbt import PSBT
    from buidl.script import P2WPKHScriptPubKey, P2PKHScriptPubKey

    b = Built()
    b.wallet = w
    tx_lookup, pubkey_lookup, redeem_lookup, witness_lookup = {}, {}, {}, {}
    tx_ins, total = [], 0
    b.input_index = []
    b.prev_txs = []
    for i in range(n_inputs):
        idx = rng.randrange(0, 6)
        if same_addr and b.input_index:
            idx = b.input_index[0]          # several UTXOs of one wallet address: same script, same paths
        spk, rs, ws = w.scripts(0, idx)
        amount = rng.randrange(60_000, 400_000)
        decoy = [(rng.randrange(1000, 9000), P2PKHScriptPubKey(rbytes(rng, 20))) for _ in range(rng.randrange(0, 3))]
        pos = rng.randrange(0, len(decoy) + 1)
        outs = decoy[:pos] + [(amount, spk)] + decoy[pos:]
        prev = funding_tx(rng, outs, segwit=rng.random() < 0.3)
        tx_lookup[prev.hash()] = prev
        b.prev_txs.append(prev)
        tx_ins.append(TxIn(prev.hash(), pos, sequence=rng.choice([0xFFFFFFFF, 0xFFFFFFFD, 0xFFFFFFFE])))
        total += amount
        b.input_index.append(idx)
        for k in range(w.n):
            nm = w.named(k, 0, idx)
            pubkey_lookup[nm.sec()] = nm
            pubkey_lookup[nm.hash160()] = nm
        if rs is not None:
            redeem_lookup[rs.hash160()] = rs
        if ws is not None:
            witness_lookup[ws.sha256()] = ws
    fee = rng.randrange(2_000, 12_000) if fee is None else fee
    tx_outs = []
    b.change_pos = None
    remaining = total - fee
    n_out = n_spend + (1 if with_change else 0)
    r_at = rng.randrange(0, n_out) if with_change else None
    change_at = (change_at % n_out if change_at is not None else r_at) if with_change else None
    amounts = split_amounts(rng, remaining, n_out, change_at, zero_out)
    payees = []
    for o in range(n_out):
        amt = amounts[o]
        if o == change_at:
            cidx = rng.randrange(0, 6)
            spk, rs, ws = w.scripts(1, cidx)
            for k in range(w.n):
                nm = w.named(k, 1, cidx)
                pubkey_lookup[nm.sec()] = nm
                pubkey_lookup[nm.hash160()] = nm
            if rs is not None:
                redeem_lookup[rs.hash160()] = rs
            if ws is not None:
                witness_lookup[ws.sha256()] = ws
            b.change_pos, b.change_index = o, cidx
        else:
            spk = spend_spk(rng, payees, same_payee)
        tx_outs.append(TxOut(amt, spk))
    tx_obj = Tx(rng.choice([1, 2]), tx_ins, tx_outs, rng.choice([0, 0, 650000]), network=NET, segwit=segwit_flag)
    hd_pubs = {}
    if global_xpubs:
        for k in range(w.n):
            g = w.global_xpub(k)
            hd_pubs[g.raw_serialize()] = g
    b.lookups = (tx_lookup, pubkey_lookup, redeem_lookup, witness_lookup)
    b.tx_obj = tx_obj
    b.total_in, b.fee = total, fee
    if defer:
        return b
    psbt = PSBT.create(tx_obj, validate=True, tx_lookup=tx_lookup, pubkey_lookup=pubkey_lookup,
                       redeem_lookup=redeem_lookup, witness_lookup=witness_lookup, hd_pubs=hd_pubs)
    if unknowns:
        add_unknowns(rng, psbt)
    b.psbt = psbt
    return b


def reparse(raw, network=NET):
    from buidl.psbt import PSBT

    return PSBT.parse(io.BytesIO(raw), network=network)


# ------------------------------------------------------------------------------------------ oracle
_MEMO = {}


def _memo(key, fn):
    """the wrapped library functions are pure: identical arguments give the identical result, so the
    (expensive, pure-Python EC) answer is computed once per process"""
    if key in _MEMO:
        r = _MEMO[key]
    else:
        try:
            r = ("ok", fn())
        except Exception as e:  # noqa
            r = ("exc", e)
        _MEMO[key] = r
    if r[0] == "exc":
        raise r[1]
    return r[1]


def _tx_key(tx):
    """what a signature hash of `tx` can depend on: everything except the scriptSigs / witnesses (the legacy
    digest blanks them, BIP143 / BIP341 never read them), plus the UTXO data attached to the inputs"""
    return (tx.version, tx.locktime,
            tuple((t.prev_tx, t.prev_index, int(t.sequence)) for t in tx.tx_ins),
            tuple((o.amount, o.script_pubkey.raw_serialize()) for o in tx.tx_outs),
            tuple(t._value for t in tx.tx_ins),
            tuple(None if t._script_pubkey is None else t._script_pubkey.raw_serialize() for t in tx.tx_ins))


def _raw(script):
    return None if script is None else script.raw_serialize()


def xpub_body(hd):
    """depth || parent fingerprint || child number || chain code || SEC (74 bytes, no version)"""
    return hd._serialize(b"\x00\x00\x00\x00")[4:]


def path_indices(path):
    comps = path.lower().replace("h", "'").split("/")[1:]
    return [int(c) for c in comps]


class Oracle:
    """records, while the real code runs, the answers to the questions the model treats as parameters:
    key / signature parsing, partial-signature checks, verification of finalised inputs, BIP32 public
    derivations, signatures created, whole-transaction verification.  `with Oracle() as o:`"""

    def __init__(self):
        self.badsec = set()
        self.badsig = set()
        self.chk = {}       # (input index, sec as given, DER as given) -> bool
        self.ver = {}       # input index -> bool
        self.der = {}       # (xpub body, tuple of child numbers) -> sec | None
        self.made = {}      # (input index, sec) -> signature created by get_sig_*
        self.txverify = {}  # final tx bytes -> bool

    def merge(self, other):
        self.badsec |= other.badsec
        self.badsig |= other.badsig
        self.chk.update(other.chk)
        self.ver.update(other.ver)
        self.der.update(other.der)
        self.made.update(other.made)
        self.txverify.update(other.txverify)
        return self

    def __enter__(self):
        import buidl.tx as T
        import buidl.psbt as P
        import buidl.hd as HDM
        from buidl.ecc import S256Point, Signature

        o = self
        self._saved = dict(cs=T.Tx.check_sig_segwit, cl=T.Tx.check_sig_legacy, vi=T.Tx.verify_input,
                           vd=P.NamedHDPublicKey.verify_descendent, gs=T.Tx.get_sig_segwit, gl=T.Tx.get_sig_legacy,
                           tv=T.Tx.verify, pp=S256Point.__dict__["parse"], sp=Signature.__dict__["parse"],
                           tr=HDM.HDPublicKey.traverse, ch=HDM.HDPublicKey.child, pch=HDM.HDPrivateKey.child)
        sv = self._saved
        pp, sp = sv["pp"].__func__, sv["sp"].__func__

        def point_parse(cls, binary):
            try:
                pt = _memo(("pp", cls.__name__, bytes(binary)), lambda: pp(cls, binary))
            except Exception:
                o.badsec.add(bytes(binary))
                raise
            # a fresh object for every caller (NamedPublicKey.parse mutates the point's class)
            fresh = pp(cls, binary) if cls is not S256Point else S256Point(pt.x, pt.y)
            fresh._vraw = bytes(binary)
            return fresh

        def sig_parse(cls, der):
            try:
                sg = sp(cls, der)
            except Exception:
                o.badsig.add(bytes(der))
                raise
            sg._vraw = bytes(der)
            return sg

        def check_sig_segwit(self, i, point, signature, redeem_script=None, witness_script=None):
            k = ("cs", _tx_key(self), i, point.sec(), signature.der(), _raw(redeem_script), _raw(witness_script))
            r = _memo(k, lambda: sv["cs"](self, i, point, signature, redeem_script, witness_script))
            o.chk[(i, getattr(point, "_vraw", point.sec()), getattr(signature, "_vraw", signature.der()))] = bool(r)
            return r

        def check_sig_legacy(self, i, point, signature, redeem_script=None):
            k = ("cl", _tx_key(self), i, point.sec(), signature.der(), _raw(redeem_script))
            r = _memo(k, lambda: sv["cl"](self, i, point, signature, redeem_script))
            o.chk[(i, getattr(point, "_vraw", point.sec()), getattr(signature, "_vraw", signature.der()))] = bool(r)
            return r

        def verify_input(self, i):
            ti = self.tx_ins[i]
            k = ("vi", _tx_key(self), i, _raw(ti.script_sig), tuple(ti.witness.items) if ti.witness else ())
            r = _memo(k, lambda: sv["vi"](self, i))
            o.ver[i] = bool(r)
            return r

        def child(self, index):
            # HDPublicKey.child is pure: remember the derived key material, hand out a fresh object
            def go():
                c = sv["ch"](self, index)
                return (c.point.x.num, c.point.y.num, c.chain_code, c.depth, c.parent_fingerprint, c.child_number)
            x, y, cc, depth, pfp, cn = _memo(("ch", xpub_body(self), index), go)
            return HDM.HDPublicKey(point=S256Point(x, y), chain_code=cc, depth=depth, parent_fingerprint=pfp,
                                   child_number=cn, network=self.network, pub_version=self.pub_version)

        def priv_child(self, index):
            # HDPrivateKey.child is pure and its result is only read: one object per (parent, index)
            return _memo(("pch", self.private_key.secret, self.chain_code, self.depth, index, self.network),
                         lambda: sv["pch"](self, index))

        def derive_real(hd, idxs):
            def go():
                cur = hd
                for ix in idxs:
                    cur = HDM.HDPublicKey.child(cur, ix)
                return cur.point.sec()
            try:
                return _memo(("der", xpub_body(hd), tuple(idxs)), go)
            except Exception:
                return None

        def verify_descendent(self, named_pubkey):
            rem = named_pubkey.raw_path[len(self.raw_path):]
            idxs = [int.from_bytes(rem[j:j + 4], "little") for j in range(0, len(rem), 4)]
            if self.is_ancestor(named_pubkey) and all(ix < 0x80000000 for ix in idxs):
                o.der[(xpub_body(self), tuple(idxs))] = derive_real(self, idxs)
            k = ("vd", xpub_body(self), self.raw_path, named_pubkey.raw_path, S256Point.sec(named_pubkey))
            return _memo(k, lambda: sv["vd"](self, named_pubkey))

        def traverse(self, path):
            try:
                idxs = path_indices(path)
            except Exception:
                idxs = None
            body = xpub_body(self)
            try:
                r = _memo(("tr", body, path, type(self).__name__), lambda: sv["tr"](self, path))
            except Exception:
                if idxs is not None and idxs and all(0 <= ix < 0x80000000 for ix in idxs):
                    o.der[(body, tuple(idxs))] = None
                raise
            if idxs is not None and idxs:
                o.der[(body, tuple(idxs))] = r.point.sec()
            return r

        def get_sig_segwit(self, i, private_key, redeem_script=None, witness_script=None):
            k = ("gs", _tx_key(self), i, private_key.secret, _raw(redeem_script), _raw(witness_script))
            r = _memo(k, lambda: sv["gs"](self, i, private_key, redeem_script, witness_script))
            o.made[(i, private_key.point.sec())] = r
            return r

        def get_sig_legacy(self, i, private_key, redeem_script=None):
            k = ("gl", _tx_key(self), i, private_key.secret, _raw(redeem_script))
            r = _memo(k, lambda: sv["gl"](self, i, private_key, redeem_script))
            o.made[(i, private_key.point.sec())] = r
            return r

        def verify(self):
            k = ("tv", self.serialize(), _tx_key(self))
            r = _memo(k, lambda: sv["tv"](self))
            o.txverify[self.serialize()] = bool(r)
            return r

        T.Tx.check_sig_segwit, T.Tx.check_sig_legacy, T.Tx.verify_input = check_sig_segwit, check_sig_legacy, verify_input
        P.NamedHDPublicKey.verify_descendent = verify_descendent
        HDM.HDPublicKey.traverse = traverse
        HDM.HDPublicKey.child = child
        HDM.HDPrivateKey.child = priv_child
        T.Tx.get_sig_segwit, T.Tx.get_sig_legacy, T.Tx.verify = get_sig_segwit, get_sig_legacy, verify
        S256Point.parse = classmethod(point_parse)
        Signature.parse = classmethod(sig_parse)
        return self

    def __exit__(self, *a):
        import buidl.tx as T
        import buidl.psbt as P
        import buidl.hd as HDM
        from buidl.ecc import S256Point, Signature

        sv = self._saved
        T.Tx.check_sig_segwit, T.Tx.check_sig_legacy, T.Tx.verify_input = sv["cs"], sv["cl"], sv["vi"]
        P.NamedHDPublicKey.verify_descendent = sv["vd"]
        HDM.HDPublicKey.traverse = sv["tr"]
        HDM.HDPublicKey.child = sv["ch"]
        HDM.HDPrivateKey.child = sv["pch"]
        T.Tx.get_sig_segwit, T.Tx.get_sig_legacy, T.Tx.verify = sv["gs"], sv["gl"], sv["tv"]
        S256Point.parse = sv["pp"]
        Signature.parse = sv["sp"]
        return False

    def tokens(self):
        """oracle part of a request line (format of Buidl.PsbtDrv.rdTables)"""
        t = [str(len(self.badsec))] + [xb(b) for b in sorted(self.badsec)]
        t += [str(len(self.badsig))] + [xb(b) for b in sorted(self.badsig)]
        t.append(str(len(self.chk)))
        for (i, sec, der), ok in sorted(self.chk.items()):
            t += [str(i), xb(sec), xb(der), "1" if ok else "0"]
        t.append(str(len(self.ver)))
        for i, ok in sorted(self.ver.items()):
            t += [str(i), "1" if ok else "0"]
        t.append(str(len(self.der)))
        for (body, idxs), sec in sorted(self.der.items(), key=lambda kv: kv[0]):
            t += [xb(body), str(len(idxs))] + [str(ix) for ix in idxs] + ["-" if sec is None else xb(sec)]
        return " ".join(t)


def net_token(network):
    return {"mainnet": "main", "testnet": "test", None: "none"}.get(network, "test")


def subsets(n):
    for r in range(n + 1):
        for c in itertools.combinations(range(n), r):
            yield c
