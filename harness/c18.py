"""
C18 — BIP158 compact filters and BIP37 bloom filters: correspondence between the Lean model
(lean/Buidl/Model/Filters.lean; driver drv_c18) and buidl/compactfilter.py, siphash.py, bloomfilter.py,
helper.murmur3; the Lean *specification* (lean/Buidl/Spec/Filters.lean: SipHash-2-4 on UInt64,
MurmurHash3_x86_32 on UInt32, the BIP158 construction, BIP37 bit positions) as the oracle for what the
property determines; and property predicates evaluated directly on the implementation (no false
negatives, decode ∘ encode, BIP158 test vectors).

Structure (as harness/c19.py):
  impl_line(line)   evaluate one driver request line on the real code -> canonical answer
  PREDICATES[kind]  property predicates evaluated directly on the real code: case -> (ok, got, want)
  run(ctx)          generate request lines / predicate cases, run both sides, record
  replay(ctx, v)    re-execute one recorded violation exactly
"""
import ast
import contextlib
import io
import os

from harness import common
from harness.common import REJECT, MachineryError, xb, unx, blist, batch_parallel, pmap

PROPERTY = "C18"
DRIVERS = ["drv_c18"]
ANCHORS = [
    ("buidl/siphash.py", "_doublesipround"), ("buidl/siphash.py", "SipHash_2_4.__init__"),
    ("buidl/siphash.py", "SipHash_2_4.update"), ("buidl/siphash.py", "SipHash_2_4.hash"),
    ("buidl/compactfilter.py", "_siphash"), ("buidl/compactfilter.py", "hash_to_range"),
    ("buidl/compactfilter.py", "hashed_items"), ("buidl/compactfilter.py", "encode_golomb"),
    ("buidl/compactfilter.py", "decode_golomb"), ("buidl/compactfilter.py", "pack_bits"),
    ("buidl/compactfilter.py", "unpack_bits"), ("buidl/compactfilter.py", "serialize_gcs"),
    ("buidl/compactfilter.py", "encode_gcs"), ("buidl/compactfilter.py", "decode_gcs"),
    ("buidl/compactfilter.py", "CompactFilter.__init__"), ("buidl/compactfilter.py", "CompactFilter.parse"),
    ("buidl/compactfilter.py", "CompactFilter.hash"), ("buidl/compactfilter.py", "CompactFilter.serialize"),
    ("buidl/compactfilter.py", "CompactFilter.compute_hash"), ("buidl/compactfilter.py", "CompactFilter.__contains__"),
    ("buidl/compactfilter.py", "CFilterMessage.__init__"), ("buidl/compactfilter.py", "CFilterMessage.hash"),
    ("buidl/compactfilter.py", "CFHeadersMessage.__init__"),
    ("buidl/helper.py", "murmur3"), ("buidl/helper.py", "bit_field_to_bytes"),
    ("buidl/bloomfilter.py", "BloomFilter.__init__"), ("buidl/bloomfilter.py", "BloomFilter.add"),
    ("buidl/bloomfilter.py", "BloomFilter.filter_bytes"), ("buidl/bloomfilter.py", "BloomFilter.filterload"),
]
RULE = ("cases come from one PRNG seeded by VERIF_SEED plus fixed catalogues: SipHash / MurmurHash3 messages of every "
        "length 0..70 under several keys / seeds (seeds beyond 32 bits, i*0xFBA4C795 + tweak overflowing); Golomb inputs at "
        "every power of two ± 1 up to 2^26 and random ones; bit lists of every length 0..40; element sets of 0..2000 scripts "
        "of length 0..600; bloom sizes 1..36000 and 1..50 functions; the BIP158 test vectors of "
        "buidl/test/test_compactfilter.py; object-reuse histories (SipHash_2_4 streamed in chunks / copy() / hash() twice, one "
        "BloomFilter through long add histories with filter_bytes / filterload in between, one parsed CompactFilter queried, "
        "serialised and hashed repeatedly and compared with built filters), every query made twice and compared with the model "
        "on the current state. A case is non-trivial when its input is not empty; distinct = distinct "
        "(operation, input) pairs")
CLAUSES = {
    "SipHash-2-4 (every 16-byte key, every message length)": "proved (siphash_eq_spec, siphash_key_length)",
    "construction: N = number of items, F = N*M, values (siphash * F) >> 64 sorted, deltas Golomb-Rice P=19, bit packing = BIP158 byte for byte":
        "proved (encode_gcs_eq_bip158, golomb_eq_bip158, pack_eq_bip158); BIP158 takes a set: the caller removes duplicate items",
    "decoding inverts encoding":
        "proved (golomb_roundtrip, golomb_truncated, unpack_pack, pack_unpack, gcs_roundtrip, gcs_domain, decode_encode_gcs)",
    "compact filter: every inserted element is reported present, for every key and element set":
        "proved for the code after fix F18a (compact_no_false_negatives, compact_parse_serialize, compact_filter_hash, compact_parse_received); "
        "behaviour before the fix: F18a_witness",
    "filter headers chain as double-SHA256(filter hash || previous header)": "proved relative to hash (filter_header_chain, filter_header_step)",
    "MurmurHash3_x86_32 (every message length / tail length, every seed)": "proved (murmur3_eq_spec)",
    "bloom filter bit positions = MurmurHash3 with seed i*0xFBA4C795 + tweak modulo the filter size": "proved (bloom_position_eq_spec)",
    "bloom filter: every inserted element is reported present, for every tweak, size, function count":
        "proved as an invariant over the add history (bloom_no_false_negatives, bloom_add_mono, bloom_add_params, bloom_add_total, "
        "bloom_filter_bytes)",
    "filterload serialisation": "proved layout (bloom_filterload_layout) — a near-restatement of the model; tied to the code by correspondence",
}
TRUSTED = ["hash256 is a parameter of the header-chain theorem; the driver instantiates it with Buidl.Model.Hash.SHA256",
           "Python `sorted` on ints is modelled by List.mergeSort (validated by the correspondence run)"]
ASSUMPTIONS = ["messages are shorter than 2^32 bytes (murmur3 masks the length with 0xFFFFFFFC)",
               "CompactFilter.__contains__ is evaluated on script_pubkey.raw_serialize() (the script codec is C04's subject)"]


class UnknownOp(Exception):
    pass


def rbytes(rng, n):
    return rng.getrandbits(8 * n).to_bytes(n, "little") if n else b""


def bits_tok(bits):
    return "m" + "".join("1" if b else "0" for b in bits)


def tok_bits(tok):
    if not tok.startswith("m"):
        raise MachineryError("not a bit token")
    return [1 if c == "1" else 0 for c in tok[1:]]


def nats(l):
    return " ".join([str(len(l))] + [str(x) for x in l])


def parse_counted(t, i):
    n = int(t[i])
    return [unx(x) for x in t[i + 1:i + 1 + n]], i + 1 + n


class RawScript:
    """stands for a Script whose raw_serialize() is the given bytes"""

    def __init__(self, raw):
        self.raw = raw

    def raw_serialize(self):
        return self.raw


def cf_values(cf):
    v = getattr(cf, "sorted_hashes", None)
    return list(v) if v is not None else sorted(cf.hashes)


# ------------------------------------------------------------------------------- implementation side
def _impl(t):
    import buidl.compactfilter as CF
    import buidl.helper as H
    import buidl.bloomfilter as BF

    op = t[0]
    if op in ("siphash", "siphash_spec"):
        return str(CF._siphash(unx(t[1]), unx(t[2])))
    if op in ("murmur3", "murmur3_spec"):
        return str(H.murmur3(unx(t[1]), seed=int(t[2])))
    if op in ("golomb_enc", "golomb_enc_spec"):
        return bits_tok(CF.encode_golomb(int(t[1]), int(t[2])))
    if op == "golomb_dec":
        bits = tok_bits(t[1])
        x = CF.decode_golomb(bits, int(t[2]))
        return f"{x} {bits_tok(bits)}"
    if op in ("pack_bits", "pack_bits_spec"):
        return xb(CF.pack_bits(tok_bits(t[1])))
    if op == "unpack_bits":
        return bits_tok(CF.unpack_bits(unx(t[1])))
    if op == "serialize_gcs":
        return xb(CF.serialize_gcs([int(x) for x in t[2:2 + int(t[1])]]))
    if op == "hashed_items":
        items, _ = parse_counted(t, 2)
        return nats(CF.hashed_items(unx(t[1]), items))
    if op in ("encode_gcs", "gcs_spec"):
        items, _ = parse_counted(t, 2)
        return xb(CF.encode_gcs(unx(t[1]), items))
    if op == "decode_gcs":
        return nats(CF.decode_gcs(b"", unx(t[1])))
    if op == "cf":
        qs, _ = parse_counted(t, 3)
        cf = CF.CompactFilter.parse(unx(t[1]), unx(t[2]))
        ms = [RawScript(q) in cf for q in qs]
        return f"{cf.f} {nats(cf_values(cf))} {xb(cf.serialize())} {xb(cf.hash())} {bits_tok(ms)}"
    if op == "cfilter_key_hash":
        m = CF.CFilterMessage(0, unx(t[1]), unx(t[2]))
        return f"{xb(m.cf.key)} {xb(m.hash())}"
    if op in ("cfheaders_fold", "cfheaders_fold_spec"):
        hs, _ = parse_counted(t, 2)
        return xb(CF.CFHeadersMessage(0, bytes(32), unx(t[1]), hs).last_header)
    if op == "bloom":
        items, _ = parse_counted(t, 5)
        bf = BF.BloomFilter(int(t[1]), int(t[2]), int(t[3]))
        for it in items:
            bf.add(it)
        fb = bf.filter_bytes()
        try:
            fl = xb(bf.filterload(int(t[4])).payload)
        except Exception:
            fl = REJECT
        return f"{xb(fb)} {fl}"
    if op in ("bloom_pos", "bloom_pos_spec"):
        size, fc, tweak, item = int(t[1]), int(t[2]), int(t[3]), unx(t[4])
        return nats([H.murmur3(item, seed=i * BF.BIP37_CONSTANT + tweak) % (size * 8) for i in range(fc)])
    raise UnknownOp(op)


def impl_line(line):
    t = line.split(" ")
    try:
        return _impl(t)
    except UnknownOp:
        raise
    except Exception:
        return REJECT


SPEC_OPS = {"siphash_spec", "murmur3_spec", "golomb_enc_spec", "pack_bits_spec", "gcs_spec", "cfheaders_fold_spec",
            "bloom_pos_spec"}


# ------------------------------------------------------------------------------- direct predicates
def p_cf_no_false_negative(c):
    """every element a filter was built from is reported present by the parsed filter, and the parsed filter
    serialises to the bytes it was parsed from"""
    import buidl.compactfilter as CF
    key = unx(c["key"])
    items = [unx(i) for i in c["items"]]
    fb = CF.encode_gcs(key, items)
    cf = CF.CompactFilter.parse(key, fb)
    missing = [xb(i) for i in items if RawScript(i) not in cf]
    same = cf.serialize() == fb
    return (not missing) and same, {"missing": missing[:5], "n_missing": len(missing), "reserialises": same}, \
        {"missing": [], "n_missing": 0, "reserialises": True}


def p_gcs_roundtrip(c):
    import buidl.compactfilter as CF
    xs = c["xs"]
    got = CF.decode_gcs(b"", CF.serialize_gcs(list(xs)))
    return got == xs, got[:20], xs[:20]


def p_golomb_roundtrip(c):
    import buidl.compactfilter as CF
    x, p, rest = c["x"], c["p"], tok_bits(c["rest"])
    bits = list(CF.encode_golomb(x, p)) + rest
    got = [CF.decode_golomb(bits, p), bits_tok(bits)]
    return got == [x, c["rest"]], got, [x, c["rest"]]


def p_pack_roundtrip(c):
    import buidl.compactfilter as CF
    bits = tok_bits(c["bits"])
    got = CF.unpack_bits(CF.pack_bits(list(bits)))
    want = bits + [0] * (-len(bits) % 8)
    return got == want, bits_tok(got), bits_tok(want)


def p_bloom_exact(c):
    """after adding the items, exactly the bits at the specification's positions are set (hence no false negatives);
    `positions` come from Spec.bloomBit through the driver"""
    import buidl.bloomfilter as BF
    bf = BF.BloomFilter(c["size"], c["fc"], c["tweak"])
    want = bytearray(c["size"])
    for it, pos in zip(c["items"], c["positions"]):
        bf.add(unx(it))
        for p in pos:
            want[p // 8] |= 1 << (p % 8)
        fb = bf.filter_bytes()
        missing = [p for p in pos if not (fb[p // 8] >> (p % 8)) & 1]
        if missing:
            return False, {"item": it, "unset_positions": missing[:5]}, "all positions set"
    got = bf.filter_bytes()
    return got == bytes(want), xb(got)[:200], xb(bytes(want))[:200]


def p_bip158_vector(c):
    """BIP158 test vector (buidl/test/test_compactfilter.py): filter bytes and header"""
    import buidl.compactfilter as CF
    import buidl.helper as H
    from buidl.block import Block
    key = bytes.fromhex(c["block_hash"])[::-1][:16]
    with contextlib.redirect_stdout(io.StringIO()):   # Script.parse prints a diagnostic for coinbase scripts
        b = Block.parse(io.BytesIO(bytes.fromhex(c["block"])))
    items = H.filter_null([bytes.fromhex(s) for s in c["scripts"]] + [i for i in b.get_outpoints()])
    fb = CF.encode_gcs(key, items)
    hdr = H.hash256(H.hash256(fb) + bytes.fromhex(c["prev"])[::-1])[::-1]
    got = [fb.hex(), hdr.hex()]
    return got == [c["filter"], c["header"]], got, [c["filter"], c["header"]]


PREDICATES = {"cf_no_false_negative": p_cf_no_false_negative, "gcs_roundtrip": p_gcs_roundtrip,
              "golomb_roundtrip": p_golomb_roundtrip, "pack_roundtrip": p_pack_roundtrip, "bloom_exact": p_bloom_exact,
              "bip158_vector": p_bip158_vector}


def eval_pred(kind, case=None):
    if case is None:
        kind, case = kind
    try:
        return PREDICATES[kind](case)
    except Exception as e:
        return False, "raised " + type(e).__name__, "no exception"


def bip158_vectors():
    """the rows of `tests` in CompactFilterTest.test_hashed_items, read from the test file's AST"""
    p = os.path.join(common.REPO, "buidl/test/test_compactfilter.py")
    tree = ast.parse(open(p).read())
    rows = []
    for n in ast.walk(tree):
        if isinstance(n, ast.FunctionDef) and n.name == "test_hashed_items":
            for a in ast.walk(n):
                if isinstance(a, ast.Assign) and any(isinstance(t, ast.Name) and t.id == "tests" for t in a.targets):
                    for row in ast.literal_eval(a.value):
                        rows.append({"height": row[0], "block_hash": row[1], "block": row[2], "scripts": row[3],
                                     "prev": row[4], "filter": row[5], "header": row[6], "notes": row[7]})
    return rows


# ------------------------------------------------------------------------------- object-reuse histories
# One object of the real code goes through a sequence of operations; every query is made twice and compared with the
# model / specification evaluated on the CURRENT state (the history so far), so a cached, stale or doubled result on
# a reused object shows up as a mismatch.
# run_history((kind, spec)) -> list of checks (label, request lines, post, implementation answer, determined)
def _q2(fn):
    out = []
    for _ in range(2):
        try:
            out.append(fn())
        except Exception:
            out.append(REJECT)
    return out


def _hist_sip(spec):
    """SipHash_2_4 streaming API: update in chunks, hash() twice, more updates, copy()"""
    from buidl.siphash import SipHash_2_4
    key = unx(spec["key"])
    chunks = [unx(c) for c in spec["chunks"]]
    checks = []
    sip = SipHash_2_4(key, chunks[0]) if spec.get("ctor_data") else SipHash_2_4(key).update(chunks[0])
    sofar = chunks[0]

    def ask(tag, obj, data):
        for k, a in enumerate(_q2(lambda: str(obj.hash()))):
            checks.append((f"{tag}:hash#{k}", [f"siphash_spec {xb(key)} {xb(data)}"], "id", a, True))
            checks.append((f"{tag}:hash#{k}:model", [f"siphash {xb(key)} {xb(data)}"], "id", a, False))
    ask("c0", sip, sofar)
    for i, c in enumerate(chunks[1:], 1):
        r = sip.update(c)
        sofar += c
        if i % 2 == 1 or i == len(chunks) - 1:
            ask(f"c{i}", sip, sofar)
        if r is not sip:
            checks.append((f"c{i}:update-returns-self", [], "const:self", "other", True))
    cp = sip.copy()
    cp.update(b"tail")
    ask("copy", cp, sofar + b"tail")
    ask("orig-after-copy", sip, sofar)
    one = SipHash_2_4(key, sofar)
    ask("one-shot", one, sofar)
    for k, a in enumerate(_q2(lambda: xb(sip.digest()))):
        checks.append((f"digest#{k}", [f"siphash_spec {xb(key)} {xb(sofar)}"], "le8", a, True))
    return checks


def _hist_bloom(spec):
    """one BloomFilter through a long add history; filter_bytes / filterload asked twice after every few adds"""
    import buidl.bloomfilter as BF
    size, fc, tweak = spec["size"], spec["fc"], spec["tweak"]
    bf = BF.BloomFilter(size, fc, tweak)
    items = [unx(i) for i in spec["items"]]
    checks = []

    def ask(tag, n):
        flag = spec["flags"][n % len(spec["flags"])]
        line = f"bloom {size} {fc} {tweak} {flag} {blist(items[:n])}"

        def q():
            fb = bf.filter_bytes()
            try:
                fl = xb(bf.filterload(flag).payload)
            except Exception:
                fl = REJECT
            return f"{xb(fb)} {fl}"
        for k, a in enumerate(_q2(q)):
            checks.append((f"{tag}#{k}", [line], "id", a, True))
    ask("empty", 0)
    for n, it in enumerate(items, 1):
        bf.add(it)
        if n in spec["ask_at"]:
            ask(f"after{n}", n)
    for it in items[:3]:        # adding an element again changes nothing
        bf.add(it)
    ask("re-added", len(items))
    return checks


def _hist_cf(spec):
    """one parsed CompactFilter: membership asked many times, serialize / hash twice, __eq__ with built filters"""
    import buidl.compactfilter as CF
    key = unx(spec["key"])
    items = [unx(i) for i in spec["items"]]
    queries = [unx(q) for q in spec["queries"]]
    fb = CF.encode_gcs(key, items)
    cf = CF.CompactFilter.parse(key, fb)
    line = f"cf {xb(key)} {xb(fb)} {blist(queries)}"
    checks = []

    def obs():
        ms = [RawScript(q) in cf for q in queries]
        return f"{cf.f} {nats(cf_values(cf))} {xb(cf.serialize())} {xb(cf.hash())} {bits_tok(ms)}"
    for k in range(3):
        try:
            a = obs()
        except Exception:
            a = REJECT
        checks.append((f"obs#{k}", [line], "id", a, True))
        for q in queries[:5]:       # the same queries again, in another order
            RawScript(q) in cf
    built = CF.CompactFilter(key, CF.hashed_items(key, items))
    other_items = items[:-1] if items else [b"x"]
    other = CF.CompactFilter(key, CF.hashed_items(key, other_items))
    otherkey = CF.CompactFilter(bytes(15) + b"\x01", CF.hashed_items(key, items))
    hi = f"hashed_items {xb(key)} {blist(items)}"
    ho = f"hashed_items {xb(key)} {blist(other_items)}"
    for k, a in enumerate(_q2(lambda: str(cf == built))):
        checks.append((f"eq-built#{k}", [], "const:True", a, True))
    for k, a in enumerate(_q2(lambda: str(built == cf))):
        checks.append((f"eq-built-sym#{k}", [], "const:True", a, True))
    for k, a in enumerate(_q2(lambda: str(cf == other))):
        checks.append((f"eq-other#{k}", [hi, ho], "same", a, True))
    for k, a in enumerate(_q2(lambda: str(cf == otherkey))):
        checks.append((f"eq-otherkey#{k}", [], "const:" + str(key == bytes(15) + b"\x01"), a, True))
    reparsed = CF.CompactFilter.parse(key, cf.serialize())
    checks.append(("eq-reparsed", [], "const:True", str(reparsed == cf), True))
    return checks


HISTORIES = {"hist:siphash": _hist_sip, "hist:bloom": _hist_bloom, "hist:compactfilter": _hist_cf}


def run_history(ks):
    kind, spec = ks
    return HISTORIES[kind](spec)


def expected_of(post, answers):
    if post.startswith("const:"):
        return post[6:]
    if post == "id":
        return answers[0]
    if post == "le8":
        return answers[0] if answers[0] == REJECT else xb(int(answers[0]).to_bytes(8, "little"))
    if post == "same":
        return str(answers[0] == answers[1])
    raise MachineryError(f"unknown post {post}")


def gen_histories(ctx, rng):
    hist = []
    for n in range(0, 34):          # total lengths 0..33 split at every kind of block boundary
        data = rbytes(rng, n + rng.choice([0, 8, 16, 40]))
        cuts = sorted(rng.randrange(0, len(data) + 1) for _ in range(rng.randrange(1, 6)))
        chunks = [data[a:b] for a, b in zip([0] + cuts, cuts + [len(data)])]
        hist.append(("hist:siphash", {"key": xb(rbytes(rng, 16)), "chunks": [xb(c) for c in chunks], "ctor_data": n % 3 == 0}))
    hist.append(("hist:siphash", {"key": xb(bytes(range(16))), "chunks": [xb(bytes(range(k, k + 1))) for k in range(40)], "ctor_data": False}))
    for _ in range(ctx.n(3)):        # messages longer than 255 bytes: the length byte wraps
        data = rbytes(rng, rng.randrange(250, 600))
        k = rng.randrange(1, len(data))
        hist.append(("hist:siphash", {"key": xb(rbytes(rng, 16)), "chunks": [xb(data[:k]), xb(data[k:]), xb(b"")], "ctor_data": False}))
    shapes = [(1, 1), (2, 7), (10, 5), (37, 50), (256, 11), (1000, 20)] + \
        [(rng.randrange(1, 200), rng.randrange(1, 51)) for _ in range(ctx.n(6))]
    for size, fc in shapes:
        n = rng.choice([12, 40, 80]) if size <= 300 else 25
        items = [rbytes(rng, rng.choice([0, 1, 2, 3, 5, 20, 33, rng.randrange(0, 71)])) for _ in range(n)]
        if n > 4:
            items[4] = items[1]
        ask_at = sorted(set([1, 2, 3, n // 2, n - 1, n] + [rng.randrange(1, n + 1) for _ in range(4)]))
        hist.append(("hist:bloom", {"size": size, "fc": fc, "tweak": rng.choice([0, 99, 0xFFFFFFFF, rng.getrandbits(32)]),
                                    "items": [xb(i) for i in items], "ask_at": ask_at, "flags": [1, 0, 2, 255]}))
    for n in [0, 1, 2, 3, 10, 60] + [rng.randrange(0, 150) for _ in range(ctx.n(6))]:
        items = [rbytes(rng, rng.choice([1, 22, 25, 34, rng.randrange(0, 100)])) for _ in range(n)]
        if n >= 3 and rng.random() < 0.5:
            items[2] = items[0]          # the same script twice
        queries = items + [rbytes(rng, rng.randrange(0, 30)) for _ in range(10)]
        rng.shuffle(queries)
        hist.append(("hist:compactfilter", {"key": xb(rbytes(rng, 16)), "items": [xb(i) for i in items],
                                            "queries": [xb(q) for q in queries]}))
    hist.append(("hist:compactfilter", {"key": F18A["key"], "items": F18A["items"], "queries": F18A["items"] + ["x", "x51"]}))
    return hist


def check_histories(ctx, drv, hist):
    rec = ctx.rec
    runs = pmap(run_history, hist, workers=ctx.workers, chunksize=2)
    reqs = sorted({l for checks in runs for (_, lines, _, _, _) in checks for l in lines})
    ans = dict(zip(reqs, batch_parallel(drv, reqs, workers=ctx.workers)))
    for (kind, spec), checks in zip(hist, runs):
        for label, lines, post, impl, determined in checks:
            want = expected_of(post, [ans[l] for l in lines])
            case = {"history": kind, "spec": spec, "check": label}
            if impl == want:
                rec.ok(kind, (repr(spec)[:200], label))
            elif determined:
                rec.violation(kind, case, impl, want, note=label)
            else:
                rec.disagreement(kind, case, impl, want, note=label)
        rec.sample(kind, {"spec": {k: (v if len(repr(v)) < 200 else repr(v)[:200]) for k, v in spec.items()}, "checks": len(checks)}, limit=1)


def _dbg(ctx, label):
    if os.environ.get("VERIF_DEBUG"):
        import sys
        import time
        sys.stderr.write(f"[c18 {time.time() - ctx.t0:7.1f}s] {label}\n")


# F18a witness (fixed): two scripts hashing to the same value under F = 2*M
F18A = {"key": "x" + "00" * 16, "items": ["x028203", "x02b405"]}


# ------------------------------------------------------------------------------- generation
def run(ctx):
    import buidl.compactfilter as CF
    import buidl.helper as H
    import buidl.bloomfilter as BF
    from buidl.block import Block

    rng, rec = ctx.rng, ctx.rec
    drv = ctx.driver("drv_c18")
    lines = []   # (kind, request line)
    preds = []   # (kind, case)

    # ---- F18a (fixed): duplicates among the hashed values
    okw, gotw, _ = eval_pred(("cf_no_false_negative", F18A))
    rec.finding("F18a", not okw, {"case": F18A, "observed": gotw})

    # ---- SipHash: every message length 0..70, several keys
    keys = [bytes(16), bytes(range(16)), b"\xff" * 16] + [rbytes(rng, 16) for _ in range(ctx.n(3))]
    for n in range(0, 71):
        for k in keys:
            m = rbytes(rng, n)
            lines.append(("siphash", f"siphash {xb(k)} {xb(m)}"))
            lines.append(("siphash_spec", f"siphash_spec {xb(k)} {xb(m)}"))
    for n in [100, 255, 256, 257, 600, 1000] + [rng.randrange(71, 700) for _ in range(ctx.n(10))]:
        k, m = rbytes(rng, 16), rbytes(rng, n)
        lines.append(("siphash", f"siphash {xb(k)} {xb(m)}"))
        lines.append(("siphash_spec", f"siphash_spec {xb(k)} {xb(m)}"))
    for kl in (0, 4, 15, 17, 32):
        lines.append(("siphash", f"siphash {xb(rbytes(rng, kl))} {xb(rbytes(rng, 9))}"))
    plain = bytes(range(64))    # the 64 reference vectors of the SipHash paper are in siphash.py's self test
    for n in range(64):
        lines.append(("siphash_spec", f"siphash_spec {xb(bytes(range(16)))} {xb(plain[:n])}"))

    # ---- MurmurHash3: every length 0..70, seeds within and beyond 32 bits
    C = BF.BIP37_CONSTANT
    seeds = [0, 1, 0x7FFFFFFF, 0x80000000, 0xFFFFFFFF, 0x100000000, 0x100000001, C, 2 * C, 49 * C + 0xFFFFFFFF, 2 ** 40 + 12345]
    for n in range(0, 71):
        for s in rng.sample(seeds, 3) + [rng.getrandbits(32), rng.getrandbits(32) * rng.randrange(1, 50) + rng.getrandbits(32)]:
            m = rbytes(rng, n)
            lines.append(("murmur3", f"murmur3 {xb(m)} {s}"))
            lines.append(("murmur3_spec", f"murmur3_spec {xb(m)} {s}"))
    for m, s in [(b"", 0), (b"", 1), (b"", 0xFFFFFFFF), (b"\xff\xff\xff\xff", 0), (b"!Ce\x87", 0x5082EDEE), (b"!Ce", 0), (b"!C", 0),
                 (b"!", 0), (bytes(4), 0), (b"Hello, world!", 0x9747B28C), (b"aaaa", 0x9747B28C), (b"abc", 0x9747B28C)]:
        lines.append(("murmur3_spec", f"murmur3_spec {xb(m)} {s}"))
    for n in [100, 255, 256, 257, 600]:
        m, s = rbytes(rng, n), rng.getrandbits(33)
        lines.append(("murmur3", f"murmur3 {xb(m)} {s}"))
        lines.append(("murmur3_spec", f"murmur3_spec {xb(m)} {s}"))

    # ---- Golomb-Rice
    xs = set(range(0, 12))
    for k in range(1, 27):
        xs.update([2 ** k - 1, 2 ** k, 2 ** k + 1])
    xs.discard(2 ** 26)
    xs.discard(2 ** 26 + 1)
    for _ in range(ctx.n(1500)):
        xs.add(rng.randrange(0, 2 ** rng.randrange(1, 27)))
    for x in sorted(xs):
        for p in ([19] if x > 2 ** 12 else [19, rng.choice([0, 1, 2, 8, 20])]):
            if (x >> p) > 5000:
                continue
            lines.append(("golomb_enc", f"golomb_enc {x} {p}"))
            lines.append(("golomb_enc_spec", f"golomb_enc_spec {x} {p}"))
            rest = [rng.random() < 0.5 for _ in range(rng.choice([0, 0, 1, 7, 30]))]
            enc = list(CF.encode_golomb(x, p))
            lines.append(("golomb_dec", f"golomb_dec {bits_tok(enc + rest)} {p}"))
            preds.append(("golomb_roundtrip", {"x": x, "p": p, "rest": bits_tok(rest)}))
            if rng.random() < 0.2:
                lines.append(("golomb_dec", f"golomb_dec {bits_tok(enc[:rng.randrange(0, len(enc))])} {p}"))
    for _ in range(ctx.n(200)):
        bits = [rng.random() < 0.6 for _ in range(rng.randrange(0, 60))]
        lines.append(("golomb_dec", f"golomb_dec {bits_tok(bits)} {rng.choice([0, 1, 3, 19])}"))

    # ---- bit packing
    for n in list(range(0, 41)) + [rng.randrange(41, 400) for _ in range(ctx.n(40))]:
        bits = [rng.random() < 0.5 for _ in range(n)]
        lines.append(("pack_bits", f"pack_bits {bits_tok(bits)}"))
        lines.append(("pack_bits_spec", f"pack_bits_spec {bits_tok(bits)}"))
        preds.append(("pack_roundtrip", {"bits": bits_tok(bits)}))
        lines.append(("unpack_bits", f"unpack_bits {xb(rbytes(rng, n % 9))}"))

    # ---- serialize_gcs / decode_gcs on sorted lists (duplicates included)
    for n in [0, 1, 2, 3, 5, 8, 50, 252, 253, 254] + [rng.randrange(0, 400) for _ in range(ctx.n(30))]:
        hi = rng.choice([1, 2 ** 10, 2 ** 19, 2 ** 20, 2 ** 26, n * 784931 + 1])
        vals = sorted(rng.randrange(0, hi) for _ in range(n))
        if n > 2 and rng.random() < 0.4:
            vals[1] = vals[0]
            vals[-1] = vals[-2]
        lines.append(("serialize_gcs", "serialize_gcs " + nats(vals)))
        preds.append(("gcs_roundtrip", {"xs": vals}))
        fb = CF.serialize_gcs(list(vals))
        lines.append(("decode_gcs", f"decode_gcs {xb(fb)}"))
        if fb:
            cut = fb[:rng.randrange(0, len(fb))]
            lines.append(("decode_gcs:truncated", f"decode_gcs {xb(cut)}"))
            pos = rng.randrange(len(fb))
            bad = bytearray(fb)
            bad[pos] ^= 1 << rng.randrange(8)
            if bad[0] < 0xFD or n >= 0xFD:
                lines.append(("decode_gcs:corrupt", f"decode_gcs {xb(bytes(bad))}"))
    for raw in (b"", b"\x00", b"\x01", b"\x05\xff\xff\xff", b"\xfd\x03", b"\xff" + bytes(7), b"\x02" + bytes(6)):
        lines.append(("decode_gcs", f"decode_gcs {xb(raw)}"))

    # ---- element sets of 0..2000 scripts of length 0..600
    set_sizes = [0, 1, 2, 3, 4, 7, 20, 100, 252, 253, 600, 2000] + [rng.randrange(0, 300) for _ in range(ctx.n(12))]
    for n in set_sizes:
        key = rng.choice([bytes(16), rbytes(rng, 16), rbytes(rng, 16)])
        maxlen = 600 if n <= 300 else 80
        items = [rbytes(rng, rng.choice([0, 1, 22, 23, 25, 34, 35, rng.randrange(0, maxlen + 1)])) for _ in range(n)]
        if n == 20:
            items[3] = items[7]     # the same script twice: N counts both (the caller is expected to pass a set)
        q = blist(items)
        lines.append(("hashed_items", f"hashed_items {xb(key)} {q}"))
        lines.append(("encode_gcs", f"encode_gcs {xb(key)} {q}"))
        lines.append(("gcs_spec", f"gcs_spec {xb(key)} {q}"))
        fb = CF.encode_gcs(key, items)
        lines.append(("decode_gcs", f"decode_gcs {xb(fb)}"))
        queries = (items if n <= 300 else rng.sample(items, 100)) + [rbytes(rng, rng.randrange(0, 40)) for _ in range(20)]
        lines.append(("cf", f"cf {xb(key)} {xb(fb)} {blist(queries)}"))
        preds.append(("cf_no_false_negative", {"key": xb(key), "items": [xb(i) for i in items]}))
    lines.append(("encode_gcs", f"encode_gcs {xb(bytes(15))} 1 x00"))
    # the F18a shape: two scripts with the same hashed value
    fkey, fitems = unx(F18A["key"]), [unx(i) for i in F18A["items"]]
    ffb = CF.encode_gcs(fkey, fitems)
    lines.append(("cf:duplicate-values", f"cf {xb(fkey)} {xb(ffb)} {blist(fitems + [b'', b'x'])}"))
    lines.append(("decode_gcs", f"decode_gcs {xb(ffb)}"))
    preds.append(("cf_no_false_negative", dict(F18A, finding="F18a")))
    # filters received from the network need not come from encode_gcs: any serialised non-decreasing list
    for _ in range(ctx.n(20)):
        vals = sorted(rng.randrange(0, 3 * 784931) for _ in range(rng.randrange(0, 6)))
        if len(vals) >= 2 and rng.random() < 0.5:
            vals[1] = vals[0]
        fb = CF.serialize_gcs(list(vals))
        lines.append(("cf:received", f"cf {xb(rbytes(rng, 16))} {xb(fb)} {blist([rbytes(rng, 5) for _ in range(3)])}"))

    # ---- BIP158 vectors of the repository's test file
    vectors = bip158_vectors()
    if len(vectors) < 5:
        raise MachineryError("BIP158 vectors not found in buidl/test/test_compactfilter.py")
    for v in vectors:
        preds.append(("bip158_vector", v))
        key = bytes.fromhex(v["block_hash"])[::-1][:16]
        with contextlib.redirect_stdout(io.StringIO()):
            b = Block.parse(io.BytesIO(bytes.fromhex(v["block"])))
        items = H.filter_null([bytes.fromhex(s) for s in v["scripts"]] + [i for i in b.get_outpoints()])
        fb = bytes.fromhex(v["filter"])
        lines.append(("gcs_spec:vector", (f"gcs_spec {xb(key)} {blist(items)}", xb(fb))))
        lines.append(("decode_gcs", f"decode_gcs {xb(fb)}"))
        lines.append(("cf", f"cf {xb(key)} {xb(fb)} {blist(items + [b'', b'nope'])}"))
        lines.append(("cfilter_key_hash", f"cfilter_key_hash {xb(bytes.fromhex(v['block_hash']))} {xb(fb)}"))
        prev = bytes.fromhex(v["prev"])[::-1]
        lines.append(("cfheaders_fold_spec:vector", (f"cfheaders_fold_spec {xb(prev)} 1 {xb(H.hash256(fb))}",
                                                     xb(bytes.fromhex(v["header"])[::-1]))))

    # ---- filter header chains
    for n in [0, 1, 2, 3, 10] + [rng.randrange(0, 40) for _ in range(ctx.n(10))]:
        prev = rbytes(rng, 32)
        hs = [rbytes(rng, 32) for _ in range(n)]
        lines.append(("cfheaders_fold", f"cfheaders_fold {xb(prev)} {blist(hs)}"))
        lines.append(("cfheaders_fold_spec", f"cfheaders_fold_spec {xb(prev)} {blist(hs)}"))
    for _ in range(ctx.n(10)):
        lines.append(("cfilter_key_hash", f"cfilter_key_hash {xb(rbytes(rng, 32))} {xb(CF.encode_gcs(rbytes(rng, 16), [rbytes(rng, 9)]))}"))

    # ---- bloom filters: sizes 1..36000, 1..50 functions, tweaks with overflow of i*C + tweak
    blooms = []
    shapes = [(1, 1), (1, 50), (2, 3), (10, 5), (36000, 50), (36000, 1), (35999, 11), (4096, 20), (997, 50)]
    shapes += [(rng.randrange(1, 300), rng.randrange(1, 51)) for _ in range(ctx.n(25))]
    shapes += [(rng.randrange(300, 36001), rng.randrange(1, 51)) for _ in range(ctx.n(3, 30))]
    for size, fc in shapes:
        tweak = rng.choice([0, 1, 99, 0x7FFFFFFF, 0xFFFFFFFF, 0xFFFFFFFF - C + 1, rng.getrandbits(32)])
        items = [rbytes(rng, rng.choice([0, 1, 2, 3, 4, 5, 20, 32, 33, 36, rng.randrange(0, 71)])) for _ in range(rng.randrange(0, 6))]
        blooms.append((size, fc, tweak, items))
    blooms.append((10, 5, 99, [b"Hello World", b"Goodbye!"]))
    blooms.append((0, 3, 5, [b"x"]))          # size 0: modulo by zero
    blooms.append((3, 0, 5, [b"x"]))          # no functions
    blooms.append((7, 2, 2 ** 32, [b"x"]))    # tweak that does not fit the filterload field
    blooms.append((5, 2 ** 32, 1, []))        # function count that does not fit the filterload field
    pos_reqs = []
    for size, fc, tweak, items in blooms:
        flag = rng.choice([0, 1, 2, 255, 256])
        lines.append(("bloom", f"bloom {size} {fc} {tweak} {flag} {blist(items)}"))
        if size > 0 and fc <= 50:
            for it in items:
                lines.append(("bloom_pos", f"bloom_pos {size} {fc} {tweak} {xb(it)}"))
                lines.append(("bloom_pos_spec", f"bloom_pos_spec {size} {fc} {tweak} {xb(it)}"))
                pos_reqs.append(f"bloom_pos_spec {size} {fc} {tweak} {xb(it)}")
    check_histories(ctx, drv, gen_histories(ctx, rng))
    _dbg(ctx, "histories checked")
    _dbg(ctx, f"{len(lines)} lines generated")

    # ---- run both sides
    reqs = [l if isinstance(l, str) else l[0] for _, l in lines]
    answers = batch_parallel(drv, reqs, workers=ctx.workers)
    _dbg(ctx, "model answered")
    ans_of = dict(zip(reqs, answers))
    impl_answers = dict(zip(reqs, pmap(impl_line, reqs, workers=ctx.workers, chunksize=32)))
    _dbg(ctx, "implementation answered")
    for (kind, l), model in zip(lines, answers):
        if isinstance(l, tuple):
            # a published vector: the specification must reproduce it (else the oracle itself is wrong)
            req, want = l
            if model != want:
                raise MachineryError(f"specification disagrees with the published vector on {req[:120]}: {model[:80]} vs {want[:80]}")
            line = req
        else:
            line = l
        impl = impl_answers[line]
        op = line.split(" ", 1)[0]
        if rec.compare(kind, {"line": line[:20000]}, impl, model, determined=(op in SPEC_OPS), key=line[:300],
                       nontrivial=not line.endswith(" x")):
            rec.sample(kind, {"request": line[:400], "answer": model[:200]})
        if impl == REJECT:
            rec.count(kind + ":reject")
    # bloom: exactly the specification's positions are set
    for size, fc, tweak, items in blooms:
        if size > 0 and fc <= 50:
            positions = []
            for it in items:
                a = ans_of[f"bloom_pos_spec {size} {fc} {tweak} {xb(it)}"].split(" ")
                positions.append([int(x) for x in a[1:]])
            preds.append(("bloom_exact", {"size": size, "fc": fc, "tweak": tweak, "items": [xb(i) for i in items],
                                          "positions": positions}))
    results = pmap(eval_pred, preds, workers=ctx.workers, chunksize=8)
    _dbg(ctx, f"{len(preds)} predicates evaluated")
    for (kind, case), (ok, got, want) in zip(preds, results):
        rec.cov_pred(kind, case)
        if ok:
            rec.ok(kind, repr(case)[:300])
            rec.sample(kind, {k: (v if len(repr(v)) < 300 else repr(v)[:300]) for k, v in case.items()}, limit=1)
        else:
            small = {k: v for k, v in case.items() if k != "block"}
            rec.violation(kind, dict(small, pred=kind), got, want, note=str(case.get("notes", "")), finding=case.get("finding"))


def replay(ctx, v):
    """re-execute one recorded violation exactly; True if it still violates"""
    case = v["case"]
    if "history" in case:
        drv = ctx.driver("drv_c18")
        for label, lines, post, impl, _ in run_history((case["history"], case["spec"])):
            if label == case["check"]:
                return impl != expected_of(post, [drv.one(l) for l in lines])
        return False
    if "line" in case:
        return impl_line(case["line"]) != ctx.driver("drv_c18").one(case["line"])
    if case["pred"] == "bip158_vector":
        case = next(r for r in bip158_vectors() if r["height"] == case["height"])
        return not eval_pred(("bip158_vector", case))[0]
    ok, _, _ = eval_pred((case["pred"], case))
    return not ok
