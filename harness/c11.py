"""
C11 — PSBT review summary is faithful: change is only what the wallet can spend.

Correspondence between the Lean model (lean/Buidl/Model/PsbtDescribe.lean + the validate functions of
PsbtCodec.lean; driver drv_c11) and PSBT.describe_basic_multisig of buidl/psbt.py, plus the property
predicates evaluated directly on the implementation:

  honest PSBT    the summary's sums add up (fee = inputs - outputs, spend + change + fee = inputs) and
                 `is_change` labels exactly the wallet's change output
  tampered PSBT  every item of the tampering catalogue makes describe_basic_multisig raise

Honest PSBTs: random m-of-n P2SH wallets through psbt_helper.create_multisig_psbt, P2WSH and
P2SH-P2WSH wallets through PSBT.create + update; HD keys from seeds of VERIF_SEED; never the network.
"""
import io
import os
import random

from harness.common import REJECT, xb, unx, batch_parallel, pmap, MachineryError
from harness import psbt_common as PC

PROPERTY = "C11"
DRIVERS = ["drv_c11"]
ANCHORS = [
    ("buidl/psbt.py", "PSBT.describe_basic_multisig"), ("buidl/psbt.py", "PSBT._describe_basic_multisig_inputs"),
    ("buidl/psbt.py", "PSBT._describe_basic_multisig_outputs"), ("buidl/psbt.py", "PSBTIn.validate"),
    ("buidl/psbt.py", "PSBTOut.validate"), ("buidl/psbt.py", "PSBT.validate"), ("buidl/psbt.py", "PSBTIn.script_pubkey"),
    ("buidl/psbt.py", "NamedHDPublicKey.is_ancestor"), ("buidl/psbt.py", "NamedHDPublicKey.verify_descendent"),
    ("buidl/psbt_helper.py", "create_multisig_psbt"), ("buidl/psbt_helper.py", "_safe_get_child_hdpubkey"),
    ("buidl/hd.py", "ltrim_path"), ("buidl/hd.py", "is_valid_bip32_path"), ("buidl/hd.py", "HDPublicKey.traverse"),
    ("buidl/hd.py", "HDPublicKey.child"),
    ("buidl/script.py", "RedeemScript.get_quorum"), ("buidl/script.py", "RedeemScript.is_p2sh_multisig"),
    ("buidl/script.py", "WitnessScript.get_quorum"), ("buidl/script.py", "WitnessScript.is_p2wsh_multisig"),
    ("buidl/tx.py", "Tx.fee"), ("buidl/tx.py", "TxIn.value"),
]
RULE = ("honest PSBTs of random m-of-n wallets (1 <= m <= n <= 4; P2SH through create_multisig_psbt, P2WSH and "
        "P2SH-P2WSH through PSBT.create/update), 1..3 inputs, 1..3 outputs with or without change, summary requested "
        "with the PSBT's global xpubs and with a caller-supplied hdpubkey_map; for every honest PSBT every applicable "
        "item of the tampering catalogue (20 items, second change with amounts 0 / 1 / dust / large in both orders; input-side items at every input position, change first / middle / last, honest 0-sat change / spend outputs, xpubs inside the PSBT or only in the caller's map, inputs sharing one wallet address, cosigners whose xpubs sit at different depths (account paths of 1..5 components, caller's map shuffled), 2..3 spend outputs paying one address with / without another payee and change), the change output under the {scriptPubKey kind} x {RedeemScript record} x {WitnessScript record} matrix, and 13 non-template scripts with all the genuine keys (other final opcode, extra opcode, OP_m / OP_n off by one) on the change output and on every input; the summary fields or REJECT are compared with the model; a case "
        "is non-trivial always; distinct = distinct (PSBT bytes, hdpubkey_map) requests")
CLAUSES = {
    "fee = sum(inputs) - sum(outputs); spend + change + fee = sum(inputs)":
        "proved (summary_fee, summary_partition, summary_totals, summary_outputs, summary_spend_counts_outputs — spend is the sum of "
        "ALL non-change outputs and is_batch <=> more than one of them, counted per output, not per address; "
        "summary_single_change — about the NUMBER of "
        "change-labelled outputs, whatever their amounts: a second one is refused also after a 0-sat first one; "
        "input_value_is_utxo_amount ties the summed values to the UTXO records PSBT.parse read)",
    "is_change => scriptPubKey is P2SH / P2WSH / P2SH-P2WSH of the attached script by hash":
        "proved relative to hash160 / sha256 (change_commits_by_hash; hypothesis: hash160 returns 20 bytes; in the native-P2WSH case "
        "the commitment is read off the scriptPubKey and no RedeemScript record may be present); findings F11b, F11c fixed; "
        "implementation side: the {scriptPubKey kind} x {RedeemScript record} x {WitnessScript record} matrix on the change output "
        "(describe_matrix lines, predicate change_label_commits)",
    "is_change => script is m-of-n with the inputs' quorum, keys = exactly one derive of each declared cosigner at the stated path":
        "proved (change_is_plain_multisig, change_keys_perm, change_one_key_per_cosigner, change_is_wallet_multisig); "
        "findings F11a, F11e fixed (F11a_witness, F11e_witness show the defects with the repairs switched off); "
        "the threshold m is only shown equal to the inputs' threshold (the code never range-checks it); the final opcode is "
        "OP_CHECKMULTISIG itself (0xae): scripts with all the genuine keys and another final opcode / an extra opcode / OP_m, OP_n off "
        "by one are run against the model on the change output and on every input (describe_template lines, predicate "
        "template_exact; inputs need not be the plain template: observation O11c)",
    "tampering catalogue => rejected":
        "proved per item (tamper_swapped_spk, tamper_witness_script_spk, tamper_foreign_output_witness_script, "
        "tamper_foreign_output_script_p2sh_p2wsh, tamper_foreign_input_script, tamper_foreign_input_witness_script, "
        "tamper_foreign_input_script_p2sh_p2wsh, tamper_witness_utxo_on_legacy, tamper_prev_tx, tamper_utxo_amount, "
        "tamper_missing_utxo, tamper_both_scripts_input, tamper_witness_script_without_witness_utxo, tamper_redeem_on_non_p2sh, "
        "tamper_wrong_derivation_input/_output, tamper_foreign_fingerprint_input/_output, tamper_one_cosigner_change, "
        "tamper_changed_quorum, tamper_not_plain_multisig, tamper_second_change, describe_refuses_invalid_input/_output); "
        "correspondence on every item",
    "input metadata (UTXO, amount, scripts, derivations) must match the transaction":
        "proved (input_utxo_matches, input_script_commits, input_script_details, input_keys_derive, input_value_is_utxo_amount); "
        "findings F11d, F11f, F11g fixed; an altered amount of a witness-only UTXO is not detectable by design (BIP143 "
        "signatures commit to it) and is outside the catalogue",
}
TRUSTED = ["BIP32 public derivation is the abstract `derive`; the driver is given the real library's derivations",
           "hash160 / sha256 parameters; driver: Buidl.Model.Hash", "transaction codec: Buidl.Model.Tx (C04)",
           "addresses (Base58Check / Bech32 strings of the summary) are not compared (C09)"]
ASSUMPTIONS = ["Python dict preserves insertion order", "round(fee / total * 100, 2) only fails for total = 0"]

TAMPERS = ["swap_change_spk", "foreign_input_script", "foreign_output_script", "foreign_xpub", "foreign_fingerprint",
           "wrong_path_input", "wrong_path_output", "one_cosigner_change", "utxo_amount", "other_prev_tx",
           "changed_quorum", "second_change", "nonstandard_spk_with_hash", "extra_script_commands",
           "witness_utxo_on_legacy", "missing_cosigner_key", "foreign_map_xpub",
           "witness_script_without_witness_utxo", "redeem_on_native_segwit", "foreign_input_same_paths"]
# items that act on one input: applied to EVERY input position of the PSBT
INPUT_TAMPERS = {"foreign_input_script", "foreign_fingerprint", "wrong_path_input", "utxo_amount", "other_prev_tx",
                 "witness_utxo_on_legacy", "witness_script_without_witness_utxo", "redeem_on_native_segwit",
                 "foreign_input_same_paths"}
TAMPER_FINDING = {"swap_change_spk": "F11b", "one_cosigner_change": "F11a", "nonstandard_spk_with_hash": "F11c",
                  "utxo_amount": "F11d", "extra_script_commands": "F11e", "witness_utxo_on_legacy": "F11f",
                  "witness_script_without_witness_utxo": "F11g", "redeem_on_native_segwit": "F11g"}


def _setup():
    PC.no_network()


# ----------------------------------------------------------------------------------------- canonical summary
def canon(d):
    from buidl.psbt import serialize_binary_path

    ins = d["inputs_desc"]
    q = [tuple(int(x) for x in i["quorum"].split("-of-")) for i in ins]
    roots = set()
    for xfp, paths in d["root_paths"].items():
        for pth in paths:
            f = bytes.fromhex(xfp)
            roots.add(f + f + serialize_binary_path(pth))
    t = [str(d["tx_fee_sats"]), str(d["total_input_sats"]), str(d["total_output_sats"]), str(d["spend_sats"]),
         str(d["change_sats"]), "1" if d["is_batch_tx"] else "0", str(q[0][0]), str(q[0][1]), str(len(ins))]
    for (m, n), i in zip(q, ins):
        t.append(f"{m} {n} {i['sats']}")
    t.append(str(len(d["outputs_desc"])))
    for o in d["outputs_desc"]:
        t.append(f"{o['sats']} {'1' if o['is_change'] else '0'}")
    t.append(" ".join([str(len(roots))] + [xb(r) for r in sorted(roots)]))
    return " ".join(t)


def map_tokens(hmap):
    if not hmap:
        return "0"
    return " ".join([str(len(hmap))] + [f"{xb(bytes.fromhex(x))} {xb(PC.xpub_body(h))}" for x, h in hmap.items()])


def describe_real(raw, hmap):
    """(canonical answer, oracle) of parse + describe on the real code"""
    with PC.Oracle() as o:
        try:
            p = PC.reparse(raw)
            ans = canon(p.describe_basic_multisig(hdpubkey_map=hmap or {}))
        except Exception:
            ans = REJECT
    return ans, o


def request(cfg, raw, hmap, o):
    return f"describe {cfg} {PC.net_token(PC.NET)} {o.tokens()} {xb(raw)} {map_tokens(hmap)}"


# ----------------------------------------------------------------------------------------- honest PSBTs
def build_p2sh_via_helper(rng, w, n_inputs, n_spend, with_change, same_addr=False, change_at=None, zero_out=None, same_payee=0):
    """psbt_helper.create_multisig_psbt: records [xfp, xpub at the base path, base path]"""
    from buidl.psbt_helper import create_multisig_psbt
    from buidl.script import P2WPKHScriptPubKey, P2PKHScriptPubKey

    b = PC.Built()
    b.wallet = w
    records = [[w.xfps[k], w.accounts[k].xpub(), w.base_paths[k]] for k in range(w.n)]
    input_dicts, total = [], 0
    b.input_index, b.prev_txs = [], []
    for _ in range(n_inputs):
        idx = rng.randrange(0, 6)
        if same_addr and b.input_index:
            idx = b.input_index[0]
        spk, rs, ws = w.scripts(0, idx)
        amount = rng.randrange(60_000, 400_000)
        decoy = [(rng.randrange(1000, 9000), P2PKHScriptPubKey(PC.rbytes(rng, 20))) for _ in range(rng.randrange(0, 3))]
        pos = rng.randrange(0, len(decoy) + 1)
        prev = PC.funding_tx(rng, decoy[:pos] + [(amount, spk)] + decoy[pos:], segwit=rng.random() < 0.3)
        b.prev_txs.append(prev)
        b.input_index.append(idx)
        total += amount
        input_dicts.append({"quorum_m": w.m, "path_dict": {w.xfps[k]: w.root_path(0, idx, k) for k in range(w.n)},
                            "prev_tx_dict": {"hex": prev.serialize().hex(), "hash_hex": prev.hash().hex(),
                                             "output_idx": pos, "output_sats": amount}})
    fee = rng.randrange(2_000, 12_000)
    remaining = total - fee
    n_out = n_spend + (1 if with_change else 0)
    r_at = rng.randrange(0, n_out) if with_change else None
    change_at = (change_at % n_out if change_at is not None else r_at) if with_change else None
    output_dicts = []
    b.change_pos = None
    amounts = PC.split_amounts(rng, remaining, n_out, change_at, zero_out)
    payees = []
    for o in range(n_out):
        amt = amounts[o]
        if o == change_at:
            cidx = rng.randrange(0, 6)
            spk, rs, ws = w.scripts(1, cidx)
            output_dicts.append({"sats": amt, "address": spk.address(network=PC.NET), "quorum_m": w.m,
                                 "path_dict": {w.xfps[k]: w.root_path(1, cidx, k) for k in range(w.n)}})
            b.change_pos, b.change_index = o, cidx
        else:
            spk = PC.spend_spk(rng, payees, same_payee)
            output_dicts.append({"sats": amt, "address": spk.address(network=PC.NET)})
    b.psbt = create_multisig_psbt(records, input_dicts, output_dicts, fee, script_type="p2sh")
    b.total_in, b.fee = total, fee
    b.tx_obj = b.psbt.tx_obj
    return b


# ----------------------------------------------------------------------------------------- tampering
def splice_input(raw, psbt, i, new_in):
    """replace the serialisation of input map i (located by position: the input maps follow each other)"""
    sers = [pi.serialize() for pi in psbt.psbt_ins]
    start = raw.index(b"".join(sers))
    pos = start + sum(len(x) for x in sers[:i])
    assert raw[pos:pos + len(sers[i])] == sers[i]
    return raw[:pos] + new_in + raw[pos + len(sers[i]):]


def tamper(name, rng, b, raw, pos=0):
    """a tampered serialisation of the honest PSBT `b.psbt` (bytes `raw`), or None when the item does not
    apply to this wallet / PSBT.  Input-side items act on input `pos`.  Works on a re-parsed copy or on the
    bytes; never validates."""
    import io as _io
    from buidl.helper import encode_varstr
    from buidl.psbt import PSBTOut, NamedHDPublicKey, NamedPublicKey
    from buidl.script import (RedeemScript, WitnessScript, P2SHScriptPubKey, P2WSHScriptPubKey, Script)
    from buidl.tx import TxOut
    from buidl.helper import serialize_key_value as kv

    w = b.wallet
    st = w.stype
    with PC.Oracle():          # memoised library answers; the recording itself is not used here
        q = PC.reparse(raw)
    cpos = b.change_pos

    def set_out_scripts(po, spk, rs, ws):
        po.tx_out.script_pubkey = spk
        po.redeem_script = rs
        po.witness_script = ws

    def renamed(po_or_pi, k_from_sec, new_raw_path):
        nm = po_or_pi.named_pubs[k_from_sec]
        nm.add_raw_path_data(new_raw_path, network=nm.network)

    if name == "swap_change_spk":
        if cpos is None:
            return None
        spk = q.psbt_outs[cpos].tx_out.script_pubkey
        if st == "p2wsh":
            q.psbt_outs[cpos].tx_out.script_pubkey = P2WSHScriptPubKey(PC.rbytes(rng, 32))
        else:
            q.psbt_outs[cpos].tx_out.script_pubkey = P2SHScriptPubKey(PC.rbytes(rng, 20))
        return q.serialize()
    if name == "foreign_input_script":
        spk, rs, ws = w.scripts(0, (b.input_index[pos] + 1) % 6 + 10)
        pi = q.psbt_ins[pos]
        if pi.witness_script is not None:
            pi.witness_script = ws
        else:
            pi.redeem_script = rs
        return q.serialize()
    if name == "foreign_output_script":
        if cpos is None:
            return None
        spk, rs, ws = w.scripts(1, b.change_index + 20)
        po = q.psbt_outs[cpos]
        if po.witness_script is not None:
            po.witness_script = ws
        else:
            po.redeem_script = rs
        return q.serialize()
    if name == "foreign_xpub":
        if not q.hd_pubs:
            return None
        other = PC.make_wallet(rng, w.m, w.n, st)
        k = rng.randrange(0, w.n)
        for key, hd in list(q.hd_pubs.items()):
            if hd.root_fingerprint.hex() == w.xfps[k]:
                pub = other.accounts[0].pub
                repl = NamedHDPublicKey.from_hd_pub(child_hd_pub=pub, xfp_hex=w.xfps[k], path=w.base_paths[k])
                del q.hd_pubs[key]
                q.hd_pubs[repl.raw_serialize()] = repl
        return q.serialize()
    if name == "foreign_fingerprint":
        pi = q.psbt_ins[pos]
        sec = sorted(pi.named_pubs.keys())[rng.randrange(0, len(pi.named_pubs))]
        rp = pi.named_pubs[sec].raw_path
        renamed(pi, sec, PC.rbytes(rng, 4) + rp[4:])
        return q.serialize()
    if name in ("wrong_path_input", "wrong_path_output"):
        holder = q.psbt_ins[pos] if name == "wrong_path_input" else (q.psbt_outs[cpos] if cpos is not None else None)
        if holder is None:
            return None
        sec = sorted(holder.named_pubs.keys())[rng.randrange(0, len(holder.named_pubs))]
        rp = holder.named_pubs[sec].raw_path
        last = int.from_bytes(rp[-4:], "little")
        renamed(holder, sec, rp[:-4] + ((last + 1 + rng.randrange(0, 5)) % 1000).to_bytes(4, "little"))
        return q.serialize()
    if name == "one_cosigner_change":
        if cpos is None or w.n < 2:
            return None
        keys = [w.child_priv(0, 1, 100 + j).private_key.point.sec() for j in range(w.n)]
        spk, rs, ws = w.scripts(1, 0, keys=keys)
        po = q.psbt_outs[cpos]
        set_out_scripts(po, spk, rs, ws)
        po.named_pubs = {}
        for j in range(w.n):
            nm = w.named(0, 1, 100 + j)
            po.named_pubs[nm.sec()] = nm.point
        return q.serialize()
    if name == "utxo_amount":
        pi = q.psbt_ins[pos]
        prev = b.prev_txs[pos]
        real = prev.tx_outs[pi.tx_in.prev_index]
        if st == "p2sh":
            # alter the amount inside the previous transaction …
            pi.prev_tx.tx_outs[pi.tx_in.prev_index].amount = real.amount + 9_000
            alt = q.serialize()
            pi.prev_tx.tx_outs[pi.tx_in.prev_index].amount = real.amount
            # … or keep it and add a witness UTXO that lies about the amount (F11d)
            ser_in = pi.serialize()
            nw = kv(b"\x00", pi.prev_tx.serialize())
            wu = kv(b"\x01", TxOut(real.amount + 9_000, real.script_pubkey).serialize())
            both = splice_input(raw, q, pos, nw + wu + ser_in[len(nw):])
            return [alt, both]
        # witness wallets: non-witness UTXO (true) next to a witness UTXO with another amount (F11d)
        ser_in = pi.serialize()
        wu_true = kv(b"\x01", pi.prev_out.serialize())
        if not ser_in.startswith(wu_true):
            return None
        nw = kv(b"\x00", prev.serialize())
        wu = kv(b"\x01", TxOut(real.amount + 9_000, real.script_pubkey).serialize())
        return splice_input(raw, q, pos, nw + wu + ser_in[len(wu_true):])
    if name == "other_prev_tx":
        pi = q.psbt_ins[pos]
        real = b.prev_txs[pos].tx_outs[pi.tx_in.prev_index]
        other = PC.funding_tx(rng, [(o.amount, o.script_pubkey) for o in b.prev_txs[pos].tx_outs])
        if st == "p2sh":
            pi.prev_tx = other
            return q.serialize()
        ser_in = pi.serialize()
        wu_true = kv(b"\x01", pi.prev_out.serialize())
        if not ser_in.startswith(wu_true):
            return None
        return splice_input(raw, q, pos, kv(b"\x00", other.serialize()) + ser_in)
    if name == "changed_quorum":
        if cpos is None or w.n < 2:
            return None
        m2 = w.m - 1 if w.m > 1 else w.m + 1
        spk, rs, ws = w.scripts(1, b.change_index, m=m2)
        set_out_scripts(q.psbt_outs[cpos], spk, rs, ws)
        return q.serialize()
    if name == "second_change":
        if cpos is None:
            return None
        cidx = b.change_index + 30
        spk, rs, ws = w.scripts(1, cidx)
        named = {}
        for k in range(w.n):
            nm = w.named(k, 1, cidx)
            named[nm.sec()] = nm.point
        large = b.tx_obj.tx_outs[cpos].amount
        res = []
        for a_first, a_second, second_before in ((large, 1500, False), (0, 1500, False), (0, 0, False), (large, 0, False),
                                                 (0, large, True), (1, 546, False), (546, 0, True), (large, large, True), (1, 1, False)):
            with PC.Oracle():
                q2 = PC.reparse(raw)
            q2.psbt_outs[cpos].tx_out.amount = a_first if not second_before else a_second
            tx_out = TxOut(a_second if not second_before else a_first, spk)
            po = PSBTOut.__new__(PSBTOut)
            po.tx_out, po.redeem_script, po.witness_script, po.named_pubs, po.extra_map = tx_out, rs, ws, dict(named), {}
            at = cpos if second_before else len(q2.psbt_outs)
            q2.tx_obj.tx_outs.insert(at, tx_out)
            q2.psbt_outs.insert(at, po)
            res.append(q2.serialize())
        return res
    if name == "nonstandard_spk_with_hash":
        if cpos is None or st == "p2sh":
            return None
        po = q.psbt_outs[cpos]
        if st == "p2wsh":
            po.tx_out.script_pubkey = Script([0x51, po.witness_script.sha256()])
        else:
            # p2sh-p2wsh: a "redeem script" OP_1 <sha256> (anyone can spend), committed to by the p2sh hash
            rs = RedeemScript([0x51, po.witness_script.sha256()])
            po.redeem_script = rs
            po.tx_out.script_pubkey = P2SHScriptPubKey(rs.hash160())
        return q.serialize()
    if name == "extra_script_commands":
        if cpos is None:
            return None
        po = q.psbt_outs[cpos]
        ks = sorted(w.secs(1, b.change_index))
        att = sorted(w.child_priv(0, 1, 200 + j).private_key.point.sec() for j in range(w.n))
        if st == "p2sh":
            # same length, wrong `n` opcode: <m> k1 … kn OP_1 OP_CHECKMULTISIG
            if w.n == 1:
                return None
            rs = RedeemScript([80 + w.m] + ks + [81, 174])
            set_out_scripts(po, P2SHScriptPubKey(rs.hash160()), rs, None)
        else:
            ws = WitnessScript([80 + w.m] + ks + [0x6D] * ((w.n + 2) // 2) + [80 + w.m] + att + [80 + w.n, 174])
            if st == "p2wsh":
                set_out_scripts(po, P2WSHScriptPubKey(ws.sha256()), None, ws)
            else:
                rs = RedeemScript([0, ws.sha256()])
                set_out_scripts(po, P2SHScriptPubKey(rs.hash160()), rs, ws)
        return q.serialize()
    if name == "witness_utxo_on_legacy":
        if st != "p2sh" or w.n < 2:
            return None
        pi = q.psbt_ins[pos]
        real = pi.prev_tx.tx_outs[pi.tx_in.prev_index]
        ser_in = pi.serialize()
        nw = kv(b"\x00", pi.prev_tx.serialize())
        m2 = w.m - 1 if w.m > 1 else w.m + 1
        foreign = RedeemScript([80 + m2] + pi.redeem_script.commands[1:])
        rs_old = kv(b"\x04", pi.redeem_script.raw_serialize())
        rs_new = kv(b"\x04", foreign.raw_serialize())
        body = ser_in[len(nw):]
        if rs_old not in body:
            return None
        return splice_input(raw, q, pos, kv(b"\x01", TxOut(real.amount, real.script_pubkey).serialize()) + body.replace(rs_old, rs_new))
    if name in ("witness_script_without_witness_utxo", "redeem_on_native_segwit"):
        # F11g: a p2wsh input whose multisig script PSBTIn.validate never compared with the ScriptPubKey
        if st != "p2wsh" or w.n < 2:
            return None
        pi = q.psbt_ins[pos]
        ser_in = pi.serialize()
        wu = kv(b"\x01", pi.prev_out.serialize())
        ws_old = kv(b"\x05", pi.witness_script.raw_serialize())
        if not ser_in.startswith(wu) or ws_old not in ser_in:
            return None
        m2 = w.m - 1 if w.m > 1 else w.m + 1
        foreign = [80 + m2] + pi.witness_script.commands[1:]
        if name == "witness_script_without_witness_utxo":
            # only the non-witness UTXO, and a WitnessScript with another threshold
            body = ser_in[len(wu):].replace(ws_old, kv(b"\x05", WitnessScript(foreign).raw_serialize()))
            return splice_input(raw, q, pos, kv(b"\x00", b.prev_txs[pos].serialize()) + body)
        # the witness UTXO stays; the script travels as a RedeemScript
        return splice_input(raw, q, pos, ser_in.replace(ws_old, kv(b"\x04", RedeemScript(foreign).raw_serialize())))
    if name == "foreign_input_same_paths":
        # input `pos` spends a UTXO locked to a FOREIGN script of the same shape; the script and UTXO attached are
        # consistent with each other, the derivation records name the foreign keys but carry the fingerprints and
        # exact paths of a genuine input (an earlier one when there is one)
        other = PC.make_wallet(rng, w.m, w.n, st)
        spk2, rs2, ws2 = other.scripts(0, b.input_index[pos])
        pi = q.psbt_ins[pos]
        src = q.psbt_ins[pos - 1] if pos > 0 else pi
        amount = pi.tx_in._value
        prev2 = PC.funding_tx(rng, [(amount, spk2)])
        genuine = sorted((np_.raw_path for np_ in src.named_pubs.values()))
        foreign_secs = sorted(other.secs(0, b.input_index[pos]))
        pi.tx_in.prev_tx, pi.tx_in.prev_index = prev2.hash(), 0
        pi.tx_in._script_pubkey = spk2
        if pi.prev_tx is not None:
            pi.prev_tx = prev2
        if pi.prev_out is not None:
            pi.prev_out = prev2.tx_outs[0]
        if pi.redeem_script is not None:
            pi.redeem_script = rs2
        if pi.witness_script is not None:
            pi.witness_script = ws2
        pi.named_pubs = {}
        for sec, rp in zip(foreign_secs, genuine):
            pi.named_pubs[sec] = NamedPublicKey.parse(b"\x06" + sec, _io.BytesIO(encode_varstr(rp)), network=PC.NET)
        return q.serialize()
    if name == "missing_cosigner_key":
        if cpos is None or w.n < 2:
            return None
        po = q.psbt_outs[cpos]
        sec = sorted(po.named_pubs.keys())[0]
        del po.named_pubs[sec]
        return q.serialize()
    return None


TEMPLATE_VARIANTS = ("last_checkmultisigverify", "last_checksig", "last_checksigverify", "last_nop", "last_undefined",
                     "prepend_nop", "prepend_op_m", "append_nop", "append_checkmultisig", "m_plus_one", "m_minus_one",
                     "n_plus_one", "n_minus_one", "exact")


def template_variants(rng, b, raw, side, pos):
    """scripts that keep ALL the genuine keys (and, unless the variant says otherwise, the quorum numbers) of the
    change output (`side` = "out") or of input `pos` (`side` = "in") but are not the plain multisig template
    `OP_m <keys> OP_n OP_CHECKMULTISIG`: another final opcode, an opcode before / after, OP_m / OP_n off by one.
    The scriptPubKey (output) / the spent UTXO (input) commits to the variant script and the derivation records stay
    the wallet's, so nothing but the template test can refuse them.  Yields (label, bytes, ok) with `ok` = may be
    summarised: for an output only the literal template with the wallet's m and as many keys as OP_n says."""
    from buidl.script import RedeemScript, WitnessScript, P2SHScriptPubKey, P2WSHScriptPubKey

    w, st = b.wallet, b.wallet.stype
    if st not in ("p2sh", "p2wsh") or (side == "out" and b.change_pos is None):
        return
    with PC.Oracle():
        q0 = PC.reparse(raw)
    holder0 = q0.psbt_outs[b.change_pos] if side == "out" else q0.psbt_ins[pos]
    cmds = list((holder0.witness_script or holder0.redeem_script).commands)
    m_op, keys, n_op = cmds[0], cmds[1:-2], cmds[-2]
    body = [m_op] + keys + [n_op]
    table = {"last_checkmultisigverify": body + [175], "last_checksig": body + [172], "last_checksigverify": body + [173],
             "last_nop": body + [97], "last_undefined": body + [0xFE], "prepend_nop": [97] + body + [174],
             "prepend_op_m": [m_op] + body + [174], "append_nop": body + [174, 97], "append_checkmultisig": body + [174, 174],
             "m_plus_one": [m_op + 1] + keys + [n_op, 174], "m_minus_one": [m_op - 1] + keys + [n_op, 174],
             "n_plus_one": [m_op] + keys + [n_op + 1, 174], "n_minus_one": [m_op] + keys + [n_op - 1, 174],
             "exact": body + [174]}
    for label in TEMPLATE_VARIANTS:
        v = table[label]
        if side == "out" and label == "exact":
            continue
        if any(isinstance(c, int) and not 0 <= c <= 255 for c in v):
            continue
        with PC.Oracle():
            q = PC.reparse(raw)
        if st == "p2wsh":
            sc = WitnessScript(v)
            spk = P2WSHScriptPubKey(sc.sha256())
        else:
            sc = RedeemScript(v)
            spk = P2SHScriptPubKey(sc.hash160())
        if side == "out":
            po = q.psbt_outs[b.change_pos]
            po.tx_out.script_pubkey = spk
            if st == "p2wsh":
                po.witness_script = sc
            else:
                po.redeem_script = sc
        else:
            pi = q.psbt_ins[pos]
            prev2 = PC.funding_tx(rng, [(pi.tx_in._value, spk)])
            pi.tx_in.prev_tx, pi.tx_in.prev_index = prev2.hash(), 0
            pi.tx_in._script_pubkey = spk
            if pi.prev_tx is not None:
                pi.prev_tx = prev2
            if pi.prev_out is not None:
                pi.prev_out = prev2.tx_outs[0]
            if st == "p2wsh":
                pi.witness_script = sc
            else:
                pi.redeem_script = sc
        if side == "out":
            ok = (v[-1] == 174 and len(v) == len(keys) + 3 and v[-2] == 80 + len(keys) and v[0] == 80 + w.m and v[1:-2] == keys)
        else:
            # inputs (observation O11c): describe_basic_multisig reads m and n off an input script without requiring
            # the plain template (a P2SH input `m <keys> OP_(n+-1) OP_CHECKMULTISIG`, a P2WSH input
            # `OP_m OP_m <keys> OP_n OP_CHECKMULTISIG` are summarised as m-of-n; nothing is labelled change by it, and the
            # model says the same); what must hold is the final opcode and numbers where m and n are read
            # (a P2SH input's n is the number of keys: OP_n is not read at all)
            # and its m goes through op_code_to_number, which also takes OP_0 / OP_1NEGATE / 0x50 (summarised as 0-of-n)
            if st == "p2sh":
                ok = v[-1] == 174 and isinstance(v[0], int) and (v[0] == 0 or 79 <= v[0] <= 96)
            else:
                ok = (v[-1] == 174 and isinstance(v[0], int) and 81 <= v[0] <= 96 and isinstance(v[-2], int) and 81 <= v[-2] <= 96)
        yield label, q.serialize(), ok


def script_matrix(rng, b, raw, full):
    """the change output under every combination of {scriptPubKey kind} x {RedeemScript record} x {WitnessScript
    record}; S = the wallet's change script, A = an attacker's script of the same shape, N_X = the nested witness
    program `0 <sha256 X>`.  The derivation records stay the wallet's.  Yields (label, bytes, commits) where
    `commits` says whether the scriptPubKey ITSELF commits by hash to the wallet's script S through the attached
    records — the only situation in which the output may be labelled change."""
    from buidl.script import (RedeemScript, WitnessScript, P2SHScriptPubKey, P2WSHScriptPubKey, Script)

    w, cpos = b.wallet, b.change_pos
    if cpos is None:
        return
    ks = sorted(w.secs(1, b.change_index))
    other = PC.make_wallet(rng, w.m, w.n, w.stype)
    ka = sorted(other.secs(1, b.change_index))
    cS = [80 + w.m] + ks + [80 + w.n, 174]
    cA = [80 + w.m] + ka + [80 + w.n, 174]
    wsS, wsA = WitnessScript(cS), WitnessScript(cA)
    nS, nA = RedeemScript([0, wsS.sha256()]), RedeemScript([0, wsA.sha256()])
    rS, rA = RedeemScript(cS), RedeemScript(cA)
    spks = {"P2WSH(S)": P2WSHScriptPubKey(wsS.sha256()), "P2WSH(A)": P2WSHScriptPubKey(wsA.sha256()),
            "P2SH(N_S)": P2SHScriptPubKey(nS.hash160()), "P2SH(N_A)": P2SHScriptPubKey(nA.hash160()),
            "V1(S)": Script([0x51, wsS.sha256()]), "P2SH(S)": P2SHScriptPubKey(rS.hash160()), "P2SH(A)": P2SHScriptPubKey(rA.hash160())}
    reds = {"-": None, "N_S": nS, "N_A": nA, "S": rS, "A": rA}
    wits = {"S": wsS, "A": wsA, "-": None}

    def commits(spk, rs, ws):
        if ws is not None:
            if ws.raw_serialize() != wsS.raw_serialize():
                return False
            if spk.is_p2wsh():      # a native program commits by itself (a stray RedeemScript record is the model's business)
                return spk.commands[1] == ws.sha256()
            if rs is None:
                return False
            return (spk.is_p2sh() and spk.commands[1] == rs.hash160() and rs.is_p2wsh() and rs.commands[1] == ws.sha256())
        if rs is not None:
            return rs.raw_serialize() == rS.raw_serialize() and spk.is_p2sh() and spk.commands[1] == rs.hash160()
        return False

    combos = [(a, r, x) for a in spks for r in reds for x in wits]
    must = [("P2WSH(A)", "N_S", "S"), ("P2WSH(A)", "-", "S"), ("P2WSH(S)", "N_S", "S"), ("P2SH(N_A)", "N_S", "S"),
            ("P2SH(N_S)", "N_S", "S"), ("P2SH(A)", "S", "-"), ("P2SH(S)", "S", "-"), ("V1(S)", "-", "S"), ("P2WSH(S)", "-", "S"),
            ("P2SH(N_S)", "-", "S"), ("P2WSH(S)", "N_A", "S"), ("P2SH(S)", "S", "S")]
    if not full:
        rest = [c for c in combos if c not in must]
        rng.shuffle(rest)
        combos = must + rest[:10]
    with PC.Oracle():
        base = PC.reparse(raw)
    for a, r, x in combos:
        with PC.Oracle():
            q = PC.reparse(raw)
        po = q.psbt_outs[cpos]
        po.tx_out.script_pubkey, po.redeem_script, po.witness_script = spks[a], reds[r], wits[x]
        t = q.serialize()
        if t == raw:
            continue
        yield f"spk={a} redeem={r} witness={x}", t, commits(spks[a], reds[r], wits[x])


# ----------------------------------------------------------------------------------------- one PSBT
def psbt_job(spec):
    """one honest PSBT and its tamperings.  A library exception while the HONEST PSBT is built / serialised is a failed
    predicate (`honest_psbt_builds`), not a harness malfunction; exceptions of harness code propagate (exit 2)."""
    import traceback

    lines, preds = [], []
    try:
        return _psbt_job(spec, lines, preds)
    except Exception as e:
        tb = traceback.extract_tb(e.__traceback__)
        if not tb or os.sep + "buidl" + os.sep not in tb[-1].filename:
            raise
        preds.append(("honest_psbt_builds", {"spec": spec, "pred": "honest_psbt_builds"}, False,
                      f"{type(e).__name__}: {e} (raised in {os.path.basename(tb[-1].filename)}:{tb[-1].name})"[:240],
                      "the honest PSBT is built and its tamperings are evaluated"))
        return {"lines": lines, "preds": preds, "stats": {"stype": spec["stype"], "m": spec["m"], "n": spec["n"], "helper": False,
                                                          "inputs": spec["n_inputs"], "in_psbt": spec.get("xpubs_in_psbt", True),
                                                          "same_addr": bool(spec.get("same_addr"))}}


def _psbt_job(spec, lines, preds):
    _setup()
    rng = random.Random(spec["seed"])
    w = PC.make_wallet(rng, spec["m"], spec["n"], spec["stype"], mixed_depth=bool(spec.get("mixed_depth")))
    case0 = {"spec": spec}
    in_psbt = spec.get("xpubs_in_psbt", True)
    if spec["stype"] == "p2sh" and spec["via_helper"]:
        b = build_p2sh_via_helper(rng, w, spec["n_inputs"], spec["n_spend"], spec["change"],
                                  same_addr=spec.get("same_addr", False), change_at=spec.get("change_at"),
                                  zero_out=spec.get("zero_out"), same_payee=spec.get("same_payee", 0))
        if not in_psbt:
            b.psbt.hd_pubs = {}          # a "slimmed down" PSBT: the caller has to supply the xpubs
    else:
        b = PC.build_psbt(rng, w, n_inputs=spec["n_inputs"], n_spend=spec["n_spend"], with_change=spec["change"],
                          global_xpubs=in_psbt, unknowns=spec["unknowns"], same_addr=spec.get("same_addr", False),
                          change_at=spec.get("change_at"), zero_out=spec.get("zero_out"), same_payee=spec.get("same_payee", 0))
    raw = b.psbt.serialize()
    # the two ways of giving describe_basic_multisig the cosigners' xpubs
    styles = ([("global xpubs", None)] if in_psbt else []) + [("caller map", w.hdpubkey_map())]
    if not in_psbt:
        ans, o = describe_real(raw, None)
        lines.append(("describe_honest", dict(case0, map="no xpubs at all"), request("fixed", raw, None, o), ans))
        preds.append(("no_xpubs_refused", dict(case0, pred="no_xpubs_refused"), ans == REJECT, ans[:80], REJECT))
    for label, hmap in styles:
        ans, o = describe_real(raw, hmap)
        lines.append(("describe_honest", dict(case0, map=label), request("fixed", raw, hmap, o), ans))
        if spec["stype"] == "p2sh-p2wsh":
            # describe_basic_multisig does not support p2sh-wrapped p2wsh (an input with both scripts is
            # refused by design); kept as correspondence: both sides must refuse
            preds.append(("p2sh_p2wsh_unsupported", dict(case0, pred="p2sh_p2wsh_unsupported", map=label), ans == REJECT, ans[:80], REJECT))
            continue
        if ans == REJECT:
            preds.append(("honest_described", dict(case0, pred="honest_described", map=label), False, REJECT, "a summary"))
            continue
        preds.append(("honest_described", dict(case0, pred="honest_described", map=label), True, "summary", "a summary"))
        t = ans.split(" ")
        fee, tin, tout, spend, change = (int(x) for x in t[:5])
        outs = b.tx_obj.tx_outs
        want_change = [1 if i == b.change_pos else 0 for i in range(len(outs))]
        nin = int(t[8])
        off = 9 + 3 * nin
        nout = int(t[off])
        got_change = [int(t[off + 2 + 2 * k]) for k in range(nout)]
        sums_ok = (tin == b.total_in and tout == sum(o.amount for o in outs) and fee == b.total_in - tout
                   and spend + change + fee == tin and fee == b.fee)
        preds.append(("honest_sums_add_up", dict(case0, pred="honest_sums_add_up", map=label), sums_ok,
                      [fee, tin, tout, spend, change], [b.fee, b.total_in, sum(o.amount for o in outs)]))
        preds.append(("honest_change_labels_exact", dict(case0, pred="honest_change_labels_exact", map=label),
                      got_change == want_change, got_change, want_change))
        # what is spent is counted per OUTPUT, not per address: several outputs may pay one address
        spends = [o.amount for i, o in enumerate(outs) if i != b.change_pos]
        want_tot = [sum(spends), 0 if b.change_pos is None else outs[b.change_pos].amount, 1 if len(spends) > 1 else 0]
        preds.append(("honest_spend_totals", dict(case0, pred="honest_spend_totals", map=label),
                      [spend, change, int(t[5])] == want_tot and spend + change == tout, [spend, change, int(t[5])], want_tot))
    # tampering catalogue: input-side items at EVERY input position, output-side items on the change output
    # (whose position the spec moves through first / middle / last), each with every applicable xpub style
    for name in TAMPERS:
        positions = list(range(spec["n_inputs"])) if name in INPUT_TAMPERS else [0]
        for pos in positions:
            trng = random.Random(f"{spec['seed']}:{name}:{pos}")
            if name == "foreign_map_xpub":
                other = PC.make_wallet(trng, w.m, w.n, w.stype)
                hmap = w.hdpubkey_map()
                k = trng.randrange(0, w.n)
                hmap[w.xfps[k]] = other.hdpubkey_map()[other.xfps[0]]
                variants = [(raw, hmap)]
            else:
                try:
                    t = tamper(name, trng, b, raw, pos)
                except Exception:
                    import traceback
                    raise RuntimeError(f"tamper {name}@{pos} failed on {spec}: {traceback.format_exc()[-600:]}")
                if t is None:
                    continue
                variants = []
                for tr in (t if isinstance(t, list) else [t]):
                    if tr == raw:
                        continue
                    for label, hmap in styles:
                        if name == "foreign_xpub" and hmap is not None:
                            continue        # a caller-supplied map overrides the PSBT's own xpubs
                        variants.append((tr, hmap))
            for vi, (traw, hmap) in enumerate(variants):
                ans, o = describe_real(traw, hmap)
                c = dict(case0, tamper=name, pos=pos, variant=vi, style="caller map" if hmap else "global xpubs")
                lines.append(("describe_tampered", c, request("fixed", traw, hmap, o), ans))
                preds.append(("tampered_rejected", dict(c, pred="tampered_rejected"), ans == REJECT, ans[:160], REJECT))
    # the same tampering on the LIVE object: parse, validate and summarise the honest PSBT once, swap the change
    # output's scriptPubKey in place (no serialise / re-parse in between), summarise again — the second summary
    # must be refused (a validation result remembered from before the edit would label the attacker's output change)
    if b.change_pos is not None:
        from buidl.script import P2WSHScriptPubKey, P2SHScriptPubKey
        lrng = random.Random(f"{spec['seed']}:live")
        for label, hmap in styles[:2]:
            with PC.Oracle():
                try:
                    lp = PC.reparse(raw)
                    lp.validate()
                    lp.describe_basic_multisig(hdpubkey_map=hmap or {})
                    old_spk = lp.psbt_outs[b.change_pos].tx_out.script_pubkey
                    new_spk = P2WSHScriptPubKey(PC.rbytes(lrng, 32)) if len(old_spk.raw_serialize()) == 34 \
                        else P2SHScriptPubKey(PC.rbytes(lrng, 20))
                    lp.tx_obj.tx_outs[b.change_pos].script_pubkey = new_spk
                    try:
                        d2 = lp.describe_basic_multisig(hdpubkey_map=hmap or {})
                        lab = d2["outputs_desc"][b.change_pos]["is_change"]
                        ans = "summarised, swapped output labelled change" if lab else "summarised, not change"
                    except Exception:
                        ans = REJECT
                except Exception as e:
                    ans = None          # the honest PSBT itself is refused: covered by the honest stream
            if ans is not None:
                c = dict(case0, tamper="swap_change_spk_live_object", pos=0, variant=0, style=label)
                preds.append(("tampered_rejected", dict(c, pred="tampered_rejected"), ans == REJECT, ans, REJECT))

    # the change output under every {scriptPubKey} x {RedeemScript record} x {WitnessScript record} combination: the
    # verdict is the model's; independently, a change label requires the scriptPubKey itself to commit to the script
    if b.change_pos is not None and spec["stype"] != "p2sh-p2wsh":
        mrng = random.Random(f"{spec['seed']}:matrix")
        for vi, (label, traw, commit_ok) in enumerate(script_matrix(mrng, b, raw, spec.get("full_matrix", False))):
            slabel, hmap = styles[vi % len(styles)]
            ans, o = describe_real(traw, hmap)
            c = dict(case0, tamper="output_script_matrix", pos=b.change_pos, combo=label, style=slabel)
            lines.append(("describe_matrix", c, request("fixed", traw, hmap, o), ans))
            labelled = False
            if ans != REJECT:
                t = ans.split(" ")
                off = 9 + 3 * int(t[8])
                labelled = t[off + 2 + 2 * b.change_pos] == "1"
            preds.append(("change_label_commits", dict(c, pred="change_label_commits"), (not labelled) or commit_ok,
                          "labelled change" if labelled else "not labelled", "labelled only if the scriptPubKey commits to the wallet's script"))
    # scripts with all the genuine keys that are not the plain multisig template, on the change output and on every
    # input: the verdict is the model's; independently, such a PSBT is summarised only if the script is the template
    if spec["stype"] in ("p2sh", "p2wsh"):
        trng = random.Random(f"{spec['seed']}:template")
        sides = ([("out", b.change_pos)] if b.change_pos is not None else []) + [("in", k) for k in range(len(b.psbt.psbt_ins))]
        for si, (side, pos) in enumerate(sides):
            for vi, (label, traw, exact) in enumerate(template_variants(trng, b, raw, side, pos)):
                slabel, hmap = styles[(vi + si) % len(styles)]
                ans, o = describe_real(traw, hmap)
                c = dict(case0, tamper="template_" + side, pos=pos, combo=label, style=slabel)
                lines.append(("describe_template", c, request("fixed", traw, hmap, o), ans))
                preds.append(("template_exact", dict(c, pred="template_exact"), ans == REJECT or exact,
                              "summarised" if ans != REJECT else REJECT,
                              "summarised only if the script is the multisig template (see PREDICATE_DOC)"))
    return {"lines": lines, "preds": preds, "stats": {"stype": spec["stype"], "m": spec["m"], "n": spec["n"],
                                                      "helper": bool(spec["stype"] == "p2sh" and spec["via_helper"]),
                                                      "inputs": spec["n_inputs"], "in_psbt": in_psbt,
                                                      "same_addr": bool(spec.get("same_addr"))}}


# ----------------------------------------------------------------------------------------- findings
def finding_witnesses():
    """fixed witnesses of F11a–F11f replayed on every run: (id, reproduces, witness)"""
    _setup()
    res = []
    # (finding, tampering, wallet type, with a change output).  F11d only shows on witness inputs (on a bare-P2SH input
    # the witness UTXO is already refused by F11f); F11f / F11g replace the input's script by one with another
    # threshold, which an honest change output would contradict, so their witnesses spend without change.
    for fid, name, st, chg in (("F11a", "one_cosigner_change", "p2sh", True), ("F11b", "swap_change_spk", "p2sh", True),
                               ("F11c", "nonstandard_spk_with_hash", "p2wsh", True), ("F11d", "utxo_amount", "p2wsh", True),
                               ("F11e", "extra_script_commands", "p2wsh", True), ("F11f", "witness_utxo_on_legacy", "p2sh", False),
                               ("F11g", "witness_script_without_witness_utxo", "p2wsh", False),
                               ("F11g", "redeem_on_native_segwit", "p2wsh", False)):
        rng = random.Random(f"C11-finding-{fid}-{name}")
        w = PC.make_wallet(rng, 2, 3, st)
        b = PC.build_psbt(rng, w, n_inputs=1, n_spend=1, with_change=chg, global_xpubs=True)
        raw = b.psbt.serialize()
        t = tamper(name, rng, b, raw)
        ts = t if isinstance(t, list) else [t]
        rep = None
        for tr in ts:
            if tr is None:
                continue
            ans, _ = describe_real(tr, None)
            if ans != REJECT:
                rep = ans
        res.append((fid, rep is not None, None if rep is None else {"tamper": name, "wallet": f"2-of-3 {st}", "summary": rep[:200]}))
    return res


# ----------------------------------------------------------------------------------------- generation
def psbt_specs(ctx):
    rng = ctx.rng
    specs = []
    combos = [(st, m, n) for st in ("p2sh", "p2wsh") for n in range(1, 5) for m in range(1, n + 1)]
    extra = [("p2sh-p2wsh", 2, 3), ("p2sh-p2wsh", 1, 2)]
    total = int(os.environ.get("VERIF_C11_PSBTS", "0")) or ctx.n(72, 1200)   # env knob: debugging only
    for k in range(total):
        if k < len(combos):
            st, m, n = combos[k]
        elif k < len(combos) + len(extra):
            st, m, n = extra[k - len(combos)]
        else:
            st, m, n = rng.choice(combos)
        n_inputs = 1 + (k % 3)
        specs.append({"seed": f"C11:{ctx.seed}:psbt:{k}", "m": m, "n": n, "stype": st, "n_inputs": n_inputs,
                      "n_spend": 1 + (k // 3) % 2, "change": k % 5 != 4, "unknowns": rng.random() < 0.3,
                      "via_helper": rng.random() < 0.7,
                      # xpubs inside the PSBT (both call styles possible) or only handed in by the caller
                      "xpubs_in_psbt": k % 2 == 0,
                      # several inputs spending UTXOs of ONE wallet address (same script, same derivation paths)
                      "same_addr": n_inputs > 1 and (k // 2) % 2 == 0,
                      # the change output first / middle / last
                      "change_at": k % 3,
                      # an honest output of exactly 0 sats: the change output, or a spend output
                      "zero_out": {1: "change", 4: "spend"}.get(k % 7),
                      # the whole {scriptPubKey} x {RedeemScript record} x {WitnessScript record} matrix on the change output
                      # (otherwise a sample of it)
                      "full_matrix": bool(ctx.thorough) or k % 6 == 0,
                      # every cosigner exported his xpub at his own account path (depths 1..5), caller's map shuffled
                      "mixed_depth": n >= 2 and k % 4 == 1,
                      # the first 2..3 spend outputs pay ONE address (n_spend raised accordingly)
                      # k % 10 = 3: two to one address; 7: three plus a distinct payee; 8: two plus a distinct payee; 9: 2 or 3, no change
                      "same_payee": {3: 2, 7: 3, 8: 2, 9: 3 if k % 20 == 9 else 2}.get(k % 10, 0)})
        sp = specs[-1]
        if sp["same_payee"]:
            sp["n_spend"] = sp["same_payee"] + (1 if k % 10 in (7, 8) else 0)
    return specs


def _job(j):
    kind, arg = j
    try:
        if kind == "psbt":
            return kind, arg, psbt_job(arg)
        return kind, arg, {"lines": [], "preds": [], "findings": finding_witnesses()}
    except Exception:
        import traceback
        return kind, arg, {"error": traceback.format_exc()[-1500:]}


def run(ctx):
    rec = ctx.rec
    drv = ctx.driver("drv_c11")
    specs = psbt_specs(ctx)
    jobs = [("findings", None)] + [("psbt", s) for s in specs]
    # line-coverage sample (replayed in-process by ./check): a helper-built P2SH PSBT and a P2WSH one, small
    for want_helper in (True, False):
        for s0 in sorted(specs, key=lambda s: s["n"] * s["n_inputs"]):
            if (s0["stype"] == "p2sh" and s0["via_helper"]) == want_helper and s0["n"] >= 2 and s0["stype"] != "p2sh-p2wsh":
                rec.cov_pred("psbt_summary", {"spec": s0})
                break
    jobs.sort(key=lambda j: -(j[1]["n"] * j[1]["n_inputs"] if j[0] == "psbt" else 99))
    outs = pmap(_job, jobs, workers=ctx.workers, chunksize=1)
    all_lines = []
    for kind, arg, res in outs:
        if "error" in res:
            raise MachineryError(f"C11 harness job {kind} failed:\n{res['error']}")
        for fid, reproduces, witness in res.get("findings", []):
            rec.finding(fid, reproduces, witness)
        all_lines += res["lines"]
        for pk, case, ok, got, want in res["preds"]:
            if ok:
                rec.ok(pk, repr(case)[:400])
                rec.sample(pk, case, limit=1)
                if pk == "template_exact":
                    rec.count(f"template:{case['tamper']}:{case['combo']}:{got}")
                if pk == "change_label_commits":
                    rec.count("matrix:" + got + ":" + case["combo"].split(" ")[0])
                if pk == "tampered_rejected":
                    rec.count("tamper:" + case["tamper"])
                    rec.count(f"tamper-position:{case['pos']}:{case['style']}")
            else:
                rec.violation(pk, case, got, want, finding=TAMPER_FINDING.get(case.get("tamper")))
        if kind == "psbt":
            s = res["stats"]
            rec.count(f"psbt:{s['stype']}:{s['m']}of{s['n']}" + (":helper" if s["helper"] else ""))
            rec.count(f"shape:{s['inputs']}in:" + ("xpubs-in-psbt" if s["in_psbt"] else "caller-map-only") + (":same-address" if s["same_addr"] else ""))
    answers = batch_parallel(drv, [l[2] for l in all_lines], workers=ctx.workers)
    for (kind, case, line, impl), model in zip(all_lines, answers):
        c = dict(case, line=line if len(line) < 60000 else line[:60000])
        if rec.compare(kind, c, impl, model, determined=True, key=line[-300:], nontrivial=True,
                       finding=TAMPER_FINDING.get(case.get("tamper"))):
            rec.sample(kind, {"request": line[:160] + " …", "answer": model[:200]}, limit=1)
        if impl == REJECT:
            rec.count(kind + ":reject")


def impl_line(line):
    """evaluate a describe request on the real code (the hdpubkey_map is rebuilt from the 74-byte bodies)"""
    from buidl.hd import HDPublicKey
    from buidl.helper import encode_base58_checksum

    _setup()
    t = line.split(" ")
    if t[0] != "describe":
        raise KeyError(t[0])
    # the map is the tail: n (xfp body)*; the PSBT is the token before it
    k = len(t) - 1
    while k > 0 and not (t[k].isdigit() and len(t) - 1 - k == 2 * int(t[k])):
        k -= 1
    n = int(t[k])
    hmap = {}
    for j in range(n):
        xfp, body = unx(t[k + 1 + 2 * j]), unx(t[k + 2 + 2 * j])
        hmap[xfp.hex()] = HDPublicKey.parse(encode_base58_checksum(bytes.fromhex("043587cf") + body))
    ans, _ = describe_real(unx(t[k - 1]), hmap)
    return ans


def replay(ctx, v):
    case = v["case"]
    if v["kind"].startswith("regression:"):
        # a finding recorded as fixed: its witness is re-executed on the working tree
        fid = v["kind"].split(":", 1)[1]
        ws = finding_witnesses()
        return any(f == fid and reproduces for f, reproduces, _ in ws)
    spec = case.get("spec")
    if spec is None:
        return False
    res = psbt_job(spec)
    for pk, c, ok, got, want in res["preds"]:
        if (pk == v["kind"] and not ok and c.get("tamper") == case.get("tamper") and c.get("pos") == case.get("pos")
                and c.get("combo") == case.get("combo")):
            return True
    lines = [l for l in res["lines"] if l[0] == v["kind"] and l[1].get("tamper") == case.get("tamper")
             and l[1].get("pos") == case.get("pos") and l[1].get("combo") == case.get("combo")]
    if lines:
        answers = ctx.driver("drv_c11").batch([l[2] for l in lines])
        for (k, c, line, impl), model in zip(lines, answers):
            if impl != model:
                return True
    return False


PREDICATE_DOC = {
    "honest_psbt_builds": "no library exception escapes while an honest PSBT is built through the API",
    "honest_described": "an honest P2SH / P2WSH PSBT is summarised (no exception)",
    "p2sh_p2wsh_unsupported": "P2SH-P2WSH inputs are refused altogether (documented limitation), also by the model",
    "honest_sums_add_up": "fee = inputs - outputs = the fee the wallet intended; spend + change + fee = inputs",
    "honest_spend_totals": "spend_sats = the sum of ALL non-change outputs (also when several pay one address), change_sats = the change output's amount, spend + change = total output, is_batch_tx <=> more than one non-change output",
    "honest_change_labels_exact": "is_change is true for the wallet's change output and for no other output",
    "no_xpubs_refused": "without global xpubs and without hdpubkey_map the summary is refused",
    "change_label_commits": "under every {scriptPubKey kind} x {RedeemScript record} x {WitnessScript record} combination on the change output, it is labelled change only if the scriptPubKey itself commits by hash (P2WSH, P2SH, P2SH-P2WSH) to the wallet's script through the attached records",
    "template_exact": "a change output whose script keeps all the genuine keys but is not literally OP_m <keys> OP_n OP_CHECKMULTISIG (other final opcode such as CHECKMULTISIGVERIFY / CHECKSIG / NOP / undefined, an opcode before or after, OP_m or OP_n off by one), committed to by the scriptPubKey, is never summarised; the same scripts on an input (the spent UTXO commits to them) are summarised only when the final opcode is OP_CHECKMULTISIG and OP_m / OP_n are numbers (observation O11c: the plain template is not required of inputs)",
    "tampered_rejected": "every applicable item of the tampering catalogue makes describe_basic_multisig raise",
}


def p_psbt_summary(case):
    """one honest PSBT (create_multisig_psbt or create + update), both xpub styles, the whole tampering catalogue"""
    res = psbt_job(case["spec"])
    bad = [(k, c.get("tamper"), c.get("pos"), got) for k, c, ok, got, want in res["preds"] if not ok]
    return not bad, bad[:5], []


PREDICATES = {"psbt_summary": p_psbt_summary}


def eval_pred(kind, case):
    try:
        return PREDICATES[kind](case)
    except Exception as e:
        return False, "raised " + type(e).__name__, "no exception"
