"""
C07 — the script interpreter agrees with consensus on its supported opcode set.

Correspondence between the Lean model (lean/Buidl/Model/Interp.lean, driver drv_c07) and
buidl/op.py + buidl/script.py Script.evaluate + buidl/timelock.py, and the property itself with the
Lean transcription of Bitcoin Core's EvalScript (lean/Buidl/Spec/Consensus.lean) as the oracle.

Streams (DESIGN section 7, C07):
  codec     encode_num / decode_num against the model and against CScriptNum (spec_ser / spec_num),
            round trip and minimality evaluated on the implementation
  op        single-opcode conformance: every table entry on stacks of depth <= 7 over a small data
            alphabet (exhaustive to depth 3, thorough: 4) plus numeric boundary operands; both dispatch
            tables for the model, the legacy table against the spec
  timelock  the CLTV / CSV boundary product (locktime x sequence x version x operand), every case also inside a
            transaction of 2-3 inputs with the evaluated input at every index and the OTHER inputs' sequences drawn
            independently (final / non-final / relative-locked): request prefix `ctx <inputs> <index> <other sequences>`
            (implementation side only: the model and the specification see the spent input's sequence, which is all
            CheckLockTime / CheckSequence may depend on); a share of the single-opcode cases and of the programs too
  prog      random programs of <= 40 operations from a grammar with balanced conditionals
  reuse     object-reuse histories: every third generated program (and all P2SH / witness-program shapes) is
            evaluated two or three times on ONE Script object and ONE Tx; every outcome is compared with the
            specification (inside the property's scope) or the model, and after every evaluation the direct
            predicate "evaluation does not modify its arguments" is checked: `script.commands`, the Tx serialisation,
            the input's scriptSig commands and witness items are what they were before
A disagreement with the SPEC on an input inside the property's scope is the violation (tagged with the
finding id inside a known finding's predicate); a disagreement with the MODEL outside that scope
(oversized numeric operands, P2SH / witness-program patterns, opcodes outside the set) breaks the
correspondence.
"""
import os

from harness.common import REJECT, MachineryError, xb, unx, blist, batch_parallel, pmap

PROPERTY = "C07"
DRIVERS = ["drv_c07"]
PROPS_MODULES = ["Buidl.Props.C07", "Buidl.Props.C07Tap", "Buidl.Props.C07Timelock"]

_OP_FUNCS = """encode_num decode_num op_0 op_1negate op_1 op_2 op_3 op_4 op_5 op_6 op_7 op_8 op_9 op_10 op_11 op_12
op_13 op_14 op_15 op_16 op_nop op_if op_notif op_verify op_return op_toaltstack op_fromaltstack op_2drop op_2dup
op_3dup op_2over op_2rot op_2swap op_ifdup op_depth op_drop op_dup op_nip op_over op_pick op_roll op_rot op_swap
op_tuck op_size op_equal op_equalverify op_1add op_1sub op_negate op_abs op_not op_0notequal op_add op_sub
op_booland op_boolor op_numequal op_numequalverify op_numnotequal op_lessthan op_greaterthan op_lessthanorequal
op_greaterthanorequal op_min op_max op_within op_ripemd160 op_sha1 op_sha256 op_hash160 op_hash256 op_checksig
op_checksigverify op_checksig_schnorr op_checksigverify_schnorr op_checksigadd_schnorr op_checkmultisig
op_checkmultisigverify op_checklocktimeverify op_checksequenceverify op_success OP_CODE_FUNCTIONS
TAPROOT_OP_CODE_FUNCTIONS""".split()
ANCHORS = [("buidl/op.py", f) for f in _OP_FUNCS] + [
    ("buidl/script.py", "Script.evaluate"),
    ("buidl/timelock.py", "Locktime.__new__"), ("buidl/timelock.py", "Locktime.is_comparable"),
    ("buidl/timelock.py", "Locktime.__lt__"), ("buidl/timelock.py", "Sequence.__new__"),
    ("buidl/timelock.py", "Sequence.is_relative"), ("buidl/timelock.py", "Sequence.is_relative_time"),
    ("buidl/timelock.py", "Sequence.is_relative_block"), ("buidl/timelock.py", "Sequence.is_comparable"),
    ("buidl/timelock.py", "Sequence.__lt__"),
    ("buidl/timelock.py", "Locktime.parse"), ("buidl/timelock.py", "Locktime.serialize"),
    ("buidl/timelock.py", "Locktime.block_height"), ("buidl/timelock.py", "Locktime.mtp"),
    ("buidl/timelock.py", "Sequence.parse"), ("buidl/timelock.py", "Sequence.serialize"),
    ("buidl/timelock.py", "Sequence.from_relative_time"), ("buidl/timelock.py", "Sequence.from_relative_blocks"),
    ("buidl/timelock.py", "Sequence.is_rbf_able"), ("buidl/timelock.py", "Sequence.is_max"),
    ("buidl/timelock.py", "Sequence.relative_blocks"), ("buidl/timelock.py", "Sequence.relative_time"),
]
RULE = ("cases come from one PRNG seeded by VERIF_SEED plus fixed catalogues (all 0..2-byte strings and integer "
        "boundaries for the codec; every opcode of both dispatch tables on all stacks of depth <= 3 over a 6-element "
        "alphabet; the CLTV/CSV boundary product; every third program evaluated 2-3 times on one Script object and one "
        "Tx with the arguments compared before/after); a case is non-trivial when the implementation does not reject it "
        "or the stack/program is non-empty; distinct = distinct request lines")
CLAUSES = {
    "script numbers are encoded minimally and decoding inverts encoding for every integer":
        "proved (encodeNum_roundtrip, encodeNum_minimal, encodeNum_eq_serialize, decodeNum_eq_scriptNum [total, any "
        "length], decodeNum_num4, num4_none_iff, truth_is_castToBool)",
    "each single opcode maps every stack to the stack or failure consensus specifies":
        "partial(known finding F07b): proved for every stack without depth bound and operands <= 4 bytes for all 73 "
        "flow-free opcodes (op_conforms_partial, opPairs_codes; one lemma conf_* per op_* function in "
        "Proofs/Interp.lean), the alt-stack opcodes (altstack_conforms) and IF/NOTIF as splicing functions "
        "(op_if_splits); OP_2ROT only below 6 items (op_2rot_conforms_short) — F07b_witness, F07b_everywhere",
    "CHECKLOCKTIMEVERIFY / CHECKSEQUENCEVERIFY in every transaction context":
        "proved (cltv_conforms: all locktimes/sequences/operands; csv_conforms: all sequences/versions, operands "
        "< 2^32; timelock_constants)",
    "evaluation accepts exactly when consensus accepts — straight-line programs":
        "partial(known finding F07b): proved for every IF-free program of any length without OP_2ROT "
        "(evaluate_straightline_partial, evaluate_straightline_accept)",
    "evaluation accepts exactly when consensus accepts — properly nested IF/NOTIF/ELSE/ENDIF":
        "partial(known finding F07b): proved for every properly nested program (any depth, at most one ELSE per IF, "
        "any length) without OP_2ROT (evaluate_nested_partial); repeated ELSE is outside (N07e_witness)",
    "final stack truthiness": "proved (finalTest_castToBool); F07a fixed (F07a_witness shows the old behaviour)",
    "opcodes outside the table / disabled opcodes / P2SH and witness-program patterns / tapscript table":
        "correspondence-only (model = implementation on the generated cases; the specification covers only the "
        "implemented subset)",
    "Locktime / Sequence objects outside the interpreter (timelock.py as a whole: constructors, 4-byte codec, "
    "block_height / mtp, BIP68 decoding relative_blocks / relative_time, from_relative_*, is_rbf_able / is_max, object "
    "comparison)":
        "proved about the model (C07Timelock: timelock_source_constants, locktimeNew_iff, sequenceNew_iff, "
        "locktime_parse_serialize, locktime_serialize_parse, sequence_parse_serialize, sequence_serialize_parse, "
        "locktime_height_xor_mtp, locktime_comparable_iff, locktime_comparable_equiv, locktime_lt_spec, sequence_kinds, "
        "from_relative_blocks_roundtrip, from_relative_time_roundtrip, from_relative_negative, rbf_iff_not_max, "
        "sequence_comparable_iff, sequence_comparable_per, sequence_lt_spec; O07g_witness: the named constructors do "
        "not range-check against BIP68's 16 bits); model tied to the code by the tl_* correspondence stream and the "
        "re-extracted operators / literals of Gen/Timelock.lean. Not part of the property's statement: a disagreement "
        "here is a broken correspondence, not by itself a violation",
    "the source still has the thresholds and operators the model was written against":
        "proved against Buidl.Gen.Op (gen_depth_checks, gen_compare_ops, gen_num_literals, table via opPairs/table_pairs)",
}
TRUSTED = ["the hash functions are parameters of every theorem; the driver instantiates them with Buidl.Model.Hash.* "
           "(checked against hashlib by harness/hash_selftest.py and again by the hash-opcode cases of this run)",
           "lean/Buidl/Spec/Consensus.lean is a hand transcription of Bitcoin Core's EvalScript/CScriptNum/CastToBool/"
           "CheckLockTime/CheckSequence for the implemented opcode subset"]
ASSUMPTIONS = [
    "consensus resource limits (script size 10000, element size 520, 201 non-push opcodes, 1000 stack items) are not "
    "part of the specification used: they are unreachable for programs of <= 40 operations with pushes <= 520 bytes",
    "the CLTV and CSV soft forks are active (SCRIPT_VERIFY_CHECKLOCKTIMEVERIFY / CHECKSEQUENCEVERIFY set); "
    "policy-only flags (MINIMALDATA, MINIMALIF, CLEANSTACK, DISCOURAGE_UPGRADABLE_NOPS) are not consensus",
    "tx_obj.locktime / sequence are Locktime / Sequence objects (0 <= value <= 2^32 - 1), as Tx/TxIn construct them",
    "N07e: consensus toggles execution on every repeated OP_ELSE, the splicing implementation sends everything after "
    "the first OP_ELSE to the false branch; 'properly nested' is read as at most one OP_ELSE per OP_IF, programs with "
    "a repeated OP_ELSE are compared with the model only",
    "N07f: a 5-byte CSV operand >= 2^32 without bit 31 makes Sequence() raise (reject) where consensus masks it; the "
    "property quantifies over operands <= 2^32 - 1, such operands are compared with the model only",
]


class UnknownOp(Exception):
    pass


SIG_OPS = (171, 172, 173, 174, 175, 186)
_TX_OPS = (172, 173, 174, 175, 177, 178, 186)
_state = {"patched": False, "rot6": False}
CFG = {"tok": "r"}   # driver configuration: "r" = all C07+C06 patches, "p" = C07 patches only (decided by probe_cfg)


def probe_cfg():
    """The C06 patch fix-F06f changes what `evaluate` does with a witness-program pattern in the middle of a
    script (outside C07's scope, compared with the model only): pick the model variant the code matches."""
    r = impl_line("eval r 0 0 1 3 o0 x" + "11" * 20 + " o81")
    CFG["tok"] = "r" if r == "ACCEPT" else "p"
    return CFG["tok"]


def _patch():
    """silence the interpreter's prints, make any signature-hash / network path fail loudly, trace op_2rot"""
    if _state["patched"]:
        return
    import buidl.op as O
    import buidl.script as S
    import buidl.tx as T

    def quiet(*a, **k):
        return None
    O.print = quiet
    S.print = quiet

    def no_sighash(self, *a, **k):
        raise MachineryError("C07 harness reached Tx.sig_hash")
    T.Tx.sig_hash = no_sighash
    orig = O.op_2rot

    def traced_2rot(stack):
        if len(stack) >= 6:
            _state["rot6"] = True
        return orig(stack)
    for tbl in (O.OP_CODE_FUNCTIONS, O.TAPROOT_OP_CODE_FUNCTIONS):
        if tbl.get(113) is orig:
            tbl[113] = traced_2rot
    _state["patched"] = True


# the transaction context of the implementation run: number of inputs, index of the evaluated input, sequences of the
# other inputs (set by a `ctx` request prefix; the default is the single-input transaction)
_CTX = {"n": 1, "idx": 0, "others": []}
OTHER_SEQS = [0xFFFFFFFF, 0xFFFFFFFF, 0xFFFFFFFE, 0, 5, 1234, 2 ** 22 + 5, 2 ** 31 + 1, 0xFFFFFFFD]


def make_tx(locktime, sequence, version):
    """the transaction of the current context: the evaluated input (sequence `sequence`) at index _CTX['idx']"""
    from buidl.tx import Tx, TxIn, TxOut
    from buidl.script import Script
    others = list(_CTX["others"])
    ins = []
    for j in range(_CTX["n"]):
        sq = sequence if j == _CTX["idx"] else others.pop(0)
        ins.append(TxIn(bytes([j]) * 32, j, sequence=sq))
    return Tx(version, ins, [TxOut(1, Script())], locktime)


def rand_ctx(rng):
    """`ctx <inputs> <index> <other sequences> ` with 2-3 inputs, or '' (one input)"""
    n = rng.choice([2, 2, 3])
    idx = rng.randrange(n)
    return f"ctx {n} {idx} " + ",".join(str(rng.choice(OTHER_SEQS)) for _ in range(n - 1)) + " "


def strip_ctx(line):
    """the request the driver sees: the model and the specification take the spent input's sequence only"""
    if line.startswith("ctx "):
        return line.split(" ", 4)[4]
    return line


def parse_cmds(toks):
    """counted command list: `k item…` with items o<code> | x<hex>; returns (cmds, rest)"""
    k = int(toks[0])
    cmds = []
    for t in toks[1:1 + k]:
        cmds.append(int(t[1:]) if t[0] == "o" else unx(t))
    if len(cmds) != k:
        raise MachineryError("short command list")
    return cmds, toks[1 + k:]


def fmt_cmds(cmds):
    return " ".join([str(len(cmds))] + [f"o{c}" if isinstance(c, int) else xb(c) for c in cmds])


def parse_blist(toks):
    k = int(toks[0])
    return [unx(t) for t in toks[1:1 + k]], toks[1 + k:]


# --------------------------------------------------------------------------------- implementation side
def _impl(t):
    import buidl.op as O
    from buidl.script import Script
    _patch()
    op = t[0]
    if op in ("encnum", "spec_ser"):
        return xb(O.encode_num(int(t[1])))
    if op in ("decnum", "spec_num"):
        return str(O.decode_num(unx(t[1])))
    if op in ("op", "spec_op"):
        if op == "op":
            tap, code, lt, seq, ver = t[2] == "1", int(t[3]), int(t[4]), int(t[5]), int(t[6])
            rest = t[7:]
        else:
            tap, code, lt, seq, ver = False, int(t[1]), int(t[2]), int(t[3]), int(t[4])
            rest = t[5:]
        stack, rest = parse_blist(rest)
        alt, rest = parse_blist(rest)
        items = []
        if rest:
            items, rest = parse_cmds(rest)
        table = O.TAPROOT_OP_CODE_FUNCTIONS if tap else O.OP_CODE_FUNCTIONS
        operation = table[code]
        if code in (99, 100):
            ok = operation(stack, items)
        elif code in (107, 108):
            ok = operation(stack, alt)
        elif code in _TX_OPS:
            ok = operation(stack, make_tx(lt, seq, ver), _CTX["idx"])
        else:
            ok = operation(stack)
        if not ok:
            return REJECT
        if op == "op":
            return f"OK {blist(stack)} {blist(alt)} {fmt_cmds(items)}"
        return f"OK {blist(stack)} {blist(alt)}"
    if op in ("eval", "spec_eval"):
        rest = t[2:] if op == "eval" else t[1:]
        lt, seq, ver = int(rest[0]), int(rest[1]), int(rest[2])
        cmds, rest = parse_cmds(rest[3:])
        _state["rot6"] = False
        return "ACCEPT" if Script(cmds).evaluate(make_tx(lt, seq, ver), _CTX["idx"]) else REJECT
    if op == "evalseq":
        # evalseq <cfg> <times> <locktime> <sequence> <version> <commands>: ONE Script object and ONE Tx, evaluated
        # `times` times -> "<outcome> ... args=same" | "... args=changed@<evaluation>:<what>"
        k, lt, seq, ver = int(t[2]), int(t[3]), int(t[4]), int(t[5])
        cmds, rest = parse_cmds(t[6:])
        script, tx = Script(cmds), make_tx(lt, seq, ver)
        before = _args_snapshot(script, tx)
        outs, changed = [], None
        for i in range(k):
            _state["rot6"] = False
            try:
                ok = script.evaluate(tx, _CTX["idx"])
            except MachineryError:
                raise
            except Exception:
                ok = False
            outs.append("ACCEPT" if ok else REJECT)
            after = _args_snapshot(script, tx)
            if changed is None and after != before:
                what = ",".join(n for n, a, b in zip(_ARG_NAMES, before, after) if a != b)
                changed = f"changed@{i + 1}:{what}"
        return " ".join(outs) + " args=" + (changed or "same")
    if op.startswith("tl_"):
        return _impl_timelock(op, t[1:])
    raise UnknownOp(op)


def _opt(v):
    return "NONE" if v is None else str(int(v))


def _b(v):
    return "1" if v else "0"


def _impl_timelock(op, a):
    """buidl/timelock.py driven directly (constructors, codec, accessors, object comparison)"""
    from io import BytesIO
    from buidl.timelock import Locktime, Sequence
    if op == "tl_loc":
        v = Locktime(int(a[0]))
        return f"{xb(v.serialize())} h={_opt(v.block_height())} m={_opt(v.mtp())}"
    if op == "tl_seq":
        v = Sequence(int(a[0]))
        return (f"{xb(v.serialize())} rbf={_b(v.is_rbf_able())} max={_b(v.is_max())} rel={_b(v.is_relative())} "
                f"relt={_b(v.is_relative_time())} relb={_b(v.is_relative_block())} blocks={_opt(v.relative_blocks())} "
                f"time={_opt(v.relative_time())}")
    if op in ("tl_lpair", "tl_spair"):
        cls = Locktime if op == "tl_lpair" else Sequence
        x, y = cls(int(a[0])), cls(int(a[1]))
        try:
            lt = _b(x < y)
        except ValueError:
            lt = "RAISE"
        return f"cmp={_b(x.is_comparable(y))} lt={lt}"
    if op == "tl_frt":
        return str(int(Sequence.from_relative_time(int(a[0]))))
    if op == "tl_frb":
        return str(int(Sequence.from_relative_blocks(int(a[0]))))
    if op in ("tl_lparse", "tl_sparse"):
        cls = Locktime if op == "tl_lparse" else Sequence
        s = BytesIO(unx(a[0]))
        v = cls.parse(s)
        if type(v) is not cls:
            return "WRONG-TYPE"
        return f"{int(v)} {xb(s.read())}"
    raise UnknownOp(op)


_ARG_NAMES = ("script.commands", "tx.serialize", "tx_in.script_sig.commands", "tx_in.witness.items", "tx fields")


def _args_snapshot(script, tx):
    """everything `Script.evaluate(tx_obj, input_index)` is given, as plain values"""
    try:
        ser = tx.serialize()
    except Exception as e:
        ser = "raise " + type(e).__name__
    return (list(script.commands), ser, [list(ti.script_sig.commands) for ti in tx.tx_ins],
            [list(ti.witness.items) for ti in tx.tx_ins],
            (tx.version, int(tx.locktime), [(int(ti.sequence), ti.prev_tx, ti.prev_index) for ti in tx.tx_ins],
             len(tx.tx_outs)))


def seq_expected(outcome, k):
    return " ".join([outcome] * k) + " args=same"


def impl_line(line):
    t = line.split(" ")
    if t[0] == "ctx":
        _CTX.update(n=int(t[1]), idx=int(t[2]), others=[int(x) for x in t[3].split(",") if x])
        t = t[4:]
    try:
        return _impl(t)
    except (UnknownOp, MachineryError):
        raise
    except Exception:
        return REJECT
    finally:
        _CTX.update(n=1, idx=0, others=[])


def _impl_many(lines):
    """worker: (answer, 2ROT-executed-on->=6-items flag) per line"""
    out = []
    for l in lines:
        _state["rot6"] = False
        a = impl_line(l)
        out.append((a, _state["rot6"]))
    return out


def impl_parallel(lines, workers):
    lines = list(lines)
    if not lines:
        return []
    size = max(200, (len(lines) + workers * 4 - 1) // (workers * 4))
    parts = [lines[i:i + size] for i in range(0, len(lines), size)]
    res = pmap(_impl_many, parts, workers=workers, chunksize=1)
    return [a for p in res for a in p]


# --------------------------------------------------------------------------------- direct predicates
def _minimal(b):
    """Bitcoin Core's minimal-encoding test for script numbers"""
    if len(b) == 0:
        return True
    if b[-1] & 0x7F == 0:
        if len(b) <= 1 or (b[-2] & 0x80) == 0:
            return False
    return True


def p_num_roundtrip(c):
    import buidl.op as O
    n = c["n"]
    e = O.encode_num(n)
    got = [O.decode_num(e), _minimal(e)]
    return got == [n, True], got, [n, True]


PREDICATES = {"num_roundtrip": p_num_roundtrip}


def eval_pred(kind, case):
    try:
        return PREDICATES[kind](case)
    except Exception as e:
        return False, "raised " + type(e).__name__, "no exception"


# --------------------------------------------------------------------------------- catalogues
INT31 = 2 ** 31 - 1
NUM_POOL = [0, 1, -1, 2, -2, 3, 5, 16, 17, 127, 128, -127, -128, 129, 255, 256, -255, -256, 32767, 32768, -32768,
            65535, 65536, 8388607, 8388608, -8388608, INT31 - 1, INT31, -INT31, -INT31 + 1]
# encodings that are not what encode_num produces: negative zero, padded, oversized
ODD_NUMS = [b"\x80", b"\x00", b"\x00\x00", b"\x00\x80", b"\x01\x00", b"\x01\x80", b"\x00\x00\x00\x80",
            b"\xff\xff\xff\xff", b"\x00\x00\x00\x00\x00", b"\x01\x00\x00\x00\x00", b"\x00\x00\x00\x80\x00",
            b"\xff\xff\xff\xff\x7f", b"\x00\x00\x00\x00\x80", b"\x01\x00\x00\x00\x00\x00"]
ALPHABET = [b"", b"\x01", b"\x02", b"\x81", b"\x80", b"\x00\x00\x00\x00\x01"]
UNKNOWN_CODES = [80, 98, 101, 102, 103, 104, 126, 137, 141, 171, 186, 187, 254, 255, 76, 1]

LOCKTIMES = [0, 1, 1234, 499999999, 500000000, 500000001, 1582820194, 2 ** 31, 2 ** 32 - 2, 2 ** 32 - 1]
SEQUENCES = [0, 1, 1234, 0xFFFF, 0x10000, 0x10001, 2 ** 22 - 1, 2 ** 22, 2 ** 22 + 1, 2 ** 22 + 1234, 2 ** 22 + 0xFFFF,
             2 ** 23 + 5, 2 ** 31 - 1, 2 ** 31, 2 ** 31 + 1, 2 ** 31 + 2 ** 22 + 7, 2 ** 32 - 2, 2 ** 32 - 1]
VERSIONS = [0, 1, 2, 3]
OPERANDS = [-1, 0, 1, 1233, 1234, 1235, 0xFFFF, 0x10000, 0x10001, 2 ** 22 - 1, 2 ** 22, 2 ** 22 + 1, 2 ** 22 + 1233,
            2 ** 22 + 1234, 2 ** 22 + 1235, 2 ** 22 + 0xFFFF, 2 ** 23 + 5, 499999999, 500000000, 500000001,
            1582820193, 1582820194, 1582820195, 2 ** 31 - 1, 2 ** 31, 2 ** 31 + 1, 2 ** 31 + 2 ** 22 + 7,
            2 ** 32 - 2, 2 ** 32 - 1, 2 ** 32, 2 ** 32 + 5, 2 ** 32 + 2 ** 31, 2 ** 39 - 1]


def enc(n):
    """reference encode (harness-side, used to build operands only)"""
    if n == 0:
        return b""
    a, neg, r = abs(n), n < 0, bytearray()
    while a:
        r.append(a & 0xFF)
        a >>= 8
    if r[-1] & 0x80:
        r.append(0x80 if neg else 0)
    elif neg:
        r[-1] |= 0x80
    return bytes(r)


def rbytes(rng, n):
    return rng.getrandbits(8 * n).to_bytes(n, "little") if n else b""


def rand_elem(rng):
    r = rng.random()
    if r < 0.45:
        return enc(rng.choice(NUM_POOL))
    if r < 0.6:
        return enc(rng.randrange(-20, 21))
    if r < 0.72:
        return rng.choice(ODD_NUMS)
    if r < 0.8:
        return enc(rng.choice([1, -1]) * rng.getrandbits(rng.choice([8, 16, 24, 31, 32, 39])))
    return rbytes(rng, rng.choice([1, 2, 3, 4, 5, 8, 19, 21, 33]))


# --------------------------------------------------------------------------------- program grammar
CONST_OPS = [0, 79] + list(range(81, 97))
NOP_OPS = [97, 176, 179, 180, 181, 182, 183, 184, 185]
STACK_OPS = {109: 2, 110: 2, 111: 3, 112: 4, 113: 6, 114: 4, 115: 1, 116: 0, 117: 1, 118: 1, 119: 2, 120: 2, 123: 3,
             124: 2, 125: 2, 130: 1}
UNARY_OPS = [139, 140, 143, 144, 145, 146]
BINARY_OPS = [147, 148, 154, 155, 156, 158, 159, 160, 161, 162, 163, 164]
HASH_OPS = [166, 167, 168, 169, 170]
IMPLEMENTED = set(CONST_OPS + NOP_OPS + list(STACK_OPS) + UNARY_OPS + BINARY_OPS + HASH_OPS +
                  [99, 100, 103, 104, 105, 106, 107, 108, 121, 122, 135, 136, 157, 165, 177, 178])


class ProgGen:
    """random programs; `self.d` is a rough estimate of the stack depth used to make opcodes succeed about half
    of the time"""

    def __init__(self, rng, multi_else=False, junk=False, big_push=False):
        self.rng, self.multi_else, self.junk, self.big_push = rng, multi_else, junk, big_push
        self.out, self.d, self.budget = [], 0, 0

    def push_num(self, pool=None):
        rng = self.rng
        r = rng.random()
        if r < 0.45:
            self.out.append(rng.choice(CONST_OPS))
        elif r < 0.8:
            self.out.append(enc(rng.choice(pool or NUM_POOL)))
        elif r < 0.9:
            self.out.append(rng.choice(ODD_NUMS))
        else:
            self.out.append(enc(rng.randrange(-5, 8)))
        self.d += 1
        self.budget -= 1

    def push_any(self):
        rng = self.rng
        if rng.random() < 0.7:
            return self.push_num()
        lens = [1, 2, 3, 4, 5, 8, 19, 21, 31, 33, 75, 76]
        if self.big_push:
            lens += [20, 32, 20, 32]
        self.out.append(rbytes(rng, rng.choice(lens)))
        self.d += 1
        self.budget -= 1

    def need(self, k, numeric=True):
        """with probability 1/2 (per missing item a bit less) supply the missing operands"""
        while self.d < k and self.rng.random() < 0.8 and self.budget > 0:
            self.push_num() if numeric else self.push_any()

    def emit(self, op, pops, pushes):
        self.out.append(op)
        self.d = max(0, self.d - pops) + pushes
        self.budget -= 1

    def block(self, depth):
        rng = self.rng
        n = rng.randrange(0, 7)
        for _ in range(n):
            if self.budget <= 0:
                return
            self.stmt(depth)

    def stmt(self, depth):
        rng = self.rng
        r = rng.random()
        if r < 0.22:
            self.push_any()
        elif r < 0.40:
            op = rng.choice(list(STACK_OPS))
            k = STACK_OPS[op]
            self.need(k, numeric=False)
            delta = {109: -2, 110: 2, 111: 3, 112: 2, 113: 2, 114: 0, 115: 1, 116: 1, 117: -1, 118: 1, 119: -1, 120: 1,
                     123: 0, 124: 0, 125: 1, 130: 1}[op]
            self.emit(op, 0, 0)
            self.d = max(0, self.d + delta)
        elif r < 0.47:
            # PICK / ROLL with an index around the depth
            self.need(2, numeric=False)
            idx = rng.choice([0, 0, 1, 1, 2, 3, self.d - 1, self.d, self.d + 1, -1, -2, 7])
            self.out.append(enc(idx) if rng.random() < 0.8 else rng.choice(ODD_NUMS))
            self.budget -= 1
            op = rng.choice([121, 122])
            self.emit(op, 0, 1 if op == 121 else 0)
        elif r < 0.55:
            self.need(1)
            self.emit(rng.choice(UNARY_OPS), 1, 1)
        elif r < 0.68:
            self.need(2)
            self.emit(rng.choice(BINARY_OPS), 2, 1)
        elif r < 0.71:
            self.need(3)
            self.emit(165, 3, 1)
        elif r < 0.75:
            self.need(2, numeric=rng.random() < 0.5)
            self.emit(135, 2, 1)
        elif r < 0.79:
            # verify-style opcodes, usually with a true operand in place
            op = rng.choice([105, 136, 157, 105])
            if op == 105:
                if rng.random() < 0.7:
                    self.out.append(rng.choice([81, 82, enc(5), b"\x00\x01"]))
                    self.budget -= 1
                    self.d += 1
                self.emit(105, 1, 0)
            else:
                if rng.random() < 0.7:
                    v = rng.choice(CONST_OPS[2:])
                    self.out += [v, v]
                    self.budget -= 2
                    self.d += 2
                self.emit(op, 2, 0)
        elif r < 0.82:
            self.need(1, numeric=False)
            self.emit(rng.choice(HASH_OPS), 1, 1)
            if rng.random() < 0.5:
                self.emit(rng.choice([130, 117, 118]), 0, 0)
        elif r < 0.86:
            if rng.random() < 0.6:
                self.need(1, numeric=False)
                self.emit(107, 1, 0)
            else:
                self.emit(108, 0, 1)
        elif r < 0.88:
            self.emit(rng.choice(NOP_OPS), 0, 0)
        elif r < 0.91:
            # timelock opcodes with an operand near the context's values
            op = rng.choice([177, 178])
            if rng.random() < 0.85:
                self.out.append(enc(rng.choice(self.tl_operands)))
                self.budget -= 1
                self.d += 1
            self.emit(op, 0, 0)
            if rng.random() < 0.6:
                self.emit(117, 1, 0)
        elif r < 0.985 and depth < 4:
            self.cond(depth)
        elif r < 0.992:
            self.emit(rng.choice([106, 103, 104]), 0, 0)     # OP_RETURN, stray ELSE / ENDIF
        else:
            if self.junk:
                self.emit(rng.choice(UNKNOWN_CODES), 0, 0)
            else:
                self.emit(97, 0, 0)

    def cond(self, depth):
        rng = self.rng
        if rng.random() < 0.85:
            self.out.append(rng.choice([0, 81, 81, 79, b"\x80", b"\x00", b"\x00\x00", enc(2), b"\x00\x80", b"\x00\x01"]))
            self.budget -= 1
            self.d += 1
        d0 = max(0, self.d - 1)
        self.emit(rng.choice([99, 99, 100]), 1, 0)
        self.d = d0
        self.block(depth + 1)
        d1 = self.d
        if rng.random() < 0.6:
            self.emit(103, 0, 0)
            self.d = d0
            self.block(depth + 1)
            while self.multi_else and rng.random() < 0.5:
                self.emit(103, 0, 0)
                self.block(depth + 1)
        self.d = min(d1, self.d) if rng.random() < 0.5 else max(d1, self.d)
        if rng.random() < 0.97:
            self.emit(104, 0, 0)

    def program(self, max_ops, tl_operands):
        rng = self.rng
        self.out, self.d = [], 0
        self.tl_operands = tl_operands
        self.budget = rng.randrange(1, max_ops + 1)
        while self.budget > 0:
            self.stmt(0)
        # endings that make acceptance depend on the computation
        r = rng.random()
        if r < 0.25:
            self.out.append(81)
        elif r < 0.4:
            self.out.append(116)
        elif r < 0.5:
            self.out += [116, rng.choice(CONST_OPS[1:6]), rng.choice([156, 159, 160, 162])]
        return self.out[:max_ops]


def else_counts_ok(cmds):
    """at most one ELSE per IF (and every ELSE / ENDIF inside an IF): the shape the property calls properly nested;
    an unbalanced program is fine for both interpreters (both reject) as long as no IF sees two ELSEs"""
    stack = []
    for c in cmds:
        if c in (99, 100):
            stack.append(0)
        elif c == 103:
            if not stack:
                return True  # both reject from here on (stray ELSE at top level)
            stack[-1] += 1
            if stack[-1] > 1:
                return False
        elif c == 104:
            if not stack:
                return True
            stack.pop()
    return True


def in_subset(cmds):
    return all((not isinstance(c, int)) or c in IMPLEMENTED for c in cmds)


# --------------------------------------------------------------------------------- run
def _spec_scope(ans):
    return ans not in ("OVERSIZE", "UNSUPPORTED")


def run(ctx):
    import buidl.op as O
    _patch()
    rng, rec = ctx.rng, ctx.rec
    drv = ctx.driver("drv_c07")
    W = ctx.workers
    if probe_cfg() != "r":
        rec.note("Script.evaluate still recognises witness programs in the middle of a script (work/C06/fix-F06f.diff "
                 "not applied): programs with such patterns are compared with the model variant `p`")
    DW = min(4, W)      # the native driver is fast; few processes keep the fork overhead low

    # ---------------------------------------------------------------- timelock.py outside the interpreter
    tl = []
    B32 = [0, 1, 2, 511, 512, 513, 1023, 1024, 0xFFFE, 0xFFFF, 0x10000, 0x10001, 2 ** 22 - 1, 2 ** 22, 2 ** 22 + 1,
           2 ** 22 + 0xFFFF, 2 ** 22 + 0x10000, 2 ** 23, 2 ** 25 - 1, 2 ** 25, 2 ** 25 + 512, 2 ** 31 - 1, 2 ** 31,
           2 ** 31 + 1, 2 ** 31 + 2 ** 22 + 7, 499999999, 500000000, 500000001, 1582820194, 2 ** 32 - 2, 2 ** 32 - 1]
    OUT = [-1, -2, -511, -512, -513, -2 ** 31, -2 ** 32, 2 ** 32, 2 ** 32 + 1, 2 ** 33, 2 ** 41, 2 ** 41 + 511, 2 ** 64]
    vals = B32 + OUT + [rng.randrange(2 ** 32) for _ in range(ctx.n(150, 3000))] + \
        [rng.randrange(2 ** 16) | (rng.randrange(2) << 22) | (rng.randrange(4) == 0) << 31 | rng.randrange(64) << 16
         for _ in range(ctx.n(150, 3000))]
    for v in vals:
        tl += [f"tl_loc {v}", f"tl_seq {v}", f"tl_frb {v}", f"tl_frt {v}"]
    for v in [rng.randrange(2 ** 26) for _ in range(ctx.n(100, 2000))] + [512 * k + d for k in (1, 2, 65535, 65536)
                                                                         for d in (-1, 0, 1)]:
        tl.append(f"tl_frt {v}")
    inr = [v for v in vals if 0 <= v < 2 ** 32]
    pairs = [(a, b) for a in B32 for b in B32 if (a + b) % 3 == 0] + \
        [(rng.choice(inr), rng.choice(inr)) for _ in range(ctx.n(300, 6000))]
    for a, b in pairs:
        tl += [f"tl_lpair {a} {b}", f"tl_spair {a} {b}"]
    for k in range(0, 8):
        for _ in range(ctx.n(6, 60)):
            sb = rbytes(rng, k)
            tl += [f"tl_lparse {xb(sb)}", f"tl_sparse {xb(sb)}"]
    for sb in (b"\xff" * 4, b"\xff" * 5, b"\x00" * 4, bytes.fromhex("0065cd1d"), bytes.fromhex("ff64cd1d01")):
        tl += [f"tl_lparse {xb(sb)}", f"tl_sparse {xb(sb)}"]
    tl = list(dict.fromkeys(tl))
    tl_model = drv.batch(tl)
    for line, m in zip(tl, tl_model):
        impl = impl_line(line)
        if m == "bad-op":
            raise MachineryError(f"driver refused its own protocol: {line}")
        rec.compare("timelock_api", {"line": line, "oracle": "model"}, impl, m, determined=False, key=line)
        rec.count("timelock_api:" + line.split(" ")[0] + ":" + ("REJECT" if impl == REJECT else "ok"))
    # objects do not remember earlier queries: every accessor twice on ONE object, interleaved with comparisons
    from buidl.timelock import Locktime as _L, Sequence as _S
    for v in [x for x in B32] + [rng.randrange(2 ** 32) for _ in range(ctx.n(40, 400))]:
        so, lo, other = _S(v), _L(v), _S(rng.choice(B32))
        first = (so.relative_blocks(), so.relative_time(), so.is_rbf_able(), so.serialize(), lo.block_height(), lo.mtp())
        try:
            so < other
        except ValueError:
            pass
        second = (so.relative_blocks(), so.relative_time(), so.is_rbf_able(), so.serialize(), lo.block_height(), lo.mtp())
        rec.compare("timelock_api_reuse", {"v": v}, repr(second), repr(first), determined=False, key=f"reuse{v}")

    # ---------------------------------------------------------------- known / fixed findings: witness replay
    wit_b = "op r 0 113 0 0 1 6 x01 x02 x03 x04 x05 x06 0"
    spec_b = "spec_op 113 0 0 1 6 x01 x02 x03 x04 x05 x06 0"
    ib, sb = impl_line(spec_b), drv.one(spec_b)
    rec.finding("F07b", ib != sb, {"line": spec_b, "oracle": "spec", "impl": ib, "spec": sb})
    for w in ("eval r 0 0 1 1 x00", "eval r 0 0 1 2 o81 x80"):
        rec.finding("F07a", impl_line(w) == "ACCEPT", {"line": w, "oracle": "spec"})
    for w in ("op r 0 121 0 0 1 3 x01 x02 x81 0", "op r 0 122 0 0 1 3 x01 x02 x81 0"):
        rec.finding("F07c", impl_line(w) != REJECT, {"line": w, "oracle": "spec"})
    for w in ("op r 0 178 0 10 2 1 x0000008000 0", "op r 0 178 0 4294967295 1 1 x0000008000 0"):
        rec.finding("F07d", impl_line(w) == REJECT, {"line": w, "oracle": "spec"})

    # ---------------------------------------------------------------- 1. number codec
    ints = set(NUM_POOL)
    for k in (7, 8, 15, 16, 23, 24, 31, 32, 39, 40, 63, 64, 65):
        for d in (-2, -1, 0, 1, 2):
            ints.add(2 ** k + d)
            ints.add(-(2 ** k + d))
    for n in range(-300, 301):
        ints.add(n)
    for _ in range(ctx.n(10000, 200000)):
        ints.add(rng.randrange(-INT31, INT31 + 1))
    for _ in range(ctx.n(3000)):
        ints.add(rng.choice([1, -1]) * rng.getrandbits(rng.choice([9, 17, 25, 33, 41, 70, 130])))
    ints = sorted(ints)
    strs = [b""] + [bytes([a]) for a in range(256)] + [bytes([a, b]) for a in range(256) for b in range(256)]
    for _ in range(ctx.n(10000, 400000)):
        strs.append(rbytes(rng, 3))
    for _ in range(ctx.n(8000)):
        strs.append(rbytes(rng, rng.choice([4, 4, 4, 5, 6, 8, 9, 17])))
    strs += ODD_NUMS
    codec = [("encnum", f"encnum {n}", f"spec_ser {n}") for n in ints] + \
            [("decnum", f"decnum {xb(b)}", f"spec_num {xb(b)}") for b in strs]
    both = batch_parallel(drv, [c[1] for c in codec] + [c[2] for c in codec], workers=DW)
    mod, spc = both[:len(codec)], both[len(codec):]
    for (kind, line, sline), m, s in zip(codec, mod, spc):
        impl = impl_line(line)
        if impl != s:
            rec.violation(kind, {"line": sline, "oracle": "spec"}, impl, s, note="number codec differs from CScriptNum")
        elif rec.compare(kind, {"line": line, "oracle": "model"}, impl, m, determined=True, key=line,
                         nontrivial=line not in ("encnum 0", "decnum x")):
            rec.sample(kind, {"request": line, "answer": m})
    for n in ints:
        ok, got, want = eval_pred("num_roundtrip", {"n": n})
        if ok:
            rec.ok("num_roundtrip", n)
        else:
            rec.violation("num_roundtrip", {"pred": "num_roundtrip", "n": n}, got, want)
    rec.sample("num_roundtrip", {"n": ints[len(ints) // 2]}, limit=1)

    # ---------------------------------------------------------------- 2. single-opcode conformance
    legacy = sorted(O.OP_CODE_FUNCTIONS)
    taproot = sorted(O.TAPROOT_OP_CODE_FUNCTIONS)
    exh = ctx.n(3, 4)
    stacks = [[]]
    frontier = [[]]
    for _ in range(exh):
        frontier = [s + [a] for s in frontier for a in ALPHABET]
        stacks += frontier
    op_lines = []   # (kind, model line, spec line or None, code, depth)

    def add_op(code, tap, stack, alt=(), items=None, lt=0, seq=0, ver=1, pre=""):
        body = f"{code} {lt} {seq} {ver} {blist(stack)} {blist(list(alt))}"
        ml = f"op r {1 if tap else 0} {body}" + ("" if items is None else " " + fmt_cmds(items))
        sl = None if (tap or items is not None) else f"spec_op {body}"
        op_lines.append(("op", ml, sl, code, len(stack), pre))

    for code in legacy + UNKNOWN_CODES:
        if code in SIG_OPS[1:5]:
            continue
        if code in (99, 100):
            continue
        for s in stacks:
            add_op(code, False, s, lt=1234, seq=1234, ver=2)
        for _ in range(ctx.n(80, 1200)):
            depth = rng.choice([4, 5, 6, 7, 7])
            s = [rng.choice(ALPHABET) if rng.random() < 0.5 else rand_elem(rng) for _ in range(depth)]
            alt = [rand_elem(rng) for _ in range(rng.choice([0, 0, 1, 3]))] if code in (107, 108) else []
            add_op(code, False, s, alt, lt=rng.choice(LOCKTIMES), seq=rng.choice(SEQUENCES), ver=rng.choice(VERSIONS),
                   pre=rand_ctx(rng) if (code in (177, 178) and rng.random() < 0.7) else "")
        if code in UNARY_OPS + BINARY_OPS + [165, 121, 122, 115, 105, 136, 157]:
            for _ in range(ctx.n(300, 3000)):
                depth = rng.choice([1, 2, 3, 3, 4, 5])
                s = [rand_elem(rng) for _ in range(depth)]
                if code in (121, 122) and rng.random() < 0.8:
                    s[-1] = enc(rng.randrange(-3, depth + 2))
                add_op(code, False, s)
    for code in (107, 108):
        for s in stacks[:50]:
            for a in stacks[:8]:
                add_op(code, False, s, a)
    for code in taproot:
        if code in (172, 173, 186):
            continue
        for s in stacks[: 1 + 6 + 36]:
            add_op(code, True, s, lt=1234, seq=1234, ver=2)
        for _ in range(ctx.n(20, 200)):
            s = [rand_elem(rng) for _ in range(rng.choice([3, 4, 6, 7]))]
            add_op(code, True, s, lt=rng.choice(LOCKTIMES), seq=rng.choice(SEQUENCES), ver=rng.choice(VERSIONS),
                   pre=rand_ctx(rng) if (code in (177, 178) and rng.random() < 0.7) else "")
    # op_if / op_notif as functions on (stack, items)
    pg = ProgGen(rng, multi_else=True, junk=True)
    for _ in range(ctx.n(4000, 40000)):
        items = pg.program(rng.choice([3, 8, 20]), OPERANDS)
        if rng.random() < 0.7:
            cut = [i for i, c in enumerate(items) if c in (99, 100)]
            if cut:
                items = items[rng.choice(cut) + 1:]
        s = [rand_elem(rng) for _ in range(rng.choice([0, 1, 1, 2, 3]))]
        add_op(rng.choice([99, 100]), rng.random() < 0.1, s, items=items)

    spc_lines = [l[2] for l in op_lines if l[2] is not None]
    both = batch_parallel(drv, [l[1] for l in op_lines] + spc_lines, workers=DW)
    mod, spc_it = both[:len(op_lines)], iter(both[len(op_lines):])
    impls = impl_parallel([l[5] + l[1] for l in op_lines], W)
    for (kind, ml, sl, code, depth, pre), m, (impl, _) in zip(op_lines, mod, impls):
        s = next(spc_it) if sl is not None else None
        if pre:
            rec.count("op:multi_input_context")
            ml, sl = pre + ml, (pre + sl if sl is not None else None)
        key = ml
        n07f = m == "REJECT-VALUEERROR"
        if n07f:
            m = REJECT
            rec.count("op:valueerror" + (":N07f" if (s is not None and s.startswith("OK")) else ""))
        if s is not None and _spec_scope(s) and not n07f:
            want = s if s == REJECT else s + " 0"
            if impl != want:
                fid = "F07b" if (code == 113 and depth >= 6) else None
                rec.violation("op_spec", {"line": sl, "oracle": "spec"}, impl, s, finding=fid,
                              note=f"opcode {code} differs from consensus")
                continue
        elif s is not None:
            rec.count("op:spec_" + s.split(" ")[0].lower() + (":model_valueerror" if n07f else ""))
        if rec.compare("op", {"line": ml, "oracle": "model"}, impl, m, determined=False, key=key,
                       nontrivial=(impl != REJECT or depth > 0)):
            rec.sample(f"op{code}", {"request": ml, "answer": m}, limit=1)
        if impl == REJECT:
            rec.count("op:reject")

    # ---------------------------------------------------------------- 3. CLTV / CSV boundary product
    tl = []
    for code in (177, 178):
        for lt in LOCKTIMES:
            for seq in SEQUENCES:
                for ver in VERSIONS:
                    if code == 177 and ver not in (1, 2):
                        continue
                    if code == 178 and lt not in (0, 500000000):
                        continue
                    for opnd in OPERANDS:
                        tl.append((code, lt, seq, ver, [enc(opnd)], opnd))
                    tl.append((code, lt, seq, ver, [], None))
                    for odd in (b"\x80", b"\x00", b"\xd2\x04\x00", b"\xd2\x04\x00\x00\x00", b"\xd2\x04\x00\x00\x00\x00",
                                b"\x00\x00\x00\x80\x00\x00"):
                        tl.append((code, lt, seq, ver, [b"\x07", odd], None))
    # every case once in the single-input transaction and once among 2-3 inputs (evaluated input at a random index,
    # the other inputs' sequences independent of it)
    tl = [c + ("",) for c in tl] + [c + (rand_ctx(rng),) for c in tl]
    tl_m = [f"op r 0 {c} {lt} {seq} {ver} {blist(s)} 0" for c, lt, seq, ver, s, _, _ in tl]
    tl_s = [f"spec_op {c} {lt} {seq} {ver} {blist(s)} 0" for c, lt, seq, ver, s, _, _ in tl]
    both = batch_parallel(drv, tl_m + tl_s, workers=DW)
    mod, spc = both[:len(tl_m)], both[len(tl_m):]
    impls = impl_parallel([c[6] + l for c, l in zip(tl, tl_m)], W)
    for (code, lt, seq, ver, s, opnd, pre), ml, sl, m, sp, (impl, _) in zip(tl, tl_m, tl_s, mod, spc, impls):
        ml, sl = pre + ml, pre + sl
        if pre:
            rec.count(f"timelock{code}:inputs={pre.split(' ')[1]}:index={pre.split(' ')[2]}")
        if m == "REJECT-VALUEERROR":
            m = REJECT
        in_scope = _spec_scope(sp) and (opnd is None or opnd <= 2 ** 32 - 1)
        if in_scope:
            want = sp if sp == REJECT else sp + " 0"
            if impl != want:
                rec.violation("timelock_spec", {"line": sl, "oracle": "spec"}, impl, sp,
                              note=f"opcode {code} locktime={lt} sequence={seq} version={ver} operand={opnd}")
                continue
        else:
            rec.count("timelock:outside_quantifier" + ("" if impl == (sp if sp == REJECT else sp + " 0") else ":N07f"))
        if rec.compare("timelock", {"line": ml, "oracle": "model"}, impl, m, determined=False, key=ml):
            rec.sample(f"timelock{code}:{impl.split(' ')[0]}", {"request": ml, "answer": m}, limit=1)
        rec.count(f"timelock{code}:" + impl.split(" ")[0])

    # ---------------------------------------------------------------- 4. programs
    reuse, reuse_n = [], [0]

    def flush(progs):
        """run one chunk of programs (kind, cmds, locktime, sequence, version) on both sides and record"""
        if not progs:
            return
        progs = [p if len(p) == 6 else p + ("",) for p in progs]
        m_lines = [f"eval {CFG['tok']} {lt} {seq} {ver} {fmt_cmds(c)}" for _, c, lt, seq, ver, _ in progs]
        s_lines = [f"spec_eval {lt} {seq} {ver} {fmt_cmds(c)}" for _, c, lt, seq, ver, _ in progs]
        both = batch_parallel(drv, m_lines + s_lines, workers=DW)
        mod, spc = both[:len(m_lines)], both[len(m_lines):]
        impls = impl_parallel([p[5] + l for p, l in zip(progs, m_lines)], W)
        for (kind, cmds, lt, seq, ver, pre), ml, sl, m, sp, (impl, rot6) in zip(progs, m_lines, s_lines, mod, spc, impls):
            ml, sl = pre + ml, pre + sl
            if pre:
                rec.count("prog:multi_input_context")
            mo, trig, ve = m.split(" ")
            if mo == "FUEL":
                raise MachineryError(f"model ran out of fuel on: {ml[:300]}")
            scope = (trig == "trig=0" and ve == "ve=0" and _spec_scope(sp) and in_subset(cmds)
                     and else_counts_ok(cmds))
            if scope:
                if impl != sp:
                    rec.violation("prog_spec", {"line": sl, "oracle": "spec"}, impl, sp,
                                  finding="F07b" if rot6 else None, note="evaluate differs from consensus")
                    continue
            else:
                why = ("trigger" if trig != "trig=0" else "valueerror_N07f" if ve != "ve=0"
                       else sp.lower() if not _spec_scope(sp)
                       else "opcode_outside_set" if not in_subset(cmds) else "repeated_else")
                rec.count(f"{kind}:outside_scope:{why}"
                          + ("" if (impl == sp or not _spec_scope(sp)) else ":differs_from_spec"))
            if rec.compare(kind, {"line": ml, "oracle": "model"}, impl, mo, determined=False, key=ml,
                           nontrivial=len(cmds) > 1):
                rec.sample(f"{kind}:{impl}", {"request": ml, "answer": m, "spec": sp}, limit=1)
            rec.count(f"{kind}:{impl}")
            rec.count(f"prog_len:{min(40, (len(cmds) + 9) // 10 * 10)}")
            if any(c in (99, 100) for c in cmds):
                rec.count("prog:with_conditional")
            reuse_n[0] += 1
            if kind in ("prog_p2sh", "prog_trigger") or reuse_n[0] % 3 == 0:
                k = 2 + (reuse_n[0] // 3) % 2
                reuse.append((kind, f"{pre}evalseq {CFG['tok']} {k} {lt} {seq} {ver} {fmt_cmds(cmds)}", k,
                              sp if scope else mo, scope, len(cmds)))
        # ---- object reuse: the same Script object and the same Tx evaluated k times
        seq_impls = impl_parallel([r[1] for r in reuse], W)
        for (kind, line, k, want1, scope, ncmds), (impl, _) in zip(reuse, seq_impls):
            want = seq_expected(want1, k)
            if impl == want:
                rec.ok("reuse", line, nontrivial=ncmds > 1)
                rec.count(f"reuse:{kind}:x{k}:{want1}")
                if len(rec.cov_lines.setdefault("reuse", [])) < 40:
                    rec.cov_lines["reuse"].append(line)
                continue
            outs = impl.split(" ")[:-1]
            case = {"line": line, "oracle": "spec" if scope else "model"}
            if not impl.endswith("args=same"):
                rec.violation("reuse_args", case, impl, want,
                              note="Script.evaluate modified its arguments (the Script object's commands, the "
                                   "transaction, its scriptSig or its witness)")
            if outs != [want1] * k:
                if outs[0] == want1:
                    rec.violation("reuse_outcome", case, impl, want,
                                  note="a later evaluation of the same Script object on the same Tx differs from the first")
                elif scope:
                    rec.violation("reuse_outcome", case, impl, want, note="evaluate differs from consensus")
                else:
                    rec.disagreement("reuse", case, impl, want)
        del reuse[:]

    CHUNK = 150000
    progs = []   # (kind, cmds, lt, seq, ver)
    n_main = ctx.n(50000, 600000)
    streams = [("prog", dict(), n_main), ("prog_multi_else", dict(multi_else=True), n_main // 20),
               ("prog_junk", dict(junk=True), n_main // 20), ("prog_trigger", dict(big_push=True), n_main // 20)]
    for kind, kw, n in streams:
        g = ProgGen(rng, **kw)
        for _ in range(n):
            lt, seq, ver = rng.choice(LOCKTIMES), rng.choice(SEQUENCES), rng.choice([1, 2, 2])
            tlo = [lt, lt + 1, max(0, lt - 1), seq & 0x40FFFF, (seq & 0x40FFFF) + 1, max(0, (seq & 0x40FFFF) - 1),
                   2 ** 31 + 5, 500000000, 0, -1, 2 ** 22 + 3]
            cmds = g.program(rng.choice([5, 10, 20, 40, 40]), tlo)
            progs.append((kind, cmds, lt, seq, ver, rand_ctx(rng) if rng.random() < 0.3 else ""))
            if len(progs) >= CHUNK:
                flush(progs)
                progs = []
    # P2SH patterns (the redeem script really runs): model correspondence only
    import hashlib
    from buidl.script import Script
    g = ProgGen(rng)
    for _ in range(ctx.n(1500)):
        inner = g.program(8, [0])
        try:
            raw = Script(inner).raw_serialize()
        except Exception:
            continue
        h = hashlib.new("ripemd160", hashlib.sha256(raw).digest()).digest()
        if rng.random() < 0.2:
            h = rbytes(rng, 20)
        pre = g.program(3, [0]) if rng.random() < 0.5 else []
        progs.append(("prog_p2sh", pre + [raw, 0xA9, h, 0x87], 0, 0, 1))
    # witness-program shapes without a witness
    for h in (rbytes(rng, 20), rbytes(rng, 32)):
        for first in (0, 81, b"", b"\x01", 82):
            progs.append(("prog_trigger", [first, h], 0, 0, 1))
            progs.append(("prog_trigger", [first, h, 81], 0, 0, 1))
            progs.append(("prog_trigger", [81, first, h], 0, 0, 1))
    # CLTV / CSV programs on input i of 2-3 inputs: the spent input final while another is not, and the reverse
    for n_in in (2, 3):
        for idx in range(n_in):
            for own in (0xFFFFFFFF, 0xFFFFFFFE, 5):
                for oth in (0xFFFFFFFF, 0xFFFFFFFE, 5, 2 ** 31 + 1):
                    pre = f"ctx {n_in} {idx} " + ",".join([str(oth)] * (n_in - 1)) + " "
                    for ver in (1, 2):
                        progs.append(("prog", [enc(100), 177, 117, 81], 500, own, ver, pre))
                        progs.append(("prog", [enc(500000100), 177, 117, 81], 500000200, own, ver, pre))
                        progs.append(("prog", [enc(3), 178, 117, 81], 0, own, ver, pre))
    # straight-line programs whose first evaluation fails half-way (a consumed command list would accept the rest)
    for cmds in ([0, 105, 81], [85, 86, 136, 81], [108, 81, 81], [81, 99, 0, 105, 104, 81], [0, 100, 0, 105, 104, 81],
                 [81, 81, 135, 105, 0, 105, 81], [82, 83, 147, 85, 135], [81]):
        for _ in range(3):          # the reuse stream takes every third program
            progs.append(("prog", cmds, 0, 0, 1))
    flush(progs)


def replay(ctx, v):
    """re-execute one recorded violation exactly; True if it still violates"""
    case = v["case"]
    if "pred" in case:
        ok, _, _ = eval_pred(case["pred"], case)
        return not ok
    impl = impl_line(case["line"])
    line = strip_ctx(case["line"])          # the driver sees the spent input's sequence only
    if line.startswith("evalseq "):
        t = line.split(" ")
        single = ("spec_eval " if case.get("oracle") == "spec" else f"eval {t[1]} ") + " ".join(t[3:])
        ans = ctx.driver("drv_c07").one(single).split(" ")[0]
        return impl != seq_expected(ans, int(t[2]))
    ans = ctx.driver("drv_c07").one(line)
    if line.startswith("eval "):
        ans = ans.split(" ")[0]
    if ans == "REJECT-VALUEERROR":
        ans = REJECT
    return impl != ans
