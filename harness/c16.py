"""
C16 — multisig descriptors: correspondence between the Lean model (lean/Buidl/Model/Descriptor.lean;
driver drv_c16) and buidl/descriptor.py (+ hd.py, script.py, op.py, bech32.py as used by it), plus
  * Bitcoin Core's DescriptorChecksum transcribed in lean/Buidl/Spec/DescriptorChecksum.lean (ops `spec_*`)
    as the independent oracle for calc_core_checksum,
  * the property predicates evaluated directly on the implementation: str/parse round trip, every
    single-character substitution of sampled descriptors is refused by the real parse, get_address is
    the P2WSH address of m <sorted child keys> n CHECKMULTISIG, does not depend on the order of the key
    records (all permutations for n ≤ 4), and receive / change addresses differ.

Structure as harness/c19.py: impl_line / PREDICATES / run / replay.
"""
import itertools

from harness.common import REJECT, xb, xs, unx, uns, batch_parallel, pmap, MachineryError

PROPERTY = "C16"
DRIVERS = ["drv_c16"]
ANCHORS = [
    ("buidl/descriptor.py", "DESCRIPTOR_INPUT_CHARSET"), ("buidl/descriptor.py", "DESCRIPTOR_CHECKSUM_CHARSET"),
    ("buidl/descriptor.py", "calc_poly_mod"), ("buidl/descriptor.py", "calc_core_checksum"),
    ("buidl/descriptor.py", "is_valid_xfp_hex"), ("buidl/descriptor.py", "parse_full_key_record"),
    ("buidl/descriptor.py", "parse_partial_key_record"),
    ("buidl/descriptor.py", "P2WSHSortedMulti.__init__"), ("buidl/descriptor.py", "P2WSHSortedMulti.__repr__"),
    ("buidl/descriptor.py", "P2WSHSortedMulti.parse"), ("buidl/descriptor.py", "P2WSHSortedMulti.get_address"),
    ("buidl/hd.py", "HDPublicKey.parse"), ("buidl/hd.py", "HDPublicKey.raw_parse"), ("buidl/hd.py", "HDPublicKey.child"),
    ("buidl/hd.py", "HDPublicKey.xpub"), ("buidl/hd.py", "is_valid_bip32_path"),
    ("buidl/helper.py", "uses_only_hex_chars"), ("buidl/helper.py", "is_intable"),
    ("buidl/op.py", "number_to_op_code"),
    ("buidl/script.py", "P2WSHScriptPubKey.__init__"), ("buidl/script.py", "SegwitPubKey.address"),
    ("buidl/script.py", "Script.raw_serialize"),
    ("buidl/bech32.py", "encode_bech32_checksum"),
]
RULE = ("wallets 1 ≤ m ≤ n ≤ 6 (every (m, n) pair at least once) over cosigner keys derived from seeded random seeds on "
        "mainnet and testnet, xpubs re-encoded with every SLIP-132 public prefix, account indexes 0..2^31-2 sampled, "
        "offsets 0, 1, 2^31-1 and random; all permutations of the key records for n ≤ 4 (sampled for n = 5, 6); every "
        "single-character substitution over DESCRIPTOR_INPUT_CHARSET at every position of a sampled descriptor through "
        "the real parse (sampled positions for larger ones); random texts over the charset for the checksum; "
        "non-trivial = non-empty input; distinct = distinct request lines / predicate cases; object-reuse histories: one "
        "P2WSHSortedMulti object asked for addresses at several (branch, index, sort_keys) in varying order and twice each, "
        "for its text, with its key_records list mutated between calls (account index, order, xpub), every answer "
        "compared with the stateless model on the current attributes")
CLAUSES = {
    "checksum = Bitcoin Core's DescriptorChecksum":
        "proved (checksum_eq_core, polymod_eq_core, charsets_eq_core); Spec through the driver on every run",
    "descriptor text wsh(sortedmulti(m,[fp/path]xpub/acct/*,…))": "correspondence-only (text layout compared with the real "
        "str() on every run; descriptor_text_layout states the layout of the model)",
    "parse(str d) = d": "proved (parse_str_roundtrip, with full_key_record_child_check and descriptor_regex_on_generated_text) "
        "for every descriptor the constructor returns that satisfies ReprWF = what parse insists on and the constructor does not "
        "check: m ≤ n, fingerprints in lower-case hex, paths written m/… without ] , ( ) * \\ or newline, derivable account "
        "children.  The two regular expressions are the hand-written matchers; the theorem is about the emitted text layout "
        "(descriptor_text_layout), and the matchers are compared with Python's re.match on the source patterns on every run "
        "(ops match_desc / match_kr).  Outside ReprWF the round trip really fails as coded (e.g. xfp 'ABCDEF12', path 'M/…', "
        "m > n): observation O16b, compared by correspondence",
    "single-character substitution in the body is detected":
        "proved (checksum_detects_substitution: any two bodies of equal length over the charset differing in exactly one "
        "position have different checksums; polymod_detects_window; and about parse itself: parse_checksum_checked — every "
        "descriptor parse returns carries the recomputed checksum of its regenerated text — and "
        "parse_detects_body_substitution / parse_detects_checksum_substitution — no input makes parse return a descriptor whose "
        "text#checksum is a one-character variant of a correctly checksummed one).  Not covered by a theorem: a parse that "
        "normalises the altered body into another text (xpub version bytes, text before wsh() which would itself have to carry "
        "the old checksum; the exhaustive substitution predicate on the real parse covers it",
    "substitution in the 8 checksum characters is detected": "proved (construct_checksum_mismatch_rejected, construct_checksum_accept)",
    "N16a (replacing the # separator)": "not an alteration of body or checksum: the regex drops the checksum group and the unaltered "
        "body parses to the same descriptor; predicate `substitution` checks exactly that at the # position",
    "descriptor shows only xpub / tpub keys (SLIP-132 prefixes coalesced)": "proved (descriptor_keys_plain_version) for the "
        "constructor; the coordinator flow key-record text → parse_any_key_record → constructor is compared with the model "
        "(new_via_parser) and with an expectation computed without the library (own Base58Check, Core's checksum transcribed in "
        "the harness): plain versions, order by the plain strings, checksum over exactly that text, equal to the hand-built-dict "
        "path and to a checksum-less parse",
    "get_address = P2WSH of m <sorted child keys> n CHECKMULTISIG": "proved (get_address_eq_p2wsh, p2wsh_script_bytes)",
    "get_address independent of key-record order": "proved (get_address_perm_invariant, sort_keys_perm)",
    "receive and change use different child indices": "proved (change_index_ne_receive, change_index_eq_succ)",
}
TRUSTED = ["sha256, hash256, hmac_sha512, hash160 are parameters of the theorems; the driver uses Buidl.Model.Hash",
           "Buidl.Model.HD (C08), Buidl.Model.Script (C04), Buidl.Model.Bech32 and Base58 (C09) as executable models",
           "Python's `re` for the two patterns of descriptor.py (the hand-written matchers are validated by this run)"]
ASSUMPTIONS = ["descriptor texts are ASCII", "sorted() on equal-length lower-case hex strings orders as the bytes do",
               "re.match semantics of the two patterns as described in Model/Descriptor.lean (greedy .*, lazy .*?, '.' excludes newline)"]

PUB_MAIN = ["0488b21e", "049d7cb2", "04b24746", "0295b43f", "02aa7ed3"]
PUB_TEST = ["043587cf", "044a5262", "045f1cf6", "024289ef", "02575483"]
CHARSET = "0123456789()[],'/*abcdefgh@:$%{}IJKLMNOPQRSTUVWXYZ&+-.;<=>?!^_|~ijklmnopqrstuvwxyzABCDEFGH`#\"\\ "


class UnknownOp(Exception):
    pass


def rbytes(rng, n):
    return rng.getrandbits(8 * n).to_bytes(n, "little") if n else b""


def kr_tokens(kr):
    return f"{xs(kr['xfp'])} {xs(kr['path'])} {xs(kr['xpub_parent'])} {kr['account_index']}"


def read_krs(t, pos):
    k = int(t[pos])
    krs = []
    for j in range(k):
        a, b, c, d = t[pos + 1 + 4 * j: pos + 5 + 4 * j]
        krs.append({"xfp": uns(a), "path": uns(b), "xpub_parent": uns(c), "account_index": int(d)})
    return krs, pos + 1 + 4 * k


# --------------------------------------------------------------------------------- implementation side
def dump(D):
    return " ".join([xs(str(D)), xs(D.network), str(D.quorum_m), str(len(D.key_records))] + [kr_tokens(k) for k in D.key_records])


def _impl(t):
    import buidl.descriptor as DS
    from buidl.script import WitnessScript

    op = t[0]
    if op in ("checksum", "spec_checksum"):
        return xs(DS.calc_core_checksum(uns(t[1])))
    if op in ("polymod", "spec_polymod"):
        return str(DS.calc_poly_mod(int(t[1]), int(t[2])))
    if op == "xfp_valid":
        return "1" if DS.is_valid_xfp_hex(uns(t[1])) else "0"
    if op == "partial":
        d = DS.parse_partial_key_record(uns(t[1]))
        return f"{xs(d['xfp'])} {xs(d['path'])} {xs(d['xpub'])} {xs(d['network'])}"
    if op == "full":
        return kr_tokens(DS.parse_full_key_record(uns(t[1])))
    if op == "new":
        krs, pos = read_krs(t, 2)
        return dump(DS.P2WSHSortedMulti(int(t[1]), krs, checksum=uns(t[pos]), sort_key_records=(t[pos + 1] == "1")))
    if op == "addr":
        krs, pos = read_krs(t, 2)
        D = DS.P2WSHSortedMulti(int(t[1]), krs, sort_key_records=(t[pos] == "1"))
        return xs(D.get_address(offset=int(t[pos + 1]), is_change=(t[pos + 2] == "1"), sort_keys=(t[pos + 3] == "1")))
    if op == "parse":
        return dump(DS.P2WSHSortedMulti.parse(uns(t[1])))
    if op == "parse_addr":
        return xs(DS.P2WSHSortedMulti.parse(uns(t[1])).get_address(offset=int(t[2]), is_change=(t[3] == "1")))
    if op == "new_via_parser":
        k = int(t[2])
        texts = [uns(x) for x in t[3:3 + k]]
        krs = [DS.parse_any_key_record(x) for x in texts]
        return dump(DS.P2WSHSortedMulti(int(t[1]), krs, sort_key_records=(t[3 + k] == "1")))
    if op in ("match_desc", "match_kr"):
        import re
        pats = _regexes()
        mt = re.match(pats[op], uns(t[1]))
        if mt is None:
            return REJECT
        g = mt.groups()
        if op == "match_desc":
            return f"{xs(g[0])} {xs(g[1])} {xs(g[2][1:]) if g[2] else '-'}"
        return f"{xs(g[0])} {xs(g[1])} {xs(g[2])}"
    if op == "p2wsh":
        m, k = int(t[1]), int(t[2])
        keys = [unx(x) for x in t[3:3 + k]]
        net = uns(t[3 + k])
        from buidl.op import number_to_op_code
        return xs(WitnessScript([number_to_op_code(m)] + keys + [number_to_op_code(k), 174]).address(net))
    raise UnknownOp(op)


_REGEX = {}


def _regexes():
    """the two pattern strings, read from the source of descriptor.py (first argument of each re.match call)"""
    if not _REGEX:
        import ast, os
        from harness.common import REPO
        tree = ast.parse(open(os.path.join(REPO, "buidl/descriptor.py")).read())
        found = {}
        for fn in ast.walk(tree):
            if isinstance(fn, ast.FunctionDef) and fn.name in ("parse_partial_key_record", "parse"):
                for n in ast.walk(fn):
                    if isinstance(n, ast.Call) and getattr(n.func, "attr", None) == "match" and n.args and \
                            isinstance(n.args[0], ast.Constant):
                        found["match_kr" if fn.name == "parse_partial_key_record" else "match_desc"] = n.args[0].value
        if len(found) != 2:
            raise MachineryError("regular expressions of descriptor.py not found")
        _REGEX.update(found)
    return _REGEX


def impl_history(lines):
    """evaluate the steps of one history in ONE process on ONE P2WSHSortedMulti object: `h_new` creates it, `h_addr`
    asks for addresses at many (offset, is_change, sort_keys) in varying order and repeatedly, `h_str` for its text,
    `h_set` / `h_swap` / `h_xpub` mutate its public `key_records` list between calls.  Each answer is compared with the
    stateless model evaluated on the current attributes, so state leaking between calls is visible."""
    import buidl.descriptor as DS
    D, out = None, []
    for line in lines:
        t = line.split(" ")
        try:
            op = t[0]
            if op == "h_new":
                krs, pos = read_krs(t, 2)
                D = DS.P2WSHSortedMulti(int(t[1]), krs, sort_key_records=(t[pos] == "1"))
                out.append(xs(str(D)))
            elif op == "h_addr":
                out.append(xs(D.get_address(offset=int(t[1]), is_change=(t[2] == "1"), sort_keys=(t[3] == "1"))))
            elif op == "h_str":
                out.append(xs(str(D)))
            elif op == "h_set":
                D.key_records[int(t[1])]["account_index"] = int(t[2])
                out.append("ok")
            elif op == "h_swap":
                i, j = int(t[1]), int(t[2])
                D.key_records[i], D.key_records[j] = D.key_records[j], D.key_records[i]
                out.append("ok")
            elif op == "h_xpub":
                D.key_records[int(t[1])]["xpub_parent"] = uns(t[2])
                out.append("ok")
            else:
                raise UnknownOp(op)
        except (UnknownOp, MachineryError):
            raise
        except Exception:
            out.append(REJECT)
    return out


def impl_line(line):
    t = line.split(" ")
    try:
        return _impl(t)
    except (UnknownOp, MachineryError):
        raise
    except Exception:
        return REJECT


def model_line(line):
    return line


# --------------------------------------------------------------------------------- direct predicates
def _mk(c, krs=None, sort=True):
    import buidl.descriptor as DS
    return DS.P2WSHSortedMulti(c["m"], [dict(k) for k in (krs if krs is not None else c["krs"])], sort_key_records=sort)


def p_roundtrip(c):
    """parse(str(d)) reproduces the descriptor"""
    import buidl.descriptor as DS
    D = _mk(c, sort=c.get("sort", True))
    P = DS.P2WSHSortedMulti.parse(str(D))
    got = [str(P), P.network, P.quorum_m, [kr_tokens(k) for k in P.key_records]]
    want = [str(D), D.network, D.quorum_m, [kr_tokens(k) for k in D.key_records]]
    return got == want, got, want


def p_perm(c):
    """the address does not depend on the order in which the key records were supplied (with and without
    sort_key_records), and with sort_key_records the text does not either"""
    D0 = _mk(c)
    want = [str(D0)] + [D0.get_address(o, ch) for o, ch in c["at"]]
    for perm in c["perms"]:
        krs = [c["krs"][i] for i in perm]
        D = _mk(c, krs)
        got = [str(D)] + [D.get_address(o, ch) for o, ch in c["at"]]
        if got != want:
            return False, {"perm": perm, "sorted_records": got}, want
        U = _mk(c, krs, sort=False)
        got = [U.get_address(o, ch) for o, ch in c["at"]]
        if got != want[1:]:
            return False, {"perm": perm, "unsorted_records": got}, want[1:]
    return True, want, want


def p_address(c):
    """get_address(offset, is_change) = P2WSH of m <child keys in lexicographic order> n CHECKMULTISIG, with the child
    keys xpub/account(+1 for change)/offset computed independently of get_address"""
    from buidl.hd import HDPublicKey
    from buidl.helper import sha256
    from buidl.bech32 import encode_bech32_checksum
    D = _mk(c)
    res = []
    for o, ch in c["at"]:
        keys = sorted(HDPublicKey.parse(k["xpub_parent"]).child(k["account_index"] + (1 if ch else 0)).child(o).sec()
                      for k in c["krs"])
        n = len(keys)
        script = bytes([0x50 + c["m"]]) + b"".join(b"\x21" + k for k in keys) + bytes([0x50 + n, 0xAE])
        want = encode_bech32_checksum(b"\x00\x20" + sha256(script), D.network)
        got = D.get_address(o, ch)
        if got != want:
            return False, {"at": [o, ch], "address": got}, want
        res.append(got)
    return True, res, res


def p_recv_change(c):
    """receive and change addresses at the same offset differ"""
    D = _mk(c)
    for o in c["offsets"]:
        a, b = D.get_address(o, False), D.get_address(o, True)
        if a == b:
            return False, [o, a, b], "different addresses"
    return True, "differ", "differ"


def p_substitution(c):
    """a single-character substitution in str(d) is refused by parse; at the position of the `#` separator (N16a) the
    checksum group is dropped and the unaltered body must parse to the same descriptor"""
    import buidl.descriptor as DS
    text, pos = c["text"], c["pos"]
    sep = text.rindex("#")
    bad = []
    for ch in c["chars"]:
        if ch == text[pos]:
            continue
        alt = text[:pos] + ch + text[pos + 1:]
        try:
            P = DS.P2WSHSortedMulti.parse(alt)
        except Exception:
            continue
        if pos == sep and str(P) == text:
            continue
        bad.append([ch, str(P)])
    return not bad, bad, "every substitution refused"


# ---- independent of the library: Base58Check and Bitcoin Core's descriptor checksum, written out here
_B58 = "123456789ABCDEFGHJKLMNPQRSTUVWXYZabcdefghijkmnopqrstuvwxyz"


def _b58check_decode(s):
    import hashlib
    n = 0
    for ch in s:
        n = n * 58 + _B58.index(ch)
    pad = len(s) - len(s.lstrip("1"))
    raw = b"\x00" * pad + n.to_bytes((n.bit_length() + 7) // 8, "big")
    if hashlib.sha256(hashlib.sha256(raw[:-4]).digest()).digest()[:4] != raw[-4:]:
        raise ValueError("checksum")
    return raw[:-4]


def _b58check_encode(raw):
    import hashlib
    raw = raw + hashlib.sha256(hashlib.sha256(raw).digest()).digest()[:4]
    n, out = int.from_bytes(raw, "big"), ""
    while n:
        n, r = divmod(n, 58)
        out = _B58[r] + out
    return "1" * (len(raw) - len(raw.lstrip(b"\x00"))) + out


def _core_checksum(text):
    """Bitcoin Core src/script/descriptor.cpp DescriptorChecksum, transcribed"""
    inp = "0123456789()[],'/*abcdefgh@:$%{}IJKLMNOPQRSTUVWXYZ&+-.;<=>?!^_|~ijklmnopqrstuvwxyzABCDEFGH`#\"\\ "
    out = "qpzry9x8gf2tvdw0s3jn54khce6mua7l"

    def polymod(c, val):
        c0 = c >> 35
        c = ((c & 0x7FFFFFFFF) << 5) ^ val
        for bit, g in ((1, 0xF5DEE51989), (2, 0xA9FDCA3312), (4, 0x1BAB10E32D), (8, 0x3706B1677A), (16, 0x644D626FFD)):
            if c0 & bit:
                c ^= g
        return c
    c, cls, cnt = 1, 0, 0
    for ch in text:
        pos = inp.index(ch)
        c = polymod(c, pos & 31)
        cls = cls * 3 + (pos >> 5)
        cnt += 1
        if cnt == 3:
            c, cls, cnt = polymod(c, cls), 0, 0
    if cnt:
        c = polymod(c, cls)
    for _ in range(8):
        c = polymod(c, 0)
    c ^= 1
    return "".join(out[(c >> (5 * (7 - j))) & 31] for j in range(8))


def p_plain_versions(c):
    """coordinator flow: key-record texts → parse_any_key_record → constructor.  Whatever SLIP-132 prefix the cosigners'
    keys carry, the descriptor must show only xpub / tpub keys, ordered by those strings, with Core's checksum over exactly
    that text — computed here without the library; the hand-built-dict path and a checksum-less parse must agree"""
    import buidl.descriptor as DS
    plain = {True: bytes.fromhex("0488b21e"), False: bytes.fromhex("043587cf")}
    recs = []
    for r in c["records"]:
        raw = _b58check_decode(r["xpub"])
        recs.append((_b58check_encode(plain[c["net"] == "mainnet"] + raw[4:]), r))
    if c["sort"]:
        recs.sort(key=lambda x: x[0])
    body = f"wsh(sortedmulti({c['m']}" + "".join(f",[{r['xfp']}{r['path'][1:]}]{x}/{r['acct']}/*" for x, r in recs) + "))"
    want = body + "#" + _core_checksum(body)
    texts = [f"[{r['xfp']}{r['path'][1:]}]{r['xpub']}/{r['acct']}/*" for r in c["records"]]
    via_parser = DS.P2WSHSortedMulti(c["m"], [DS.parse_any_key_record(t) for t in texts], sort_key_records=c["sort"])
    hand = DS.P2WSHSortedMulti(c["m"], [{"xfp": r["xfp"], "path": r["path"], "xpub_parent": r["xpub"], "account_index": r["acct"]}
                                        for r in c["records"]], sort_key_records=c["sort"])
    reparsed = DS.P2WSHSortedMulti.parse(body)
    got = [str(via_parser), str(hand), str(reparsed)]
    return got == [want, want, want], got, want


PREDICATES = {"plain_versions": p_plain_versions, "roundtrip": p_roundtrip, "perm": p_perm, "address": p_address, "recv_change": p_recv_change,
              "substitution": p_substitution}


def eval_pred(kind, case=None):
    """eval_pred(kind, case) or eval_pred((kind, case)) (the latter for pool.map)"""
    if case is None:
        kind, case = kind
    try:
        return PREDICATES[kind](case)
    except Exception as e:
        return False, "raised " + type(e).__name__ + ": " + str(e)[:200], "no exception"


# --------------------------------------------------------------------------------- generation
def _mk_cosigner(a):
    """(seed, net, path) -> (xfp, path, xpub at path, tuple of the xpub in the five prefixes of that network)"""
    from buidl.hd import HDPrivateKey
    seed, net, path = a
    root = HDPrivateKey.from_seed(seed, network=net)
    k = root.traverse(path)
    vers = PUB_MAIN if net == "mainnet" else PUB_TEST
    return root.fingerprint().hex(), path, [k.xpub(version=bytes.fromhex(v)) for v in vers]


def run(ctx):
    import buidl.descriptor as DS

    rng, rec = ctx.rng, ctx.rec
    drv = ctx.driver("drv_c16")
    lines, preds = [], []

    # ---- checksum, polymod: random texts over the charset (and outside), against model and Core spec
    texts = ["", "a", "ab", "abc", "abcd", "wsh(sortedmulti(1,))", "raw(deadbeef)", "pkh(02c6047f9441ed7d6d3045406e95c07cd85c778e4b8cef3ca7abac09b95c709ee5)",
             "é", "abc\n", "tr(a)", " " * 7]
    for _ in range(ctx.n(300)):
        ln = rng.choice([1, 2, 3, 4, 5, 6, 7, 30, 31, 32, 33, 100, 500])
        s = "".join(rng.choice(CHARSET) for _ in range(ln))
        if rng.random() < 0.05:
            p = rng.randrange(len(s))
            s = s[:p] + rng.choice("\t\né\x7f") + s[p + 1:]
        texts.append(s)
    for s in texts:
        lines.append(("checksum", f"checksum {xs(s)}"))
        lines.append(("spec_checksum", f"spec_checksum {xs(s)}"))
    for _ in range(ctx.n(300)):
        c = rng.choice([0, 1, 2**35 - 1, 2**35, 2**40 - 1, rng.getrandbits(40), rng.getrandbits(36), 2**40, rng.getrandbits(45)])
        v = rng.choice([0, 1, 26, 31, rng.randrange(32)])
        lines.append(("polymod", f"polymod {c} {v}"))
        lines.append(("spec_polymod", f"spec_polymod {c} {v}"))
    for s in ["", "0123abcd", "0123ABCD", "0123abc", "0123abcde", "0123abcg", "0123abc\n", "0123ab\n\n", "\n0123abc",
              "deadbeef", "DEADBEEF", "dead bee", "0x123456"]:
        lines.append(("xfp_valid", f"xfp_valid {xs(s)}"))

    # ---- cosigner pool
    pool_n = ctx.n(14, 40)
    specs = []
    for k in range(pool_n):
        net = "mainnet" if k % 2 else "testnet"
        path = rng.choice(["m/48h/0h/0h/2h" if net == "mainnet" else "m/48h/1h/0h/2h", "m/45h", "m", "m/48'/1'", "m/0/1", "m/7h/8"])
        specs.append((rbytes(rng, rng.choice([16, 32, 64])), net, path))
    pool = pmap(_mk_cosigner, specs, workers=ctx.workers)
    by_net = {"mainnet": [p for p, s in zip(pool, specs) if s[1] == "mainnet"],
              "testnet": [p for p, s in zip(pool, specs) if s[1] == "testnet"]}

    def mk_record(cos, slip=None, account=None):
        xfp, path, xpubs = cos
        vi = rng.randrange(5) if slip is None else slip
        acct = account if account is not None else rng.choice([0, 0, 1, 2, 7, 2**31 - 2, rng.randrange(2**31 - 1)])
        return {"xfp": xfp, "path": path, "xpub_parent": xpubs[vi], "account_index": acct}

    # ---- wallets
    pairs = [(m, n) for n in range(1, 7) for m in range(1, n + 1)]
    wallets = []
    for k in range(ctx.n(30, 120)):
        m, n = pairs[k % len(pairs)] if k < len(pairs) else rng.choice(pairs)
        net = rng.choice(["mainnet", "testnet"])
        cos = rng.sample(by_net[net], min(n, len(by_net[net])))
        while len(cos) < n:
            cos.append(rng.choice(by_net[net]))
        krs = [mk_record(c, slip=(0 if k % 3 == 0 else None)) for c in cos]
        wallets.append({"m": m, "krs": krs})
    offsets = [0, 1, 2**31 - 1]
    for wi, w in enumerate(wallets):
        n = len(w["krs"])
        toks = " ".join(kr_tokens(k) for k in w["krs"])
        srt = wi % 4 != 3
        lines.append(("new", f"new {w['m']} {n} {toks} s {1 if srt else 0}"))
        preds.append(("roundtrip", dict(w, sort=srt)))
        if n <= 3 or wi % 5 == 0:
            o = rng.choice(offsets + [rng.randrange(2**31)])
            ch = rng.random() < 0.5
            lines.append(("addr", f"addr {w['m']} {n} {toks} {1 if srt else 0} {o} {1 if ch else 0} 1"))
            preds.append(("address", dict(w, at=[[o, ch]])))
        if wi % 7 == 0:
            lines.append(("addr_unsorted", f"addr {w['m']} {n} {toks} 0 {rng.randrange(100)} 0 0"))
        if n <= 2 or wi % 6 == 0:
            preds.append(("recv_change", dict(w, offsets=[rng.choice([0, 5, 2**31 - 1])])))
    # permutations: all for n ≤ 4 on a few wallets, sampled for n = 5, 6
    done = set()
    for w in wallets:
        n = len(w["krs"])
        if n < 2 or n in done:
            continue
        done.add(n)
        perms = list(itertools.permutations(range(n)))
        if n > 4:
            perms = rng.sample(perms, ctx.n(6, 60))
        at = [[rng.choice([0, 3]), rng.random() < 0.5]]
        for j in range(0, len(perms), 2):   # two permutations per task, so that the tasks spread over the workers
            preds.append(("perm", dict(w, perms=[list(p) for p in perms[j:j + 2]], at=at)))
    # constructor refusals
    w = wallets[3]
    toks = " ".join(kr_tokens(k) for k in w["krs"])
    n = len(w["krs"])
    good = DS.P2WSHSortedMulti(w["m"], [dict(k) for k in w["krs"]])
    for cs in (good.checksum, good.checksum[:-1] + ("q" if good.checksum[-1] != "q" else "p"), "abc", good.checksum.upper()):
        lines.append(("new_checksum", f"new {w['m']} {n} {toks} {xs(cs)} 1"))
    for m in (0, -1, 7, 16, 17, 20):
        lines.append(("new_quorum", f"new {m} {n} {toks} s 1"))
        lines.append(("addr_quorum", f"addr {m} {n} {toks} 1 0 0 1"))
    lines.append(("new_empty", "new 1 0 s 1"))
    mixed = [mk_record(by_net["mainnet"][0]), mk_record(by_net["testnet"][0])]
    lines.append(("new_mixed_networks", f"new 1 2 {' '.join(kr_tokens(k) for k in mixed)} s 1"))
    for fld, val in (("xfp", "0123456"), ("xfp", "0123456G"), ("xfp", "ABCDEF12"), ("path", "m/1/x"), ("path", "48h/1"),
                     ("path", "M/48'/1H"), ("path", "m/2147483648"), ("xpub_parent", "xpub123"), ("account_index", -1),
                     ("account_index", 2**31 - 1), ("account_index", 2**31)):
        kr = dict(wallets[0]["krs"][0])
        kr[fld] = val
        lines.append(("new_badrecord", f"new 1 1 {kr_tokens(kr)} s 1"))
        lines.append(("addr_badrecord", f"addr 1 1 {kr_tokens(kr)} 1 0 0 1"))
        lines.append(("addr_badrecord", f"addr 1 1 {kr_tokens(kr)} 1 0 1 1"))

    # ---- key-record and descriptor parsing: valid texts, reordered, decorated and corrupted
    small = [w for w in wallets if len(w["krs"]) <= 2][: ctx.n(4, 20)]
    for w in small:
        D = DS.P2WSHSortedMulti(w["m"], [dict(k) for k in w["krs"]])
        text = str(D)
        body = D.descriptor_text
        lines.append(("parse", f"parse {xs(text)}"))
        lines.append(("parse", f"parse {xs(body)}"))
        lines.append(("parse", f"parse {xs('  ' + text + chr(10))}"))
        lines.append(("parse", f"parse {xs('foo ' + text + ' bar')}"))
        lines.append(("parse", f"parse {xs(text.replace('/', chr(92) + '/'))}"))
        lines.append(("parse", f"parse {xs(text.replace('#', '$'))}"))
        lines.append(("parse", f"parse {xs(text + '#')}"))
        lines.append(("parse", f"parse {xs(body + '#' + D.checksum[:7])}"))
        lines.append(("parse", f"parse {xs(body.replace('h', chr(39)))}"))
        lines.append(("parse_addr", f"parse_addr {xs(text)} {rng.randrange(50)} {rng.randrange(2)}"))
        for kr in D.key_records:
            full = f"[{kr['xfp']}{kr['path'][1:]}]{kr['xpub_parent']}/{kr['account_index']}/*"
            part = f"[{kr['xfp']}{kr['path'][1:]}]{kr['xpub_parent']}"
            for s in (full, part, full[:-2], full[1:], part + "/x/*", "[" + kr["xfp"] + "*" + full[9:], full.replace("]", "]]"),
                      full + "\n", part.upper(), full.replace("/*", "/ *")):
                lines.append(("full", f"full {xs(s)}"))
                lines.append(("partial", f"partial {xs(s)}"))
    # substitutions: exhaustive over the charset at every position of one 1-of-1 descriptor through the real parse;
    # sampled positions on the others; a sample also through the model parse
    sub_texts = []
    one = [w for w in wallets if len(w["krs"]) == 1]
    for w in one[:1] + [w for w in wallets if len(w["krs"]) in (2, 3)][: ctx.n(0, 4)]:
        sub_texts.append(str(DS.P2WSHSortedMulti(w["m"], [dict(k) for k in w["krs"]])))
    for ti, text in enumerate(sub_texts):
        positions = list(range(len(text)))   # the first (1-of-1) descriptor: every position × the whole charset
        if ti > 0:
            # quick: every position outside the base58 body of the xpubs, a sample inside them
            inside = set()
            for kr_start in [i for i in range(len(text)) if text[i] == "]"]:
                end = text.index("/", kr_start)
                inside.update(range(kr_start + 5, end))
            outside = [p for p in positions if p not in inside]
            positions = rng.sample(outside, min(len(outside), ctx.n(25, 200))) + \
                rng.sample(sorted(inside), min(len(inside), ctx.n(6, 100)))
        for pos in positions:
            preds.append(("substitution", {"text": text, "pos": pos, "chars": CHARSET}))
        for pos in rng.sample(positions, min(len(positions), ctx.n(40, 200))):
            for ch in rng.sample(CHARSET, 4):
                if ch != text[pos]:
                    lines.append(("parse_substituted", f"parse {xs(text[:pos] + ch + text[pos + 1:])}"))
    rec.count("substitution_texts", len(sub_texts))

    # ---- the two regular expressions alone: Python's re.match on the source patterns against the hand-written matchers
    frag_d = ["wsh(sortedmulti(", "wsh(sortedmulti(", "))", "))", ")", "(", ",", "#", "#qpzry9x8", "#qpzry9x8g", "1", "22", "a", "\n", " ",
              "wsh(", "sortedmulti(", "x", "#QPZRY9X8", "#qpzry9xb"]
    frag_k = ["[", "]", "]", "0123abcd", "0123abc", "ABCDEF12", "*", "/48h", "/1'", "x", "tpub", "_", "\n", "]]", "]-", "9", "]a", "]Z"]
    for _ in range(ctx.n(1500)):
        sd = "".join(rng.choice(frag_d) for _ in range(rng.randrange(0, 9)))
        lines.append(("match_desc", f"match_desc {xs(sd)}"))
        sk = rng.choice(["[", "[", "[", ""]) + "".join(rng.choice(frag_k) for _ in range(rng.randrange(0, 8)))
        lines.append(("match_kr", f"match_kr {xs(sk)}"))

    # ---- P2WSH script template from explicit keys
    for _ in range(ctx.n(20)):
        n = rng.randrange(1, 7)
        m = rng.randrange(1, n + 1)
        keys = [bytes([rng.choice([2, 3])]) + rbytes(rng, 32) for _ in range(n)]
        lines.append(("p2wsh", f"p2wsh {m} {n} {' '.join(xb(k) for k in keys)} {xs(rng.choice(['mainnet', 'testnet', 'signet', 'regtest']))}"))
    lines.append(("p2wsh", f"p2wsh 17 1 {xb(bytes(33))} {xs('mainnet')}"))
    lines.append(("p2wsh", f"p2wsh 1 1 {xb(bytes(33))} {xs('nonet')}"))

    # ---- the coordinator flow: key-record TEXTS through the library's own parsers, then the constructor; cosigner keys in
    # every SLIP-132 prefix the library knows, mixed with plain ones, on both networks
    for k in range(ctx.n(12, 60)):
        net = ["mainnet", "testnet"][k % 2]
        n = rng.randrange(1, 5)
        m = rng.randrange(1, n + 1)
        cos = rng.sample(by_net[net], min(n, len(by_net[net])))
        recs = []
        for j, (xfp, path, xpubs) in enumerate(cos):
            vi = (k + j) % 5 if k < 10 else rng.randrange(5)
            recs.append({"xfp": xfp, "path": path, "xpub": xpubs[vi], "acct": rng.choice([0, 0, 1, 5])})
        srt = k % 4 != 3
        texts = [f"[{r['xfp']}{r['path'][1:]}]{r['xpub']}/{r['acct']}/*" for r in recs]
        lines.append(("new_via_parser", f"new_via_parser {m} {len(texts)} {' '.join(xs(t) for t in texts)} {1 if srt else 0}"))
        preds.append(("plain_versions", {"m": m, "net": net, "records": recs, "sort": srt}))

    # ---- object-reuse histories: one descriptor object, many (branch, index) queries in varying order and twice each,
    # its key_records mutated between calls; the model answers each step from the current attributes
    hists = []   # list of (steps, model lines) with model line None for a mutation step
    for w in [w for w in wallets if len(w["krs"]) <= 3][: ctx.n(5, 30)]:
        srt = rng.random() < 0.7
        D = DS.P2WSHSortedMulti(w["m"], [dict(k) for k in w["krs"]], sort_key_records=srt)
        cur = [dict(k) for k in D.key_records]
        n = len(cur)
        toks = " ".join(kr_tokens(k) for k in w["krs"])
        repr_line = f"repr {w['m']} {n} {toks} {1 if srt else 0}"

        def q(o, ch, sk=True):
            return (f"h_addr {o} {1 if ch else 0} {1 if sk else 0}",
                    f"addr_raw {w['m']} {xs(D.network)} {n} {' '.join(kr_tokens(k) for k in cur)} {o} {1 if ch else 0} {1 if sk else 0}")
        pts = [(0, False), (0, True), (rng.randrange(1000), False), (2**31 - 1, True), (rng.randrange(2**31), rng.random() < 0.5)]
        steps = [(f"h_new {w['m']} {n} {toks} {1 if srt else 0}", repr_line)]
        first = [q(o, ch) for o, ch in pts]
        again = [q(o, ch) for o, ch in pts]
        rng.shuffle(again)
        steps += first + [("h_str", repr_line)] + again + [q(pts[2][0], pts[2][1], sk=False), q(*pts[0])]
        # mutations of the public key_records list
        i = rng.randrange(n)
        cur[i]["account_index"] = cur[i]["account_index"] + 5
        steps += [(f"h_set {i} {cur[i]['account_index']}", None), q(*pts[0]), q(*pts[1]), ("h_str", repr_line)]
        if n >= 2:
            cur[0], cur[1] = cur[1], cur[0]
            steps += [("h_swap 0 1", None), q(*pts[2]), q(pts[2][0], pts[2][1], sk=False)]
        other = rng.choice(by_net[D.network])[2][rng.randrange(5)]
        cur[i]["xpub_parent"] = other
        steps += [(f"h_xpub {i} {xs(other)}", None), q(*pts[0]), q(*pts[0])]
        cur[i]["account_index"] = cur[i]["account_index"] - 5
        steps += [(f"h_set {i} {cur[i]['account_index']}", None), q(*pts[3]), q(*pts[0])]
        hists.append(steps)

    # ---- run both sides
    rng.shuffle(lines)
    rng.shuffle(preds)
    reqs = [l for _, l in lines]
    import time
    t0 = time.time()
    answers = batch_parallel(drv, [model_line(l) for l in reqs], workers=ctx.workers)
    t1 = time.time()
    impls = pmap(impl_line, reqs, workers=ctx.workers, chunksize=2)
    hist_impl = pmap(impl_history, [[st for st, _ in steps] for steps in hists], workers=ctx.workers, chunksize=1)
    hflat = [(hi, si, ml) for hi, steps in enumerate(hists) for si, (_, ml) in enumerate(steps) if ml is not None]
    hmodel = batch_parallel(drv, [ml for _, _, ml in hflat], workers=ctx.workers)
    for (hi, si, ml), model in zip(hflat, hmodel):
        case = {"request": ml, "hist": [st for st, _ in hists[hi]], "step": si}
        rec.compare("history", case, hist_impl[hi][si], model, determined=True, key=f"{hi}:{si}:{ml[:300]}")
        rec.count("history:" + hists[hi][si][0].split(" ")[0])
    t2 = time.time()
    seen = {}
    for (kind, line), model, impl in zip(lines, answers, impls):
        seen[kind] = seen.get(kind, 0) + 1
        # the first few requests of each kind carry the key "line": ./check re-executes those under line monitoring
        case = {"line": line} if seen[kind] <= 4 else {"request": line}
        if rec.compare(kind, case, impl, model, determined=True, key=line[:300],
                       nontrivial=not line.endswith(" s")):
            rec.sample(kind, {"request": line[:200], "answer": model[:200]})
        if impl == REJECT:
            rec.count(kind + ":reject")
    results = pmap(eval_pred, preds, workers=ctx.workers, chunksize=1)
    rec.note(f"timing: model {t1 - t0:.1f}s, implementation {t2 - t1:.1f}s, predicates {time.time() - t2:.1f}s")
    nsub = 0
    covn = {}
    for (kind, case), (ok, got, want) in zip(preds, results):
        covn[kind] = covn.get(kind, 0) + 1
        if covn[kind] <= 2:
            rec.cov_pred(kind, case)   # small sample re-executed under line monitoring by ./check
        if kind == "substitution":
            nsub += len(case["chars"]) - 1
        if ok:
            rec.ok(kind, repr(case)[:300], n=(len(case["chars"]) - 1) if kind == "substitution" else 1)
            rec.sample(kind, {k: v for k, v in case.items() if k != "chars"}, limit=1)
        else:
            rec.violation(kind, dict(case, pred=kind), got, want)
    rec.count("substitutions_through_real_parse", nsub)


def replay(ctx, v):
    """re-execute one recorded violation exactly; True if it still violates"""
    case = v["case"]
    if "hist" in case:
        return impl_history(case["hist"])[case["step"]] != ctx.driver("drv_c16").one(model_line(case["request"]))
    line = case.get("line") or case.get("request")
    if line is not None:
        return impl_line(line) != ctx.driver("drv_c16").one(model_line(line))
    ok, _, _ = eval_pred(case["pred"], case)
    return not ok
