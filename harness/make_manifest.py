"""Regenerate MANIFEST.json from the harness modules that exist (run: python3 -m harness.make_manifest)."""
import importlib
import json
import os
import sys

VERIF = os.path.dirname(os.path.dirname(os.path.abspath(__file__)))
sys.path.insert(0, VERIF)
BASE = json.load(open("/root/.vp/BASELINE.json"))["cmd"] if os.path.exists("/root/.vp/BASELINE.json") else ""


def main():
    props = [json.loads(l) for l in open(os.path.join(VERIF, "properties.jsonl"))]
    checks, na = [], []
    pending = json.load(open(os.path.join(VERIF, "harness", "pending.json"))) if os.path.exists(os.path.join(VERIF, "harness", "pending.json")) else {}
    claimed = json.load(open(os.path.join(VERIF, "harness", "claimed.json")))
    for p in props:
        pid = p["id"]
        hp = os.path.join(VERIF, "harness", pid.lower() + ".py")
        if not os.path.exists(hp) or pid in pending or pid not in claimed:
            na.append({"property_id": pid, "reason": pending.get(pid, "check still being built and validated in this round (Lean model, theorems and harness exist in part); it will be claimed at level proof once it passes on the unchanged tree (DESIGN.md section 7)")})
            continue
        h = importlib.import_module("harness." + pid.lower())
        checks.append({
            "property_id": pid,
            "quick_cmd": f"./check {pid} --tier quick",
            "thorough_cmd": f"./check {pid} --tier thorough",
            "evidence_file": f"evidence/{pid}.json",
            "replay_cmd_template": f"./check {pid} --replay {{path}}",
            "engine": "lean4-proof+correspondence",
            "level_claimed": {
                "category": "proof",
                "text": getattr(h, "LEVEL_TEXT", "Lean 4 theorems about an executable model of the anchored code, for all inputs; the model is tied to /repo on every run by re-extracted constants (Buidl.Gen) and a differential correspondence run against the real Python; a broken proof or correspondence triggers a failing-input search on the real code."),
                "design_ref": f"DESIGN.md section 7 ({pid})",
            },
            "level_note": getattr(h, "LEVEL_NOTE", "; ".join(f"{k}: {v}" for k, v in getattr(h, "CLAUSES", {}).items())),
            "technique": getattr(h, "TECHNIQUE", "machine-checked proof in Lean 4 (kernel-checked theorems over a hand-written executable model) + model/implementation correspondence check"),
        })
    m = {
        "version": 1,
        "setup_cmd": "./check --setup",
        "hooks": {"guard": "BUIDL_PYTHON_VERIF", "enable": "none needed: checks import /repo's working tree directly (no hooks in /repo)",
                  "baseline_off_cmd": BASE.replace(" --junitxml=<file>", ""), "source_commits": [], "add_only": True},
        "engines": [
            {"name": "lean4-proof+correspondence", "path": "lean/ (lake project Buidl), harness/, check",
             "serves_properties": [c["property_id"] for c in checks],
             "kind_free_text": "Lean 4 models (import-free), property theorems (Props/Cxx.lean, axioms audited by #print axioms), native line-protocol drivers, Python correspondence harness, gen_lean.py constant extractor"}],
        "checks": checks,
        "not_applicable": na,
        "notes": "See DESIGN.md. Exit codes: 0 held / known findings only; 1 VIOLATION; 2 machinery failure.",
    }
    with open(os.path.join(VERIF, "MANIFEST.json"), "w") as f:
        json.dump(m, f, indent=1)
        f.write("\n")
    print(f"MANIFEST: {len(checks)} checks, {len(na)} not_applicable")


if __name__ == "__main__":
    main()
