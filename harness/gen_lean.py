"""
gen_lean.py — re-extract, on every run, everything the Lean proofs treat as *data*
(constants, tables, thresholds, comparison operators) from /repo's working tree into
lean/Buidl/Gen/*.lean.  Models take their constants from Buidl.Gen, so a change to any of
them in /repo changes what the theorems are elaborated against.

Parts live in harness/gen_parts/*.py, each exposing `items(G)` yielding G.nat / G.str /
G.nats / G.strs / G.bytes_ / G.raw items.  Extraction works on the AST (never by
importing the package), evaluating constant expressions in a namespace built from the
module's own earlier top-level constants.

An item that cannot be located (function renamed, comparison rewritten into another shape)
falls back to its value in harness/gen.lock.json and is reported as `unlocated`; that is
not a violation by itself, it escalates the correspondence run.
"""
import ast
import importlib
import json
import os
import pkgutil
import sys

HERE = os.path.dirname(os.path.abspath(__file__))
LOCK = os.path.join(HERE, "gen.lock.json")

_SAFE_BUILTINS = {"int": int, "round": round, "len": len, "bytes": bytes, "range": range, "list": list,
                  "tuple": tuple, "dict": dict, "str": str, "ord": ord, "chr": chr, "min": min, "max": max,
                  "pow": pow, "abs": abs, "sum": sum, "True": True, "False": False, "None": None,
                  "frozenset": frozenset, "set": set, "sorted": sorted}


class Unlocated(Exception):
    pass


class G:
    def __init__(self, repo):
        self.repo = repo
        self._trees = {}
        self._ns = {}
        self._accessed = set()

    # ---------------------------------------------------------------- AST access
    def tree(self, path):
        if path not in self._trees:
            try:
                with open(os.path.join(self.repo, path)) as f:
                    self._trees[path] = ast.parse(f.read())
            except Exception as e:
                raise Unlocated(f"{path}: {e}")
        return self._trees[path]

    def namespace(self, path):
        """module-level constants evaluable without importing anything"""
        if path in self._ns:
            return self._ns[path]
        ns, lines = {}, {}
        for node in self.tree(path).body:
            if isinstance(node, ast.Assign) and len(node.targets) == 1 and isinstance(node.targets[0], ast.Name):
                try:
                    v = eval(compile(ast.Expression(node.value), path, "eval"), {"__builtins__": _SAFE_BUILTINS}, ns)
                except Exception:
                    continue
                ns[node.targets[0].id] = v
                lines[node.targets[0].id] = node.lineno
        self._ns[path] = (ns, lines)
        return self._ns[path]

    def const(self, path, name):
        ns, lines = self.namespace(path)
        if name not in ns:
            raise Unlocated(f"{path}:{name}")
        return ns[name], f"{path}:{lines[name]}"

    def node(self, path, qual):
        self._accessed.add((path, qual))
        node = self.tree(path)
        for part in qual.split("."):
            found = None
            for ch in ast.iter_child_nodes(node):
                if isinstance(ch, (ast.FunctionDef, ast.ClassDef)) and ch.name == part:
                    found = ch
                    break
            if found is None:
                raise Unlocated(f"{path}:{qual}")
            node = found
        return node

    def ev(self, path, expr_node, extra=None):
        ns, _ = self.namespace(path)
        env = dict(ns)
        if extra:
            env.update(extra)
        try:
            return eval(compile(ast.Expression(expr_node), path, "eval"), {"__builtins__": _SAFE_BUILTINS}, env)
        except Exception as e:
            raise Unlocated(f"{path}:{getattr(expr_node, 'lineno', '?')}: cannot evaluate ({e})")

    def compares(self, path, qual, extra=None):
        """every comparison `<expr> OP <constant>` (or `<constant> OP <expr>`) in a function, in source order:
        list of (op, value, 'file:line', side) where side is 'R' if the constant is on the right"""
        fn = self.node(path, qual)
        res = []
        for n in ast.walk(fn):
            if isinstance(n, ast.Compare) and len(n.ops) == 1:
                op = type(n.ops[0]).__name__
                for side, e in (("R", n.comparators[0]), ("L", n.left)):
                    try:
                        v = self.ev(path, e, extra)
                    except Unlocated:
                        continue
                    res.append((n.lineno, n.col_offset, op, v, f"{path}:{n.lineno}", side))
                    break
        res.sort(key=lambda t: (t[0], t[1]))
        return [(op, v, loc, side) for _, _, op, v, loc, side in res]

    def cmp(self, path, qual, index, want_op=None, extra=None):
        cs = self.compares(path, qual, extra)
        if index >= len(cs):
            raise Unlocated(f"{path}:{qual} comparison #{index}")
        op, v, loc, side = cs[index]
        if want_op is not None and op != want_op:
            raise Unlocated(f"{path}:{qual} comparison #{index}: operator {op}, expected {want_op}")
        return v, loc

    def dict_const(self, path, name):
        return self.const(path, name)

    def class_attr(self, path, cls, name):
        c = self.node(path, cls)
        for n in c.body:
            if isinstance(n, ast.Assign) and any(isinstance(t, ast.Name) and t.id == name for t in n.targets):
                return self.ev(path, n.value), f"{path}:{n.lineno}"
        raise Unlocated(f"{path}:{cls}.{name}")

    def calls_const_args(self, path, qual, callee):
        """constant arguments of every call `callee(...)` inside a function, in source order"""
        fn = self.node(path, qual)
        res = []
        for n in ast.walk(fn):
            if isinstance(n, ast.Call):
                f = n.func
                nm = f.id if isinstance(f, ast.Name) else (f.attr if isinstance(f, ast.Attribute) else None)
                if nm == callee:
                    args = []
                    for a in n.args:
                        try:
                            args.append(self.ev(path, a))
                        except Unlocated:
                            args.append(None)
                    res.append((n.lineno, n.col_offset, args, f"{path}:{n.lineno}"))
        res.sort(key=lambda t: (t[0], t[1]))
        return [(a, loc) for _, _, a, loc in res]

    def bytes_consts(self, path, qual):
        """bytes literals inside a function, in source order"""
        fn = self.node(path, qual)
        res = []
        for n in ast.walk(fn):
            if isinstance(n, ast.Constant) and isinstance(n.value, bytes):
                res.append((n.lineno, n.col_offset, n.value, f"{path}:{n.lineno}"))
        res.sort(key=lambda t: (t[0], t[1]))
        return [(v, loc) for _, _, v, loc in res]

    def slice_bounds(self, path, qual):
        """constant slice bounds `x[lo:hi]` inside a function, in source order: (lo, hi, loc)"""
        fn = self.node(path, qual)
        res = []
        for n in ast.walk(fn):
            if isinstance(n, ast.Subscript) and isinstance(n.slice, ast.Slice):
                lo = hi = None
                try:
                    lo = self.ev(path, n.slice.lower) if n.slice.lower is not None else None
                    hi = self.ev(path, n.slice.upper) if n.slice.upper is not None else None
                except Unlocated:
                    continue
                res.append((n.lineno, n.col_offset, lo, hi, f"{path}:{n.lineno}"))
        res.sort(key=lambda t: (t[0], t[1]))
        return [(lo, hi, loc) for _, _, lo, hi, loc in res]

    def int_consts(self, path, qual):
        """integer literals inside a function, in source order"""
        fn = self.node(path, qual)
        res = []
        for n in ast.walk(fn):
            if isinstance(n, ast.Constant) and isinstance(n.value, int) and not isinstance(n.value, bool):
                res.append((n.lineno, n.col_offset, n.value, f"{path}:{n.lineno}"))
        res.sort(key=lambda t: (t[0], t[1]))
        return [(v, loc) for _, _, v, loc in res]

    def pick(self, lst, index, what):
        if index >= len(lst):
            raise Unlocated(f"{what} #{index} not found")
        return lst[index]

    def text_lines(self, path):
        try:
            with open(os.path.join(self.repo, path)) as f:
                return f.read().split("\n")
        except Exception as e:
            raise Unlocated(f"{path}: {e}")

    # ---------------------------------------------------------------- item constructors
    @staticmethod
    def item(file, name, ty, fn):
        """fn() -> (python value, 'file:line'); conversion to Lean text by type"""
        return {"file": file, "name": name, "ty": ty, "fn": fn}

    def nat(self, file, name, fn):
        return self.item(file, name, "Nat", fn)

    def int_(self, file, name, fn):
        return self.item(file, name, "Int", fn)

    def str_(self, file, name, fn):
        return self.item(file, name, "String", fn)

    def nats(self, file, name, fn):
        return self.item(file, name, "List Nat", fn)

    def strs(self, file, name, fn):
        return self.item(file, name, "List String", fn)

    def bytes_(self, file, name, fn):
        return self.item(file, name, "List UInt8", fn)

    def bool_(self, file, name, fn):
        return self.item(file, name, "Bool", fn)

    def natpairs(self, file, name, fn):
        return self.item(file, name, "List (Nat × Nat)", fn)

    def strnat(self, file, name, fn):
        return self.item(file, name, "List (String × Nat)", fn)

    def natstr(self, file, name, fn):
        return self.item(file, name, "List (Nat × String)", fn)

    def strbytes(self, file, name, fn):
        return self.item(file, name, "List (String × List UInt8)", fn)


def shape_of(g, path, qual):
    """structural signature of a function: how many statement / expression nodes of each kind it has
    (operators, constants' values and names are NOT part of it).  A point edit of a constant or an
    operator keeps the shape, so its new value is extracted and the model regenerates; any rewrite
    that changes the shape makes positional extraction unreliable, so every item that reads this
    function falls back to its locked value (reported as unlocated)."""
    from collections import Counter
    saved = set(g._accessed)
    try:
        fn = g.node(path, qual)
    except Unlocated:
        return None
    finally:
        g._accessed = saved
    c = Counter(type(n).__name__ for n in ast.walk(fn) if isinstance(n, (ast.stmt, ast.expr)))
    return ",".join(f"{k}{v}" for k, v in sorted(c.items()))


def lean_str(s):
    out = ['"']
    for ch in s:
        o = ord(ch)
        if ch == '"':
            out.append('\\"')
        elif ch == "\\":
            out.append("\\\\")
        elif ch == "\n":
            out.append("\\n")
        elif 32 <= o < 127:
            out.append(ch)
        else:
            out.append("\\u{%x}" % o)
    out.append('"')
    return "".join(out)


def to_lean(ty, v):
    if ty == "Nat":
        if not isinstance(v, int) or isinstance(v, bool) or v < 0:
            raise Unlocated(f"not a natural number: {v!r}")
        return str(v)
    if ty == "Int":
        if not isinstance(v, int) or isinstance(v, bool):
            raise Unlocated(f"not an integer: {v!r}")
        return str(v) if v >= 0 else f"({v})"
    if ty == "Bool":
        if not isinstance(v, bool):
            raise Unlocated(f"not a bool: {v!r}")
        return "true" if v else "false"
    if ty == "String":
        if not isinstance(v, str):
            raise Unlocated(f"not a string: {v!r}")
        return lean_str(v)
    if ty == "List Nat":
        return "[" + ", ".join(to_lean("Nat", x) for x in v) + "]"
    if ty == "List String":
        return "[" + ", ".join(to_lean("String", x) for x in v) + "]"
    if ty == "List UInt8":
        if not isinstance(v, (bytes, bytearray)):
            raise Unlocated(f"not bytes: {v!r}")
        return "[" + ", ".join(str(x) for x in v) + "]"
    if ty == "List (Nat × Nat)":
        return "[" + ", ".join(f"({to_lean('Nat', a)}, {to_lean('Nat', b)})" for a, b in v) + "]"
    if ty == "List (String × Nat)":
        return "[" + ", ".join(f"({to_lean('String', a)}, {to_lean('Nat', b)})" for a, b in v) + "]"
    if ty == "List (Nat × String)":
        return "[" + ", ".join(f"({to_lean('Nat', a)}, {to_lean('String', b)})" for a, b in v) + "]"
    if ty == "List (String × List UInt8)":
        return "[" + ", ".join(f"({to_lean('String', a)}, {to_lean('List UInt8', b)})" for a, b in v) + "]"
    raise ValueError(ty)


def collect(repo):
    g = G(repo)
    from harness import gen_parts

    items = []
    for m in sorted(pkgutil.iter_modules(gen_parts.__path__), key=lambda m: m.name):
        try:
            g._accessed = set()
            mod = importlib.import_module(f"harness.gen_parts.{m.name}")
            part_items = list(mod.items(g))
            part_acc = set(g._accessed)
        except Exception as e:  # a part under development must not break the other properties
            sys.stderr.write(f"gen_lean: part {m.name} failed: {type(e).__name__}: {e}\n")
            continue
        for it in part_items:
            it["part"] = m.name
            it["acc"] = set(part_acc)
            items.append(it)
    return g, items


def generate(repo, outdir, relock=False):
    lock = json.load(open(LOCK)) if os.path.exists(LOCK) else {}
    g, items = collect(repo)
    lock_shapes = lock.get("__shape__", {}) if isinstance(lock.get("__shape__", {}), dict) else {}
    new_shapes = {}
    shape_cache = {}

    def shape(pq):
        if pq not in shape_cache:
            shape_cache[pq] = shape_of(g, *pq)
        return shape_cache[pq]
    files = {}
    report, unlocated, changed = [], [], []
    newlock = {}
    for it in items:
        key = f"{it['file']}.{it['name']}"
        try:
            g._accessed = set()
            v, loc = it["fn"]()
            txt = to_lean(it["ty"], v)
            located = True
            acc = set(it.get("acc", ())) | set(g._accessed)
            for pq in sorted(acc):
                k = f"{pq[0]}:{pq[1]}"
                sh = shape(pq)
                new_shapes[k] = sh
                if not relock and key in lock and k in lock_shapes and lock_shapes[k] != sh:
                    raise Unlocated(f"the shape of {k} changed; positional extraction not trusted")
        except Exception as e:
            located = False
            loc = f"unlocated ({e})"
            if key not in lock:
                sys.stderr.write(f"gen_lean: {key} cannot be located and has no lock value: {e}\n")
                unlocated.append(key)
                continue
            txt = lock[key]
        newlock[key] = txt
        if not located:
            unlocated.append(key)
        elif key in lock and lock[key] != txt:
            changed.append(key)
        report.append({"name": key, "source": loc, "value": txt if len(txt) <= 80 else txt[:60] + f"…({len(txt)} chars)"})
        files.setdefault(it["file"], []).append((it, txt, loc))
    os.makedirs(outdir, exist_ok=True)
    for fname, lst in files.items():
        out = ["/- GENERATED by harness/gen_lean.py from /repo on every run — do not edit. -/",
               "namespace Buidl.Gen", ""]
        for it, txt, loc in lst:
            if len(txt) > 20000:
                out.append("set_option maxRecDepth 100000 in")
            out.append(f"/-- {loc} -/")
            kw = "abbrev" if it["ty"] in ("Nat", "Int", "Bool") else "def"
            out.append(f"{kw} {it['name']} : {it['ty']} := {txt}")
            out.append("")
        out.append("end Buidl.Gen")
        content = "\n".join(out) + "\n"
        p = os.path.join(outdir, fname + ".lean")
        old = open(p).read() if os.path.exists(p) else None
        if old != content:
            with open(p, "w") as f:
                f.write(content)
    if relock:
        if unlocated:
            raise RuntimeError(f"cannot relock with unlocated items: {unlocated}")
        newlock["__shape__"] = dict(sorted(new_shapes.items()))
        with open(LOCK, "w") as f:
            json.dump(dict(sorted(newlock.items(), key=lambda kv: kv[0])), f, indent=0)
            f.write("\n")
    return {"items": report, "unlocated": unlocated, "changed_vs_lock": changed}


if __name__ == "__main__":
    verif = os.path.dirname(HERE)
    sys.path.insert(0, verif)
    repo = os.environ.get("VERIF_REPO", "/repo")
    r = generate(repo, os.path.join(verif, "lean", "Buidl", "Gen"), relock="--relock" in sys.argv)
    print(f"gen: {len(r['items'])} items; unlocated {r['unlocated']}; changed vs lock {r['changed_vs_lock']}")
