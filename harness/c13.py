"""
C13 — MuSig aggregation yields valid BIP340 signatures; k-of-n trees cover all subsets.  Correspondence
between the Lean model (lean/Buidl/Model/MuSig.lean, Taproot.lean, EC.lean; driver drv_c13) and
buidl/taproot.py (MultiSigTapScript, MuSigTapScript, TapRootMultiSig), pecc.py (combine, verify_schnorr),
plus the property predicates evaluated directly on the implementation: the aggregate signature verifies
under an independent BIP340 verification, the aggregate key is invariant under permutation of the
participants, a missing / altered partial signature makes get_signature raise, the leaves of
multi_leaf_tree / musig_tree are in bijection with the k-subsets, and a spend of a leaf by its subset
passes Tx.verify_input.

The code's randomness (`secrets.randbelow`, imported into buidl.taproot) is replaced by values drawn
from the seeded PRNG, so that model and implementation use the same nonces.
"""
import contextlib
import hashlib
import io

from harness.common import REJECT, xb, unx, blist, batch_parallel, pmap
from harness.c12 import (par_batch, Toks, UnknownOp, tok_pt, tok_cmds, tok_tree, fmt_leaf, rbytes, make_keys, tagged, N)

PROPERTY = "C13"
DRIVERS = ["drv_c13"]
PROPS_MODULES = ["Buidl.Props.C13", "Buidl.Props.C13Compose", "Buidl.Props.C13ComposeEC"]
ANCHORS = [
    ("buidl/taproot.py", "MultiSigTapScript.__init__"), ("buidl/taproot.py", "MuSigTapScript.__init__"),
    ("buidl/taproot.py", "MuSigTapScript.generate_nonces"), ("buidl/taproot.py", "MuSigTapScript.nonce_sums"),
    ("buidl/taproot.py", "MuSigTapScript.compute_coefficient"), ("buidl/taproot.py", "MuSigTapScript.compute_k"),
    ("buidl/taproot.py", "MuSigTapScript.compute_r"), ("buidl/taproot.py", "MuSigTapScript.sign"),
    ("buidl/taproot.py", "MuSigTapScript.get_signature"), ("buidl/taproot.py", "TapScript.tap_leaf"),
    ("buidl/taproot.py", "TapRootMultiSig.__init__"), ("buidl/taproot.py", "TapRootMultiSig.single_leaf"),
    ("buidl/taproot.py", "TapRootMultiSig.multi_leaf_tree"), ("buidl/taproot.py", "TapRootMultiSig.musig_tree"),
    ("buidl/taproot.py", "TapRootMultiSig.musig_and_single_leaf_tree"), ("buidl/taproot.py", "TapRootMultiSig.everything_tree"),
    ("buidl/taproot.py", "TapBranch.combine"), ("buidl/taproot.py", "locktime_commands"), ("buidl/taproot.py", "sequence_commands"),
    ("buidl/pecc.py", "S256Point.combine"), ("buidl/pecc.py", "S256Point.verify_schnorr"), ("buidl/pecc.py", "S256Point.even_point"),
    ("buidl/pecc.py", "S256Point.tweaked_key"), ("buidl/pecc.py", "S256Point.sec"), ("buidl/pecc.py", "S256Point.parse_xonly"),
    ("buidl/pecc.py", "SchnorrSignature.__init__"), ("buidl/pecc.py", "SchnorrSignature.parse"),
    ("buidl/pecc.py", "SchnorrSignature.serialize"),
    ("buidl/phash.py", "hash_keyagglist"), ("buidl/phash.py", "hash_keyaggcoef"), ("buidl/phash.py", "hash_musignonce"),
    ("buidl/phash.py", "hash_challenge"),
    ("buidl/op.py", "number_to_op_code"), ("buidl/op.py", "encode_minimal_num"),
    ("buidl/tx.py", "Tx.initialize_p2tr_multisig"), ("buidl/tx.py", "Tx.finalize_p2tr_multisig"),
]
RULE = ("cases come from one PRNG seeded by VERIF_SEED plus fixed catalogues: participant sets of size 2..5 drawn from a "
        "pool of private keys with both Y parities (plus the catalogue secrets 1, 2, 3, N-1, N-2), listed in random order, "
        "one session in five with two participants sharing an x-only key (the same key twice, or d and N-d; counted); "
        "nonces from the seeded PRNG through the patched `randbelow` (boundary nonces 1 and N-1 included); random 32-byte "
        "messages; with and without merkle root; sessions are generated until every branch of sign/get_signature "
        "(R parity x external-key parity, aggregate parity x participant parity, tweaked/plain) has been taken — the "
        "distribution counts them; each session is re-submitted with one partial signature omitted, altered by a random "
        "delta, by +-1 and by a multiple of N; all (k, n) with 1 <= k <= n <= 5 for the tree generators. A case is "
        "non-trivial when it involves at least one curve operation; distinct = distinct request lines / predicate inputs. "
        "Object-reuse histories: ONE MuSigTapScript object and ONE set of PrivateKey objects run 4-5 signing sessions in a "
        "row with different messages, nonce sets and merkle roots (none, A, B, A again / A, none, B, none, A), with unrelated "
        "tweaked_key queries in between and get_signature called twice; every stage is compared with the model evaluated "
        "on the CURRENT arguments and every aggregate with the independent BIP340 verifier for the key tweaked with the "
        "CURRENT root, that key computed from freshly built objects")
CLAUSES = {
    "aggregate key independent of participant order": "proved (sort_sorted_perm, sort_perm, aggregate_key_perm, "
        "multisig_script_perm, subset_leaf_order_independent)",
    "sum of partial signatures is a valid BIP340 signature (plain and tweaked, all parity combinations)":
        "proved (get_signature_valid, get_signature_bip340, aggregate_key_formula, coefficients_by_key, "
        "verify_schnorr_unique): for all participant lists (valid secrets; equal x-only keys — the same key twice, d and "
        "N-d — allowed), all nonces, messages, merkle roots and timelocks — the algebra s*G = R_even + e*Q_even in the "
        "ZMod N-module <G>, with GroupLaw discharged by Buidl.Proofs.TaprootGroup from the secp256k1 development of C03. "
        "The model is the repaired constructor (F13a fixed: work/C13/fix-F13a.diff); F13a_witness documents the old table",
    "omitted / altered partial signature never yields a valid aggregate":
        "proved (get_signature_iff: get_signature succeeds exactly for s_sum congruent to the sum of the partial "
        "signatures modulo N; alter_partial_rejected, omit_partial_rejected)",
    "k-of-n trees: each k-subset owns exactly one leaf":
        "proved (combinations_mem, combinations_no_repeat, combinations_count, combinations_bijection, combine_keeps_leaves, "
        "multi_leaf_tree_leaves, musig_tree_leaves, multisig_leaf_injective, subset_leaf_order_independent): the leaves "
        "are position by position the leaves of the combinations, which are the k-subsets, each exactly once, and "
        "(multi_leaf_tree, pairwise different x-only keys) different subsets have different leaf scripts; for musig_tree "
        "the distinctness of the aggregate keys of different subsets is a hash property, checked on the implementation "
        "(tree_bijection)",
    "object state": "MuSigTapScript keeps no message-, nonce- or root-dependent state (coefs, coef_lookup, point are fixed "
        "at construction; no memo to model): checked by the object-reuse histories (history:session, history:bip340)",
    "a spend of each leaf by its subset verifies":
        "correspondence-only (needs the tapscript interpreter of C06/C07): sampled end-to-end through "
        "finalize_p2tr_multisig / Tx.verify_input, every signer's hash type drawn independently from {DEFAULT (64 bytes), "
        "0x01, 0x02, 0x03, 0x81, 0x82, 0x83}; undefined types 0x04, 0x80, 0x84 on a 65-byte signature must not verify",
    "BIP340 verification": "proved (get_signature_bip340): with the tagged hashes instantiated by SHA-256 the 64 "
        "bytes returned by get_signature satisfy Spec.BIP340.verify (the BIP's algorithm, Buidl.Spec.BIP340) for the "
        "x-only external key — through verify_schnorr_unique, the bridge MuSig.verifySchnorr = Schnorr.verifySchnorr "
        "(Buidl.Proofs.MuSigSpec) and C02's verifyRaw_iff_spec; the harness additionally checks every aggregate signature "
        "with an independent BIP340 verifier written from the BIP text",
}
TRUSTED = ["the tagged hashes are arbitrary functions in every theorem (fields of `Hashes`); the driver instantiates them "
           "with Buidl.Model.Hash.SHA256 and the tag strings re-extracted from buidl/phash.py",
           "curve arithmetic of the driver is Buidl.Model.EC (checked against buidl/pecc.py by this run and by C03)",
           "the independent BIP340 verification used as oracle for `session` is written in this file from the BIP text "
           "(lift_x, challenge, s*G - e*P) over buidl's Point addition"]
ASSUMPTIONS = ["negligible events are explicit: the session theorems assume the library produced the partial signatures, "
               "i.e. the aggregate key, the aggregate nonce R and the (tweaked) external key are not the point at infinity; "
               "omit_partial_rejected assumes the omitted partial signature is not 0 mod N",
               "participants are given by their secrets (every key is d*G): Mathlib has no Hasse bound, so arbitrary curve "
               "points are not known to lie in <G>",
               "itertools.combinations and sorted behave as documented (their models are validated by this run)"]


# --------------------------------------------------------------------------------- implementation side
class Seq:
    """replacement for secrets.randbelow inside buidl.taproot: hands out the given values in order"""

    def __init__(self, vals):
        self.vals = list(vals)

    def __call__(self, n):
        v = self.vals.pop(0)
        if not 0 <= v < n:
            raise ValueError("nonce out of range of randbelow")
        return v


@contextlib.contextmanager
def patched_randbelow(vals):
    import buidl.taproot as T
    old = T.randbelow
    T.randbelow = Seq(vals)
    try:
        yield
    finally:
        T.randbelow = old


def fmt_nats(l):
    return " ".join([str(len(l))] + [str(x) for x in l])


def fmt_musig(m):
    xonlys = [p.xonly() for p in m.points]
    return f"{blist(xonlys)} {xb(m.commitment)} {fmt_nats(m.coefs)} {tok_pt(m.point)} {tok_cmds(m.commands)}"


def fmt_tree(t):
    from buidl.taproot import TapLeaf
    if isinstance(t, TapLeaf):
        return "L " + fmt_leaf(t)
    return f"B {fmt_tree(t.left)} {fmt_tree(t.right)}"


def fmt_tree_hash(t):
    try:
        h = xb(t.hash())
    except Exception:
        h = REJECT
    return f"{fmt_tree(t)} {h}"


def timelocks(l, s):
    from buidl.timelock import Locktime, Sequence
    return (None if l is None else Locktime(l)), (None if s is None else Sequence(s))


def run_session(parts, sig_hash, root, lock, seq, objs=None):
    """the signing session as test_musig.py drives it; returns the list of printed stages (REJECT from the first stage
    that raises) and the objects needed by the predicates.  `objs = (musig, privs)`: run the session on these existing
    objects (object-reuse histories) instead of building new ones"""
    from buidl.ecc import PrivateKey
    from buidl.taproot import MuSigTapScript
    out, info = [], {}
    total = 7

    def rej():
        return out + [REJECT] * (total - len(out)), info
    try:
        if objs is not None:
            musig, privs = objs
        else:
            privs = [PrivateKey(d) for d, _, _ in parts]
            lt, sq = timelocks(lock, seq)
            musig = MuSigTapScript([p.point for p in privs], locktime=lt, sequence=sq)
    except Exception:
        return rej()
    out.append(tok_pt(musig.point))
    info["musig"], info["privs"] = musig, privs
    try:
        secrets, points = [], []
        with patched_randbelow([v for _, k1, k2 in parts for v in (k1, k2)]):
            for _ in parts:
                ns, np_ = musig.generate_nonces()
                secrets.append(ns)
                points.append(np_)
        sums = musig.nonce_sums(points)
    except Exception:
        return rej()
    out += [tok_pt(sums[0]), tok_pt(sums[1])]
    try:
        h = musig.compute_coefficient(sums, sig_hash)
        r = musig.compute_r(sums, sig_hash)
    except Exception:
        return rej()
    out += [str(h), tok_pt(r)]
    info["r"] = r
    try:
        ss = []
        for ns, priv in zip(secrets, privs):
            k = musig.compute_k(ns, sums, sig_hash)
            ss.append(musig.sign(priv, k, r, sig_hash, root))
    except Exception:
        return rej()
    out.append(fmt_nats(ss))
    info["ss"] = ss
    return out, info


def tampered_sum(ss, tam):
    if tam[0] == "none":
        return sum(ss)
    if tam[0] == "omit":
        return sum(s for i, s in enumerate(ss) if i != tam[1])
    if tam[0] == "alter":
        return sum(ss) + tam[2]
    if tam[0] == "extra":
        return sum(ss) + tam[1]
    raise UnknownOp("tamper")


def _impl(t):
    from buidl.ecc import SchnorrSignature
    from buidl.taproot import MultiSigTapScript, MuSigTapScript, TapRootMultiSig, TapBranch

    op, T = t[0], Toks(t[1:])
    if op == "sort":
        l = T.bytes_list(); T.done()
        return blist(sorted(l))
    if op == "combinations":
        from itertools import combinations
        n, k = int(T.next()), int(T.next())
        cs = [list(c) for c in combinations(range(n), k)]
        return " ".join([str(len(cs))] + [fmt_nats(c) for c in cs])
    if op == "multisig_cmds":
        pts = [T.point() for _ in range(int(T.next()))]
        k = int(T.next()); l, s = T.optnat(), T.optnat(); T.done()
        lt, sq = timelocks(l, s)
        return tok_cmds(MultiSigTapScript(pts, k, locktime=lt, sequence=sq).commands)
    if op == "musig_new":
        pts = [T.point() for _ in range(int(T.next()))]
        l, s = T.optnat(), T.optnat(); T.done()
        lt, sq = timelocks(l, s)
        return fmt_musig(MuSigTapScript(pts, locktime=lt, sequence=sq))
    if op == "session":
        n = int(T.next())
        parts = [(int(T.next()), int(T.next()), int(T.next())) for _ in range(n)]
        sig_hash, root = unx(T.next()), unx(T.next())
        l, s = T.optnat(), T.optnat()
        tam = [T.next()]
        if tam[0] in ("omit", "extra"):
            tam.append(int(T.next()))
        elif tam[0] == "alter":
            tam += [int(T.next()), int(T.next())]
        T.done()
        out, info = run_session(parts, sig_hash, root, l, s)
        if len(out) == 7:
            return " ".join(out)
        try:
            sig = info["musig"].get_signature(tampered_sum(info["ss"], tam), info["r"], sig_hash, root)
            out.append(xb(sig.serialize()))
        except Exception:
            out.append(REJECT)
        return " ".join(out)
    if op == "get_signature":
        pts = [T.point() for _ in range(int(T.next()))]
        s_sum = int(T.next()); r = T.point(); sig_hash, root = unx(T.next()), unx(T.next()); T.done()
        return xb(MuSigTapScript(pts).get_signature(s_sum, r, sig_hash, root).serialize())
    if op == "verify_schnorr":
        p = T.point(); msg, sig = unx(T.next()), unx(T.next()); T.done()
        return "1" if p.verify_schnorr(msg, SchnorrSignature.parse(sig)) else REJECT
    if op == "trms":
        which = T.next()
        pts = [T.point() for _ in range(int(T.next()))]
        k = int(T.next()); l, s = T.optnat(), T.optnat(); T.done()
        lt, sq = timelocks(l, s)
        tr = TapRootMultiSig(pts, k)
        if which == "internal":
            return tok_pt(tr.default_internal_pubkey)
        f = {"single": tr.single_leaf, "multi": tr.multi_leaf_tree, "musig": tr.musig_tree,
             "msl": tr.musig_and_single_leaf_tree, "everything": tr.everything_tree}[which]
        return fmt_tree_hash(f(locktime=lt, sequence=sq))
    if op == "combine":
        n = int(T.next())
        ls = [T.tree() for _ in range(n)]
        T.done()
        if n == 0:
            return REJECT   # TapBranch.combine([]) recurses until RecursionError
        return fmt_tree(TapBranch.combine(ls))
    raise UnknownOp(op)


def impl_line(line):
    t = line.split(" ")
    try:
        with contextlib.redirect_stdout(io.StringIO()):
            return _impl(t)
    except UnknownOp:
        raise
    except Exception:
        return REJECT


# --------------------------------------------------------------------------------- direct predicates
def lift_x(x):
    from buidl.ecc import S256Point
    P = 2 ** 256 - 2 ** 32 - 977
    if not 0 < x < P:
        return None
    c = (pow(x, 3, P) + 7) % P
    y = pow(c, (P + 1) // 4, P)
    if y * y % P != c:
        return None
    return S256Point(x, y if y % 2 == 0 else P - y)


def bip340_verify(pk_x, msg, sig):
    """BIP340 Verify(pk, m, sig), written from the BIP text; point arithmetic is buidl's Point.__add__/__rmul__"""
    from buidl.ecc import G
    if len(pk_x) != 32 or len(sig) != 64:
        return False
    P = lift_x(int.from_bytes(pk_x, "big"))
    r, s = int.from_bytes(sig[:32], "big"), int.from_bytes(sig[32:], "big")
    if P is None or r >= 2 ** 256 - 2 ** 32 - 977 or s >= N:
        return False
    e = int.from_bytes(tagged(b"BIP0340/challenge", sig[:32] + pk_x + msg), "big") % N
    R = (s * G) + ((N - e) % N) * P
    if R.x is None or R.y.num % 2 != 0 or R.x.num != r:
        return False
    return True


def points_of(ds):
    from buidl.ecc import PrivateKey
    return [PrivateKey(d).point for d in ds]


def p_session(c):
    """full session: the aggregate signature verifies (independent BIP340 verification) for the external key;
    every tampered sum makes get_signature raise; sums congruent modulo N are accepted"""
    parts = [tuple(p) for p in c["parts"]]
    sig_hash, root = unx(c["sig_hash"]), unx(c["root"])
    out, info = run_session(parts, sig_hash, root, None, None)
    if "ss" not in info:
        return False, "session raised at stage %d" % len([o for o in out if o != REJECT]), "signature"
    musig, r, ss = info["musig"], info["r"], info["ss"]
    ext = musig.point.tweaked_key(root) if root else musig.point.even_point()
    br = {"r_par": r.parity, "ext_par": ext.parity, "q_par": musig.point.parity,
          "p_pars": [p.point.parity for p in info["privs"]], "tweaked": bool(root)}
    try:
        sig = musig.get_signature(sum(ss), r, sig_hash, root)
    except Exception as e:
        return False, "get_signature raised " + type(e).__name__, br
    raw = sig.serialize()
    if not bip340_verify(ext.xonly(), sig_hash, raw):
        return False, "aggregate signature fails BIP340 verification: " + raw.hex(), br
    if raw[:32] != r.xonly():
        return False, "signature R differs from the aggregate nonce", br
    for tam in c["tampers"]:
        tam = tuple(tam)
        s2 = tampered_sum(ss, tam)
        same = (s2 - sum(ss)) % N == 0
        try:
            sig2 = musig.get_signature(s2, r, sig_hash, root)
            raised = False
        except Exception:
            raised = True
        if same and (raised or sig2.serialize() != raw):
            return False, f"sum congruent modulo N refused ({tam})", br
        if not same and not raised:
            return False, f"tampered sum accepted ({tam}): {sig2.serialize().hex()}", br
    return True, br, br


def p_perm(c):
    """aggregate key, coefficients-by-key and script do not depend on the order of the participant list"""
    from buidl.taproot import MuSigTapScript
    pts = points_of(c["ds"])
    base = MuSigTapScript(pts)
    want = [tok_pt(base.point), tok_cmds(base.commands), sorted((xb(k), v) for k, v in base.coef_lookup.items())]
    for perm in c["perms"]:
        m = MuSigTapScript([pts[i] for i in perm])
        got = [tok_pt(m.point), tok_cmds(m.commands), sorted((xb(k), v) for k, v in m.coef_lookup.items())]
        if got != want:
            return False, got, want
    return True, want, want


def subsets(items, k):
    """k-subsets by bitmask enumeration (independent of itertools)"""
    n = len(items)
    res = []
    for mask in range(1 << n):
        if bin(mask).count("1") == k:
            res.append([items[i] for i in range(n) if mask >> i & 1])
    return res


def p_tree_bijection(c):
    """the leaves of multi_leaf_tree / musig_tree: exactly one leaf per k-subset, nothing else"""
    from buidl.taproot import MultiSigTapScript, MuSigTapScript, TapRootMultiSig
    pts = points_of(c["ds"])
    k, n = c["k"], len(c["ds"])
    tr = TapRootMultiSig(pts, k)
    tree = tr.multi_leaf_tree() if c["which"] == "multi" else tr.musig_tree()
    leaves = tree.leaves()
    subs = subsets(pts, k)
    if len(leaves) != len(subs):
        return False, len(leaves), len(subs)
    for sub in subs:
        want = (MultiSigTapScript(sub, k) if c["which"] == "multi" else MuSigTapScript(sub)).tap_leaf()
        cnt = sum(1 for l in leaves if l == want)
        if cnt != 1:
            return False, f"subset owns {cnt} leaves", 1
        # the order in which the subset is listed does not matter
        alt = (MultiSigTapScript(sub[::-1], k) if c["which"] == "multi" else MuSigTapScript(sub[::-1])).tap_leaf()
        if alt != want:
            return False, "leaf depends on the order of the subset", "order independent"
    if len({l.hash() for l in leaves}) != len(leaves):
        return False, "two leaves share a hash", "pairwise distinct"
    return True, len(leaves), len(subs)


def make_tx(script_pubkey, n_inputs=1):
    from buidl.script import P2TRScriptPubKey
    from buidl.tx import Tx, TxIn, TxOut
    prev = bytes.fromhex("cb476b747ee965bb4b34a739d7c07e42c074f23d566674fcc80c426db1bd9dfb")
    ins = []
    for i in range(n_inputs):
        tx_in = TxIn(prev, i)
        tx_in._value = 1000000
        tx_in._script_pubkey = script_pubkey
        ins.append(tx_in)
    out = TxOut(1000000 * n_inputs - 1500, P2TRScriptPubKey(bytes(range(32))))
    return Tx(1, ins, [out], 0, network="signet", segwit=True)


def p_spend(c):
    """end to end: the leaf of a k-subset, signed by that subset, passes Tx.verify_input (script path)"""
    from buidl.ecc import PrivateKey
    from buidl.helper import SIGHASH_DEFAULT
    from buidl.taproot import MultiSigTapScript, MuSigTapScript, TapRootMultiSig
    privs = [PrivateKey(d) for d in c["ds"]]
    pts = [p.point for p in privs]
    k = c["k"]
    tr = TapRootMultiSig(pts, k)
    internal = tr.default_internal_pubkey
    which = c["which"]
    tree = {"multi": tr.multi_leaf_tree, "musig": tr.musig_tree, "single": tr.single_leaf}[which]()
    root = tree.hash()
    tx = make_tx(internal.p2tr_script(root))
    sub = c["subset"]
    sub_pts = [pts[i] for i in sub]
    with contextlib.redirect_stdout(io.StringIO()):
        if which in ("multi", "single"):
            ts = MultiSigTapScript(sub_pts if which == "multi" else pts, k)
            leaf = ts.tap_leaf()
            cb = tree.control_block(internal, leaf)
            if cb is None:
                return False, "no control block for the subset's leaf", "control block"
            tx.initialize_p2tr_multisig(0, cb, leaf.tap_script)
            hts = c.get("hash_types") or [0] * len(sub)     # 0 = SIGHASH_DEFAULT (64-byte signature), else 65 bytes
            sigs = [tx.get_sig_taproot(0, privs[i], ext_flag=1, hash_type=ht) for i, ht in zip(sub, hts)]
            if any(len(sg) != (64 if ht == 0 else 65) for sg, ht in zip(sigs, hts)):
                return False, "signature length does not match the hash type", "64 / 65 bytes"
            tx.finalize_p2tr_multisig(0, sigs)
            ok = tx.verify_input(0)
        else:
            musig = MuSigTapScript(sub_pts)
            leaf = musig.tap_leaf()
            cb = tree.control_block(internal, leaf)
            if cb is None:
                return False, "no control block for the subset's leaf", "control block"
            tx.tx_ins[0].witness.items = [leaf.tap_script.raw_serialize(), cb.serialize()]
            sig_hash = tx.sig_hash(0, SIGHASH_DEFAULT)
            secrets, points = [], []
            with patched_randbelow(c["nonces"]):
                for _ in sub:
                    ns, np_ = musig.generate_nonces()
                    secrets.append(ns)
                    points.append(np_)
            sums = musig.nonce_sums(points)
            r = musig.compute_r(sums, sig_hash)
            s_sum = 0
            for ns, i in zip(secrets, sub):
                s_sum += musig.sign(privs[i], musig.compute_k(ns, sums, sig_hash), r, sig_hash)
            sig = musig.get_signature(s_sum, r, sig_hash)
            tx.tx_ins[0].witness.items.insert(0, sig.serialize())
            ok = tx.verify_input(0)
    return bool(ok), bool(ok), True


def p_spend_wrong(c):
    """negative control for p_spend: k-1 signatures (one replaced by the empty string) must not pass"""
    from buidl.ecc import PrivateKey
    from buidl.taproot import MultiSigTapScript, TapRootMultiSig
    privs = [PrivateKey(d) for d in c["ds"]]
    pts = [p.point for p in privs]
    k = c["k"]
    tr = TapRootMultiSig(pts, k)
    internal = tr.default_internal_pubkey
    tree = tr.multi_leaf_tree()
    tx = make_tx(internal.p2tr_script(tree.hash()))
    sub = c["subset"]
    with contextlib.redirect_stdout(io.StringIO()):
        leaf = MultiSigTapScript([pts[i] for i in sub], k).tap_leaf()
        cb = tree.control_block(internal, leaf)
        tx.initialize_p2tr_multisig(0, cb, leaf.tap_script)
        sigs = [tx.get_sig_taproot(0, privs[i], ext_flag=1) for i in sub[1:]]
        try:
            ok = tx.finalize_p2tr_multisig(0, sigs)
        except Exception:
            ok = False
    return not ok, bool(ok), False


# --------------------------------------------------------------------------------- object-reuse histories
def history_c13(case):
    """ONE MuSigTapScript object and ONE set of PrivateKey objects used for several signing sessions with different
    messages, merkle roots (none, A, B, A again …) and nonce sets; every aggregate is checked with the independent BIP340
    verifier for the key tweaked with the CURRENT root, that key being computed from freshly built objects.
    Returns [(kind, request line for the model, implementation answer)]"""
    from buidl.ecc import PrivateKey
    from buidl.taproot import MuSigTapScript
    ds = case["ds"]
    privs = [PrivateKey(d) for d in ds]
    musig = MuSigTapScript([p.point for p in privs])
    out = []
    for sess in case["sessions"]:
        parts = [(d, k1, k2) for d, (k1, k2) in zip(ds, sess["nonces"])]
        sig_hash, root = unx(sess["sig_hash"]), unx(sess["root"])
        for r2 in sess.get("touch", []):           # unrelated queries on the shared object before signing
            try:
                musig.point.tweaked_key(unx(r2)) if unx(r2) else musig.point.even_point()
            except Exception:
                pass
        fields, info = run_session(parts, sig_hash, root, None, None, objs=(musig, privs))
        verdict = REJECT
        if len(fields) == 6 and "ss" in info:
            try:
                sig = musig.get_signature(sum(info["ss"]), info["r"], sig_hash, root)
                again = musig.get_signature(sum(info["ss"]), info["r"], sig_hash, root)
                raw = sig.serialize()
                fields.append(xb(raw))
                fresh = MuSigTapScript([PrivateKey(d).point for d in ds]).point
                ext = fresh.tweaked_key(root) if root else fresh.even_point()
                verdict = "1" if (bip340_verify(ext.xonly(), sig_hash, raw) and again.serialize() == raw) else REJECT
            except Exception:
                fields.append(REJECT)
        ptoks = " ".join(f"{d} {k1} {k2}" for d, k1, k2 in parts)
        out.append(("session", f"session {len(parts)} {ptoks} {xb(sig_hash)} {xb(root)} - - none", " ".join(fields)))
        # the direct predicate as a pseudo request: the model side is the constant "1"
        out.append(("bip340", f"#bip340 current-root {xb(root)} msg {xb(sig_hash)}", verdict))
    return out


def run_history13(case):
    return multiparty_c13(case) if case.get("kind") == "multiparty" else history_c13(case)


def check_histories13(ctx, drv, cases):
    rec = ctx.rec
    outs = pmap(run_history13, cases, workers=ctx.workers, chunksize=1)
    uniq = sorted({line for o in outs for _, line, _ in o if not line.startswith("#")})
    answers = dict(zip(uniq, par_batch(drv, uniq, workers=ctx.workers)))
    for case, o in zip(cases, outs):
        rec.count("history:histories")
        for step, (kind, line, im) in enumerate(o):
            m = "1" if line.startswith("#") else answers[line]
            if rec.compare(f"history:{kind}", {"history": case, "step": step, "line": line}, im, m, determined=True,
                           key=f"{id(case)}:{step}"):
                rec.sample(f"history:{kind}", {"step": step, "request": line[:200], "answer": m[:200]}, limit=1)
            else:
                break


def replay_history13(ctx, case):
    o = run_history13(case["history"])
    step = case["step"]
    if step >= len(o):
        return False
    kind, line, im = o[step]
    m = "1" if line.startswith("#") else ctx.driver("drv_c13").one(line)
    return im != m


# --------------------------------------------------------------------------------- multi-party protocol, shared arguments
def _snap(x):
    """canonical snapshot of an argument (lists / tuples of points, ints, bytes) for the "does not modify its
    arguments" predicate"""
    if isinstance(x, (list, tuple)):
        return [type(x).__name__] + [_snap(y) for y in x]
    if hasattr(x, "xonly") and hasattr(x, "x"):
        return tok_pt(x)
    if hasattr(x, "secret"):
        return ("priv", x.secret)
    if isinstance(x, (bytes, bytearray)):
        return xb(x)
    return repr(x)


class ArgGuard:
    """calls a function and checks that none of its (mutable) arguments changed"""

    def __init__(self):
        self.bad = []

    def call(self, name, fn, *args, **kw):
        before = [_snap(a) for a in args] + [_snap(v) for v in kw.values()]
        r = fn(*args, **kw)
        after = [_snap(a) for a in args] + [_snap(v) for v in kw.values()]
        if before != after:
            self.bad.append(name)
        return r


def multiparty_c13(case):
    """the protocol as several parties run it: every participant builds its own MuSigTapScript from the SAME list
    object of public keys, generates its nonce pair, and then calls nonce_sums / compute_r / compute_k / sign on the
    SAME broadcast list object of nonce pairs; the partial signatures are collected in one list and every
    participant calls get_signature on it.  All parties must derive the same R, every party must obtain the same,
    BIP340-valid signature (key tweaked with the current root, computed from fresh objects), and no call may modify
    an argument.  Returns [(kind, model request line | #pseudo, implementation answer)]"""
    from buidl.ecc import PrivateKey
    from buidl.taproot import MuSigTapScript
    ds, root, sig_hash = case["ds"], unx(case["root"]), unx(case["sig_hash"])
    n = len(ds)
    G_ = ArgGuard()
    out = []
    privs = [PrivateKey(d) for d in ds]
    pubs = [p.point for p in privs]                      # ONE list object handed to every constructor
    musigs = [G_.call("MuSigTapScript.__init__", MuSigTapScript, pubs) for _ in range(n)]
    secrets, pairs = [], []                              # `pairs` is the broadcast list
    with patched_randbelow([v for k1, k2 in case["nonces"] for v in (k1, k2)]):
        for i in range(n):
            ns, np_ = G_.call("generate_nonces", musigs[i].generate_nonces)
            secrets.append(ns)
            pairs.append(np_)
    rs, partials = [], []
    fields = [tok_pt(musigs[0].point)]
    try:
        for i in range(n):
            sums = G_.call("nonce_sums", musigs[i].nonce_sums, pairs)
            h = G_.call("compute_coefficient", musigs[i].compute_coefficient, sums, sig_hash)
            r = G_.call("compute_r", musigs[i].compute_r, sums, sig_hash)
            k = G_.call("compute_k", musigs[i].compute_k, secrets[i], sums, sig_hash)
            s_i = G_.call("sign", musigs[i].sign, privs[i], k, r, sig_hash, root)
            rs.append(r)
            partials.append(s_i)
            if i == 0:
                fields += [tok_pt(sums[0]), tok_pt(sums[1]), str(h), tok_pt(r)]
        same_r = all(tok_pt(r) == tok_pt(rs[0]) for r in rs)
        fields.append(fmt_nats(partials))
        sigs = []
        for i in range(n):
            sg = G_.call("get_signature", musigs[i].get_signature, sum(partials), rs[i], sig_hash, root)
            sigs.append(sg.serialize())
        fields.append(xb(sigs[0]))
        fresh = MuSigTapScript([PrivateKey(d).point for d in ds]).point
        ext = fresh.tweaked_key(root) if root else fresh.even_point()
        valid = all(sg == sigs[0] for sg in sigs) and bip340_verify(ext.xonly(), sig_hash, sigs[0])
    except Exception:
        same_r, valid = (len(rs) > 0 and all(tok_pt(r) == tok_pt(rs[0]) for r in rs)), False
        fields += [REJECT] * (7 - len(fields))
    ptoks = " ".join(f"{d} {k1} {k2}" for d, (k1, k2) in zip(ds, case["nonces"]))
    out.append(("multiparty:same-R", "#all participants derive the same R", "1" if same_r else REJECT))
    out.append(("multiparty:bip340", f"#every participant obtains the same BIP340-valid signature, root {xb(root)}",
                "1" if valid else REJECT))
    out.append(("multiparty:args-unmodified", "#no call modifies its arguments",
                "1" if not G_.bad else "modified by " + ",".join(sorted(set(G_.bad)))))
    out.reverse()      # report a modified argument / diverging R before the derived symptoms
    out.append(("multiparty:session", f"session {n} {ptoks} {xb(sig_hash)} {xb(root)} - - none", " ".join(fields)))
    return out


def timelock_prefix(lock, seq):
    """the commands `<n> OP_CLTV OP_DROP` / `<n> OP_CSV OP_DROP`, computed here from the script number rules"""
    def num(v):
        if v == 0:
            return 0
        if v <= 16:
            return 0x50 + v
        b = bytearray()
        while v:
            b.append(v & 0xFF)
            v >>= 8
        if b[-1] & 0x80:
            b.append(0)
        return bytes(b)
    if lock is not None:
        return [num(lock), 0xB1, 0x75]
    if seq is not None:
        return [num(seq), 0xB2, 0x75]
    return []


def p_tree_timelock(c):
    """every tree generator driven with a timelock: every leaf of every subtree carries exactly the requested prefix,
    every k-subset owns exactly one MultiSig leaf (multi / everything) and exactly one MuSig leaf (musig / msl /
    everything) with that prefix, the single leaf is the n-key script with it; the list of points is not modified"""
    from buidl.taproot import MultiSigTapScript, MuSigTapScript, TapRootMultiSig
    from buidl.timelock import Locktime, Sequence
    pts = points_of(c["ds"])
    k, lock, seq = c["k"], c["lock"], c["seq"]
    kw = {"locktime": None if lock is None else Locktime(lock), "sequence": None if seq is None else Sequence(seq)}
    pre = timelock_prefix(lock, seq)
    G_ = ArgGuard()
    tr = G_.call("TapRootMultiSig.__init__", TapRootMultiSig, pts, k)
    want_multi = [pre + list(MultiSigTapScript(sub, k).commands) for sub in subsets(pts, k)]
    want_musig = [pre + list(MuSigTapScript(sub).commands) for sub in subsets(pts, k)] if k >= 2 else None
    want_single = [pre + list(MultiSigTapScript(pts, k).commands)]
    expect = {"single_leaf": want_single, "multi_leaf_tree": want_multi}
    if want_musig is not None:
        expect["musig_tree"] = want_musig
        expect["musig_and_single_leaf_tree"] = want_single + want_musig
        expect["everything_tree"] = want_single + want_multi + want_musig
    for name, want in expect.items():
        tree = G_.call("TapRootMultiSig." + name, getattr(tr, name), **kw)
        got = [l.tap_script.commands for l in tree.leaves()]
        for cmds in got:
            if cmds[: len(pre)] != pre:
                return False, f"{name}: a leaf lacks the timelock prefix: {tok_cmds(cmds)[:120]}", tok_cmds(pre)
        for w in want:
            cnt = sum(1 for g_ in got if g_ == w)
            exp = sum(1 for w2 in want if w2 == w)     # 1, except that for k = n the single leaf equals the n-subset's leaf
            if cnt != exp:
                return False, f"{name}: the leaf {tok_cmds(w)[:100]} occurs {cnt} times", exp
        if len(got) != len(want):
            return False, f"{name}: {len(got)} leaves", len(want)
    if G_.bad:
        return False, "modified by " + ",".join(sorted(set(G_.bad))), "arguments unmodified"
    return True, len(expect), len(expect)


def p_spend_badtype(c):
    """negative stream: a 65-byte signature whose last byte is an undefined hash type (0x04, 0x80, 0x84) must not
    verify — whether finalize_p2tr_multisig raises or verify_input answers False"""
    from buidl.ecc import PrivateKey
    from buidl.taproot import MultiSigTapScript, TapRootMultiSig
    privs = [PrivateKey(d) for d in c["ds"]]
    pts = [p.point for p in privs]
    k, sub = c["k"], c["subset"]
    tr = TapRootMultiSig(pts, k)
    internal = tr.default_internal_pubkey
    tree = tr.multi_leaf_tree()
    tx = make_tx(internal.p2tr_script(tree.hash()))
    with contextlib.redirect_stdout(io.StringIO()):
        leaf = MultiSigTapScript([pts[i] for i in sub], k).tap_leaf()
        cb = tree.control_block(internal, leaf)
        tx.initialize_p2tr_multisig(0, cb, leaf.tap_script)
        sigs = [tx.get_sig_taproot(0, privs[i], ext_flag=1) for i in sub]
        sigs[c["which_sig"]] = sigs[c["which_sig"]][:64] + bytes([c["bad"]])
        try:
            tx.finalize_p2tr_multisig(0, sigs)
            ok = bool(tx.verify_input(0))
        except Exception:
            ok = False
    return not ok, ok, False


PREDICATES = {"spend_badtype": p_spend_badtype, "tree_timelock": p_tree_timelock, "session": p_session, "perm": p_perm, "tree_bijection": p_tree_bijection, "spend": p_spend,
              "spend_wrong": p_spend_wrong}


def eval_pred(kc):
    kind, case = kc
    try:
        return PREDICATES[kind](case)
    except Exception as e:
        return False, "raised " + type(e).__name__ + ": " + str(e)[:100], "no exception"


# --------------------------------------------------------------------------------- generation
PFIELD = 2 ** 256 - 2 ** 32 - 977
BRANCHES = [(t, rp, ep) for t in (False, True) for rp in (0, 1) for ep in ((0, 1) if t else (0,))]


def run(ctx):
    import itertools
    rng, rec = ctx.rng, ctx.rec
    drv = ctx.driver("drv_c13")
    lines, preds = [], []

    def add(kind, line, determined=True):
        lines.append((kind, line, determined))

    def flush():
        """run model and implementation on what has been generated so far; False once the property has failed
        (the search for a failing input ends there: the remaining, more expensive stages are skipped)"""
        if lines:
            from concurrent.futures import ThreadPoolExecutor
            with ThreadPoolExecutor(max_workers=1) as ex:      # the model (native driver) runs while the real code does
                fut = ex.submit(par_batch, drv, [l for _, l, _ in lines], ctx.workers)
                impl = pmap(impl_line, [l for _, l, _ in lines], workers=ctx.workers, chunksize=4)
                model = fut.result()
            for (kind, line, det), m, im in zip(lines, model, impl):
                if rec.compare(kind, {"line": line}, im, m, determined=det, key=line[:300]):
                    rec.sample(kind, {"request": line[:300], "answer": m[:300]}, limit=1)
                if im == REJECT or im.endswith(" " + REJECT):
                    rec.count(kind + ":reject")
        if preds:
            results = pmap(eval_pred, preds, workers=ctx.workers, chunksize=1)
            for (kind, case), (ok, got, want) in zip(preds, results):
                if ok:
                    rec.ok(kind, repr(case)[:300])
                    rec.sample(kind, case, limit=1)
                else:
                    rec.violation(kind, dict(case, pred=kind), got, want)
        lines.clear()
        preds.clear()
        return not (rec.violations or rec.disagreements)

    keys = make_keys(rng, ctx.n(11, 40))     # (d, x, y)
    rec.count("pool:even", sum(1 for k in keys if k[2] % 2 == 0))
    rec.count("pool:odd", sum(1 for k in keys if k[2] % 2 == 1))

    def ptok(k):
        return f"pt {k[1]} {k[2]}"

    def pick_set(n, want_mixed=True):
        """n keys with pairwise different x-only keys (the pool holds d and N-d for d = 1, 2: finding F13a)"""
        best = None
        for _ in range(200):
            ks = rng.sample(keys, n)
            if len({k[1] for k in ks}) != n:
                continue
            best = ks
            if not want_mixed or n < 2 or len({k[2] % 2 for k in ks}) == 2:
                return ks
        if best is None:
            raise RuntimeError("no key set with pairwise different x-only keys")
        return best

    # ---- sorting and combinations
    for _ in range(ctx.n(40)):
        l = [rbytes(rng, rng.choice([32, 32, 32, 0, 1, 2, 31, 33])) for _ in range(rng.randrange(0, 7))]
        if l and rng.random() < 0.3:
            l.append(l[0])
        if l and rng.random() < 0.3:
            l.append(l[0][:-1])
        add("sort", f"sort {blist(l)}")
    for n in range(0, 8):
        for k in range(0, n + 2):
            add("combinations", f"combinations {n} {k}")

    # ---- script constructors
    tls = [(None, None), (5, None), (None, 7), (500000, None), (None, 0x400003), (3, 4), (0, None), (None, 16), (17, None)]
    for i in range(ctx.n(30, 150)):
        n = rng.choice([1, 2, 2, 3, 3, 4, 5])
        ks = pick_set(n, want_mixed=False)
        k = rng.choice([1, 1, 2, 2, 3, n, n, 0, 16, 17])
        l, s = tls[i % len(tls)]
        add("multisig_cmds", f"multisig_cmds {n} {' '.join(ptok(x) for x in ks)} {k} {'-' if l is None else l} {'-' if s is None else s}")
        add("musig_new", f"musig_new {n} {' '.join(ptok(x) for x in ks)} {'-' if l is None else l} {'-' if s is None else s}")
    add("multisig_cmds", "multisig_cmds 0 1 - -")
    add("musig_new", "musig_new 0 - -")
    add("musig_new", f"musig_new 2 {ptok(keys[0])} inf - -", determined=False)
    # the same key twice, and a key together with its negation (same x-only key): out of the property's domain
    neg = next((a, b) for a in keys for b in keys if a[1] == b[1] and a[2] != b[2]) if any(
        a[1] == b[1] and a[2] != b[2] for a in keys for b in keys) else None
    add("musig_new:dup", f"musig_new 2 {ptok(keys[5])} {ptok(keys[5])} - -")
    add("musig_new:dup", f"musig_new 3 {ptok(keys[5])} {ptok(keys[6])} {ptok(keys[5])} - -")
    add("musig_new:dup", f"musig_new 3 {ptok(keys[5])} {ptok(keys[5])} {ptok(keys[5])} - -")
    add("musig_new:single", f"musig_new 1 {ptok(keys[5])} - -")
    if neg:
        add("musig_new:neg", f"musig_new 2 {ptok(neg[0])} {ptok(neg[1])} - -")

    # ---- finding F13a (fixed): participants with equal x-only keys; the witnesses are replayed on every run and a
    # get_signature that raises again is the regression
    for wit in ({"parts": [(1, 11, 12), (N - 1, 13, 14)], "sig_hash": xb(bytes(range(32))), "root": "x", "tampers": []},
                {"parts": [(5, 21, 22), (5, 23, 24)], "sig_hash": xb(bytes(range(32))), "root": xb(bytes(32)), "tampers": []},
                {"parts": [(7, 31, 32), (9, 33, 34), (N - 7, 35, 36), (7, 37, 38)], "sig_hash": xb(bytes(32)), "root": "x",
                 "tampers": [("omit", 2), ("alter", 0, 1)]}):
        ok, got, want = eval_pred(("session", wit))
        rec.finding("F13a", not ok, wit)
        if ok:
            rec.ok("session:F13a", repr(wit)[:300])
        ptoks = " ".join(f"{d} {k1} {k2}" for d, k1, k2 in wit["parts"])
        add("session:F13a", f"session {len(wit['parts'])} {ptoks} {wit['sig_hash']} {wit['root']} - - none")

    # ---- permutation invariance
    for i in range(ctx.n(10, 40)):
        n = 2 + i % 4
        ks = pick_set(n)
        perms = list(itertools.permutations(range(n)))
        rng.shuffle(perms)
        preds.append(("perm", {"ds": [k[0] for k in ks], "perms": [list(p) for p in perms[: (3 if not ctx.thorough else 12)]]}))

    if not flush():
        rec.note("stopped after the constructor / permutation stage: failing input found")
        return

    # ---- signing sessions: generated until every branch has been taken
    def new_session(i, tweaked):
        n = 2 + i % 4
        ks = pick_set(n, want_mixed=(i % 3 != 2))
        if i % 5 == 3:      # equal x-only keys: the same key twice, or a key and its negation (secret N - d)
            j, l = rng.sample(range(n), 2)
            if rng.random() < 0.5:
                ks[l] = ks[j]
                rec.count("session:same-key-twice")
            else:
                ks[l] = (N - ks[j][0], ks[j][1], PFIELD - ks[j][2])
                rec.count("session:key-and-negation")
        rng.shuffle(ks)
        parts = []
        for j, k in enumerate(ks):
            k1 = rng.choice([1, N - 1]) if (i % 11 == 0 and j == 0) else rng.randrange(1, N)
            parts.append((k[0], k1, rng.randrange(1, N)))
        root = rbytes(rng, 32) if tweaked else b""
        return {"parts": parts, "sig_hash": xb(rbytes(rng, 32)), "root": xb(root)}

    def with_tampers(c):
        n = len(c["parts"])
        j = rng.randrange(n)
        c["tampers"] = [("omit", rng.randrange(n)), ("alter", j, rng.randrange(1, N)), ("alter", rng.randrange(n), 1),
                        ("alter", rng.randrange(n), -1), ("extra", N), ("extra", -3 * N), ("extra", N - 1)]
        return c

    sessions, seen = [], {}
    target = ctx.n(32, 400)
    rounds = 0
    while True:
        batch = [with_tampers(new_session(len(sessions) + i, tweaked=((len(sessions) + i) % 2 == 0))) for i in range(16 if len(sessions) >= target else (12 if not sessions else target - 12))]
        results = pmap(eval_pred, [("session", c) for c in batch], workers=ctx.workers, chunksize=1)
        for c, (ok, got, want) in zip(batch, results):
            sessions.append(c)
            if ok:
                rec.ok("session", repr(c)[:300])
                rec.sample("session", c, limit=1)
                br = got
                key = (br["tweaked"], br["r_par"], br["ext_par"])
                seen[key] = seen.get(key, 0) + 1
                rec.count(f"branch:tweaked={int(br['tweaked'])},R={br['r_par']},ext={br['ext_par']}")
                for pp in br["p_pars"]:
                    rec.count(f"branch:Q={br['q_par']},P_i={pp}")
                    seen[("qp", br["q_par"], pp)] = seen.get(("qp", br["q_par"], pp), 0) + 1
                rec.count(f"session:n={len(c['parts'])}")
                rec.ok("session:tampered", repr(c)[:200] + "t", n=len(c["tampers"]))
            else:
                rec.violation("session", dict(c, pred="session"), got, want)
        rounds += 1
        need = [b for b in BRANCHES if seen.get(b, 0) < 1] + [q for q in [("qp", a, b) for a in (0, 1) for b in (0, 1)] if seen.get(q, 0) < 1]
        if rec.violations:
            rec.note("stopped during the signing sessions: failing input found")
            return
        if len(sessions) < target:
            continue
        if not need or rounds > 8:
            if need:
                rec.note(f"branches not reached after {len(sessions)} sessions: {need}")
            break

    # ---- the same sessions through the model (all stages compared), a third of them with a tampered sum
    for i, c in enumerate(sessions[: ctx.n(24, 300)]):
        ptoks = " ".join(f"{d} {k1} {k2}" for d, k1, k2 in c["parts"])
        base = f"session {len(c['parts'])} {ptoks} {c['sig_hash']} {c['root']} - -"
        add("session", base + " none")
        if i % 3 == 0:
            tam = c["tampers"][i // 3 % len(c["tampers"])]
            add("session:tampered", base + " " + " ".join(str(x) for x in tam))
    c = sessions[0]
    ptoks = " ".join(f"{d} {k1} {k2}" for d, k1, k2 in c["parts"])
    add("session:timelock", f"session {len(c['parts'])} {ptoks} {c['sig_hash']} {c['root']} 7 - none")
    add("session:badkey", f"session 2 0 5 6 {keys[0][0]} 7 8 {c['sig_hash']} x - - none")
    add("session:zero-nonce", f"session 2 {keys[0][0]} 0 0 {keys[1][0]} 0 0 {c['sig_hash']} x - - none", determined=False)
    add("session:single", f"session 1 {keys[0][0]} 5 6 {c['sig_hash']} x - - none")

    if not flush():
        rec.note("stopped after the signing sessions: failing input found")
        return

    # ---- object-reuse histories: one MuSigTapScript object, several sessions (roots none, A, B, A …), reused participants
    hcases = []
    for hi in range(ctx.n(8, 60)):
        n = 2 + hi % 3
        ks = pick_set(n)
        ra, rb = rbytes(rng, 32), rbytes(rng, 32)
        roots = [b"", ra, rb, ra] if hi % 2 == 0 else [ra, b"", rb, b"", ra]
        sess = []
        msgs = [rbytes(rng, 32) for _ in range(5)]
        if hi % 2 == 1:
            msgs[2] = msgs[0]       # the SAME message signed again later on the same object with fresh nonces
            msgs[3] = msgs[1]
        else:
            msgs[3] = msgs[0]       # ... also under the same root (roots[3] == roots[0] is `ra` vs none: see roots)
        for si, root in enumerate(roots[: (4 if not ctx.thorough else 5)]):
            sess.append({"nonces": [(rng.randrange(1, N), rng.randrange(1, N)) for _ in range(n)],
                         "sig_hash": xb(msgs[si]), "root": xb(root),
                         "touch": [xb(rng.choice([ra, rb, b""]))] if si % 2 == 1 else []})
        sess.append({"nonces": [(rng.randrange(1, N), rng.randrange(1, N)) for _ in range(n)],
                     "sig_hash": sess[-1]["sig_hash"], "root": sess[-1]["root"], "touch": []})
        hcases.append({"ds": [k[0] for k in ks], "sessions": sess})
        rec.count(f"history:n={n}")
    # the protocol as several parties run it: shared list objects (public keys, broadcast nonce pairs, partial sigs)
    for hi in range(ctx.n(8, 60)):
        n = 2 + hi % 4
        ks = pick_set(n)
        hcases.append({"kind": "multiparty", "ds": [k[0] for k in ks],
                       "nonces": [(rng.randrange(1, N), rng.randrange(1, N)) for _ in range(n)],
                       "sig_hash": xb(rbytes(rng, 32)), "root": xb(rbytes(rng, 32) if hi % 2 else b"")})
        rec.count(f"multiparty:n={n}")
    check_histories13(ctx, drv, hcases)
    if rec.violations or rec.disagreements:
        rec.note("stopped after the object-reuse histories: failing input found")
        return

    # ---- trees: all (k, n) with 1 <= k <= n <= 5
    kn = [(k, n) for n in range(1, 6) for k in range(1, n + 1)]
    for (k, n) in kn:
        ks = pick_set(n, want_mixed=(n > 1))
        toks = f"{n} {' '.join(ptok(x) for x in ks)} {k} - -"
        for which in ("internal", "single", "multi", "musig"):
            add(f"trms:{which}", f"trms {which} {toks}")
        rec.count(f"trms:(k,n)=({k},{n})")
        if n >= 2:
            preds.append(("tree_bijection", {"ds": [x[0] for x in ks], "k": k, "which": "multi"}))
            if k >= 2:
                preds.append(("tree_bijection", {"ds": [x[0] for x in ks], "k": k, "which": "musig"}))
    for (k, n, l, s) in [(2, 3, 5, None), (2, 3, None, 9), (1, 2, 700000, None), (2, 2, 3, 4), (0, 2, None, None),
                         (3, 2, None, None), (17, 18, None, None)]:
        ks = [keys[i % len(keys)] for i in range(n)]
        toks = f"{n} {' '.join(ptok(x) for x in ks)} {k} {'-' if l is None else l} {'-' if s is None else s}"
        for which in ("single", "multi", "musig") if n < 10 else ("single",):
            add(f"trms:{which}", f"trms {which} {toks}", determined=False)
    # every generator with a timelock: locktime alone, sequence alone (determined), both (refused)
    tl_cases = [(2, 3, None, None), (2, 3, 5, None), (2, 3, None, 9), (2, 2, 500000, None), (2, 2, None, 0x400003),
                (3, 4, None, 144), (1, 2, 17, None), (2, 3, 3, 4)]
    tl_cases += [(rng.randrange(2, n + 1), n, *rng.choice([(rng.getrandbits(rng.choice([4, 8, 16, 31])), None),
                                                         (None, rng.getrandbits(rng.choice([4, 8, 16, 22])))]))
                 for n in [rng.choice([2, 3, 3, 4]) for _ in range(ctx.n(3, 20))]]
    for (k, n, l, sq) in tl_cases:
        ks = pick_set(n)
        toks = f"{n} {' '.join(ptok(x) for x in ks)} {k} {'-' if l is None else l} {'-' if sq is None else sq}"
        for which in ("single", "multi", "musig", "msl", "everything"):
            add(f"trms:{which}:timelock", f"trms {which} {toks}")
        rec.count("trms:timelock=" + ("both" if l is not None and sq is not None else "locktime" if l is not None
                                      else "sequence" if sq is not None else "none"))
        if not (l is not None and sq is not None):
            preds.append(("tree_timelock", {"ds": [x[0] for x in ks], "k": k, "lock": l, "seq": sq}))
    for n in (0, 1, 2, 3, 4, 5, 6, 7, 10, 11):
        ls = [("L", (0xC0, ("C", [bytes([i]), 0x51]))) for i in range(n)]
        add("combine", f"combine {n} {' '.join(tok_tree(l) for l in ls)}".rstrip())

    if not flush():
        rec.note("end-to-end spends skipped: failing input found")
        return

    # ---- end-to-end spends (sampled: EC-heavy)
    spend_cases = []
    for (k, n) in rng.sample([x for x in kn if x[1] >= 2], ctx.n(5, 14)):
        ks = pick_set(n)
        subs = subsets(list(range(n)), k)
        sub = subs[rng.randrange(len(subs))]
        hts = [rng.choice([0x00, 0x01, 0x02, 0x03, 0x81, 0x82, 0x83]) for _ in sub]   # per signer, independently
        for ht in hts:
            rec.count(f"spend:hash_type={ht:#04x}")
        spend_cases.append(("spend", {"ds": [x[0] for x in ks], "k": k, "which": "multi", "subset": sub, "hash_types": hts}))
        if k >= 2:
            spend_cases.append(("spend", {"ds": [x[0] for x in ks], "k": k, "which": "musig", "subset": sub,
                                          "nonces": [rng.randrange(1, N) for _ in range(2 * k)]}))
            if len(spend_cases) % 3 == 0:
                spend_cases.append(("spend_wrong", {"ds": [x[0] for x in ks], "k": k, "subset": sub}))
    ks = pick_set(3)
    spend_cases.append(("spend", {"ds": [x[0] for x in ks], "k": 2, "which": "single", "subset": [0, 2],
                                  "hash_types": [0x81, 0x83]}))
    # every defined non-default type at least once (the draw above is random), then the undefined ones
    for a, b in ((0x01, 0x81), (0x02, 0x82), (0x03, 0x83)):
        spend_cases.append(("spend", {"ds": [x[0] for x in ks], "k": 2, "which": "multi", "subset": [0, 1],
                                      "hash_types": [a, b]}))
    for bad in (0x04, 0x80, 0x84):
        spend_cases.append(("spend_badtype", {"ds": [x[0] for x in ks], "k": 2, "subset": [1, 2], "bad": bad,
                                              "which_sig": bad % 2}))
    preds += spend_cases

    flush()


def replay(ctx, v):
    """re-execute one recorded violation exactly; True if it still violates"""
    case = v["case"]
    if "history" in case:
        return replay_history13(ctx, case)
    if "line" in case:
        return impl_line(case["line"]) != ctx.driver("drv_c13").one(case["line"])
    ok, _, _ = eval_pred((case["pred"], case))
    return not ok
