"""
C15 — SLIP39 Shamir shares: correspondence between the Lean model (lean/Buidl/Model/Shamir.lean,
Mnemonic.lean; driver drv_c15) and buidl/shamir.py (+ the WordList of buidl/mnemonic.py), plus the
property predicates evaluated directly on the implementation (threshold behaviour over subsets,
rejection of mixed / mismatching shares, parse/mnemonic round trips, RS1024 error detection for
1..3 substituted words, Feistel inversion, GF(256) tables, Lagrange interpolation).

The code's randomness: buidl/shamir.py does `from secrets import randbits`.  The harness replaces
`buidl.shamir.randbits` while the code runs
  * first by a function drawing from a seeded `random.Random` that RECORDS what it returned
    (`_RecBits`): the recorded `id` (the one 15-bit draw of generate_shares) and the list ρ of the 8-bit
    draws (in call order) are written into the request line, so the model is given the same values;
  * then, whenever a request line is evaluated (`impl_line`, also on replay and in forked workers), by a
    function returning exactly the values of the line in order (`_FixedBits`).
The original function is restored afterwards.

Structure (the pattern every harness follows):
  impl_line(line)   evaluate one driver request line on the real code -> canonical answer
  PREDICATES[kind]  property predicates evaluated directly on the real code: case -> (ok, got, want)
  run(ctx)          generate request lines / predicate cases, run both sides, record
  replay(ctx, v)    re-execute one recorded violation exactly
"""
import ast
import contextlib
import itertools
import os
import random
import re

from harness.common import REJECT, REPO, MachineryError, xb, xs, unx, uns, batch_parallel, pmap

PROPERTY = "C15"
DRIVERS = ["drv_c15"]
ANCHORS = [
    ("buidl/shamir.py", "rs1024_polymod"), ("buidl/shamir.py", "rs1024_verify_checksum"),
    ("buidl/shamir.py", "rs1024_create_checksum"),
    ("buidl/shamir.py", "Share.__init__"), ("buidl/shamir.py", "Share.parse"), ("buidl/shamir.py", "Share.mnemonic"),
    ("buidl/shamir.py", "ShareSet._load"), ("buidl/shamir.py", "ShareSet.__init__"),
    ("buidl/shamir.py", "ShareSet._crypt"), ("buidl/shamir.py", "ShareSet.decrypt"), ("buidl/shamir.py", "ShareSet.encrypt"),
    ("buidl/shamir.py", "ShareSet.interpolate"), ("buidl/shamir.py", "ShareSet.digest"),
    ("buidl/shamir.py", "ShareSet.recover_secret"), ("buidl/shamir.py", "ShareSet.recover"),
    ("buidl/shamir.py", "ShareSet.split_secret"), ("buidl/shamir.py", "ShareSet.generate_shares"),
    ("buidl/shamir.py", "ShareSet.recover_mnemonic"),
    ("buidl/mnemonic.py", "WordList.__init__"), ("buidl/mnemonic.py", "WordList.__getitem__"),
]
RULE = ("cases are generated from one PRNG seeded by VERIF_SEED (which also replaces secrets.randbits inside "
        "buidl.shamir, the drawn id and byte randomness being handed to the model) plus a fixed boundary catalogue: "
        "the (k,n) pairs (1,1),(1,5),(1,16),(2,2),(2,3),(3,5),(16,16),(2,16),(15,16) (+11 sampled in quick, all 136 in "
        "thorough), 12- and 24-word secrets, passphrases empty/TREZOR/non-ASCII, exponents 0..2, every non-empty "
        "subset of the shares (shuffled) for n <= 6 and sampled subsets of sizes k-1, k, k+1, n above, mixed and "
        "mismatching share sets, invalid split parameters and secret lengths, 1/2/3-word substitutions, four-letter "
        "prefixes, wrong word counts with a valid checksum, the share vectors inline in buidl/test/test_shamir.py, "
        "Feistel payload lengths 0..64, ids around 2^15/2^16, exponents 19/20/31; a case is non-trivial when its "
        "input is not empty; distinct = distinct (operation, input) pairs")
CLAUSES = {
    "GF(256) tables define a field": "proved (gf256_tables, gf256_field_ops; Mathlib Field instance Buidl.Shamir.GF256.instField; "
                                     "kernel checks tables_check / next_check on the tables computed as _load does)",
    "interpolate = Lagrange interpolation": "proved (interpolate_is_lagrange: Mathlib Lagrange.interpolate, byte by byte, x outside "
                                            "the distinct nodes)",
    "any k or more distinct shares recover the secret": "proved relative to HMAC / PBKDF2 / SHA-256: end to end generate_shares -> "
                                                        "recover_mnemonic for every 1 <= k <= n <= 16, randomness, passphrase, "
                                                        "both lengths, any order (generate_then_recover); core: any_k_shares_recover, "
                                                        "split_shape, split_k1",
    "fewer than k shares are rejected": "proved (fewer_than_k_rejected, fewer_than_k_mnemonics_rejected, no_shares_rejected)",
    "shares of different splits / ids / exponents / thresholds / lengths are rejected": "proved for differing id / exponent / threshold / "
        "count / length / repeated index (accepted_sets_consistent, mismatching_*_rejected, recover_mnemonic_accepts_only_consistent); "
        "two splits that share id and parameters are told apart only by the digest (probability 2^-32 per attempt): correspondence-only",
    "Share.parse ∘ mnemonic round trip": "proved for all in-range fields (parse_mnemonic_roundtrip, slip39_table_facts) and conversely "
                                         "parse is sound: its result is in range and re-encodes to a mnemonic parsing to itself "
                                         "(parse_sound, share_init_iff)",
    "object reuse (one ShareSet / Share / module tables used repeatedly)": "model: recover is a pure function of the attributes fixed at "
        "construction and the current .shares (shareset_recover_repeatable, shareset_history_step, shareset_fresh); correspondence: "
        "kinds ss_history, share_reser, *:again (every query twice), predicates shareset_history, process_state",
    "RS1024 detects any single-word error": "proved at every length and position (rs1024_single_error, share_single_word_error, "
                                            "rs1024_create_verifies)",
    "RS1024 detects two- and three-word errors": "proved for every choice of positions in 20- and 33-word shares: up to three wrong words "
                                                 "with first and last at most 32 positions apart (rs1024_three_errors_partial, kernel "
                                                 "certificate three_check: inverse matrices for all 496 gap pairs) and two wrong words up to "
                                                 "63 apart (rs1024_two_errors_partial, two_check); longer sequences than shares can have: "
                                                 "UNPROVED comment in Props/C15.lean; harness kinds share_parse:corrupt2/3, predicate "
                                                 "corrupted_share_rejected",
    "decrypt ∘ encrypt = id (Feistel)": "proved for every round function of the requested output length (decrypt_encrypt, encrypt_domain)",
    "O15a: k = 1 yields one share whatever n": "observation, modelled faithfully and proved (split_k1); not a finding",
}
TRUSTED = ["HMAC-SHA256 (ShareSet.digest), PBKDF2-HMAC-SHA256 (ShareSet._crypt) and SHA-256 (BIP39 checksum) are "
           "parameters of every theorem; the driver instantiates them with Buidl.Model.Hash.* (checked against hashlib "
           "by harness/hash_selftest.py)",
           "secrets.randbits is replaced, inside buidl.shamir only, by a seeded PRNG whose outputs are passed to the "
           "model as the explicit arguments id and ρ"]
ASSUMPTIONS = ["secrets.randbits(b) returns an integer in [0, 2^b) (the theorems quantify over all such values)",
               "hashlib.pbkdf2_hmac refuses dklen < 1 and iterations > 2^31 - 1 and otherwise computes RFC 2898 PBKDF2",
               "str.split() separates at the code points for which str.isspace() holds",
               "int.to_bytes / int.from_bytes behave as documented"]

NORANDOM = "NORANDOM"   # the code asked for more randomness than the request line supplies


class UnknownOp(Exception):
    pass


class _OutOfRandomness(Exception):
    pass


def rbytes(rng, n):
    return rng.getrandbits(8 * n).to_bytes(n, "little") if n else b""


# --------------------------------------------------------------------------------- randomness of the code
class _RecBits:
    """replacement for secrets.randbits: draws from a seeded PRNG and records (bits, value) in call order;
    `force_id` is returned by the first 15-bit draw instead (to build two splits with the same identifier)"""

    def __init__(self, prng, force_id=None):
        self.prng, self.force_id, self.log = prng, force_id, []

    def __call__(self, bits):
        v = self.prng.getrandbits(bits)
        if bits == 15 and self.force_id is not None and not any(b == 15 for b, _ in self.log):
            v = self.force_id
        self.log.append((bits, v))
        return v


class _FixedBits:
    """replacement for secrets.randbits: returns the given values in order"""

    def __init__(self, values):
        self.values, self.pos = list(values), 0

    def __call__(self, bits):
        if self.pos >= len(self.values):
            raise _OutOfRandomness()
        v = self.values[self.pos]
        self.pos += 1
        return v

    def unused(self):
        return len(self.values) - self.pos


@contextlib.contextmanager
def patched_randbits(fn):
    import buidl.shamir as S
    orig = S.randbits
    S.randbits = fn
    try:
        yield fn
    finally:
        S.randbits = orig


def need_random(k, num_bytes):
    """number of randbits(8) draws split_secret makes according to the model (used only to pad ρ so that the
    model never runs out; both sides report how many values they left unused)"""
    return 0 if k <= 1 else (num_bytes - 4) + (k - 2) * num_bytes


# --------------------------------------------------------------------------------- token helpers
def _nats(t, i):
    k = int(t[i])
    vs = [int(x) for x in t[i + 1: i + 1 + k]]
    if len(vs) != k:
        raise MachineryError("short counted list in request")
    return vs, i + 1 + k


def _points(t, i):
    k = int(t[i])
    if len(t) < i + 1 + 2 * k:
        raise MachineryError("short point list in request")
    return [(int(t[i + 1 + 2 * j]), unx(t[i + 2 + 2 * j])) for j in range(k)], i + 1 + 2 * k


def _strs(t, i):
    k = int(t[i])
    ss = [uns(x) for x in t[i + 1: i + 1 + k]]
    if len(ss) != k:
        raise MachineryError("short string list in request")
    return ss, i + 1 + k


def _end(t, i):
    if i != len(t):
        raise MachineryError("trailing tokens in request")


def fmt_nats(l):
    return " ".join([str(len(l))] + [str(x) for x in l])


def fmt_points(l):
    return " ".join([str(len(l))] + [f"{i} {xb(b)}" for i, b in l])


def fmt_strs(l):
    return " ".join([str(len(l))] + [xs(s) for s in l])


def fmt_share(s):
    return (f"{s.share_bit_length} {s.id} {s.exponent} {s.group_index} {s.group_threshold} {s.group_count} "
            f"{s.member_index} {s.member_threshold} {s.value} {xb(s.bytes)}")


DECRYPT_ROUNDS = (b"\x03", b"\x02", b"\x01", b"\x00")


# --------------------------------------------------------------------------------- implementation side
def _impl(t):
    import buidl.shamir as S

    op = t[0]
    if op == "tables":
        _end(t, 1)
        return f"{fmt_nats(S.ShareSet.exp)} {fmt_nats(S.ShareSet.log2)}"
    if op == "polymod":
        vs, i = _nats(t, 1)
        _end(t, i)
        return str(S.rs1024_polymod(vs))
    if op == "rs_create":
        vs, i = _nats(t, 2)
        _end(t, i)
        return fmt_nats(S.rs1024_create_checksum(unx(t[1]), vs))
    if op == "rs_verify":
        vs, i = _nats(t, 2)
        _end(t, i)
        return "1" if S.rs1024_verify_checksum(unx(t[1]), vs) else "0"
    if op == "interp":
        pts, i = _points(t, 2)
        _end(t, i)
        return xb(S.ShareSet.interpolate(int(t[1]), pts))
    if op == "recover_secret":
        pts, i = _points(t, 1)
        _end(t, i)
        return xb(S.ShareSet.recover_secret(pts))
    if op == "split":
        rho, i = _nats(t, 4)
        _end(t, i)
        with patched_randbits(_FixedBits(rho)) as fb:
            data = S.ShareSet.split_secret(unx(t[1]), int(t[2]), int(t[3]))
        return f"{fmt_points(data)} {fb.unused()}"
    if op == "share_parse":
        _end(t, 2)
        return fmt_share(S.Share.parse(uns(t[1])))
    if op == "share_mnemonic":
        _end(t, 10)
        return xs(S.Share(*[int(x) for x in t[1:10]]).mnemonic())
    if op == "encrypt":
        _end(t, 5)
        return xb(S.ShareSet.encrypt(unx(t[1]), int(t[2]), int(t[3]), unx(t[4])))
    if op == "decrypt":
        _end(t, 5)
        return xb(S.ShareSet._crypt(unx(t[1]), int(t[2]), int(t[3]), unx(t[4]), DECRYPT_ROUNDS))
    if op == "generate":
        rho, i = _nats(t, 7)
        _end(t, i)
        with patched_randbits(_FixedBits([int(t[6])] + rho)):
            ms = S.ShareSet.generate_shares(uns(t[1]), int(t[2]), int(t[3]), unx(t[4]), int(t[5]))
        return fmt_strs(ms)
    if op == "recover_mnemonic":
        ms, i = _strs(t, 2)
        _end(t, i)
        return xs(S.ShareSet.recover_mnemonic(ms, unx(t[1])))
    if op == "share_reser":
        _end(t, 2)
        sh = S.Share.parse(uns(t[1]))
        return f"{xs(sh.mnemonic())} {xs(sh.mnemonic())}"
    if op == "ss_history":
        ms, i = _strs(t, 1)
        k = int(t[i])
        i += 1
        obj = S.ShareSet([S.Share.parse(m) for m in ms])     # a raise here: the whole line is REJECT
        out = []
        for _ in range(k):
            if t[i] == "R":
                try:
                    out.append(xb(obj.recover(unx(t[i + 1]))))
                except Exception:
                    out.append("RAISED")
                i += 2
            elif t[i] == "S":
                new, i = _strs(t, i + 1)
                obj.shares = [S.Share.parse(m) for m in new]   # a raise here: REJECT
            else:
                raise UnknownOp(t[i])
        _end(t, i)
        return " ".join([str(len(out))] + out)
    raise UnknownOp(op)


def impl_line(line):
    t = line.split(" ")
    try:
        return _impl(t)
    except (UnknownOp, MachineryError):
        raise
    except _OutOfRandomness:
        return NORANDOM
    except Exception:
        return REJECT


def model_line(line):
    return line


# --------------------------------------------------------------------------------- independent GF(256)
def gf_mul(a, b):
    """carry-less multiplication modulo x^8 + x^4 + x^3 + x + 1 (0x11B)"""
    r = 0
    while b:
        if b & 1:
            r ^= a
        a <<= 1
        if a & 0x100:
            a ^= 0x11B
        b >>= 1
    return r


def gf_inv(a):
    r = 1
    for _ in range(254):   # a^254 = a^-1 in GF(256)*
        r = gf_mul(r, a)
    return r


def lagrange(x, pts):
    """value at x of the polynomial of degree < len(pts) through pts (distinct abscissae), bytewise"""
    out = bytearray(len(pts[0][1]))
    for i, (xi, yi) in enumerate(pts):
        num = den = 1
        for j, (xj, _) in enumerate(pts):
            if j != i:
                num = gf_mul(num, x ^ xj)
                den = gf_mul(den, xi ^ xj)
        c = gf_mul(num, gf_inv(den))
        for p in range(len(out)):
            out[p] ^= gf_mul(yi[p], c)
    return bytes(out)


# --------------------------------------------------------------------------------- direct predicates
def _recover(shares, pw):
    import buidl.shamir as S
    try:
        return S.ShareSet.recover_mnemonic(list(shares), pw)
    except Exception:
        return REJECT


def p_recover_want(c):
    """recover_mnemonic(shares, pass) must give c['want'] (the original mnemonic, or REJECT)"""
    got = _recover(c["shares"], unx(c["pass"]))
    return got == c["want"], got, c["want"]


def p_split_recover(c):
    """raw level: any >= k shares of split_secret(secret, k, n) give the secret back (k >= 2)"""
    import buidl.shamir as S
    secret = unx(c["secret"])
    with patched_randbits(_FixedBits(c["rho"])):
        data = S.ShareSet.split_secret(secret, c["k"], c["n"])
    sub = [data[i] for i in c["subset"]]
    got = S.ShareSet.recover_secret(sub)
    return got == secret, xb(got), xb(secret)


def p_parse_mnemonic_rt(c):
    import buidl.shamir as S
    got = S.Share.parse(c["m"]).mnemonic()
    return got == c["m"], got, c["m"]


def p_mnemonic_parse_rt(c):
    import buidl.shamir as S
    f = list(c["fields"])
    s = S.Share.parse(S.Share(*f).mnemonic())
    got = [s.share_bit_length, s.id, s.exponent, s.group_index, s.group_threshold, s.group_count,
           s.member_index, s.member_threshold, s.value]
    ok = got == f and s.bytes == f[8].to_bytes(f[0] // 8, "big")
    return ok, got, f


def p_corrupt_rejected(c):
    """a share mnemonic with 1..3 words replaced by different table words must be refused"""
    import buidl.shamir as S
    if c["m"].split() == c["orig"].split():
        raise MachineryError("corruption case without an altered word")
    try:
        s = S.Share.parse(c["m"])
    except Exception:
        return True, REJECT, REJECT
    return False, fmt_share(s), REJECT


def p_prefix_same(c):
    """four-letter prefixes of the words denote the same share"""
    import buidl.shamir as S
    a, b = S.Share.parse(c["m"]), S.Share.parse(c["short"])
    return fmt_share(a) == fmt_share(b), fmt_share(b), fmt_share(a)


def p_crypt_rt(c):
    import buidl.shamir as S
    x, i, e, pw = unx(c["payload"]), c["id"], c["e"], unx(c["pass"])
    enc = S.ShareSet.encrypt(x, i, e, pw)
    got = S.ShareSet._crypt(enc, i, e, pw, DECRYPT_ROUNDS)
    # also through the instance method, with the object's id / exponent
    obj = S.ShareSet.__new__(S.ShareSet)
    obj.id, obj.exponent = i, e
    got2 = obj.decrypt(enc, pw)
    ok = got == x and got2 == x and len(enc) == len(x)
    return ok, [xb(got), xb(got2)], [xb(x), xb(x)]


def p_tables(c):
    """ShareSet.exp / log2 = powers / discrete logs of the generator 3 in GF(2^8)/0x11B, mutually inverse"""
    import buidl.shamir as S
    at_import = [list(S.ShareSet.exp), list(S.ShareSet.log2)]
    S.ShareSet._load()   # what the module does at import time; deterministic
    exp, log = list(S.ShareSet.exp), list(S.ShareSet.log2)
    if [exp, log] != at_import:
        return False, [exp, log], at_import
    want_exp, cur = [], 1
    for _ in range(255):
        want_exp.append(cur)
        cur = gf_mul(cur, 3)
    want_log = [0] * 256
    for i, v in enumerate(want_exp):
        want_log[v] = i
    ok = (exp == want_exp and log == want_log and cur == 1 and sorted(want_exp) == list(range(1, 256))
          and all(exp[log[a]] == a for a in range(1, 256)) and all(log[exp[i]] == i for i in range(255)))
    return ok, [exp, log], [want_exp, want_log]


def p_wordlist(c):
    """WordList("slip39_words.txt", 1024): 1024 distinct words of >= 4 letters with pairwise distinct four-letter
    prefixes (so that prefix lookup is well defined), full-word and prefix lookup give the index, another
    declared size is refused"""
    import buidl.shamir as S
    import buidl.mnemonic as M
    wl = M.WordList("slip39_words.txt", 1024)
    ws = wl.words
    ok = (ws == S.SLIP39.words and wl.lookup == S.SLIP39.lookup and len(ws) == 1024 and len(set(ws)) == 1024
          and all(len(w) >= 4 for w in ws) and len({w[:4] for w in ws}) == 1024
          and all(wl[w] == i and wl[w[:4]] == i and wl[i] == w for i, w in enumerate(ws)))
    for bad in (1023, 1025, 2048):
        try:
            M.WordList("slip39_words.txt", bad)
            ok = False
        except ValueError:
            pass
    return ok, len(ws), 1024


# sha256 of "\n".join(words) + "\n" of slip39_words.txt as it was when this harness was written (a lock value; the
# official SLIP39 vectors embedded in buidl/test/test_shamir.py, replayed by the kinds share_parse:vectors and
# recover_mnemonic:vectors, tie the list to the standard independently)
SLIP39_SHA256 = "bcc4555340332d169718aed8bf31dd9d5248cb7da6e5d355140ef4f1e601eec3"


def p_fingerprint(c):
    import hashlib
    with open(os.path.join(REPO, "buidl", "slip39_words.txt")) as f:
        words = f.read().split()
    got = hashlib.sha256(("\n".join(words) + "\n").encode()).hexdigest()
    return got == SLIP39_SHA256, got, SLIP39_SHA256


def p_interp_lagrange(c):
    import buidl.shamir as S
    pts = [(x, unx(y)) for x, y in c["pts"]]
    got = S.ShareSet.interpolate(c["x"], pts)
    want = lagrange(c["x"], pts)
    return got == want, xb(got), xb(want)


PREDICATES = {
    "any_k_subset_recovers": p_recover_want,
    "fewer_than_k_rejected": p_recover_want,
    "duplicate_share_rejected": p_recover_want,
    "mixed_splits_rejected": p_recover_want,
    "mismatch_exponent_rejected": p_recover_want,
    "mismatch_threshold_rejected": p_recover_want,
    "mismatch_count_rejected": p_recover_want,
    "mismatch_length_rejected": p_recover_want,
    "split_any_k_recover_secret": p_split_recover,
    "parse_mnemonic_roundtrip": p_parse_mnemonic_rt,
    "mnemonic_parse_roundtrip": p_mnemonic_parse_rt,
    "corrupted_share_rejected": p_corrupt_rejected,
    "prefix_words_same_share": p_prefix_same,
    "decrypt_encrypt_id": p_crypt_rt,
    "gf256_tables": p_tables,
    "slip39_wordlist": p_wordlist,
    "slip39_fingerprint": p_fingerprint,
    "interpolate_is_lagrange": p_interp_lagrange,
}


def eval_pred(kind, case):
    try:
        return PREDICATES[kind](case)
    except MachineryError:
        raise
    except Exception as e:
        return False, "raised " + type(e).__name__, "no exception"


def _eval_item(item):
    return eval_pred(item[0], item[1])


# --------------------------------------------------------------------------------- test vectors
_SHARE_RE = re.compile(r"^[a-z]+( [a-z]+){19}$|^[a-z]+( [a-z]+){32}$")


def vector_groups():
    """lists of share mnemonics written inline in buidl/test/test_shamir.py (string literals of 20 or 33
    lowercase words), grouped as they are in the file"""
    path = os.path.join(REPO, "buidl", "test", "test_shamir.py")
    tree = ast.parse(open(path).read())
    groups = []
    for node in ast.walk(tree):
        if isinstance(node, ast.List) and node.elts and all(
                isinstance(e, ast.Constant) and isinstance(e.value, str) and _SHARE_RE.match(e.value)
                for e in node.elts):
            groups.append([e.value for e in node.elts])
    return groups


def official_vectors():
    """(name, share mnemonics, expected master secret hex) of the valid official SLIP39 vectors listed in
    ShamirTest.test_recover (passphrase b"TREZOR")"""
    path = os.path.join(REPO, "buidl", "test", "test_shamir.py")
    tree = ast.parse(open(path).read())
    out = []
    for fn in ast.walk(tree):
        if isinstance(fn, ast.FunctionDef) and fn.name == "test_recover":
            for node in ast.walk(fn):
                if (isinstance(node, ast.List) and len(node.elts) == 3
                        and isinstance(node.elts[0], ast.Constant) and isinstance(node.elts[0].value, str)
                        and isinstance(node.elts[1], ast.List)
                        and isinstance(node.elts[2], ast.Constant) and isinstance(node.elts[2].value, str)
                        and all(isinstance(e, ast.Constant) and isinstance(e.value, str) for e in node.elts[1].elts)
                        and re.fullmatch(r"[0-9a-f]{32}|[0-9a-f]{64}", node.elts[2].value)):
                    out.append((node.elts[0].value, [e.value for e in node.elts[1].elts], node.elts[2].value))
    return out


def p_official_vector(c):
    """an official SLIP39 vector (valid share set, passphrase TREZOR) recovers the published master secret: ties the
    word list, the RS1024 generator, the GF(256) tables, the digest and the Feistel parameters to the standard"""
    import buidl.shamir as S
    got = S.ShareSet([S.Share.parse(m) for m in c["shares"]]).recover(b"TREZOR").hex()
    return got == c["secret"], got, c["secret"]


PREDICATES["official_vector_recovers"] = p_official_vector


def p_shareset_history(c):
    """ONE ShareSet object: recover with the right passphrase, a wrong one, the right one again (the first and the last
    answer are the secret, the object is not changed by a failed or foreign-passphrase call); shares reordered, one
    removed (still >= k: same secret; below k: raises), put back (secret again); Share objects re-serialised twice
    give the mnemonic they were parsed from both times"""
    import buidl.shamir as S
    import buidl.mnemonic as M
    secret = M.mnemonic_to_bytes(c["mn"])
    pw, k = unx(c["pass"]), c["k"]
    objs = [S.Share.parse(m) for m in c["shares"]]
    bad = []
    for m, o in zip(c["shares"], objs):
        if o.mnemonic() != m or o.mnemonic() != m:
            bad.append("re-serialisation differs")
    obj = S.ShareSet(list(objs))

    def rec_(p):
        try:
            return obj.recover(p)
        except Exception:
            return REJECT
    seq = [rec_(pw), rec_(pw + b"x"), rec_(pw), rec_(pw)]
    if seq[0] != secret or seq[2] != secret or seq[3] != secret:
        bad.append("repeated recover differs")
    obj.shares = list(reversed(objs))
    if rec_(pw) != secret:
        bad.append("reordered")
    if len(objs) > k:
        obj.shares = objs[1:]
        if rec_(pw) != secret:
            bad.append("one removed, still >= k")
    if k >= 2:
        obj.shares = objs[:k - 1]
        if rec_(pw) != REJECT:
            bad.append("below k accepted")
    obj.shares = list(objs)
    if rec_(pw) != secret:
        bad.append("put back")
    for m, o in zip(c["shares"], objs):
        if o.mnemonic() != m:
            bad.append("share object changed by recover")
    return not bad, bad, []


def p_process_state(c):
    """the module-level state survives use: ShareSet.exp / log2 and the SLIP39 / BIP39 word tables are identical before
    and after a series of generate_shares / recover_mnemonic calls (seeded randomness), after calling _load() again,
    and the same recover_mnemonic query answers the same before and after"""
    import buidl.shamir as S
    import buidl.mnemonic as M
    snap = lambda: (list(S.ShareSet.exp), list(S.ShareSet.log2), list(S.SLIP39.words), dict(S.SLIP39.lookup),
                    list(M.BIP39.words), dict(M.BIP39.lookup))
    before = snap()
    rng = random.Random(c["seed"])
    bad = []
    probe = None
    for rnd in range(c["rounds"]):
        ent = bytes(rng.getrandbits(8) for _ in range(rng.choice([16, 32])))
        mn = M.bytes_to_mnemonic(ent, 8 * len(ent))
        n = rng.randint(1, 6)
        k = rng.randint(1, n)
        pw = rng.choice([b"", b"TREZOR", b"x y"])
        with patched_randbits(_RecBits(random.Random(rng.getrandbits(32)))):
            shares = S.ShareSet.generate_shares(mn, k, n, pw, 0)
        sub = rng.sample(shares, min(len(shares), k))
        got = S.ShareSet.recover_mnemonic(sub, pw)
        if got != mn:
            bad.append(f"round {rnd}: wrong mnemonic")
        if probe is None:
            probe = (sub, pw, mn)
        if rnd == c["rounds"] // 2:
            S.ShareSet._load()
        if snap() != before:
            bad.append(f"round {rnd}: module tables changed")
            break
    if probe and S.ShareSet.recover_mnemonic(probe[0], probe[1]) != probe[2]:
        bad.append("first query answers differently at the end")
    return not bad, bad, []


PREDICATES["shareset_history"] = p_shareset_history
PREDICATES["process_state"] = p_process_state


# --------------------------------------------------------------------------------- generation
# passphrases are bytes and are used verbatim: empty, ASCII, UTF-8, arbitrary bytes, surrounded by whitespace
PASSPHRASES = [b"", b"TREZOR", "pässwörd €".encode("utf-8"), b"\x00\xff\xfe\x80", b" leading", b"trailing\n", b" ",
               b"\t both \r\n", b"\x0b\x0c", b"a" * 200]
FIXED_PAIRS = [(1, 1), (1, 5), (1, 16), (2, 2), (2, 3), (3, 5), (16, 16), (2, 16), (15, 16)]
ALL_PAIRS = [(k, n) for n in range(1, 17) for k in range(1, n + 1)]


def run(ctx):
    import buidl.shamir as S
    import buidl.mnemonic as M

    rng, rec = ctx.rng, ctx.rec
    drv = ctx.driver("drv_c15")
    lines = []   # (kind, request line)
    preds = []   # (kind, case)
    pre = {}     # request line -> implementation answer already computed while generating
    cost = [0]   # e=0-equivalent Feistel passes requested from the driver
    words = list(S.SLIP39.words)

    def add(kind, toks):
        line = " ".join(str(x) for x in toks)
        lines.append((kind, line))
        return line

    def pw_choice():
        return rng.choice([b"", b"", b"TREZOR", rng.choice(PASSPHRASES), rbytes(rng, rng.randrange(1, 40))])

    if ctx.thorough:
        pairs = list(ALL_PAIRS)
    else:
        rest = [p for p in ALL_PAIRS if p not in FIXED_PAIRS]
        pairs = FIXED_PAIRS + rng.sample(rest, min(len(rest), ctx.n(11, 127)))

    # ---------------------------------------------------------------- 1. tables, RS1024
    add("tables", ["tables"])
    preds.append(("gf256_tables", {}))
    preds.append(("slip39_wordlist", {}))
    preds.append(("slip39_fingerprint", {}))
    vlists = [[], [0], [1023], [0, 0, 0], [1] * 40, [1023] * 40, [1024], [2 ** 20], [2 ** 30 + 5, 7],
              [2 ** 64, 1, 2], list(range(20))]
    for _ in range(ctx.n(300)):
        ln = rng.randrange(0, 41)
        vs = [rng.randrange(1024) for _ in range(ln)]
        if vs and rng.random() < 0.05:
            vs[rng.randrange(ln)] = rng.choice([1024, 1025, 2 ** 16, rng.getrandbits(40)])
        vlists.append(vs)
    for vs in vlists:
        add("polymod", ["polymod", fmt_nats(vs)])
        for cs in (b"shamir", b"", rng.choice([b"shamir", b"Shamir", b"\xff", b"bip"])):
            add("rs_create", ["rs_create", xb(cs), fmt_nats(vs)])
            add("rs_verify", ["rs_verify", xb(cs), fmt_nats(vs)])
            if all(v < 1024 for v in vs):   # a data part followed by its checksum verifies
                good = vs + S.rs1024_create_checksum(cs, vs)
                add("rs_verify", ["rs_verify", xb(cs), fmt_nats(good)])
                if good:
                    bad = list(good)
                    bad[rng.randrange(len(bad))] ^= rng.randrange(1, 1024)
                    add("rs_verify", ["rs_verify", xb(cs), fmt_nats(bad)])

    # ---------------------------------------------------------------- 2. interpolate / recover_secret
    def add_points(x, pts, kind=""):
        add("interp" + kind, ["interp", x, fmt_points(pts)])

    for _ in range(ctx.n(300)):
        m = rng.choice([1, 2, 2, 3, 3, 4, 5, 8, 16])
        nb = rng.choice([16, 32])
        nodes = rng.sample(range(16), m)
        pts = [(xi, rbytes(rng, nb)) for xi in nodes]
        if rng.random() < 0.2:   # zero bytes exercise the `if y > 0` branch
            pts[0] = (pts[0][0], bytes(nb))
        outside = [v for v in range(256) if v not in nodes]
        for x in (255, 254, rng.choice(outside)):
            add_points(x, pts)
            preds.append(("interpolate_is_lagrange", {"x": x, "pts": [[xi, xb(y)] for xi, y in pts]}))
        add("recover_secret", ["recover_secret", fmt_points(pts)])
    for _ in range(ctx.n(40)):
        nb = rng.choice([16, 32])
        nodes = rng.sample(range(16), 3)
        pts = [(xi, rbytes(rng, nb)) for xi in nodes]
        degenerate = [
            (nodes[0], pts),                                               # x equal to a node
            (255, [pts[0], pts[1], (pts[0][0], rbytes(rng, nb))]),         # duplicate abscissa
            (255, [pts[0], pts[0]]),                                       # the same share twice
            (255, []),                                                     # no share
            (255, [pts[0]]),                                               # one share only
            (255, [pts[0], (pts[1][0], rbytes(rng, 48 - nb)), pts[2]]),    # different byte lengths
            (255, [(pts[0][0], rbytes(rng, 3)), pts[1]]),                  # short first share
            (255, [(pts[0][0], b""), pts[1]]),
            (255, [(255, pts[0][1]), pts[1]]),                             # a node at x itself
            (rng.choice([256, 300, 511, 2 ** 16]), pts),                   # x outside the table
            (255, [(256, pts[0][1]), pts[1]]),                             # node outside the table
            (0, [(255, pts[0][1]), (254, pts[1][1])]),
        ]
        for x, p in degenerate:
            add_points(x, p, ":degenerate")
            add("recover_secret:degenerate", ["recover_secret", fmt_points(p)])

    # ---------------------------------------------------------------- 3. split_secret
    def draw_split(secret, k, n, extra=0):
        """run the real split_secret on PRNG-drawn randomness, recording it; returns the request line"""
        rb = _RecBits(random.Random(rng.getrandbits(64)))
        with patched_randbits(rb):
            try:
                S.ShareSet.split_secret(secret, k, n)
            except Exception:
                pass
        rho = [v & 0xFF for _, v in rb.log]
        if 1 <= k <= n <= 16 and len(secret) in (16, 32):
            while len(rho) < need_random(k, len(secret)):
                rho.append(rng.getrandbits(8))
        rho += [rng.getrandbits(8) for _ in range(extra)]
        return rho

    split_reps = ctx.n(3, 6)
    for (k, n) in pairs:
        for nb in (16, 32):
            for r in range(split_reps):
                secret = rbytes(rng, nb) if r else rng.choice([bytes(nb), b"\xff" * nb, rbytes(rng, nb)])
                rho = draw_split(secret, k, n, extra=rng.choice([0, 0, 3]))
                line = add("split", ["split", xb(secret), k, n, fmt_nats(rho)])
                ans = impl_line(line)
                pre[line] = ans
                if k == 1:
                    # observation O15a: one share (0, secret) whatever n is — recorded, never a violation
                    unused = ans.split(" ")[-1] if ans != REJECT else ""
                    rec.count("O15a:k=1 yields the single share (0, secret)" if ans == f"1 0 {xb(secret)} {unused}"
                              else "O15a:not observed")
                    continue
                if ans in (REJECT, NORANDOM) or r > 0:
                    continue
                t = ans.split(" ")
                data = [(int(t[1 + 2 * j]), unx(t[2 + 2 * j])) for j in range(int(t[0]))]
                m = len(data)
                if m <= 6:
                    subs = [list(c) for s in range(1, m + 1) for c in itertools.combinations(range(m), s)]
                else:
                    subs = [rng.sample(range(m), s) for s in sorted({k - 1, k, k + 1, m}) if 1 <= s <= m]
                for sub in subs:
                    rng.shuffle(sub)
                    pts = [data[i] for i in sub]
                    add("recover_secret:split", ["recover_secret", fmt_points(pts)])
                    add("interp:split", ["interp", 255, fmt_points(pts)])
                    if len(sub) >= k:
                        preds.append(("split_any_k_recover_secret",
                                      {"secret": xb(secret), "k": k, "n": n, "rho": rho, "subset": sub}))
    for nb_bad in (0, 15, 17, 31, 33, 64):
        for (k, n) in ((1, 1), (2, 3), (3, 5)):
            secret = rbytes(rng, nb_bad)
            add("split:invalid", ["split", xb(secret), k, n, fmt_nats(draw_split(secret, k, n, extra=100))])
    for (k, n) in ((1, 0), (0, 0), (1, 17), (2, 17), (17, 17), (0, 1), (0, 5), (2, 1), (6, 5), (17, 16), (16, 15),
                   (300, 5), (5, 300)):
        for nb in (16, 32):
            secret = rbytes(rng, nb)
            add("split:invalid", ["split", xb(secret), k, n, fmt_nats(draw_split(secret, k, n, extra=64))])

    # ---------------------------------------------------------------- 4. generate / recover_mnemonic end to end
    def bip39(nwords):
        nb = {12: 16, 15: 20, 18: 24, 21: 28, 24: 32}[nwords]
        return M.bytes_to_mnemonic(rbytes(rng, nb), nb * 8)

    def make_set(mn, k, n, pw, e, force_id=None, kind="generate"):
        """generate_shares on PRNG-drawn randomness (recorded) -> request line; returns (shares | None, id)"""
        rb = _RecBits(random.Random(rng.getrandbits(64)), force_id)
        with patched_randbits(rb):
            try:
                S.ShareSet.generate_shares(mn, k, n, passphrase=pw, exponent=e)
            except Exception:
                pass
        ids = [v for b, v in rb.log if b == 15]
        ident = ids[0] if ids else (force_id if force_id is not None else rng.getrandbits(15))
        rho = [v & 0xFF for b, v in rb.log if b != 15]
        nb = {12: 16, 24: 32}.get(len(mn.split()))
        if nb and 1 <= k <= n <= 16:
            while len(rho) < need_random(k, nb):
                rho.append(rng.getrandbits(8))
        line = add(kind, ["generate", xs(mn), k, n, xb(pw), e, ident, fmt_nats(rho)])
        ans = impl_line(line)
        pre[line] = ans
        cost[0] += 1 << min(e, 8)
        if ans in (REJECT, NORANDOM):
            return None, ident
        t = ans.split(" ")
        return [uns(x) for x in t[1:]], ident

    def add_recover(kind, shares, pw, e, reaches_decrypt=True):
        if reaches_decrypt:
            cost[0] += 1 << min(e, 8)
        return add(kind, ["recover_mnemonic", xb(pw), fmt_strs(shares)])

    def subsets_of(m, k):
        if m <= 6:
            subs = [list(c) for s in range(1, m + 1) for c in itertools.combinations(range(m), s)]
        else:
            subs = []
            for s in sorted({k - 1, k, k + 1, m}):
                if 1 <= s <= m:
                    for _ in range(1 if s == m else 2):
                        subs.append(rng.sample(range(m), s))
            subs.append(rng.sample(range(m), rng.randint(1, m)))
            subs.append([rng.randrange(m)])   # a single share
        for sub in subs:
            rng.shuffle(sub)
        return subs

    all_shares = []   # (share mnemonic, set index)
    sets = []         # dicts describing each generated share set
    e2_left = ctx.n(2, 12)
    specs = []
    for idx, (k, n) in enumerate(pairs):
        for nwords in ((12, 24) if ctx.thorough else ((12,) if idx % 2 == 0 else (24,))):
            specs.append((k, n, nwords))
    for idx, (k, n, nwords) in enumerate(specs):
        m_expected = 1 if k == 1 else n
        n_success = (sum(1 for s in range(k, m_expected + 1) for _ in itertools.combinations(range(m_expected), s))
                     if m_expected <= 6 else 8)
        e = 0
        if n_success <= 8 and e2_left > 0 and idx % 3 == 1:
            e, e2_left = 2, e2_left - 1
        elif n_success <= 20 and idx % 4 == 2:
            e = 1
        pw = PASSPHRASES[idx] if idx < len(PASSPHRASES) else pw_choice()
        mn = bip39(nwords)
        shares, ident = make_set(mn, k, n, pw, e)
        if shares is None:
            rec.violation("generate", {"line": lines[-1][1]}, REJECT, "a list of share mnemonics",
                          note="generate_shares refused valid arguments")
            continue
        st = {"mn": mn, "k": k, "n": n, "pw": pw, "e": e, "shares": shares, "id": ident, "nwords": nwords}
        sets.append(st)
        for s in shares:
            all_shares.append(s)
        base = {"pass": xb(pw), "k": k, "n": n, "e": e}
        for sub in subsets_of(len(shares), k):
            chosen = [shares[i] for i in sub]
            if len(sub) >= k:
                add_recover("recover:enough", chosen, pw, e)
                preds.append(("any_k_subset_recovers", dict(base, shares=chosen, want=mn, why=f"{len(sub)} of {k}-of-{n}")))
            else:
                add_recover("recover:too_few", chosen, pw, e, reaches_decrypt=False)
                preds.append(("fewer_than_k_rejected", dict(base, shares=chosen, want=REJECT, why=f"{len(sub)} of {k}-of-{n}")))
        # wrong passphrase: decrypts to something else (only model / implementation agreement counts)
        sub = rng.sample(range(len(shares)), min(k, len(shares)))
        add_recover("recover:wrong_pass", [shares[i] for i in sub], pw + b"x", e)
        # a duplicated share
        sub = rng.sample(range(len(shares)), min(len(shares), rng.choice([1, k, k + 1])))
        chosen = [shares[i] for i in sub]
        chosen.insert(rng.randrange(len(chosen) + 1), rng.choice(chosen))
        add_recover("recover:duplicate", chosen, pw, e, reaches_decrypt=False)
        preds.append(("duplicate_share_rejected", dict(base, shares=chosen, want=REJECT, why="a share given twice")))
        # no share at all
        if idx == 0:
            add_recover("recover:empty", [], pw, e, reaches_decrypt=False)

    # invalid arguments of generate_shares
    for nwords in (15, 18, 21):
        make_set(bip39(nwords), 2, 3, b"", 0, kind="generate:invalid")
    mn12 = bip39(12)
    bad_mns = [" ".join(mn12.split()[:11]), mn12 + " abandon", "", "zzzz " * 12,
               " ".join(mn12.split()[:11] + [rng.choice([w for w in M.BIP39.words if w != mn12.split()[11]])])]
    for bm in bad_mns:
        make_set(bm, 2, 3, b"", 0, kind="generate:invalid")
    for (k, n) in ((0, 1), (2, 1), (1, 0), (1, 17), (17, 17), (0, 0)):
        make_set(bip39(rng.choice([12, 24])), k, n, b"", 0, kind="generate:invalid")
    for e in (20, 31, 60):
        make_set(bip39(12), 2, 3, b"", e, kind="generate:invalid")
    # four-letter prefixes / odd whitespace in the BIP39 mnemonic are accepted by mnemonic_to_bytes
    mn24 = bip39(24)
    make_set(" ".join(w[:4] for w in mn24.split()), 2, 3, b"TREZOR", 0, kind="generate:spelling")
    make_set("  " + mn12.replace(" ", "\t  ") + " ", 1, 1, b"", 0, kind="generate:spelling")

    # mixing shares of different splits
    mixable = [s for s in sets if s["k"] >= 2 and s["e"] == 0]
    rng.shuffle(mixable)
    for a in mixable[: ctx.n(8, 40)]:
        k, n, pw, nwords = a["k"], a["n"], a["pw"], a["nwords"]
        base = {"pass": xb(pw), "k": k, "n": n, "e": 0}

        def mix(b_shares, take_a=None):
            """k shares: some of split A, the others of split B, at pairwise different indices"""
            idxs = rng.sample(range(min(len(a["shares"]), len(b_shares))), min(k, len(b_shares), len(a["shares"])))
            na = take_a if take_a is not None else rng.randrange(1, len(idxs))
            chosen = [a["shares"][i] for i in idxs[:na]] + [b_shares[i] for i in idxs[na:]]
            rng.shuffle(chosen)
            return chosen

        # another secret, another id
        b, idb = make_set(bip39(nwords), k, n, pw, 0, kind="generate:mix")
        if b is not None and idb != a["id"]:
            chosen = mix(b)
            add_recover("recover:mixed_ids", chosen, pw, 0, reaches_decrypt=False)
            preds.append(("mixed_splits_rejected", dict(base, shares=chosen, want=REJECT, why="two splits, different ids")))
        # another secret, the SAME id: a digest mismatch with overwhelming probability (model agreement only)
        b, _ = make_set(bip39(nwords), k, n, pw, 0, force_id=a["id"], kind="generate:mix")
        if b is not None:
            add_recover("recover:mixed_same_id", mix(b), pw, 0, reaches_decrypt=False)
            add_recover("recover:mixed_same_id", a["shares"][:k - 1] + [b[k - 1]] + a["shares"][k:], pw, 0,
                        reaches_decrypt=False)
        # same id, other exponent
        b, _ = make_set(a["mn"], k, n, pw, 1, force_id=a["id"], kind="generate:mix")
        if b is not None:
            chosen = mix(b)
            add_recover("recover:mixed_exponent", chosen, pw, 0, reaches_decrypt=False)
            preds.append(("mismatch_exponent_rejected", dict(base, shares=chosen, want=REJECT, why="exponents 0 and 1")))
        # same id, other threshold
        k2 = k + 1 if k + 1 <= n else k - 1
        if 2 <= k2 <= n:
            b, _ = make_set(a["mn"], k2, n, pw, 0, force_id=a["id"], kind="generate:mix")
            if b is not None:
                chosen = mix(b)
                add_recover("recover:mixed_threshold", chosen, pw, 0, reaches_decrypt=False)
                preds.append(("mismatch_threshold_rejected", dict(base, shares=chosen, want=REJECT, why=f"thresholds {k} and {k2}")))
        # same id, other share count
        n2 = n + 1 if n < 16 else n - 1
        if n2 >= k:
            b, _ = make_set(a["mn"], k, n2, pw, 0, force_id=a["id"], kind="generate:mix")
            if b is not None:
                chosen = mix(b)
                add_recover("recover:mixed_count", chosen, pw, 0, reaches_decrypt=False)
                preds.append(("mismatch_count_rejected", dict(base, shares=chosen, want=REJECT, why=f"counts {n} and {n2}")))
        # same id, other secret length
        b, _ = make_set(bip39(36 - nwords), k, n, pw, 0, force_id=a["id"], kind="generate:mix")
        if b is not None:
            chosen = mix(b)
            add_recover("recover:mixed_length", chosen, pw, 0, reaches_decrypt=False)
            preds.append(("mismatch_length_rejected", dict(base, shares=chosen, want=REJECT, why="128- and 256-bit shares")))

    # crafted shares: header fields altered and re-encoded with the real Share.mnemonic (model agreement only)
    def reencode(m, **chg):
        s = S.Share.parse(m)
        f = {"share_bit_length": s.share_bit_length, "id": s.id, "exponent": s.exponent, "group_index": s.group_index,
             "group_threshold": s.group_threshold, "group_count": s.group_count, "member_index": s.member_index,
             "member_threshold": s.member_threshold, "value": s.value}
        f.update(chg)
        try:
            return S.Share(**f).mnemonic()
        except Exception as ex:
            # every field is inside its SLIP39 range (indices 0..15, thresholds/counts 1..16): the constructor must take it
            line = add("share_mnemonic", ["share_mnemonic", f["share_bit_length"], f["id"], f["exponent"], f["group_index"],
                                          f["group_threshold"], f["group_count"], f["member_index"],
                                          f["member_threshold"], f["value"]])
            rec.violation("share_mnemonic", {"line": line}, REJECT, "a share mnemonic",
                          note=f"Share(...) refused header fields that are all inside their SLIP39 ranges: {ex!r}"[:300])
            return None

    crafted_sets = [s for s in sets if s["e"] == 0]
    rng.shuffle(crafted_sets)
    for a in crafted_sets[: ctx.n(10, 60)]:
        k, n, pw, sh = a["k"], a["n"], a["pw"], a["shares"]
        take = list(sh[:max(k, 1)])
        variants = []
        if n < 16:   # group_index >= group_count: `groups[share.group_index]` is out of range
            variants.append([reencode(take[0], group_index=rng.randrange(n, 16))] + take[1:])
            variants.append(take[:-1] + [reencode(take[-1], group_index=15)])
        if n >= 2:   # declared count lowered below an index in use
            variants.append([reencode(m, group_count=max(k, 1)) for m in sh[-max(k, 1):]])
        variants.append([reencode(take[0], member_threshold=2)] + take[1:])          # a group that needs 2 members
        variants.append([reencode(take[0], member_index=rng.randrange(1, 16))] + take[1:])   # member index is free when mt = 1
        variants.append([reencode(m, group_threshold=1) for m in take])               # threshold lowered to 1
        if k >= 2:
            variants.append([reencode(m, group_threshold=k - 1) for m in take])
            variants.append([reencode(m, group_threshold=k - 1) for m in take[:k - 1]])
        if k < n:
            variants.append([reencode(m, group_threshold=k + 1) for m in take])
        variants.append([reencode(take[0], member_index=1), take[0]] + take[1:])     # same group twice, different members
        variants.append([take[0], reencode(take[0], member_index=1, member_threshold=3)] + take[1:])
        variants.append([reencode(m, exponent=1) for m in take])
        variants.append([reencode(m, id=(a["id"] + 1) % 32768) for m in take])
        for v in variants:
            if any(x is None for x in v):
                continue
            e_v = 1 if v and S.Share.parse(v[0]).exponent == 1 else 0
            add_recover("recover:crafted", v, pw, e_v)
        # ONE share of an otherwise sufficient set carries another id / exponent / threshold / count (same share
        # value): only the consistency checks of ShareSet.__init__ stand between this and a recovery
        if k >= 2:
            base = {"pass": xb(pw), "k": k, "n": n, "e": 0}
            members = rng.sample(range(len(sh)), rng.choice([k, min(k + 1, len(sh))]))
            odd = rng.randrange(len(members))
            alter = [("mixed_splits_rejected", "id", {"id": (a["id"] + 1 + rng.getrandbits(14)) % 32768}),
                     ("mismatch_exponent_rejected", "exponent", {"exponent": rng.choice([1, 2, 31])})]
            k2 = rng.choice([t for t in (k - 1, k + 1, 1, n) if 1 <= t <= n and t != k] or [0])
            if k2:
                alter.append(("mismatch_threshold_rejected", "threshold", {"group_threshold": k2}))
            n2 = rng.choice([c for c in (n - 1, n + 1, 16) if k <= c <= 16 and c != n] or [0])
            if n2:
                alter.append(("mismatch_count_rejected", "count", {"group_count": n2}))
            for pk, what, chg in alter:
                if chg.get("id") == a["id"]:
                    continue
                chosen = [reencode(sh[i], **chg) if j == odd else sh[i] for j, i in enumerate(members)]
                if any(x is None for x in chosen):
                    continue
                add_recover("recover:one_share_differs", chosen, pw, 0, reaches_decrypt=False)
                preds.append((pk, dict(base, shares=chosen, want=REJECT, why=f"one share with another {what}")))
    # single 1-of-1 shares of other lengths: bytes_to_mnemonic accepts 128/160/192/224/256 bits only
    for sbl in (128, 144, 160, 176, 192, 208, 224, 240, 256, 272):
        m = S.Share(sbl, rng.getrandbits(15), 0, 0, 1, 1, 0, 1, rng.getrandbits(sbl)).mnemonic()
        add_recover("recover:crafted_length", [m], b"", 0)
        all_shares.append(m)

    # two-level share sets (groups of members), built with the real split_secret on PRNG randomness
    def split_with_prng(secret, k, n):
        with patched_randbits(_RecBits(random.Random(rng.getrandbits(64)))):
            return S.ShareSet.split_secret(secret, k, n)

    for _ in range(ctx.n(5, 30)):
        nb = rng.choice([16, 32])
        gc = rng.randrange(1, 5)
        gt = rng.randrange(1, gc + 1)
        ident, e, pw = rng.getrandbits(15), 0, pw_choice()
        ems = rbytes(rng, nb)
        groups = {}
        for gi, gbytes in split_with_prng(ems, gt, gc):
            mc = rng.randrange(1, 5)
            mt = rng.randrange(1, mc + 1)
            groups[gi] = (mt, [S.Share(nb * 8, ident, e, gi, gt, gc, mi, mt, int.from_bytes(mb, "big")).mnemonic()
                               for mi, mb in split_with_prng(gbytes, mt, mc)])
        everything = [m for _, ms in groups.values() for m in ms]
        all_shares.extend(everything)
        gis = sorted(groups)
        minimal = [m for gi in rng.sample(gis, min(gt, len(gis))) for m in rng.sample(groups[gi][1], min(groups[gi][0], len(groups[gi][1])))]
        cases = [everything, minimal, minimal[:-1], minimal[1:], rng.sample(everything, rng.randint(1, len(everything)))]
        g0 = groups[gis[0]]
        cases.append([m for gi in gis[1:] for m in groups[gi][1]] + g0[1][:g0[0] - 1])   # one group short of members
        for c in cases:
            c = list(c)
            rng.shuffle(c)
            add_recover("recover:two_level", c, pw, e)

    # the vectors inline in the repository's test file
    try:
        vgroups = vector_groups()
    except Exception as ex:   # not robust -> skip, visibly
        vgroups = []
        rec.note(f"test_shamir.py vectors not extracted: {type(ex).__name__}: {ex}")
    if not vgroups:
        rec.note("no share vectors found in buidl/test/test_shamir.py")
    vector_shares = []
    for g in vgroups:
        add_recover("recover:vectors", g, b"TREZOR", 1)
        if len(g) > 1:
            h = list(g)
            rng.shuffle(h)
            add_recover("recover:vectors", h[:-1], b"TREZOR", 1)
        for m in g:
            if m not in vector_shares:
                vector_shares.append(m)
    try:
        offs = official_vectors()
    except Exception as ex:
        offs = []
        rec.note(f"test_shamir.py test_recover vectors not extracted: {type(ex).__name__}: {ex}")
    for name, shares, secret in offs:
        preds.append(("official_vector_recovers", {"name": name, "shares": shares, "secret": secret}))
    rec.count("vectors:official", len(offs))
    rec.count("vectors:groups", len(vgroups))
    rec.count("vectors:shares", len(vector_shares))

    # ---------------------------------------------------------------- 5. Share.parse / Share.mnemonic
    distinct_shares = list(dict.fromkeys(all_shares))
    for m in distinct_shares:
        add("share_parse", ["share_parse", xs(m)])
        try:
            s = S.Share.parse(m)
        except Exception:
            rec.violation("share_parse", {"line": lines[-1][1]}, REJECT, "a share",
                          note="a share mnemonic produced by Share.mnemonic is refused by Share.parse")
            continue
        add("share_mnemonic", ["share_mnemonic", s.share_bit_length, s.id, s.exponent, s.group_index, s.group_threshold,
                               s.group_count, s.member_index, s.member_threshold, s.value])
        preds.append(("parse_mnemonic_roundtrip", {"m": m}))
    for m in vector_shares:
        add("share_parse:vectors", ["share_parse", xs(m)])
        try:
            S.Share.parse(m)
        except Exception:
            continue
        preds.append(("parse_mnemonic_roundtrip", {"m": m}))

    def rand_fields(sbl=None):
        sbl = sbl or rng.choice([128, 128, 144, 160, 256, 256])
        gc = rng.randrange(1, 17)
        return [sbl, rng.choice([0, 1, 32767, rng.getrandbits(15)]), rng.choice([0, 1, 31, rng.randrange(32)]),
                rng.randrange(16), rng.randrange(1, gc + 1), gc, rng.randrange(16), rng.randrange(1, 17),
                rng.choice([0, 1, 2 ** sbl - 1, 1 << max(sbl - 1, 0), rng.getrandbits(sbl), rng.getrandbits(sbl)])]

    for _ in range(ctx.n(300)):
        f = rand_fields()
        add("share_mnemonic", ["share_mnemonic"] + f)
        preds.append(("mnemonic_parse_roundtrip", {"fields": f}))
        add("share_parse", ["share_parse", xs(S.Share(*f).mnemonic())])
    for sbl in (0, 8, 16, 64, 112, 120, 127, 129, 130, 136, 150, 152, 176, 192, 200, 208, 224, 240, 250, 264, 272, 512):
        f = rand_fields(sbl)   # other lengths: only the two sides have to agree
        add("share_mnemonic:odd_length", ["share_mnemonic"] + f)
        try:
            add("share_parse:odd_length", ["share_parse", xs(S.Share(*f).mnemonic())])
        except Exception:
            pass
    for _ in range(ctx.n(10)):
        good = rand_fields()
        out_of_range = [(3, 16), (3, 100), (4, 0), (4, good[5] + 1), (4, 17), (5, 17), (5, 0), (5, 300), (6, 16),
                        (7, 0), (7, 17), (8, 2 ** good[0]), (8, 2 ** good[0] + rng.getrandbits(20)), (8, 2 ** 300)]
        for pos, val in out_of_range:
            f = list(good)
            f[pos] = val
            if pos == 5 and val == 0:
                f[4] = 0
            add("share_mnemonic:out_of_range", ["share_mnemonic"] + f)
        for pos, val in [(1, 2 ** 15), (1, 2 ** 16 + 5), (1, 2 ** 40), (2, 32), (2, 33), (2, 1000)]:
            f = list(good)   # id / exponent are not range-checked: the bits run into the neighbouring fields
            f[pos] = val
            add("share_mnemonic:wide_field", ["share_mnemonic"] + f)
            try:
                add("share_parse:wide_field", ["share_parse", xs(S.Share(*f).mnemonic())])
            except Exception:
                pass

    # ---------------------------------------------------------------- 6. corruption, spelling, word counts
    def substitute(m, positions):
        ws = m.split()
        for p in positions:
            w = rng.choice(words)
            while w == ws[p]:
                w = rng.choice(words)
            ws[p] = w
        return " ".join(ws)

    gen_shares = [m for m in distinct_shares if len(m.split()) in (20, 33)]
    sample = rng.sample(gen_shares, min(len(gen_shares), ctx.n(30, 120)))
    total_subst = ctx.n(3000, 12000)
    per_share = max(3, total_subst // max(1, len(sample)))
    for m in sample:
        nw = len(m.split())
        for j in range(per_share):
            nsub = 1 + j % 3
            bad = substitute(m, rng.sample(range(nw), nsub))
            add(f"share_parse:corrupt{nsub}", ["share_parse", xs(bad)])
            preds.append(("corrupted_share_rejected", {"m": bad, "orig": m, "nsub": nsub}))
    if ctx.thorough:   # every position x 30 words
        for m in sample[:20]:
            for pos in range(len(m.split())):
                for _ in range(30):
                    bad = substitute(m, [pos])
                    add("share_parse:corrupt1", ["share_parse", xs(bad)])
                    preds.append(("corrupted_share_rejected", {"m": bad, "orig": m, "nsub": 1}))
    for m in sample[: ctx.n(10, 60)]:
        ws = m.split()
        # adjacent transposition and a dropped / doubled word (not substitutions: model agreement only)
        p = rng.randrange(len(ws) - 1)
        add("share_parse:edited", ["share_parse", xs(" ".join(ws[:p] + [ws[p + 1], ws[p]] + ws[p + 2:]))])
        add("share_parse:edited", ["share_parse", xs(" ".join(ws[:p] + ws[p + 1:]))])
        add("share_parse:edited", ["share_parse", xs(" ".join(ws[:p] + [ws[p]] + ws[p:]))])
        # spelling
        short = " ".join(w[:4] for w in ws)
        add("share_parse:prefix", ["share_parse", xs(short)])
        preds.append(("prefix_words_same_share", {"m": m, "short": short}))
        mixed = " ".join(w[:4] if rng.random() < 0.5 else w for w in ws)
        add("share_parse:prefix", ["share_parse", xs(mixed)])
        preds.append(("prefix_words_same_share", {"m": m, "short": mixed}))
        for sep in ("\t", "  ", " \n", "\u00a0", "\x1f", "\u2003", "\u3000", "\x85", "\x0c\x1c"):
            add("share_parse:whitespace", ["share_parse", xs(rng.choice(["", " ", sep]) + sep.join(ws) + rng.choice(["", sep]))])
        for sep in ("\u200b", ",", "-", "\x00", "\x1b", "\u180e"):   # not separators for str.split()
            add("share_parse:unknown_word", ["share_parse", xs(" ".join(ws[:3]) + sep + " ".join(ws[3:]))])
        p = rng.randrange(len(ws))
        for w in ("zzzz", ws[p][:3], ws[p][:5] if len(ws[p]) > 5 else ws[p] + "s", ws[p].upper(), ws[p].capitalize(),
                  ws[p] + "\u0301", "abandon", "0", ws[p][:4] + "x"):
            add("share_parse:unknown_word", ["share_parse", xs(" ".join(ws[:p] + [w] + ws[p + 1:]))])
    add("share_parse:unknown_word", ["share_parse", xs("")])
    add("share_parse:unknown_word", ["share_parse", xs("   ")])

    # other word counts, with a VALID checksum, so that the length logic decides
    def with_checksum(idx):
        return " ".join(words[i] for i in idx + S.rs1024_create_checksum(b"shamir", idx))

    for total in (3, 4, 5, 6, 7, 8, 10, 16, 18, 19, 20, 21, 22, 23, 24, 26, 30, 32, 33, 34, 35, 36, 40, 59):
        nvalue = total - 7   # header 4 + value + checksum 3
        for variant in range(ctx.n(4, 12)):
            if nvalue < 0:
                idx = [rng.randrange(1024) for _ in range(max(0, total - 3))]
            else:
                gc = rng.randrange(1, 17)
                gt = rng.randrange(1, gc + 1)
                hdr = (((((rng.getrandbits(15) << 5 | rng.randrange(4)) << 4 | rng.randrange(16)) << 4 | (gt - 1)) << 4
                         | (gc - 1)) << 4 | rng.randrange(16)) << 4 | rng.randrange(16)
                sbl = nvalue * 10 // 16 * 16
                if variant % 4 == 0:
                    value = rng.getrandbits(nvalue * 10) if nvalue else 0     # padding bits probably set
                elif variant % 4 == 1:
                    value = (1 << sbl) if nvalue * 10 > sbl else 0             # the lowest padding bit set
                else:
                    value = rng.getrandbits(sbl) if sbl > 0 else 0             # properly padded
                allb = hdr << (10 * nvalue) | value
                idx = [(allb >> 10 * (4 + nvalue - 1 - i)) & 1023 for i in range(4 + nvalue)]
            add("share_parse:word_count", ["share_parse", xs(with_checksum(idx))])
    # a valid checksum under another customization string is refused
    for m in sample[:5]:
        idx = [S.SLIP39[w] for w in m.split()][:-3]
        add("share_parse:other_customization",
            ["share_parse", xs(" ".join(words[i] for i in idx + S.rs1024_create_checksum(b"Shamir", idx)))])

    # ---------------------------------------------------------------- 7. encrypt / decrypt
    def add_crypt(payload, ident, e, pw, kind="", both=True):
        valid = len(payload) % 2 == 0 and len(payload) > 0 and ident < 65536 and e < 20
        if valid and e > 4:
            raise MachineryError("refusing to request a PBKDF2 run of that size")
        add("encrypt" + kind, ["encrypt", xb(payload), ident, e, xb(pw)])
        if valid:
            cost[0] += 1 << e
        if both:
            add("decrypt" + kind, ["decrypt", xb(payload), ident, e, xb(pw)])
            if valid:
                cost[0] += 1 << e
        return valid

    for _ in range(ctx.n(40)):
        payload = rbytes(rng, rng.choice([16, 16, 32, 32, 2 * rng.randrange(1, 33)]))
        ident, e, pw = rng.getrandbits(15), rng.choice([0, 0, 0, 1, 1, 2]), pw_choice()
        add_crypt(payload, ident, e, pw, both=False)
        enc = S.ShareSet.encrypt(payload, ident, e, pw)
        add("decrypt", ["decrypt", xb(enc), ident, e, xb(pw)])   # the model must come back to the payload too
        cost[0] += 1 << e
    for ident in (0, 1, 32767, 32768, 65535):
        add_crypt(rbytes(rng, 16), ident, 0, b"TREZOR", both=False)
    for ident in (65536, 65537, 2 ** 32):
        add_crypt(rbytes(rng, 16), ident, 0, b"", ":invalid")
    for ln in (0, 1, 3, 15, 17, 31, 33, 63):
        add_crypt(rbytes(rng, ln), rng.getrandbits(15), 0, b"", ":invalid")
    for ln in (2, 4, 64):
        add_crypt(rbytes(rng, ln), rng.getrandbits(15), 0, pw_choice(), both=False)
    add_crypt(rbytes(rng, 16), 5, 3, b"", both=False)
    add_crypt(rbytes(rng, 32), 5, 4, b"TREZOR", both=False)
    # exponent 19 is the largest hashlib accepts (2500 << 19 <= 2^31 - 1) — far too slow to run, so only inputs that
    # are refused before the key derivation; from 20 on hashlib raises OverflowError
    for payload, ident in ((rbytes(rng, 15), 1), (b"", 1), (rbytes(rng, 16), 65536)):
        add_crypt(payload, ident, 19, b"", ":invalid")
    for e in (20, 21, 31, 32, 60, 64, 100):
        add_crypt(rbytes(rng, rng.choice([16, 32])), rng.getrandbits(15), e, b"", ":exponent_overflow")
        add_crypt(b"", 1, e, b"", ":exponent_overflow", both=False)
    for j in range(ctx.n(100)):
        preds.append(("decrypt_encrypt_id", {
            "payload": xb(rbytes(rng, rng.choice([16, 16, 32, 32, 2 * rng.randrange(1, 33)]))),
            "id": rng.choice([0, 1, 32767, 65535, rng.getrandbits(15), rng.getrandbits(16)]),
            "e": rng.choice([0, 0, 0, 1, 1, 2]),
            "pass": xb(PASSPHRASES[j] if j < len(PASSPHRASES) else pw_choice())}))

    # ---------------------------------------------------------------- 8. histories on ONE object / one process
    hsets = [st for st in sets if st["e"] == 0][: ctx.n(8)] + [st for st in sets if st["e"] == 1][: ctx.n(2)]
    for st in hsets:
        sh, k, pw = st["shares"], st["k"], st["pw"]
        ops = []

        def R(p):
            cost[0] += 1 << st["e"]
            ops.extend(["R", xb(p)])

        def Sset(l):
            ops.extend(["S", fmt_strs(l)])
        R(pw); R(pw + b"!"); R(pw); R(b"")
        Sset(list(reversed(sh))); R(pw)
        if len(sh) > k:
            Sset(sh[1:]); R(pw)
        if k >= 2:
            Sset(sh[:k - 1]); R(pw)
        Sset([]); R(pw)
        Sset(sh); R(pw); R(pw)
        other = [o for o in sets if o is not st and o["nwords"] == st["nwords"]]
        if other:
            # a foreign share smuggled in after construction (no re-validation): the object keeps ITS id / exponent /
            # threshold; whatever happens, model and code must agree
            Sset(sh[:max(1, k - 1)] + [other[0]["shares"][-1]]); R(pw)
            Sset([other[0]["shares"][0]] + sh[:max(1, k - 1)]); R(pw); R(other[0]["pw"])
            Sset(sh); R(pw)
        nops = sum(1 for o in ops if o in ("R", "S"))
        start = rng.sample(sh, max(1, min(len(sh), k)))
        add("ss_history", ["ss_history", fmt_strs(start), nops] + ops)
        add("ss_history", ["ss_history", fmt_strs(sh), nops] + ops)
        preds.append(("shareset_history", {"mn": M.bytes_to_mnemonic(M.mnemonic_to_bytes(st["mn"]), 8 * len(M.mnemonic_to_bytes(st["mn"]))),
                                           "k": k, "pass": xb(pw), "shares": sh}))
    add("ss_history", ["ss_history", fmt_strs([]), 1, "R", xb(b"")])
    if sets:
        add("ss_history", ["ss_history", fmt_strs([sets[0]["shares"][0], "not a share"]), 1, "R", xb(b"")])
        add("ss_history", ["ss_history", fmt_strs(sets[0]["shares"][:1]), 2, "S", fmt_strs(["junk words"]), "R", xb(b"")])
    for m in rng.sample(all_shares, min(len(all_shares), ctx.n(40))):
        add("share_reser", ["share_reser", xs(m)])
    add("share_reser", ["share_reser", xs("academic academic")])
    for j in range(ctx.n(2)):
        preds.append(("process_state", {"seed": rng.getrandbits(32), "rounds": ctx.n(6, 12)}))
    add("tables", ["tables"])     # asked again at the end of the request list

    rec.count("cost:feistel passes requested from the driver (e=0 equivalents)", cost[0])

    # ---------------------------------------------------------------- run both sides
    # the expensive requests (PBKDF2 inside the driver) are contiguous: deal the lines round-robin so that
    # every driver process gets its part of them
    nl, kw = len(lines), max(1, ctx.workers)
    perm = [i for j in range(kw) for i in range(j, nl, kw)]
    out = batch_parallel(drv, [model_line(lines[i][1]) for i in perm], workers=ctx.workers)
    answers = [None] * nl
    for i, a in zip(perm, out):
        answers[i] = a
    todo = [l for _, l in lines if l not in pre]
    todo = list(dict.fromkeys(todo))
    # the implementation side costs a few seconds in the quick tier (hashlib's PBKDF2 is fast): forking a pool only
    # pays off for the thorough volume
    heavy = ctx.thorough or len(todo) + len(preds) > 60000
    for l, a in zip(todo, pmap(impl_line, todo, workers=ctx.workers) if heavy else [impl_line(l) for l in todo]):
        pre[l] = a
    for (kind, line), model in zip(lines, answers):
        impl = pre[line]
        if rec.compare(kind, {"line": line}, impl, model, determined=True, key=line[:300],
                       nontrivial=line != "tables" and not line.endswith(" s")):
            rec.sample(kind, {"request": line, "answer": model})
        if impl == REJECT:
            rec.count(kind + ":reject")
    # every query a second time, in the opposite order, in this process (module tables and word lists are reused); the
    # PBKDF2-bound driver lines are not repeated on the model side (the driver is a pure function of the line)
    seen2, second = set(), []
    for (kind, line), model in reversed(list(zip(lines, answers))):
        if line not in seen2:
            seen2.add(line)
            second.append((kind, line, model))
    again = pmap(impl_line, [l for _, l, _ in second], workers=ctx.workers) if heavy else [impl_line(l) for _, l, _ in second]
    for (kind, line, model), impl2 in zip(second, again):
        rec.compare(kind + ":again", {"line": line, "second_time": True}, impl2, model, determined=True,
                    key="again " + line[:290])
    results = pmap(_eval_item, preds, workers=ctx.workers) if heavy else [_eval_item(p) for p in preds]
    for (kind, case), (ok, got, want) in zip(preds, results):
        rec.cov_pred(kind, case)
        if ok:
            rec.ok(kind, repr(case)[:300])
            rec.sample(kind, case, limit=1)
        else:
            rec.violation(kind, dict(case, pred=kind), got, want, note=case.get("why", ""))


def replay(ctx, v):
    """re-execute one recorded violation exactly; True if it still violates"""
    case = v["case"]
    if "line" in case:
        return impl_line(case["line"]) != ctx.driver("drv_c15").one(model_line(case["line"]))
    ok, _, _ = eval_pred(case["pred"], case)
    return not ok
