"""
C10 — PSBT codec is lossless; the signing workflow is order-independent and exact.

Correspondence between the Lean model (lean/Buidl/Model/PsbtCodec.lean, PsbtFlow.lean; driver drv_c10,
transaction codec = Buidl.Model.Tx) and buidl/psbt.py, plus the property predicates evaluated directly
on the implementation.

  impl_line(line)   evaluate a self-contained driver request on the real code -> canonical answer
  PREDICATES[kind]  property predicates on the real code (re-serialisation idempotence, order
                    independence of sign/combine histories, finalize/extract exact at the threshold,
                    non-verifying partial signatures refused on load)
  run(ctx)          wallets x histories (16 processes), boundary catalogue, BIP174 corpus
  replay(ctx, v)    re-execute one recorded violation exactly

What the model treats as parameters (signature checks, input verification, BIP32 derivation, the
signatures a signer produces, whole-transaction verification) is answered from tables recorded while
the real library runs the same step (harness/psbt_common.Oracle); the real answers are memoised per
process, never invented.
"""
import base64
import io
import itertools
import json
import os
import random
import time

from harness.common import REJECT, xb, unx, batch_parallel, pmap, VERIF
from harness import psbt_common as PC

PROPERTY = "C10"
DRIVERS = ["drv_c10"]
PROPS_MODULES = ["Buidl.Props.C10", "Buidl.Props.C10Tx", "Buidl.Props.C10Compose", "Buidl.Props.C10ComposeEC"]
ANCHORS = [
    ("buidl/psbt.py", "PSBT.parse"), ("buidl/psbt.py", "PSBTIn.parse"), ("buidl/psbt.py", "PSBTOut.parse"),
    ("buidl/psbt.py", "PSBT.serialize"), ("buidl/psbt.py", "PSBTIn.serialize"), ("buidl/psbt.py", "PSBTOut.serialize"),
    ("buidl/psbt.py", "PSBT.validate"), ("buidl/psbt.py", "PSBTIn.validate"), ("buidl/psbt.py", "PSBTOut.validate"),
    ("buidl/psbt.py", "PSBT.sign"), ("buidl/psbt.py", "PSBT.sign_with_private_keys"),
    ("buidl/psbt.py", "PSBT.combine"), ("buidl/psbt.py", "PSBTIn.combine"), ("buidl/psbt.py", "PSBTOut.combine"),
    ("buidl/psbt.py", "PSBT.finalize"), ("buidl/psbt.py", "PSBTIn.finalize"), ("buidl/psbt.py", "PSBT.final_tx"),
    ("buidl/psbt.py", "PSBT.create"), ("buidl/psbt.py", "PSBT.update"), ("buidl/psbt.py", "PSBTIn.update"),
    ("buidl/psbt.py", "PSBTOut.update"), ("buidl/psbt.py", "PSBTIn.script_pubkey"),
    ("buidl/psbt.py", "PSBTIn.use_segwit_signature"),
    ("buidl/psbt.py", "NamedPublicKey.parse"), ("buidl/psbt.py", "NamedPublicKey.serialize"),
    ("buidl/psbt.py", "NamedPublicKey.add_raw_path_data"),
    ("buidl/psbt.py", "NamedHDPublicKey.parse"), ("buidl/psbt.py", "NamedHDPublicKey.serialize"),
    ("buidl/psbt.py", "NamedHDPublicKey.add_raw_path_data"), ("buidl/psbt.py", "NamedHDPublicKey.is_ancestor"),
    ("buidl/psbt.py", "NamedHDPublicKey.verify_descendent"),
    ("buidl/helper.py", "serialize_key_value"), ("buidl/helper.py", "parse_binary_path"), ("buidl/helper.py", "path_network"),
    ("buidl/script.py", "Script.is_p2pkh"), ("buidl/script.py", "Script.is_p2sh"), ("buidl/script.py", "Script.is_p2wpkh"),
    ("buidl/script.py", "Script.is_p2wsh"), ("buidl/script.py", "ScriptPubKey.parse"),
    ("buidl/op.py", "op_code_to_number"), ("buidl/witness.py", "Witness.parse"), ("buidl/witness.py", "Witness.serialize"),
    ("buidl/tx.py", "TxOut.parse"), ("buidl/tx.py", "TxOut.serialize"),
]
RULE = ("wallets 1 <= m <= n <= 4 over the six script types built from HD keys through the real API with seeds from "
        "VERIF_SEED, 1..3 inputs, optional change / global xpubs / unknown key-values; per wallet every subset of signers "
        "and sampled (thorough: all) permutations x combine-tree shapes x sign-then-combine mixes; after every step the "
        "serialised bytes of the implementation are compared with the model's; fixed catalogue: BIP174 vectors, "
        "truncations and byte mutations of a serialised PSBT, crafted duplicate / empty-value / wrong-key-length / "
        "both-UTXO records; a case is non-trivial when the PSBT has at least one input map entry; distinct = distinct "
        "(operation, request) pairs and distinct (wallet, history) pairs")
CLAUSES = {
    "re-serialisation is idempotent (serialize(parse(serialize p)) = serialize p); parse succeeds on serialiser output":
        "proved at the map level for every well-formed PSBT value and explicit network (reserialize_idempotent, "
        "reserialize_normal_form, in_map_roundtrip, out_map_roundtrip, global_map_roundtrip); the transaction / script codec "
        "laws are hypotheses (C04); that parser output is well-formed, and the inferred-network case, rest on the byte "
        "comparison after every step (predicate reserialize_idempotent)",
    "what the first serialisation drops":
        "proved (serialize_drops_foreign_sigs, serialize_prefers_non_witness_utxo, serialize_keeps_written_sigs)",
    "unsigned transaction: non-witness format, empty scriptSigs":
        "proved (global_map_carries_legacy_tx, validate_rejects_scriptsig, parse_rejects_scriptsig); finding F10a fixed",
    "combine commutative / associative / idempotent up to serialisation; every permutation and combine tree gives the same bytes":
        "proved (combine_comm_ser, combine_assoc_ser, combine_idem_ser, combine_tree_bytes_independent, combine_tree_sigs)",
    "finalize raises iff fewer than m script keys have signatures, else emits the first m in script order; a function of the set":
        "proved (finalize_multisig_iff, finalize_emits_first_m, finalize_p2sh_iff, finalize_p2sh_emits_first_m, "
        "finalize_single_key_iff, finalize_set_only, script_sigs_le_sigs); finding F10d fixed (F10d_unrepaired_undersigns)",
    "extracted transaction verifies iff >= m signers signed":
        "correspondence-only (Tx.verify of the real library on every signer subset; script execution is C06)",
    "non-verifying partial signatures are rejected on load":
        "proved relative to the signature check (validate_rejects_bad_sig: sigOK false => PSBT.validate / parse refuse); "
        "sigOK is the real check_sig_* (C01/C05); observation O10b (no UTXO: kept) excluded by hypothesis",
    "create / update / sign (which inputs a signer signs)": "correspondence-only",
    "the PSBT object stays usable after every step incl. extraction; the embedded transaction keeps its txid, legacy format and "
    "empty scriptSigs; objects handed to the API are not modified":
        "correspondence-only: the model is a value semantics (a function never changes its argument), so aliasing between the "
        "extracted transaction and the PSBT cannot be expressed in it; checked on the real objects by the predicates "
        "combine_leaves_argument_alone, live_reuse_same_as_saved_bytes (live signer objects folded in several orders and re-used), "
        "same_object_workflow and api_inputs_unchanged (one object through create, update, sign, combine, finalize, final_tx twice)",
}
TRUSTED = [
    "transaction codec abstract in the theorems (TxCodec laws as hypotheses); the driver instantiates it with "
    "Buidl.Model.Tx (property C04)",
    "hash160 / sha256 are parameters of the theorems; driver: Buidl.Model.Hash (checked against hashlib by hash_selftest)",
    "signature creation / verification, verify_input, Tx.verify and BIP32 derivation are parameters; the driver is "
    "given the real library's answers recorded on the same step",
]
ASSUMPTIONS = ["Python dict preserves insertion order; sorted() on bytes is lexicographic by unsigned byte",
               "io.BytesIO.read(n) returns min(n, remaining) bytes"]

CORPUS = os.path.join(VERIF, "harness", "corpus", "C10", "bip174.json")


# ----------------------------------------------------------------------------------------- real-code helpers
def _setup():
    PC.no_network()


def _net(tok):
    return {"main": "mainnet", "test": "testnet", "none": None}[tok]


def _ser(fn):
    """canonical answer of a step on the real code: the serialised bytes, or REJECT for any exception"""
    try:
        return xb(fn())
    except Exception:
        return REJECT


def impl_line(line):
    """self-contained requests only (parse_ser, combine, finalize, create): bytes in, bytes out"""
    from buidl.psbt import PSBT
    from buidl.tx import Tx

    _setup()
    t = line.split(" ")
    op, net = t[0], _net(t[1])
    # the coverage replay runs in one process on pure-Python signature checks: they are memoised, and a time budget per
    # operation backs that up (the sample is a lower bound anyway)
    t0 = time.time()
    if _COV_SPENT.get(op, 0.0) > COV_BUDGET_S and len(line) >= 4000:      # the small vectors / crafted inputs always run
        raise KeyError("coverage budget for " + op)
    try:
        with PC.Oracle():       # the process-wide memo of the pure EC functions; the anchored code runs as is
            return _impl_line(op, net, t)
    finally:
        _COV_SPENT[op] = _COV_SPENT.get(op, 0.0) + time.time() - t0


COV_BUDGET_S = 15.0
_COV_SPENT = {}


def _impl_line(op, net, t):
    from buidl.psbt import PSBT
    from buidl.tx import Tx

    # the PSBT arguments are the last bytes tokens of the line
    if op == "parse_ser":
        return _ser(lambda: PSBT.parse(io.BytesIO(unx(t[-1])), network=net).serialize())
    if op == "create":
        return _ser(lambda: PSBT.create(Tx.parse(io.BytesIO(unx(t[-1])), network=net or "mainnet")).serialize())
    if op == "combine":
        def f():
            a = PSBT.parse(io.BytesIO(unx(t[-2])), network=net)
            a.combine(PSBT.parse(io.BytesIO(unx(t[-1])), network=net))
            return a.serialize()
        return _ser(f)
    if op == "finalize":
        def f():
            a = PSBT.parse(io.BytesIO(unx(t[-1])), network=net)
            a.finalize()
            return a.serialize()
        return _ser(f)
    raise KeyError(op)


def line_of(op, net, oracle, *args):
    return " ".join([op, PC.net_token(net), oracle.tokens()] + list(args))


def lookups_tokens(tx_lookup, pubkey_lookup, redeem_lookup, witness_lookup):
    t = [str(len(tx_lookup))]
    for h, tx in tx_lookup.items():
        t += [xb(h), xb(tx.serialize())]
    t.append(str(len(pubkey_lookup)))
    for k, nm in pubkey_lookup.items():
        t += [xb(k), xb(nm.sec()), xb(nm.point.raw_path)]
    t.append(str(len(redeem_lookup)))
    for k, s in redeem_lookup.items():
        t += [xb(k), xb(s.raw_serialize())]
    t.append(str(len(witness_lookup)))
    for k, s in witness_lookup.items():
        t += [xb(k), xb(s.raw_serialize())]
    return " ".join(t)


def made_tokens(made):
    return " ".join([str(len(made))] + [f"{i} {xb(sec)} {xb(sig)}" for (i, sec), sig in sorted(made.items())])


# ----------------------------------------------------------------------------------------- one wallet
def combine_shapes(order, kind):
    """a combine tree over `order` as nested tuples"""
    if len(order) == 1:
        return order[0]
    if kind == "foldl":
        t = order[0]
        for x in order[1:]:
            t = (t, x)
        return t
    if kind == "foldr":
        t = order[-1]
        for x in reversed(order[:-1]):
            t = (x, t)
        return t
    mid = len(order) // 2
    return (combine_shapes(order[:mid], kind), combine_shapes(order[mid:], kind))


def embedded_state(psbt, legacy0, txid0):
    """the unsigned transaction inside a PSBT object: 'ok' or what is wrong with it"""
    tx = psbt.tx_obj
    bad = []
    if any(ti.script_sig.commands for ti in tx.tx_ins):
        bad.append("non-empty scriptSig")
    if any(len(ti.witness) for ti in tx.tx_ins):
        bad.append("non-empty witness")
    if tx.serialize_legacy() != legacy0:
        bad.append("legacy serialisation changed")
    if tx.hash() != txid0:
        bad.append("txid changed")
    return "ok" if not bad else ", ".join(bad)


def unsigned_tx_state(psbt):
    """what BIP174 demands of the global unsigned transaction of a serialised PSBT: key 0x00 carries the non-witness
    (legacy) serialisation and the library reads its own output back to the same transaction.  'ok' or the defect."""
    from buidl.helper import serialize_key_value

    raw = psbt.serialize()
    legacy = psbt.tx_obj.serialize_legacy()
    head = b"psbt\xff" + serialize_key_value(b"\x00", legacy)
    if not raw.startswith(head):
        return "global key 0x00 does not carry the legacy serialisation of the unsigned transaction"
    try:
        q = PC.reparse(raw, network=psbt.network or PC.NET)
    except Exception as e:
        return f"PSBT.parse refuses the library's own output: {type(e).__name__}"
    if q.tx_obj.hash() != psbt.tx_obj.hash() or len(q.psbt_ins) != len(psbt.psbt_ins):
        return "the re-parsed PSBT holds another transaction"
    if q.serialize() != raw:
        return "re-serialisation differs"
    return "ok"


def api_snapshot(w, b):
    """a value snapshot of every object the harness hands to the PSBT API"""
    tx_lookup, pubkey_lookup, redeem_lookup, witness_lookup = b.lookups
    snap = {"tx": b.tx_obj.serialize(), "tx.segwit": b.tx_obj.segwit, "tx.locktime": int(b.tx_obj.locktime),
            "tx.ins": [(ti.prev_tx, ti.prev_index, ti.script_sig.raw_serialize(), int(ti.sequence), tuple(ti.witness.items))
                       for ti in b.tx_obj.tx_ins],
            "tx.outs": [(to.amount, to.script_pubkey.raw_serialize()) for to in b.tx_obj.tx_outs]}
    for h, t in tx_lookup.items():
        snap["prev:" + h.hex()] = (t.serialize(), t.hash())
    for k, nm in pubkey_lookup.items():
        snap["pub:" + k.hex()] = (nm.sec(), nm.point.raw_path, nm.raw_serialize(), nm.root_path)
    for k, sc in list(redeem_lookup.items()) + list(witness_lookup.items()):
        snap["script:" + k.hex()] = sc.raw_serialize()
    for j, r in enumerate(w.roots):
        snap[f"root:{j}"] = (r.xprv(), r.xpub(), r.private_key.secret, r.chain_code)
    return snap


def _raised_in_library(e):
    import traceback
    tb = traceback.extract_tb(e.__traceback__)
    return bool(tb) and os.sep + "buidl" + os.sep in tb[-1].filename


def wallet_job(spec):
    """everything for one wallet, in a worker process.  Returns lines (kind, case, request, impl answer) for the
    model, predicate outcomes (kind, case, ok, got, want) and finding witnesses.  An exception that escapes from
    the LIBRARY during the honest workflow is a failed predicate (`honest_workflow_completes`), not a harness
    malfunction; an exception raised by harness code itself propagates (exit 2)."""
    import traceback

    lines, preds, findings = [], [], []
    try:
        return _wallet_job(spec, lines, preds, findings)
    except Exception as e:
        tb = traceback.extract_tb(e.__traceback__)
        if not tb or os.sep + "buidl" + os.sep not in tb[-1].filename:
            raise
        where = [f"{os.path.basename(f.filename)}:{f.name}" for f in tb if "harness" in f.filename][-1:]
        preds.append(("honest_workflow_completes", {"spec": spec, "pred": "honest_workflow_completes", "harness_step": where},
                      False, f"{type(e).__name__}: {e} (raised in {os.path.basename(tb[-1].filename)}:{tb[-1].name})"[:240],
                      "the honest workflow runs to the end"))
        return {"lines": [l for l in lines if l[2] is not None and isinstance(l[3], str)], "preds": preds, "findings": findings,
                "histories": 0, "stats": {"stype": spec["stype"], "m": spec["m"], "n": spec["n"], "inputs": spec["n_inputs"], "subsets": 0}}


def _wallet_job(spec, lines, preds, findings):
    from buidl.psbt import PSBT
    from buidl.tx import Tx, TxIn, TxOut

    _setup()
    rng = random.Random(spec["seed"])
    m, n, st = spec["m"], spec["n"], spec["stype"]
    single = st in ("p2pkh", "p2wpkh", "p2sh-p2wpkh")
    case0 = {"spec": spec}

    def add_line(kind, req, impl, **extra):
        lines.append((kind, dict(case0, **extra), req, impl))

    def add_pred(kind, ok, got, want, **extra):
        preds.append((kind, dict(case0, pred=kind, **extra), bool(ok), got, want))

    w = PC.make_wallet(rng, m, n, st)
    b = PC.build_psbt(rng, w, n_inputs=spec["n_inputs"], n_spend=spec["n_spend"], with_change=spec["change"],
                      global_xpubs=False, unknowns=False, segwit_flag=spec["segwit_flag"], defer=True)
    orc = PC.Oracle()   # everything the real library answered for this wallet's transaction
    snap0 = api_snapshot(w, b)
    legacy0, txid0 = b.tx_obj.serialize_legacy(), b.tx_obj.hash()

    # --- creator, updater (stepwise, as the roles of BIP174)
    with PC.Oracle() as o:
        p = PSBT.create(b.tx_obj)
        raw_c = p.serialize()
    orc.merge(o)
    add_line("create", line_of("create", PC.NET, orc, xb(b.tx_obj.serialize())), xb(raw_c), step="create")
    with PC.Oracle() as o:
        try:
            p.update(*b.lookups)
            raw_u = xb(p.serialize())
        except Exception:
            raw_u = REJECT
    orc.merge(o)
    add_line("update", line_of("update", PC.NET, orc, xb(raw_c), lookups_tokens(*b.lookups)), raw_u, step="update")
    # --- the ONE-CALL route: every lookup handed to PSBT.create; must give the PSBT of create + update, byte for byte
    p_one = None
    with PC.Oracle() as o:
        try:
            p_one = PSBT.create(b.tx_obj.clone(), tx_lookup=b.lookups[0], pubkey_lookup=b.lookups[1],
                                redeem_lookup=b.lookups[2], witness_lookup=b.lookups[3])
            raw_one = xb(p_one.serialize())
        except Exception as e:
            if not _raised_in_library(e):
                raise
            p_one, raw_one = None, REJECT
    orc.merge(o)
    add_line("create_onecall", line_of("update", PC.NET, orc, xb(raw_c), lookups_tokens(*b.lookups)), raw_one, step="create, one call")
    add_pred("one_call_create_equals_two_step", raw_one == raw_u, raw_one[:200], raw_u[:200], step="create, one call")
    own = bool(spec.get("own_records")) and n >= 2
    if spec["xpubs"] and not own:
        hd = {}
        for k in range(w.n):
            g = w.global_xpub(k)
            hd[g.raw_serialize()] = g
        p.hd_pubs = hd
    if spec["unknowns"]:
        PC.add_unknowns(rng, p)
    with PC.Oracle() as o:
        try:
            p.validate()
            raw0 = p.serialize()
            q0 = PC.reparse(raw0)
            again = q0.serialize()
            loaded = None
        except Exception as e:
            loaded = f"{type(e).__name__}: {e}"[:200]
    orc.merge(o)
    add_pred("honest_psbt_loads", loaded is None, loaded, "create + update + validate + serialize + parse succeed", step="base")
    if loaded is not None:
        return {"lines": lines, "preds": preds, "findings": findings, "histories": 0,
                "stats": {"stype": st, "m": m, "n": n, "inputs": spec["n_inputs"], "subsets": 0}}
    add_pred("reserialize_idempotent", again == raw0, xb(again), xb(raw0), step="base")
    add_line("parse_ser", line_of("parse_ser", PC.NET, orc, xb(raw0)), xb(again), step="base")
    stt = unsigned_tx_state(p)
    add_pred("unsigned_tx_is_legacy", stt == "ok", stt, "ok", step="base", segwit_flag=spec["segwit_flag"])
    if spec["segwit_flag"]:
        findings.append(("F10a", stt != "ok", None if stt == "ok" else {"spec": spec, "what": stt}))
    if stt != "ok":
        return {"lines": lines, "preds": preds, "findings": findings, "histories": 0,
                "stats": {"stype": st, "m": m, "n": n, "inputs": spec["n_inputs"], "subsets": 0}}

    # --- each signer signs its own copy of the base PSBT.  In an "own records" wallet every cosigner first attaches
    #     HIS account xpub to the global map and proprietary records to the global, input and output maps, so the
    #     copies that come back carry DIFFERENT record sets and the combiner has to produce their union.
    def attach_own(q, j):
        if not own:
            return
        g = w.global_xpub(j)
        q.hd_pubs[g.raw_serialize()] = g
        q.extra_map[b"\xfc\x05cosig" + bytes([j])] = b"global-" + bytes([0x30 + j])
        for i, pi in enumerate(q.psbt_ins):
            pi.extra_map[b"\xfc\x05cosig" + bytes([j, i])] = b"in-" + bytes([0x30 + j])
        for i, po in enumerate(q.psbt_outs):
            po.extra_map[b"\xfc\x05cosig" + bytes([j, i])] = b"out-" + bytes([0x30 + j])

    signed = {}
    sig_keys = {}
    for j in range(n):
        with PC.Oracle() as o:
            q = PC.reparse(raw0)
            attach_own(q, j)
            raw_in = q.serialize()
            if own:
                q = PC.reparse(raw_in)
            fp = w.roots[j].fingerprint()
            if (j + spec["n_inputs"]) % 2 == 0:
                ok = q.sign(w.roots[j])
                ka = {}
                for pi in q.psbt_ins:
                    for np_ in pi.named_pubs.values():
                        if np_.root_fingerprint == fp:
                            ka[np_.raw_path] = w.child_priv(j, *PC.branch_index(np_.root_path)).private_key.point.sec()
                kat = " ".join([str(len(ka))] + [f"{xb(k)} {xb(v)}" for k, v in sorted(ka.items())])
                req_tail = f"{xb(fp)} {kat} {made_tokens(o.made)}"
                op = "sign_hd"
            else:
                privs = [w.child_priv(j, 0, idx).private_key for idx in sorted(set(b.input_index))]
                ok = q.sign_with_private_keys(privs)
                keys = " ".join([str(len(privs))] + [xb(pk.point.sec()) for pk in privs])
                req_tail = f"{keys} {made_tokens(o.made)}"
                op = "sign_keys"
            raw_j = q.serialize()
            rp = PC.reparse(raw_j)          # loads: every partial signature is verified
            back = rp.serialize()
        orc.merge(o)
        signed[j] = raw_j
        sig_keys[j] = dict(o.made)
        add_pred("signer_signs", ok is True, ok, True, signer=j)
        add_pred("reserialize_idempotent", back == raw_j, xb(back), xb(raw_j), step=f"signed by {j}")
        add_line(op, line_of(op, PC.NET, orc, xb(raw_in), req_tail), xb(raw_j), signer=j)
    add_line("parse_ser", line_of("parse_ser", PC.NET, orc, xb(signed[0])), xb(signed[0]), step="signed by 0")

    # --- histories: every subset of signers; permutations x tree shapes x sign-then-combine mixes
    def run_tree(t):
        if not isinstance(t, tuple):
            return PC.reparse(signed[t])
        a, c = run_tree(t[0]), run_tree(t[1])
        a.combine(c)
        return a

    def run_seqsign(order, start=None):
        q = PC.reparse(raw0) if start is None else start
        for j in order:
            attach_own(q, j)
            if (j + spec["n_inputs"]) % 2 == 0:
                q.sign(w.roots[j])
            else:
                q.sign_with_private_keys([w.child_priv(j, 0, idx).private_key for idx in sorted(set(b.input_index))])
        return q

    results = {}
    n_hist = 0
    combine_seen = set()
    subsets = list(PC.subsets(n))
    budget = spec["hist_budget"]
    per_subset = max(1, budget // max(1, len([s for s in subsets if len(s) >= 2])))
    with PC.Oracle() as o:
        for S in subsets:
            if not S:
                results[S] = raw0
                continue
            perms = list(itertools.permutations(S))
            plans = []
            for pm in perms:
                for kind in ("foldl", "foldr", "balanced", "seqsign", "mixed"):
                    plans.append((pm, kind))
            if not spec["all_histories"] and len(plans) > per_subset:
                rng.shuffle(plans)
                keep = [(tuple(S), "foldl"), (tuple(reversed(S)), "foldl")] if len(S) > 1 else []
                plans = keep + [pl for pl in plans if pl not in keep][: max(0, per_subset - len(keep))]
            if len(S) == 1:
                plans = [(tuple(S), "foldl"), (tuple(S), "seqsign")]
            for pm, kind in plans:
                try:
                    if kind == "seqsign":
                        out = run_seqsign(pm).serialize()
                    elif kind == "mixed":
                        h = max(1, len(pm) // 2)
                        a = run_seqsign(pm[:h])
                        if pm[h:]:
                            a.combine(run_seqsign(pm[h:]))
                        out = a.serialize()
                    else:
                        tree = combine_shapes(list(pm), kind)
                        out = run_tree(tree).serialize()
                except Exception as e:
                    add_pred("history_runs", False, f"raised {type(e).__name__}: {e}"[:200], "no exception", subset=list(S), order=list(pm), shape=kind)
                    continue
                n_hist += 1
                if S not in results:
                    results[S] = out
                add_pred("order_independent", out == results[S], xb(out), xb(results[S]), subset=list(S), order=list(pm), shape=kind)
        # model: the combine steps of left folds in both directions (pairwise, on the real intermediate bytes)
        for S in subsets:
            if len(S) < 2:
                continue
            for order in (list(S), list(reversed(S))):
                acc = signed[order[0]]
                for j in order[1:]:
                    key = (acc, signed[j])
                    a = PC.reparse(acc)
                    a.combine(PC.reparse(signed[j]))
                    nxt = a.serialize()
                    if key not in combine_seen and len(combine_seen) < spec["combine_lines"]:
                        combine_seen.add(key)
                        lines.append(("combine", dict(case0, subset=list(S), order=order), None, (xb(acc), xb(signed[j]), xb(nxt))))
                    acc = nxt
            # nothing may get lost: the combined PSBT holds every record of every operand
            if own:
                comb = PC.reparse(results[S])
                missing = []
                for j in S:
                    pj = PC.reparse(signed[j])
                    missing += [("xpub", j)] * (not set(pj.hd_pubs) <= set(comb.hd_pubs))
                    missing += [("global", j)] * (not set(pj.extra_map.items()) <= set(comb.extra_map.items()))
                    for i, (a_in, c_in) in enumerate(zip(pj.psbt_ins, comb.psbt_ins)):
                        missing += [("input", j, i)] * (not set(a_in.extra_map.items()) <= set(c_in.extra_map.items()))
                        missing += [("sig", j, i)] * (not set(a_in.sigs.items()) <= set(c_in.sigs.items()))
                    for i, (a_out, c_out) in enumerate(zip(pj.psbt_outs, comb.psbt_outs)):
                        missing += [("output", j, i)] * (not set(a_out.extra_map.items()) <= set(c_out.extra_map.items()))
                add_pred("combine_keeps_all_records", not missing and len(comb.hd_pubs) == len(S), [missing[:6], len(comb.hd_pubs)],
                         [[], len(S)], subset=list(S))
            # idempotence: a PSBT combined with itself
            a = PC.reparse(results[S])
            a.combine(PC.reparse(results[S]))
            add_pred("combine_idempotent", a.serialize() == results[S], xb(a.serialize()), xb(results[S]), subset=list(S))
    orc.merge(o)
    lines[:] = [(k, c, (line_of("combine", PC.NET, orc, r[0], r[1]) if k == "combine" and q_ is None else q_),
                 (r[2] if k == "combine" and q_ is None else r)) for (k, c, q_, r) in lines]

    # --- finalizer / extractor per subset
    final_txs = {}
    for S in subsets:
        rawS = results.get(S)
        if rawS is None:
            continue
        enough = (len(S) == 1) if single else (len(S) >= m)
        with PC.Oracle() as o:
            try:
                q = PC.reparse(rawS)
                q.finalize()
                rawF = q.serialize()
                fin = xb(rawF)
            except Exception:
                fin, rawF = REJECT, None
        orc.merge(o)
        add_line("finalize", line_of("finalize", PC.NET, orc, "1", xb(rawS)), fin, subset=list(S))
        add_pred("finalize_iff_threshold", (fin != REJECT) == enough, fin != REJECT, enough, subset=list(S))
        # the finaliser on the in-memory result of a history (never serialised in between): signatures were
        # inserted in the order of the history, the outcome must still be the canonical one
        if len(S) >= 2:
            for how, order in (("combine", list(reversed(S))), ("sign", list(reversed(S))), ("sign", list(S))):
                with PC.Oracle() as o:
                    try:
                        obj = run_tree(combine_shapes(order, "foldl")) if how == "combine" else run_seqsign(order)
                        obj.finalize()
                        got = xb(obj.serialize())
                    except Exception:
                        got = REJECT
                orc.merge(o)
                add_pred("finalize_in_memory_order_independent", got == fin, got, fin, subset=list(S), order=order, how=how)
        if rawF is None:
            continue
        with PC.Oracle() as o:
            try:
                qf = PC.reparse(rawF)                 # loads: every finalised input is verified
                back = qf.serialize()
                txo = qf.final_tx()
                txb = txo.serialize()
                ext = xb(txb)
                verifies = bool(txo.verify())
            except Exception as e:
                ext, back, verifies = REJECT, None, False
        orc.merge(o)
        v = "1" if (o.txverify and list(o.txverify.values())[-1]) else "0"
        add_line("final_tx", line_of("final_tx", PC.NET, orc, xb(rawF), v), ext, subset=list(S))
        add_line("parse_ser", line_of("parse_ser", PC.NET, orc, xb(rawF)), xb(back) if back is not None else REJECT, step="finalised", subset=list(S))
        add_pred("extract_verifies_iff_threshold", (ext != REJECT and verifies) == enough, [ext != REJECT, verifies], enough, subset=list(S))
        if back is not None:
            add_pred("reserialize_idempotent", back == rawF, xb(back), xb(rawF), step="finalised", subset=list(S))
        final_txs[S] = ext

    # --- ONE PSBT object driven through the whole workflow and used again after every step (never replaced by a
    #     re-parsed copy): create, update, every signer, a combine, finalize, final_tx, final_tx again.  After each
    #     step the object must serialise to bytes that parse back to the same bytes, and its embedded unsigned
    #     transaction must still be the one it was created from: same txid, legacy format, empty scriptSigs and
    #     witnesses.  Everything that was handed to the API (Tx, TxIn/TxOut, lookups, HD keys) must be unchanged.
    def same_object_step(obj, step):
        try:
            raw = obj.serialize()
            back = PC.reparse(raw).serialize()
            emb = embedded_state(obj, legacy0, txid0)
            ok = back == raw and emb == "ok"
            got = [emb, "reparse identical" if back == raw else "reparse differs"]
        except Exception as e:
            raw, ok, got = None, False, f"raised {type(e).__name__}: {e}"[:160]
        add_pred("same_object_workflow", ok, got, ["ok", "reparse identical"], step=step)
        return raw

    with PC.Oracle() as o:
        so = PSBT.create(b.tx_obj)
        same_object_step(so, "create")
        so.update(*b.lookups)
        same_object_step(so, "update")
        if spec["xpubs"]:
            so.hd_pubs = dict(p.hd_pubs)
        signers = list(range(n)) if single else list(range(m))
        for j in signers[: max(1, len(signers) - 1)] if len(signers) > 1 else signers:
            if j % 2 == 0:
                so.sign(w.roots[j])
            else:
                so.sign_with_private_keys([w.child_priv(j, 0, idx).private_key for idx in sorted(set(b.input_index))])
            same_object_step(so, f"sign {j}")
        if len(signers) > 1:
            so.combine(PC.reparse(signed[signers[-1]]))       # the last needed signer arrives through the combiner
            same_object_step(so, "combine")
        want_before = same_object_step(so, "before finalize")
        if want_before is not None:
            add_line("parse_ser", line_of("parse_ser", PC.NET, orc.merge(o), xb(want_before)), xb(want_before),
                     step="same object, signed")
        try:
            so.finalize()
            raw_f = same_object_step(so, "finalize")
            tx1 = so.final_tx().serialize()
            raw_1 = same_object_step(so, "final_tx")
            tx2 = so.final_tx().serialize()
            raw_2 = same_object_step(so, "final_tx again")
            so.validate()
            add_pred("same_object_workflow", raw_f is not None and raw_1 == raw_f and raw_2 == raw_f and tx1 == tx2,
                     [raw_1 == raw_f, raw_2 == raw_f, tx1 == tx2], [True, True, True], step="extraction leaves the PSBT alone")
            if raw_1 is not None:
                add_line("parse_ser", line_of("parse_ser", PC.NET, orc.merge(o), xb(raw_1)), xb(raw_f), step="same object, after final_tx")
                add_line("final_tx", line_of("final_tx", PC.NET, orc.merge(o), xb(raw_1), "1"), xb(tx1), step="same object, after final_tx")
        except Exception as e:
            add_pred("same_object_workflow", False, f"raised {type(e).__name__}: {e}"[:160], "finalize / final_tx / validate succeed", step="finalize+extract")
    orc.merge(o)
    snap1 = api_snapshot(w, b)
    add_pred("api_inputs_unchanged", snap1 == snap0, [k for k in snap0 if snap0[k] != snap1.get(k)][:6], [])

    # --- LIVE objects: the signers' PSBT objects A, B, C … stay alive (parsed once, never re-read) and are folded into
    #     several fresh objects in different orders, then used again.  `x.combine(other)` must neither modify `other`
    #     nor keep a reference into it: after the combine and after EVERY later mutation of x (another combine, a
    #     signer, finalize) the argument still serialises to its bytes and shares no signature dict with x; "only A"
    #     combined into a fresh PSBT gives what A re-read from its saved bytes gives (same bytes, same finalize verdict).
    with PC.Oracle() as o:
        live = {j: PC.reparse(signed[j]) for j in range(n)}
        saved = {j: live[j].serialize() for j in range(n)}

        def args_intact(x, used, step, order):
            bad = [j for j in used if live[j].serialize() != saved[j]]
            shared = [(j, i) for j in used for i, (pa, pb) in enumerate(zip(x.psbt_ins, live[j].psbt_ins))
                      if pa.sigs is pb.sigs or pa.named_pubs is pb.named_pubs or pa.extra_map is pb.extra_map]
            add_pred("combine_leaves_argument_alone", not bad and not shared, {"argument changed": bad, "shared dicts": shared[:4]},
                     {"argument changed": [], "shared dicts": []}, step=step, order=list(order))

        def fin_verdict(x):
            try:
                x.finalize()
                return xb(x.serialize())
            except Exception as e:
                if not _raised_in_library(e):
                    raise
                return REJECT

        ids = list(range(n))
        orders = [ids, ids[::-1], ids[1:] + ids[:1]] if n > 1 else [ids]
        seen_orders = []
        for order in orders:
            if order in seen_orders:
                continue
            seen_orders.append(order)
            fresh = PC.reparse(raw0)
            used = []
            for j in order:
                fresh.combine(live[j])
                used.append(j)
                args_intact(fresh, used, f"after combine of signer {j}", order)
            extra = order[0]
            if extra % 2 == 0:
                fresh.sign(w.roots[extra])
            else:
                fresh.sign_with_private_keys([w.child_priv(extra, 0, idx).private_key for idx in sorted(set(b.input_index))])
            args_intact(fresh, used, f"after a later sign by signer {extra}", order)
            fin_verdict(fresh)
            args_intact(fresh, used, "after finalize", order)
        # A alone, live, after all of the above — against A re-read from its saved bytes
        for j in sorted({0, n - 1}):
            xa = PC.reparse(raw0)
            xa.combine(live[j])
            xr = PC.reparse(raw0)
            xr.combine(PC.reparse(signed[j]))
            ba, br = xa.serialize(), xr.serialize()
            va, vr = fin_verdict(xa), fin_verdict(xr)
            add_pred("live_reuse_same_as_saved_bytes", ba == br and va == vr, [xb(ba)[:120], va[:60]], [xb(br)[:120], vr[:60]], signer=j)
            if not single and m >= 2:
                add_pred("live_reuse_same_as_saved_bytes", va == REJECT, va[:60], REJECT, signer=j, step="one signer of an m >= 2 wallet cannot finalize")
    orc.merge(o)

    # --- the workflow run from the one-call PSBT object: the needed signers sign, finalize, extract, verify
    if p_one is not None:
        with PC.Oracle() as o:
            try:
                signers = list(range(n)) if single else list(range(m))
                oks = []
                for j in signers:
                    if j % 2 == 1:
                        oks.append(p_one.sign(w.roots[j]))
                    else:
                        oks.append(p_one.sign_with_private_keys([w.child_priv(j, 0, idx).private_key for idx in sorted(set(b.input_index))]))
                p_one.finalize()
                txf = p_one.final_tx()
                got = [all(x is True for x in oks), bool(txf.verify())]
            except Exception as e:
                if not _raised_in_library(e):
                    raise
                got = f"raised {type(e).__name__}: {e}"[:160]
        orc.merge(o)
        add_pred("one_call_workflow", got == [True, True], got, [True, True], step="one-call create, sign, finalize, final_tx")

    # --- partial signatures with another sighash flag: whatever does not verify is refused on load.  The library
    #     checks every partial signature against the SIGHASH_ALL digest and never looks at the flag byte, so a genuine
    #     signature made with another hash type is refused as well, and (observation O10c) a genuine SIGHASH_ALL
    #     signature whose flag byte was relabelled is kept; the model is told the library's answers and must agree.
    if n >= 1 and spec["n_inputs"] >= 1 and sig_keys[0]:
        (fi, fsec), fsig = sorted(sig_keys[0].items())[0]
        fder = fsig[:-1]
        foreign = [s2 for j2 in sorted(sig_keys) for (i2, sec2), s2 in sorted(sig_keys[j2].items()) if s2 != fsig]
        with PC.Oracle() as o:
            rp0 = PC.reparse(signed[0])
        orc.merge(o)
        pin = rp0.psbt_ins[fi]
        priv0 = None
        for idx in sorted(set(b.input_index)):
            cand = w.child_priv(0, 0, idx).private_key
            if cand.point.sec() == fsec:
                priv0 = cand
        flagged = []
        for F in (0x00, 0x02, 0x03, 0x81, 0x82, 0x83, 0xFF):
            fb = bytes([F])
            wd = bytearray(fder)
            wd[-10] ^= 0x01
            flagged.append((f"wrong digest, valid DER, flag {F:#04x}", bytes(wd) + fb, True))
            flagged.append((f"broken DER, flag {F:#04x}", bytes([fder[0] ^ 0x01]) + fder[1:] + fb, True))
            if foreign:
                flagged.append((f"another key's signature, flag {F:#04x}", foreign[0][:-1] + fb, True))
            if priv0 is not None:
                try:
                    if pin.prev_out is not None:
                        z = rp0.tx_obj.sig_hash_bip143(fi, redeem_script=pin.redeem_script, witness_script=pin.witness_script, hash_type=F)
                    else:
                        z = rp0.tx_obj.sig_hash_legacy(fi, redeem_script=pin.redeem_script, hash_type=F)
                    flagged.append((f"genuine signature with hash type {F:#04x}", priv0.sign(z).der() + fb, True))
                except Exception:
                    pass
            flagged.append((f"genuine SIGHASH_ALL signature relabelled {F:#04x}", fder + fb, False))
        for why, newsig, must_refuse in flagged:
            with PC.Oracle() as o:
                qq = PC.reparse(signed[0])
                if fsec not in qq.psbt_ins[fi].sigs:
                    break
                qq.psbt_ins[fi].sigs[fsec] = newsig
                rawbad = qq.serialize()
                try:
                    PC.reparse(rawbad)
                    got = "accepted"
                except Exception:
                    got = REJECT
            orc.merge(o)
            if must_refuse:
                add_pred("bad_partial_sig_refused", got == REJECT, got, REJECT, why=why)
            add_line("parse_ser_badsig", line_of("parse_ser", PC.NET, orc, xb(rawbad)), got if got == REJECT else xb(rawbad), why=why)

    # --- a GENUINE partial signature of unusual length loads and round-trips: nonce 1/2 gives r = x(G/2), 21 bytes,
    #     so the DER string is 59 bytes instead of 70..72 (short-r signers and about one honest signature in 2^14
    #     produce short encodings); the codec must neither refuse nor alter it
    if n >= 1 and spec["n_inputs"] >= 1 and sig_keys[0]:
        try:
            import buidl.ecc as _E
            (fi, fsec), fsig = sorted(sig_keys[0].items())[0]
            with PC.Oracle() as o:
                rp0 = PC.reparse(signed[0])
            orc.merge(o)
            pin = rp0.psbt_ins[fi]
            priv0 = None
            for idx in sorted(set(b.input_index)):
                cand = w.child_priv(0, 0, idx).private_key
                if cand.point.sec() == fsec:
                    priv0 = cand
            if priv0 is not None and fsig[-1] == 1:
                if pin.prev_out is not None:
                    z = rp0.tx_obj.sig_hash_bip143(fi, redeem_script=pin.redeem_script, witness_script=pin.witness_script, hash_type=1)
                else:
                    z = rp0.tx_obj.sig_hash_legacy(fi, redeem_script=pin.redeem_script, hash_type=1)
                pk = _E.PrivateKey(priv0.secret)
                pk.deterministic_k = lambda _z: (_E.N + 1) // 2
                short = pk.sign(z).der() + b"\x01"
                if len(short) < 66 and priv0.point.verify(z, _E.Signature.parse(short[:-1])):
                    with PC.Oracle() as o:
                        qq = PC.reparse(signed[0])
                        qq.psbt_ins[fi].sigs[fsec] = short
                        rawshort = qq.serialize()
                        try:
                            got = xb(PC.reparse(rawshort).serialize())
                        except Exception:
                            got = REJECT
                    orc.merge(o)
                    add_pred("short_partial_sig_roundtrip", got == xb(rawshort), got[:80], xb(rawshort)[:80],
                             why=f"{len(short)}-byte partial signature (r = x(G/2))")
                    add_line("parse_ser_shortsig", line_of("parse_ser", PC.NET, orc, xb(rawshort)), got,
                             why="short genuine partial signature")
        except (AttributeError, KeyError, IndexError):
            pass        # wallet shape without a recoverable first signer: nothing to construct

    # --- a partial signature that does not verify is refused on load
    if n >= 1 and spec["n_inputs"] >= 1:
        made = sig_keys[0]
        variants = []
        for (i, sec), sig in sorted(made.items())[:2]:
            bad = bytearray(sig)
            bad[-10] ^= 0x01                      # inside s: still DER, no longer a signature of this input
            variants.append(("bitflip", signed[0].replace(sig, bytes(bad))))
            others = [s2 for (i2, sec2), s2 in sig_keys.get(1 % n, {}).items() if s2 != sig] + \
                     [s2 for (i2, sec2), s2 in made.items() if s2 != sig]
            if others and len(others[0]) == len(sig):
                variants.append(("swapped", signed[0].replace(sig, others[0])))
        for why, rawbad in variants:
            if rawbad == signed[0]:
                continue
            with PC.Oracle() as o:
                try:
                    PC.reparse(rawbad)
                    got = "accepted"
                except Exception:
                    got = REJECT
            orc.merge(o)
            add_pred("bad_partial_sig_refused", got == REJECT, got, REJECT, why=why)
            add_line("parse_ser_badsig", line_of("parse_ser", PC.NET, orc, xb(rawbad)), got if got == REJECT else xb(rawbad), why=why)

    # --- finding witnesses replayed on every run
    return {"lines": lines, "preds": preds, "findings": findings, "histories": n_hist,
            "stats": {"stype": st, "m": m, "n": n, "inputs": spec["n_inputs"], "subsets": len(subsets)}}


# ----------------------------------------------------------------------------------------- fixed catalogue
def corpus_job(entry):
    """one BIP174 / library vector: parse with inferred network; bytes or REJECT on both sides"""
    _setup()
    from buidl.psbt import PSBT

    raw = base64.b64decode(entry["b64"])
    with PC.Oracle() as o:
        try:
            p = PSBT.parse(io.BytesIO(raw), network=None)
            out = p.serialize()
            ans = xb(out)
            again = PSBT.parse(io.BytesIO(out), network=p.network).serialize()
        except Exception:
            ans, out, again = REJECT, None, None
    line = line_of("parse_ser", None, o, xb(raw))
    preds = []
    if out is not None:
        preds.append(("reserialize_idempotent", {"pred": "reserialize_idempotent", "vector": entry["b64"][:60]}, again == out, xb(again), xb(out)))
    if entry.get("expect") == "valid":
        preds.append(("bip174_valid_roundtrip", {"pred": "bip174_valid_roundtrip", "vector": entry["b64"][:60]}, out == raw, ans, xb(raw)))
    if entry.get("expect") == "invalid":
        preds.append(("bip174_invalid_refused", {"pred": "bip174_invalid_refused", "vector": entry["b64"][:60]}, ans == REJECT, ans[:80], REJECT))
    return {"lines": [("corpus", {"vector": entry["b64"]}, line, ans)], "preds": preds}


def crafted_job(spec):
    """boundary catalogue on one small PSBT: truncations, byte mutations, duplicate keys (with and without
    empty values: observation O10c), wrong key lengths, sighash type 0, empty final witness, both UTXO kinds"""
    _setup()
    from buidl.psbt import PSBT
    from buidl.helper import serialize_key_value, encode_varstr, encode_varint

    rng = random.Random(spec["seed"])
    w = PC.make_wallet(rng, spec["m"], spec["n"], spec["stype"])
    b = PC.build_psbt(rng, w, n_inputs=1, n_spend=1, with_change=True, global_xpubs=spec["xpubs"], unknowns=True)
    raw = b.psbt.serialize()
    ser_in = b.psbt.psbt_ins[0].serialize()
    pos_in = raw.index(ser_in)
    cands = []
    for cut in sorted(set([0, 4, 5, 6] + [rng.randrange(0, len(raw)) for _ in range(spec["n_trunc"])])):
        cands.append((f"trunc {cut}", raw[:cut]))
    for _ in range(spec["n_mut"]):
        pos = rng.randrange(0, len(raw))
        mut = bytearray(raw)
        mut[pos] ^= rng.choice([1, 2, 0x80, 0xFF])
        cands.append((f"mut {pos}", bytes(mut)))

    def with_in(extra_front=b"", extra_back=b""):
        body = ser_in[:-1]
        return raw[:pos_in] + extra_front + body + extra_back + b"\x00" + raw[pos_in + len(ser_in):]

    kv = serialize_key_value
    unk_k = bytes([0x30, 1, 2])
    cands += [
        ("dup unknown, non-empty", with_in(extra_back=kv(unk_k, b"a") + kv(unk_k, b"b"))),
        ("dup unknown, first empty (O10c)", with_in(extra_back=kv(unk_k, b"") + kv(unk_k, b"b"))),
        ("dup partial sig key, first empty (O10c)", with_in(extra_back=kv(b"\x02" + b"\x02" * 33, b"") + kv(b"\x02" + b"\x02" * 33, b""))),
        ("sighash type 0 twice", with_in(extra_back=kv(b"\x03", b"\x00\x00\x00\x00") + kv(b"\x03", b"\x01\x00\x00\x00"))),
        ("sighash type 1 twice", with_in(extra_back=kv(b"\x03", b"\x01\x00\x00\x00") + kv(b"\x03", b"\x01\x00\x00\x00"))),
        ("sighash key too long", with_in(extra_back=kv(b"\x03\x00", b"\x01\x00\x00\x00"))),
        ("redeem script key too long", with_in(extra_back=kv(b"\x04\x00", b"\x51"))),
        ("bip32 key too short", with_in(extra_back=kv(b"\x06" + b"\x02" * 32, b"\x00" * 8))),
        ("bip32 key not on curve", with_in(extra_back=kv(b"\x06\x02" + b"\xff" * 32, b"\x00" * 8))),
        ("bip32 path not multiple of 4", with_in(extra_back=kv(b"\x06" + w.child_priv(0, 0, 9).private_key.point.sec(), b"\x00" * 7))),
        ("empty final witness twice", with_in(extra_back=kv(b"\x08", b"\x00") + kv(b"\x08", b"\x00"))),
        ("por commitment (type 9) is an unknown", with_in(extra_back=kv(b"\x09", b"xyz"))),
        ("trailing bytes after the last map", raw + b"\x01\x02\x03"),
        ("global: second unsigned tx", raw[:5] + raw[5:pos_in - 1] + kv(b"\x00", b.psbt.tx_obj.serialize_legacy()) + raw[pos_in - 1:]),
        ("global: unsigned-tx key too long", raw[:5] + kv(b"\x00\x00", b.psbt.tx_obj.serialize_legacy()) + raw[5 + len(kv(b"\x00", b.psbt.tx_obj.serialize_legacy())):]),
        ("global: xpub key too short", raw[:pos_in - 1] + kv(b"\x01" + b"\x04\x35\x87\xcf" + b"\x00" * 70, b"\x00" * 4) + raw[pos_in - 1:]),
        ("wrong magic", b"psbX" + raw[4:]),
        ("wrong separator", raw[:4] + b"\xfe" + raw[5:]),
    ]
    pi = b.psbt.psbt_ins[0]
    if pi.prev_tx is not None:
        real = pi.prev_tx.tx_outs[pi.tx_in.prev_index]
        from buidl.tx import TxOut
        nw = kv(b"\x00", pi.prev_tx.serialize())
        for label, amt in (("both UTXO kinds, equal", real.amount), ("both UTXO kinds, other amount (F11d)", real.amount - 1)):
            wu = kv(b"\x01", TxOut(amt, real.script_pubkey).serialize())
            cands.append((label, raw[:pos_in] + nw + wu + ser_in[len(nw):] + raw[pos_in + len(ser_in):]))
        cands.append(("non-witness UTXO twice", raw[:pos_in] + nw + ser_in + raw[pos_in + len(ser_in):]))
        cands.append(("non-witness UTXO with wrong length prefix",
                      raw[:pos_in] + encode_varstr(b"\x00") + encode_varint(len(pi.prev_tx.serialize()) + 1) + pi.prev_tx.serialize() + ser_in[len(nw):] + raw[pos_in + len(ser_in):]))
    lines, preds = [], []
    for label, cand in cands:
        with PC.Oracle() as o:
            try:
                out = PC.reparse(cand).serialize()
                ans = xb(out)
                again = xb(PC.reparse(out).serialize())
            except Exception:
                ans, again = REJECT, None
        lines.append(("crafted", {"spec": spec, "what": label, "crafted": True}, line_of("parse_ser", PC.NET, o, xb(cand)), ans))
        if again is not None:
            preds.append(("reserialize_idempotent", {"spec": spec, "pred": "reserialize_idempotent", "what": label, "crafted": True}, again == ans, again, ans))
    return {"lines": lines, "preds": preds}


# ----------------------------------------------------------------------------------------- findings
def finding_witnesses():
    """replayed on every run against the working tree: (id, reproduces, witness)"""
    _setup()
    from buidl.ecc import PrivateKey

    res = []
    rng = random.Random("C10-findings")
    # F10d: legacy p2sh finalize with one script signature and one foreign (valid) signature, m = 2
    w = PC.make_wallet(rng, 2, 3, "p2sh")
    b = PC.build_psbt(rng, w, n_inputs=1, with_change=False)
    p = b.psbt
    p.sign(w.roots[0])
    fk = PrivateKey(secret=12345)
    pi = p.psbt_ins[0]
    pi.sigs[fk.point.sec()] = p.tx_obj.get_sig_legacy(0, fk, pi.redeem_script)
    try:
        pi.finalize()
        res.append(("F10d", True, {"what": "2-of-3 p2sh input with one script-key signature and one foreign-key signature finalises", "script_sig_commands": len(pi.script_sig.commands)}))
    except Exception:
        res.append(("F10d", False, None))
    # F10e / F10f: a p2sh-p2wpkh input map / change output map carrying its BIP32 derivation validates
    from buidl.psbt import PSBT
    w = PC.make_wallet(rng, 1, 1, "p2sh-p2wpkh")
    b = PC.build_psbt(rng, w, n_inputs=1, with_change=True, defer=True)
    pp = PSBT.create(b.tx_obj)
    pp.update(*b.lookups)
    for fid, part, what in (("F10e", pp.psbt_ins[0], "input"), ("F10f", pp.psbt_outs[b.change_pos], "change output")):
        try:
            assert part.named_pubs and part.redeem_script is not None
            part.validate()
            res.append((fid, False, None))
        except Exception as e:
            res.append((fid, True, {"what": f"p2sh-p2wpkh {what} map with its derivation is refused: {type(e).__name__}: {str(e)[:80]}"}))
    # F10a: (i) the Tx handed to PSBT.create was built with segwit=True; (ii) it is a signed segwit transaction
    # that came out of Tx.parse (create strips the witnesses into the input maps)
    import io as _io
    from buidl.psbt import PSBT
    from buidl.tx import Tx, TxIn, TxOut
    from buidl.script import P2WPKHScriptPubKey
    from buidl.witness import Witness

    states = []
    for st in ("p2wsh", "p2wpkh"):
        w = PC.make_wallet(rng, 1, 2 if st == "p2wsh" else 1, st)
        try:
            b = PC.build_psbt(rng, w, n_inputs=2, segwit_flag=True, defer=True)
            p = PSBT.create(b.tx_obj)
            states.append((f"Tx(..., segwit=True), {st}, created", unsigned_tx_state(p)))
            p.update(*b.lookups)
            states.append((f"Tx(..., segwit=True), {st}, updated", unsigned_tx_state(p)))
        except Exception as e:
            states.append((f"Tx(..., segwit=True), {st}", f"raised {type(e).__name__}: {e}"[:120]))
    try:
        tin = TxIn(PC.rbytes(rng, 32), 1)
        tin.witness = Witness([PC.rbytes(rng, 71), PC.rbytes(rng, 33)])
        signed = Tx(2, [tin], [TxOut(50_000, P2WPKHScriptPubKey(PC.rbytes(rng, 20)))], 0, network=PC.NET, segwit=True)
        parsed = Tx.parse(_io.BytesIO(signed.serialize()), network=PC.NET)
        p = PSBT.create(parsed)
        states.append(("signed segwit transaction from Tx.parse", unsigned_tx_state(p)))
    except Exception as e:
        states.append(("signed segwit transaction from Tx.parse", f"raised {type(e).__name__}: {e}"[:120]))
    bad = [(k, v) for k, v in states if v != "ok"]
    res.append(("F10a", bool(bad), {"what": bad[:3]} if bad else None))
    return res


# ----------------------------------------------------------------------------------------- generation
def wallet_specs(ctx):
    rng = ctx.rng
    specs = []
    n_wallets = int(os.environ.get("VERIF_C10_WALLETS", "0")) or ctx.n(36, 400)   # env knob: debugging only
    combos = []
    for st in PC.SCRIPT_TYPES:
        if st in PC.MULTI_TYPES:
            for n in range(1, 5):
                for m in range(1, n + 1):
                    combos.append((st, m, n))
        else:
            combos.append((st, 1, 1))
    for k in range(n_wallets):
        st, m, n = combos[k % len(combos)] if k < len(combos) else rng.choice(combos)
        if k >= len(combos) and rng.random() < 0.5:
            st, m, n = rng.choice([c for c in combos if c[2] >= 3])
        n_inputs = 1 + (k % 3)
        if not ctx.thorough and n == 4 and n_inputs == 3:
            n_inputs = 2
        specs.append({"seed": f"C10:{ctx.seed}:wallet:{k}", "m": m, "n": n, "stype": st, "n_inputs": n_inputs,
                      "n_spend": rng.choice([1, 1, 2]), "change": rng.random() < 0.6, "xpubs": rng.random() < 0.4,
                      "unknowns": rng.random() < 0.5,
                      # the unsigned Tx handed to PSBT.create is built with segwit=True (finding F10a): every third wallet
                      # of the witness script types, whatever the seed
                      "segwit_flag": st not in ("p2pkh", "p2sh") and k % 3 == 1,
                      # every cosigner attaches his own xpub / proprietary records before signing (multi-signer wallets)
                      "own_records": n >= 2 and k % 2 == 0,
                      "hist_budget": 30 if not ctx.thorough else 400, "all_histories": bool(ctx.thorough),
                      "combine_lines": 8 if not ctx.thorough else 40})
    return specs


def _job(j):
    kind, arg = j
    try:
        if kind == "wallet":
            return kind, arg, wallet_job(arg)
        if kind == "corpus":
            return kind, arg, corpus_job(arg)
        if kind == "crafted":
            return kind, arg, crafted_job(arg)
        if kind == "findings":
            return kind, arg, {"lines": [], "preds": [], "findings": finding_witnesses()}
    except Exception as e:  # a harness bug: report, never hide
        import traceback
        return kind, arg, {"error": traceback.format_exc()[-1500:]}


def run(ctx):
    rec = ctx.rec
    drv = ctx.driver("drv_c10")
    jobs = [("findings", None)]
    corpus = json.load(open(CORPUS))
    for e in corpus["valid"]:
        jobs.append(("corpus", dict(e, expect="valid")))
    for e in corpus["invalid"]:
        jobs.append(("corpus", dict(e, expect="invalid")))
    seen = set()
    for e in corpus["other"]:
        if e["b64"] not in seen:
            seen.add(e["b64"])
            jobs.append(("corpus", dict(e, expect=None)))
    for k, (st, m, n) in enumerate([("p2sh", 2, 3), ("p2wsh", 1, 2), ("p2sh-p2wsh", 2, 2), ("p2pkh", 1, 1), ("p2wpkh", 1, 1)]):
        jobs.append(("crafted", {"seed": f"C10:{ctx.seed}:crafted:{k}", "m": m, "n": n, "stype": st, "xpubs": k % 2 == 0,
                                 "n_trunc": ctx.n(12, 80), "n_mut": ctx.n(25, 300)}))
    specs = wallet_specs(ctx)
    for s in specs:
        jobs.append(("wallet", s))
    # line-coverage sample: a few small wallets, vectors and one crafted catalogue are replayed in-process by ./check
    small = sorted(specs, key=lambda s: (s["n"] * s["n_inputs"], s["stype"]))
    picked = []
    for st in ("p2pkh", "p2sh-p2wpkh", "p2sh", "p2wsh"):
        picked += [s for s in small if s["stype"] == st and (s["n"] >= 2 or st in ("p2pkh", "p2sh-p2wpkh"))][:1]
    for s in picked:
        rec.cov_pred("wallet_workflow", {"spec": dict(s, hist_budget=6, combine_lines=2)})
    for e in corpus["valid"][:2] + corpus["invalid"][:2]:
        rec.cov_pred("bip174_vector", e)
    rec.cov_pred("crafted_catalogue", {"spec": {"seed": "C10:cov", "m": 1, "n": 2, "stype": "p2sh", "xpubs": True, "n_trunc": 2, "n_mut": 2}})
    # heavy jobs first so that the pool drains evenly
    jobs.sort(key=lambda j: -(j[1]["n"] * j[1]["n_inputs"] if j[0] == "wallet" else 0))
    outs = pmap(_job, jobs, workers=ctx.workers, chunksize=1)

    all_lines = []
    for kind, arg, res in outs:
        if "error" in res:
            from harness.common import MachineryError
            raise MachineryError(f"C10 harness job {kind} failed:\n{res['error']}")
        for fid, reproduces, witness in res.get("findings", []):
            rec.finding(fid, reproduces, witness)
        for l in res["lines"]:
            all_lines.append(l)
        for pk, case, ok, got, want in res["preds"]:
            if ok:
                rec.ok(pk, repr(case)[:400])
                rec.sample(pk, case, limit=1)
            else:
                rec.violation(pk, case, got, want)
        if kind == "wallet":
            s = res["stats"]
            rec.count(f"wallet:{s['stype']}:{s['m']}of{s['n']}:{s['inputs']}in")
            rec.count("histories", res["histories"])
    answers = batch_parallel(drv, [l[2] for l in all_lines], workers=ctx.workers)
    for (kind, case, line, impl), model in zip(all_lines, answers):
        c = dict(case, line=line if len(line) < 60000 else line[:60000])
        if rec.compare(kind, c, impl, model, determined=True, key=line[-300:], nontrivial=True):
            rec.sample(kind, {"request": line[:200] + " …", "answer": model[:120]}, limit=1)
        if impl == REJECT:
            rec.count(kind + ":reject")


def replay(ctx, v):
    """re-execute one recorded violation exactly; True if it still violates"""
    case = v["case"]
    if v["kind"].startswith("regression:"):
        # a finding recorded as fixed: its witness is re-executed on the working tree
        fid = v["kind"].split(":", 1)[1]
        ws = finding_witnesses()
        if isinstance(v.get("case"), dict) and "spec" in v["case"]:      # recorded by a wallet of the normal workflow
            ws += wallet_job(v["case"]["spec"]).get("findings", [])
        return any(f == fid and reproduces for f, reproduces, _ in ws)
    kind = v["kind"]
    if "vector" in case and "spec" not in case:
        corpus = json.load(open(CORPUS))
        for grp, exp in (("valid", "valid"), ("invalid", "invalid"), ("other", None)):
            for e in corpus[grp]:
                if e["b64"].startswith(case["vector"][:60]):
                    res = corpus_job(dict(e, expect=exp))
                    return _still(ctx, res, kind)
        return False
    spec = case.get("spec")
    if spec is None:
        return False
    res = crafted_job(spec) if case.get("crafted") else wallet_job(spec)
    return _still(ctx, res, kind)


def _still(ctx, res, kind):
    for pk, case, ok, got, want in res["preds"]:
        if pk == kind and not ok:
            return True
    lines = [l for l in res["lines"] if l[0] == kind]
    if lines:
        answers = ctx.driver("drv_c10").batch([l[2] for l in lines])
        for (k, case, line, impl), model in zip(lines, answers):
            if impl != model:
                return True
    return False


PREDICATE_DOC = {
    "unsigned_tx_is_legacy": "a PSBT created from a Tx flagged segwit carries the legacy serialisation under global key 0x00 and parses back to the same transaction",
    "honest_workflow_completes": "no library exception escapes from an honest create / update / sign / combine / finalize / extract workflow",
    "honest_psbt_loads": "an honest PSBT built by create + update validates, serialises and parses back (all six script types)",
    "same_object_workflow": "one PSBT object used through create, update, sign, combine, finalize, final_tx (twice): after every step it re-parses to identical bytes and its embedded transaction is unchanged (txid, legacy format, empty scriptSigs / witnesses)",
    "combine_leaves_argument_alone": "x.combine(other) neither modifies other nor shares a dict with it: after the combine and after every later combine / sign / finalize on x the argument (a live object, never re-parsed) serialises to its bytes",
    "live_reuse_same_as_saved_bytes": "a signer's live PSBT object, after having been combined into other objects, gives the same combined bytes and the same finalize verdict as the PSBT re-read from its saved bytes (one signer of an m >= 2 wallet is refused)",
    "api_inputs_unchanged": "the Tx, TxIn/TxOut, lookups and HD keys handed to the API are unchanged after the whole workflow",
    "reserialize_idempotent": "serialize(parse(serialize p)) == serialize p on the real code, after every step",
    "order_independent": "every permutation / combine tree / sign-then-combine mix of one signer subset gives the same bytes",
    "combine_idempotent": "p.combine(p) serialises as p",
    "combine_keeps_all_records": "when every cosigner attached his own global xpub and proprietary global / input / output records, the combined PSBT holds the union: no xpub, record or signature of any operand is missing",
    "finalize_in_memory_order_independent": "finalize on the in-memory result of a history (signatures inserted in history order) gives the canonical finalised PSBT",
    "finalize_iff_threshold": "finalize succeeds iff >= m signers signed (exactly 1 for the single-key types)",
    "extract_verifies_iff_threshold": "final_tx returns a transaction that Tx.verify accepts iff the threshold is met",
    "one_call_create_equals_two_step": "PSBT.create(tx, tx_lookup, pubkey_lookup, redeem_lookup, witness_lookup) serialises to the bytes of PSBT.create(tx) followed by update(...)",
    "one_call_workflow": "from the one-call PSBT object the needed signers sign, finalize and final_tx succeed and the transaction verifies",
    "short_partial_sig_roundtrip": "a PSBT carrying a genuine partial signature with a short DER encoding (59 bytes, r = x(G/2)) loads and re-serialises to the identical bytes",
    "bad_partial_sig_refused": "a PSBT carrying a partial signature that does not verify is refused by PSBT.parse",
    "bip174_valid_roundtrip": "valid BIP174 vectors re-serialise to the identical bytes",
    "bip174_invalid_refused": "invalid BIP174 vectors are refused",
}


# --------------------------------------------------------------------------------- predicates, re-executable
def _job_outcome(res):
    bad = [(k, c.get("step") or c.get("what") or c.get("subset"), got) for k, c, ok, got, want in res["preds"] if not ok]
    return not bad, bad[:5], []


def p_wallet_workflow(case):
    """the whole per-wallet scenario (create, update, sign, combine histories, finalize, extract, same-object reuse)"""
    return _job_outcome(wallet_job(case["spec"]))


def p_bip174_vector(case):
    return _job_outcome(corpus_job(case))


def p_crafted_catalogue(case):
    return _job_outcome(crafted_job(case["spec"]))


PREDICATES = {"wallet_workflow": p_wallet_workflow, "bip174_vector": p_bip174_vector, "crafted_catalogue": p_crafted_catalogue}


def eval_pred(kind, case):
    try:
        return PREDICATES[kind](case)
    except Exception as e:
        return False, "raised " + type(e).__name__, "no exception"
