"""
C17 — Merkle roots, BIP37 inclusion proofs, compact bits / targets / retargeting / proof-of-work:
correspondence between the Lean model (lean/Buidl/Model/Merkle.lean; driver drv_c17) and
buidl/helper.py, merkleblock.py, block.py, network.py; the Lean *specification*
(lean/Buidl/Spec/Merkle.lean, written from Bitcoin Core / BIP37) as the oracle for what the property
determines; and property predicates evaluated directly on the implementation (a validating proof
yields only ids of the block; altered hashes / roots never validate).

Structure (as harness/c19.py):
  impl_line(line)   evaluate one driver request line on the real code -> canonical answer
  PREDICATES[kind]  property predicates evaluated directly on the real code: case -> (ok, got, want)
  run(ctx)          generate request lines / predicate cases, run both sides, record
  replay(ctx, v)    re-execute one recorded violation exactly
"""
import ast
import io
import math
import os
import resource
from fractions import Fraction
from types import SimpleNamespace

from harness import common
from harness.common import REJECT, MachineryError, xb, unx, blist, batch_parallel, pmap

PROPERTY = "C17"
DRIVERS = ["drv_c17"]
ANCHORS = [
    ("buidl/helper.py", "merkle_parent"), ("buidl/helper.py", "merkle_parent_level"), ("buidl/helper.py", "merkle_root"),
    ("buidl/helper.py", "bit_field_to_bytes"), ("buidl/helper.py", "bytes_to_bit_field"),
    ("buidl/helper.py", "bits_to_target"), ("buidl/helper.py", "target_to_bits"), ("buidl/helper.py", "calculate_new_bits"),
    ("buidl/merkleblock.py", "MerkleTree.__init__"), ("buidl/merkleblock.py", "MerkleTree.up"),
    ("buidl/merkleblock.py", "MerkleTree.left"), ("buidl/merkleblock.py", "MerkleTree.right"),
    ("buidl/merkleblock.py", "MerkleTree.root"), ("buidl/merkleblock.py", "MerkleTree.set_current_node"),
    ("buidl/merkleblock.py", "MerkleTree.get_current_node"), ("buidl/merkleblock.py", "MerkleTree.get_left_node"),
    ("buidl/merkleblock.py", "MerkleTree.get_right_node"), ("buidl/merkleblock.py", "MerkleTree.is_leaf"),
    ("buidl/merkleblock.py", "MerkleTree.right_exists"), ("buidl/merkleblock.py", "MerkleTree.populate_tree"),
    ("buidl/merkleblock.py", "MerkleBlock.is_valid"), ("buidl/merkleblock.py", "MerkleBlock.proved_txs"),
    ("buidl/block.py", "Block.serialize"), ("buidl/block.py", "Block.hash"), ("buidl/block.py", "Block.target"),
    ("buidl/block.py", "Block.check_pow"), ("buidl/block.py", "Block.validate_merkle_root"),
    ("buidl/network.py", "HeadersMessage.is_valid"),
]
RULE = ("cases come from one PRNG seeded by VERIF_SEED plus fixed catalogues: every tree of 1..7 (quick) / 1..10 "
        "(thorough) leaves with every match subset; sampled trees up to 5000 leaves at power-of-two boundaries; every "
        "single-bit alteration of every hash, flag byte, the count and the root, and every dropped / extra hash, of "
        "sampled proofs; totals at every power of two ± 1 up to 2^32 (sizing expressions only); exponents 0..35 × "
        "mantissa boundaries; time differentials across both clamps; the last leaf matched at every size 1..41 (thorough 1..300), "
        "equal last ids, the duplicated-last-leaf shape; object-reuse histories (one list through merkle_root / "
        "merkle_parent_level repeatedly, one MerkleBlock validated again after every field edit with proved_txs() before, "
        "between and after, one MerkleTree populated several times including after an exception, one Block queried twice after "
        "every field edit), every query made twice and compared with the model on the current state. A case is non-trivial when its input is not "
        "empty; distinct = distinct (operation, input) pairs")
CLAUSES = {
    "merkle root = Bitcoin's (pairwise double-SHA256, last element of odd levels duplicated); calling it twice gives the same root":
        "proved relative to hash (merkle_root_eq_spec, merkle_root_twice, merkle_root_empty, validate_merkle_root_eq)",
    "tree sizing = integer ceil(log2 total)":
        "proved (tree_depth_ceil_log2, tree_depth_eq_spec, level_sizes); float form = finding F17a, fixed (F17a_witness)",
    "populate_tree (cursor machine, error branches) = BIP37 recursive parsing":
        "proved relative to hash (populate_eq_spec, populate_never_out_of_fuel); a reused MerkleTree object: tree_reuse_fresh, "
        "tree_reuse_finished; flag bytes <-> bits: bit_field_roundtrip; merkleblock message: merkleblock_parse_encode",
    "BIP37 completeness: for every block size and match set the built proof validates and yields exactly the matched ids in order":
        "proved relative to hash (bip37_complete, bip37_complete_tree)",
    "BIP37 soundness: any validating proof, honest or altered, yields only ids of the block":
        "proved relative to hash as collision extraction, for total = number of transactions and 32-byte hashes "
        "(bip37_sound, bip37_sound_merkleblock); partial(F17b): false for a forged total (F17b_witness)",
    "altering any hash or the header root makes validation fail":
        "proved relative to hash as collision extraction (bip37_altered_hash, bip37_altered_root); also evaluated directly on "
        "the code for every single-bit alteration of sampled proofs",
    "header hash, header-chain linkage": "proved relative to hash (header_hash_eq, headers_valid_iff); the 80-byte codec is C19",
    "compact bits -> target": "partial(F17c): = SetCompact for exponent >= 3, clear sign bit, no overflow "
                              "(bits_to_target_eq_SetCompact, bits_to_target_general, F17c_witness)",
    "target -> compact bits": "partial(F17d): = GetCompact for 2^16 <= target < 2^256 (target_to_bits_eq_GetCompact, F17d_witness)",
    "difficulty retargeting": "proved = CalculateNextWorkRequired under the side conditions of the two clauses above "
                              "(retarget_clamp, calculate_new_bits_eq_spec, max_target_cap)",
    "proof-of-work test": "partial(F17e): = CheckProofOfWork for in-range bits when hash != target "
                          "(check_pow_eq, check_pow_eq_consensus_of_ne, F17e_witness)",
}
TRUSTED = ["hash256 is a parameter of every theorem; the driver instantiates it with Buidl.Model.Hash.SHA256 "
           "(checked against hashlib by harness/hash_selftest.py)",
           "floats: `total / 2**k` and (before fix F17a) math.log are modelled exactly for total <= 2^32, the range of the "
           "4-byte wire field; the harness checks the sizing expressions of the source on that whole boundary catalogue"]
ASSUMPTIONS = ["list allocation succeeds (a forged transaction count of 2^31 makes MerkleTree allocate 2^32 list slots)",
               "int/float comparison in CPython is exact"]

MAX_REAL_TOTAL = 1 << 14   # above this the real MerkleTree is only run under a memory limit, not compared


class UnknownOp(Exception):
    pass


def rbytes(rng, n):
    return rng.getrandbits(8 * n).to_bytes(n, "little") if n else b""


def fmt_header_toks(h):
    return f"{h.version} {xb(h.prev_block)} {xb(h.merkle_root)} {h.timestamp} {xb(h.bits)} {xb(h.nonce)}"


def bits_tok(bits):
    return "m" + "".join("1" if b else "0" for b in bits)


def parse_counted(t, i):
    n = int(t[i])
    return [unx(x) for x in t[i + 1:i + 1 + n]], i + 1 + n


# ------------------------------------------------------------------------------- sizing expressions of the source
_SIZING = {}


def sizing_exprs():
    """compile `self.max_depth = <e1>` and `num_items = <e2>` of MerkleTree.__init__ from the source; an expression that
    is no longer written as such an assignment (a rewrite of the constructor) is None and the caller falls back to
    constructing the real tree for totals small enough to allocate"""
    if "e" in _SIZING:
        return _SIZING["e"]
    src = open(os.path.join(common.REPO, "buidl/merkleblock.py")).read()
    tree = ast.parse(src)
    e1 = e2 = None
    for cls in tree.body:
        if isinstance(cls, ast.ClassDef) and cls.name == "MerkleTree":
            for fn in cls.body:
                if isinstance(fn, ast.FunctionDef) and fn.name == "__init__":
                    for n in ast.walk(fn):
                        if isinstance(n, ast.Assign) and len(n.targets) == 1:
                            tg = n.targets[0]
                            if isinstance(tg, ast.Attribute) and tg.attr == "max_depth":
                                e1 = compile(ast.Expression(n.value), "merkleblock.py", "eval")
                            if isinstance(tg, ast.Name) and tg.id == "num_items":
                                e2 = compile(ast.Expression(n.value), "merkleblock.py", "eval")
    _SIZING["e"] = (e1, e2)
    return e1, e2


SIZING_ALLOC_MAX = 2 ** 18   # largest total for which the fallback constructs the real tree


def sizing_available(total):
    e1, e2 = sizing_exprs()
    return (e1 is not None and e2 is not None) or total <= SIZING_ALLOC_MAX


def impl_sizing(total):
    e1, e2 = sizing_exprs()
    if e1 is None or e2 is None:
        if total <= SIZING_ALLOC_MAX:
            import buidl.merkleblock as MB
            tr = MB.MerkleTree(total)
            return tr.max_depth, [len(l) for l in tr.nodes]
        if e1 is None:
            raise MachineryError("MerkleTree.__init__: sizing expressions not found and total too large to allocate")
        self = SimpleNamespace(total=total)
        return eval(e1, {"math": math, "self": self}), None
    self = SimpleNamespace(total=total)
    self.max_depth = eval(e1, {"math": math, "self": self})
    sizes = [eval(e2, {"math": math, "self": self, "depth": d}) for d in range(self.max_depth + 1)]
    return self.max_depth, sizes


# ------------------------------------------------------------------------------- BIP37 builder (harness side)
def py_levels(leaves):
    import buidl.helper as H
    levels = [list(leaves)]
    while len(levels[-1]) > 1:
        cur = levels[-1]
        nxt = []
        for i in range(0, len(cur), 2):
            right = cur[i + 1] if i + 1 < len(cur) else cur[i]
            nxt.append(H.hash256(cur[i] + right))
        levels.append(nxt)
    return levels


def py_build(ids, matches):
    """BIP37 'constructing a partial merkle tree object' for tx ids in object orientation.
    Returns (total, hashes in MerkleBlock orientation, flag bytes, internal root)"""
    n = len(ids)
    levels = py_levels([i[::-1] for i in ids])
    height = len(levels) - 1
    bits, hashes = [], []

    def width(h):
        return (n + (1 << h) - 1) >> h

    def trav(h, pos):
        parent = any(matches[pos << h: min((pos + 1) << h, n)])
        bits.append(1 if parent else 0)
        if h == 0 or not parent:
            hashes.append(levels[h][pos])
        else:
            trav(h - 1, 2 * pos)
            if 2 * pos + 1 < width(h - 1):
                trav(h - 1, 2 * pos + 1)

    trav(height, 0)
    bits += [0] * (-len(bits) % 8)
    flags = bytearray(len(bits) // 8)
    for p, b in enumerate(bits):
        flags[p // 8] |= b << (p % 8)
    return n, [h[::-1] for h in hashes], bytes(flags), levels[-1][0]


# ------------------------------------------------------------------------------- implementation side
def _mem_limited(fn):
    """run fn() with room for 2 MiB more address space (a forged count makes MerkleTree allocate `total` slots)"""
    soft, hard = resource.getrlimit(resource.RLIMIT_AS)
    try:
        with open("/proc/self/statm") as f:
            vm = int(f.read().split()[0]) * resource.getpagesize()
        resource.setrlimit(resource.RLIMIT_AS, (vm + (2 << 20), hard))
        return fn()
    finally:
        resource.setrlimit(resource.RLIMIT_AS, (soft, hard))


def impl_is_valid(root, total, hashes, flags):
    import buidl.block as B
    import buidl.merkleblock as MB
    hdr = B.Block(1, bytes(32), root, 0, b"\xff\xff\x00\x1d", bytes(4))
    mb = MB.MerkleBlock(hdr, total, list(hashes), flags)

    def go():
        ok = mb.is_valid()
        return ok, list(mb.proved_txs())
    return _mem_limited(go) if total > MAX_REAL_TOTAL else go()


def fmt_target(bits, v):
    if isinstance(v, int):
        return f"int {v}"
    e = bits[-1]
    coef = int.from_bytes(bits[:-1], "little")
    if e < 3 and Fraction(v) == Fraction(coef, 256 ** (3 - e)):
        return f"frac {coef} {3 - e}"
    return "float " + repr(v)


def mk_block(t, i=1):
    import buidl.block as B
    return B.Block(int(t[i]), unx(t[i + 1]), unx(t[i + 2]), int(t[i + 3]), unx(t[i + 4]), unx(t[i + 5]))


def _impl(t):
    import buidl.helper as H
    import buidl.block as B
    import buidl.network as N

    op = t[0]
    if op in ("merkle_root", "merkle_root_spec"):
        ids, _ = parse_counted(t, 1)
        l = list(ids)
        r = H.merkle_root(l)
        return f"{xb(r)} {blist(l)}" if op == "merkle_root" else f"{xb(r)} {xb(r)}"
    if op == "merkle_parent_level":
        ids, _ = parse_counted(t, 1)
        l = list(ids)
        p = H.merkle_parent_level(l)
        return f"{blist(p)} {blist(l)}"
    if op == "validate_merkle_root":
        ids, _ = parse_counted(t, 2)
        b = B.Block(1, bytes(32), unx(t[1]), 0, bytes(4), bytes(4), tx_hashes=ids)
        return "1" if b.validate_merkle_root() else "0"
    if op == "tree_sizing":
        d, sizes = impl_sizing(int(t[1]))
        return " ".join([str(d)] + [str(s) for s in sizes])
    if op == "tree_height_spec":
        return str(impl_sizing(int(t[1]))[0])
    if op in ("is_valid", "extract_spec"):
        hs, j = parse_counted(t, 3)
        ok, proved = impl_is_valid(unx(t[1]), int(t[2]), hs, unx(t[j]))
        return f"{1 if ok else 0} {blist(proved)}"
    if op == "bytes_to_bits":
        return bits_tok(H.bytes_to_bit_field(unx(t[1])))
    if op == "bits_to_bytes":
        return xb(H.bit_field_to_bytes([int(c) for c in t[1][1:]]))
    if op == "bits_to_target":
        b = unx(t[1])
        return fmt_target(b, H.bits_to_target(b))
    if op == "set_compact":
        b = int(t[1]).to_bytes(4, "little")
        v = H.bits_to_target(b)
        return f"{v} 0 0" if isinstance(v, int) else "float " + repr(v)
    if op == "target_to_bits":
        return xb(H.target_to_bits(int(t[1])))
    if op == "get_compact":
        return str(int.from_bytes(H.target_to_bits(int(t[1])), "little"))
    if op == "calc_new_bits":
        return xb(H.calculate_new_bits(unx(t[1]), int(t[2])))
    if op == "next_work":
        return str(int.from_bytes(H.calculate_new_bits(int(t[1]).to_bytes(4, "little"), int(t[2])), "little"))
    if op in ("check_pow", "check_pow_spec"):
        return "1" if mk_block(t).check_pow() else "0"
    if op == "hdr_hash":
        return xb(mk_block(t).hash())
    if op in ("raw_hdr", "raw_hdr_spec"):
        raw = unx(t[1])
        b = B.Block.parse_header(io.BytesIO(raw))

        def part(fn):
            try:
                return fn()
            except Exception:
                return REJECT
        ser, hsh = part(lambda: xb(b.serialize())), part(lambda: xb(b.hash()))
        if op == "raw_hdr_spec":
            return f"{ser} {hsh}"
        return f"{ser} {hsh} {part(lambda: '1' if b.check_pow() else '0')}"
    if op == "raw_headers_valid":
        raws, _ = parse_counted(t, 1)
        # through HeadersMessage.parse: count, then each header followed by a zero transaction count
        stream = io.BytesIO(H.encode_varint(len(raws)) + b"".join(r + b"\x00" for r in raws))
        return "1" if N.HeadersMessage.parse(stream).is_valid() else "0"
    if op == "raw_merkleblock":
        import buidl.merkleblock as MB
        mb = MB.MerkleBlock.parse(io.BytesIO(unx(t[1])))
        hh = xb(mb.hash())
        try:
            ok = mb.is_valid()
        except Exception:
            return f"{hh} {REJECT}"
        return f"{hh} {1 if ok else 0} {blist(mb.proved_txs())}"
    if op == "headers_valid":
        n = int(t[1])
        hs = [mk_block(t, 2 + 6 * k) for k in range(n)]
        return "1" if N.HeadersMessage(hs).is_valid() else "0"
    raise UnknownOp(op)


def impl_line(line):
    t = line.split(" ")
    try:
        return _impl(t)
    except UnknownOp:
        raise
    except Exception:
        return REJECT


# which lines are answered by the specification (the property determines the answer) and which by the model
SPEC_OPS = {"raw_hdr_spec", "merkle_root_spec", "tree_height_spec", "extract_spec", "set_compact", "get_compact", "next_work",
            "check_pow_spec"}


def _set_compact(n):
    """arith_uint256::SetCompact: (value, negative, overflow)"""
    size, word = n >> 24, n & 0x007FFFFF
    value = word >> (8 * (3 - size)) if size <= 3 else (word << (8 * (size - 3))) % 2 ** 256
    neg = word != 0 and (n & 0x00800000) != 0
    ovf = word != 0 and (size > 34 or (word > 0xFF and size > 33) or (word > 0xFFFF and size > 32))
    return value, neg, ovf


def finding_of(line):
    """the known finding whose input predicate contains this request, if any (evaluated on the input only)"""
    import buidl.helper as H
    t = line.split(" ")
    op = t[0]
    if op == "set_compact":
        b = int(t[1]).to_bytes(4, "little")
        if b[3] < 3 or b[2] & 0x80:
            return "F17c"
    if op == "get_compact" and int(t[1]) < 2 ** 16:
        return "F17d"
    if op == "next_work":
        n, td = int(t[1]), int(t[2])
        b = n.to_bytes(4, "little")
        if b[3] < 3 or b[2] & 0x80:
            return "F17c"
        tw = 14 * 24 * 60 * 60
        ts = min(max(td, tw // 4), tw * 4)
        value, _, ovf = _set_compact(n)
        if not ovf and min(value * ts // tw, 0xFFFF << 208) < 2 ** 16:
            return "F17d"
    if op == "check_pow_spec":
        try:
            b = mk_block(t)
            value, neg, ovf = _set_compact(int.from_bytes(b.bits, "little"))
            proof = int.from_bytes(H.hash256(b.serialize()), "little")
        except Exception:
            return None
        if b.bits[3] < 3:
            return "F17c"
        if neg or ovf or value == 0 or proof == value:
            return "F17e"
    return None


# ------------------------------------------------------------------------------- direct predicates
def p_sound(c):
    """whenever the proof validates, every yielded id is one of the block's ids; with `must_fail` the
    (altered) proof must not validate at all"""
    ids = [unx(x) for x in c["ids"]]
    try:
        ok, proved = impl_is_valid(unx(c["root"]), c["total"], [unx(x) for x in c["hashes"]], unx(c["flags"]))
    except Exception:
        return True, REJECT, REJECT
    if not ok:
        return True, "0", "0"
    if c.get("must_fail"):
        return False, ["1", [xb(p) for p in proved]], "validation fails"
    idset = set(ids)
    bad = [xb(p) for p in proved if p not in idset]
    return not bad, ["1", bad], "only ids of the block"


def p_complete(c):
    """the proof built per BIP37 validates and yields exactly the matched ids in order"""
    ids = [unx(x) for x in c["ids"]]
    matches = [ch == "1" for ch in c["matches"]]
    total, hashes, flags, root = py_build(ids, matches)
    ok, proved = impl_is_valid(root[::-1], total, hashes, flags)
    want = [i for i, m in zip(ids, matches) if m]
    return ok and proved == want, [ok, [xb(p) for p in proved]], [True, [xb(w) for w in want]]


def p_root_twice(c):
    """merkle_root called twice on the same list object gives the same root"""
    import buidl.helper as H
    l = [unx(x) for x in c["ids"]]
    r1 = H.merkle_root(l)
    r2 = H.merkle_root(l)
    return r1 == r2, xb(r2), xb(r1)


def p_bits_roundtrip(c):
    """target_to_bits(bits_to_target(bits)) = bits for canonical 4-byte bits (exponent >= 3, mantissa >= 0x008000, sign clear)"""
    import buidl.helper as H
    b = unx(c["bits"])
    got = H.target_to_bits(H.bits_to_target(b))
    return got == b, xb(got), xb(b)


def p_header_raw(c):
    """for every 80-byte header: parse_header(raw).serialize() == raw and hash() == double-SHA256(raw) reversed
    (hashlib, independent of the library), id() its hex"""
    import hashlib
    import buidl.block as B
    raw = unx(c["raw"])
    b = B.Block.parse_header(io.BytesIO(raw))
    want = [xb(raw), xb(hashlib.sha256(hashlib.sha256(raw).digest()).digest()[::-1])]
    got = [xb(b.serialize()), xb(b.hash())]
    if got == want and b.id() != got[1][1:]:
        got.append(b.id())
    return got == want, got, want


PREDICATES = {"header_raw": p_header_raw, "sound": p_sound, "complete": p_complete, "root_twice": p_root_twice, "bits_roundtrip": p_bits_roundtrip}


def eval_pred(kind, case=None):
    if case is None:
        kind, case = kind
    try:
        return PREDICATES[kind](case)
    except Exception as e:
        return False, "raised " + type(e).__name__, "no exception"


def _impl_of(line):
    return impl_line(line)


# ------------------------------------------------------------------------------- generation
REAL_BITS = ["ffff001d", "cb04041b", "8b8c0b17", "8bdb051a", "5c98041a", "ffff7f20", "ae77031e", "67d8001a", "faa80518"]
MANTISSAS = [0, 1, 0x7F, 0x80, 0xFF, 0x100, 0x7FFF, 0x8000, 0xFFFF, 0x10000, 0x7FFFFF, 0x800000, 0x800001, 0xFFFFFF]


def proof_case(ids, total, hashes, flags, root, **kw):
    d = {"ids": [xb(i) for i in ids], "total": total, "hashes": [xb(h) for h in hashes], "flags": xb(flags),
         "root": xb(root)}
    d.update(kw)
    return d


def is_valid_line(op, root, total, hashes, flags):
    return f"{op} {xb(root)} {total} {blist(hashes)} {xb(flags)}"


# ------------------------------------------------------------------------------- object-reuse histories
# A history runs a sequence of operations on ONE object of the real code.  Every query is made twice; each
# observation is compared with the model evaluated on the object's CURRENT state (its fields as they are read right
# before the query), so a cached / stale / doubled result on a reused object shows up as a mismatch.
# run_history((kind, spec)) -> list of checks (label, request lines, post, implementation answer, determined)
#   post "id":      expected = answer to lines[0]
#   post "proved":  expected = the proved-ids part of the answer to lines[0] (skipped when that answer is REJECT)
#   post "root":    expected = first token of the answer to lines[0]
def _q2(fn):
    """ask twice"""
    out = []
    for _ in range(2):
        try:
            out.append(fn())
        except Exception:
            out.append(REJECT)
    return out


def _hist_root(spec):
    import buidl.helper as H
    checks = []
    ids = [unx(x) for x in spec["ids"]]
    l = list(ids)
    for rnd in range(3):           # merkle_root three times on the same list object
        before = list(l)
        try:
            r = xb(H.merkle_root(l))
        except Exception:
            r = REJECT
        checks.append((f"root#{rnd}", [f"merkle_root_spec {blist(before)}"], "root", r, True))
        checks.append((f"root#{rnd}:list", [f"merkle_root {blist(before)}"], "id",
                       REJECT if r == REJECT else f"{r} {blist(l)}", False))
    l2 = list(ids)                 # merkle_parent_level first (it mutates the list), then merkle_root on that list
    before = list(l2)
    try:
        p = H.merkle_parent_level(l2)
        a = f"{blist(p)} {blist(l2)}"
    except Exception:
        a = REJECT
    checks.append(("level", [f"merkle_parent_level {blist(before)}"], "id", a, False))
    for rnd in range(2):
        before = list(l2)
        try:
            r = xb(H.merkle_root(l2))
        except Exception:
            r = REJECT
        checks.append((f"root-after-level#{rnd}", [f"merkle_root_spec {blist(before)}"], "root", r, True))
    return checks


def _hist_merkleblock(spec):
    import buidl.block as B
    import buidl.merkleblock as MB
    hdr = B.Block(1, bytes(32), unx(spec["root"]), 0, b"\xff\xff\x00\x1d", bytes(4))
    mb = MB.MerkleBlock(hdr, spec["total"], [unx(h) for h in spec["hashes"]], unx(spec["flags"]))
    checks = []
    last = None     # request line of the last is_valid call

    def cur(op):
        return is_valid_line(op, mb.header.merkle_root, mb.total, mb.hashes, mb.flags)

    def q_proved(tag):
        for k, a in enumerate(_q2(lambda: "P " + blist(mb.proved_txs()))):
            if last is None:
                checks.append((f"{tag}:proved#{k}", [], "const:P 0", a, True))
            else:
                checks.append((f"{tag}:proved#{k}", [last], "proved", a, True))

    q_proved("start")
    for si, st in enumerate(spec["steps"]):
        if st[0] == "valid":
            for k in range(2):
                line = cur("extract_spec")
                try:
                    ok = mb.is_valid()
                    a = f"{1 if ok else 0} {blist(mb.proved_txs())}"
                except Exception:
                    a = REJECT
                last = line
                checks.append((f"s{si}:valid#{k}", [line], "id", a, True))
                checks.append((f"s{si}:valid#{k}:model", [cur("is_valid")], "id", a, False))
                q_proved(f"s{si}.{k}")
        elif st[0] == "flags":
            mb.flags = unx(st[1])
        elif st[0] == "hashes":
            mb.hashes = [unx(h) for h in st[1]]
        elif st[0] == "total":
            mb.total = st[1]
        elif st[0] == "root":
            mb.header.merkle_root = unx(st[1])
        q_proved(f"s{si}")
    return checks


def _hist_tree(spec):
    import buidl.merkleblock as MB
    outs = []
    try:
        tree = MB.MerkleTree(spec["total"])
    except Exception:
        return [("tree", ["tree_sizing 1"], "skip", "constructor raised", False)]
    toks = []
    for bits, hashes in spec["calls"]:
        hs = [unx(h) for h in hashes]
        toks.append(f"m{bits} {blist(hs)}")
        try:
            tree.populate_tree([int(c) for c in bits], list(hs))
            o = "ok"
        except Exception:
            o = REJECT
        try:
            r = tree.root()
            root = "none" if r is None else xb(r)
        except Exception:
            root = REJECT
        outs.append(f"{o} {root} {blist(tree.proved_txs)}")
    line = f"tree_hist {spec['total']} {len(spec['calls'])} " + " ".join(toks)
    return [("tree", [line], "id", " | ".join(outs), False)]


def _hist_block(spec):
    import buidl.block as B
    import buidl.helper as H
    f = spec["fields"]
    b = B.Block(f[0], unx(f[1]), unx(f[2]), f[3], unx(f[4]), unx(f[5]))
    checks = []

    def ask(tag):
        toks = fmt_header_toks(b)
        for k, a in enumerate(_q2(lambda: xb(b.hash()))):
            checks.append((f"{tag}:hash#{k}", ["hdr_hash " + toks], "id", a, True))
        for k, a in enumerate(_q2(lambda: "1" if b.check_pow() else "0")):
            checks.append((f"{tag}:check_pow#{k}", ["check_pow " + toks], "id", a, True))
        for k, a in enumerate(_q2(lambda: fmt_target(b.bits, b.target()))):
            checks.append((f"{tag}:target#{k}", [f"bits_to_target {xb(b.bits)}"], "id", a, True))
        for k, a in enumerate(_q2(lambda: xb(b.id().encode()))):
            checks.append((f"{tag}:id#{k}", ["hdr_hash " + toks], "hexid", a, True))
    ask("start")
    for si, (name, val) in enumerate(spec["edits"]):
        setattr(b, name, unx(val) if isinstance(val, str) else val)
        ask(f"s{si}:{name}")
    return checks


HISTORIES = {"hist:root": _hist_root, "hist:merkleblock": _hist_merkleblock, "hist:tree": _hist_tree,
             "hist:block": _hist_block}


def run_history(ks):
    kind, spec = ks
    return HISTORIES[kind](spec)


def expected_of(post, answers):
    """the model-side expectation of a history check from the driver's answers to its request lines; None = not compared"""
    if post.startswith("const:"):
        return post[6:]
    if post == "skip":
        return None
    a = answers[0]
    if post == "id":
        return a
    if post == "root":
        return a if a == REJECT else a.split(" ")[0]
    if post == "proved":
        return None if a == REJECT else "P " + a.split(" ", 1)[1]
    if post == "hexid":
        return a if a == REJECT else xb(a[1:].encode())
    raise MachineryError(f"unknown post {post}")


def gen_histories(ctx, rng):
    import buidl.helper as H
    import buidl.block as B
    hist = []
    # merkle_root / merkle_parent_level on one list object: every size 0..17 (odd and even), then sampled
    for n in list(range(0, 18)) + [31, 32, 33, 64, 65] + [rng.randrange(18, 200) for _ in range(ctx.n(4))]:
        ids = [rbytes(rng, 32) for _ in range(n)]
        if n >= 2 and rng.random() < 0.3:
            ids[-1] = ids[-2]
        hist.append(("hist:root", {"ids": [xb(i) for i in ids]}))
    # one MerkleBlock object validated again and again, fields changed in between
    for n in [1, 2, 3, 4, 5, 7, 8, 9, 16, 17] + [rng.randrange(2, 60) for _ in range(ctx.n(6))]:
        ids = [rbytes(rng, 32) for _ in range(n)]
        m1 = [rng.random() < 0.5 for _ in range(n)]
        m1[-1] = True                     # last leaf matched (at odd sizes its node is paired with itself)
        m2 = [rng.random() < 0.3 for _ in range(n)]
        t1, h1, f1, r1 = py_build(ids, m1)
        t2, h2, f2, r2 = py_build(ids, m2)
        ids3 = [rbytes(rng, 32) for _ in range(rng.randrange(1, 12))]
        m3 = [rng.random() < 0.6 for _ in ids3]
        t3, h3, f3, r3 = py_build(ids3, m3)
        bad = bytearray(h1[0])
        bad[5] ^= 4
        steps = [("valid",), ("flags", xb(f2)), ("valid",), ("hashes", [xb(h) for h in h2]), ("valid",),
                 ("hashes", [xb(bytes(bad))] + [xb(h) for h in h1[1:]]), ("flags", xb(f1)), ("valid",),
                 ("hashes", [xb(h) for h in h1]), ("valid",), ("hashes", [xb(h) for h in h1[:-1]]), ("valid",),
                 ("total", t3), ("hashes", [xb(h) for h in h3]), ("flags", xb(f3)), ("valid",), ("root", xb(r3[::-1])), ("valid",),
                 ("total", t1), ("hashes", [xb(h) for h in h1]), ("flags", xb(f1)), ("root", xb(r1[::-1])), ("valid",)]
        hist.append(("hist:merkleblock", {"root": xb(r1[::-1]), "total": t1, "hashes": [xb(h) for h in h1], "flags": xb(f1),
                                          "steps": steps}))
    # one MerkleTree object populated more than once
    for n in [1, 2, 3, 5, 8, 11] + [rng.randrange(2, 40) for _ in range(ctx.n(6))]:
        ids = [rbytes(rng, 32) for _ in range(n)]
        m = [rng.random() < 0.5 for _ in range(n)]
        t, hs, fl, _ = py_build(ids, m)
        bits = "".join(str(b) for b in H.bytes_to_bit_field(fl))
        ih = [h[::-1] for h in hs]
        xh = [xb(h) for h in ih]
        cutb, cuth = rng.randrange(0, len(bits) + 1), rng.randrange(0, len(xh) + 1)
        calls = rng.choice([
            [(bits, xh), (bits, xh)],                                  # the same proof twice
            [(bits, xh), ("", [])],                                    # then nothing
            [(bits, xh), ("0" * 8, [])], [(bits, xh), ("01", [])],
            [(bits[:cutb], xh[:cuth]), (bits[cutb:], xh[cuth:])],      # interrupted by an exception, then the rest
            [(bits[:cutb], xh[:cuth]), (bits, xh)],                    # interrupted, then the whole proof again
            [("", []), (bits, xh), (bits, xh)],
            [(bits, xh[:-1]), (bits, xh[-1:])],
        ])
        hist.append(("hist:tree", {"total": t, "calls": calls}))
    hist.append(("hist:tree", {"total": 0, "calls": [("1", [xb(bytes(32))]), ("", [])]}))
    # one Block object: hash / check_pow / target / id asked twice, again after every field edit
    for hx in [B.GENESIS_BLOCK_MAINNET_HEX, B.GENESIS_BLOCK_REGTEST_HEX] + [None] * ctx.n(4):
        if hx:
            h = B.Block.parse_header(io.BytesIO(bytes.fromhex(hx)))
            fields = [h.version, xb(h.prev_block), xb(h.merkle_root), h.timestamp, xb(h.bits), xb(h.nonce)]
        else:
            fields = [rng.getrandbits(32), xb(rbytes(rng, 32)), xb(rbytes(rng, 32)), rng.getrandbits(32),
                      xb(bytes.fromhex("ffff7f20")), xb(rbytes(rng, 4))]
        edits = [("nonce", xb(rbytes(rng, 4))), ("bits", xb(bytes.fromhex("ffff7f20"))), ("nonce", xb(rbytes(rng, 4))),
                 ("version", rng.getrandbits(31)), ("timestamp", rng.getrandbits(32)), ("merkle_root", xb(rbytes(rng, 32))),
                 ("prev_block", xb(rbytes(rng, 32))), ("bits", xb(bytes.fromhex("ffff001d"))), ("bits", xb(bytes.fromhex("ffff7f22"))),
                 ("nonce", fields[5]), ("bits", fields[4]), ("version", fields[0]), ("timestamp", fields[3]),
                 ("merkle_root", fields[2]), ("prev_block", fields[1])]      # back to the initial header
        hist.append(("hist:block", {"fields": fields, "edits": edits}))
    return hist


def check_histories(ctx, drv, hist):
    """run the histories on the real code, ask the model about every current state, compare"""
    rec = ctx.rec
    runs = pmap(run_history, hist, workers=ctx.workers, chunksize=2)
    reqs = sorted({l for checks in runs for (_, lines, _, _, _) in checks for l in lines})
    ans = dict(zip(reqs, batch_parallel(drv, reqs, workers=ctx.workers)))
    for (kind, spec), checks in zip(hist, runs):
        for label, lines, post, impl, determined in checks:
            want = expected_of(post, [ans[l] for l in lines])
            if want is None:
                rec.count(kind + ":not-compared")
                continue
            case = {"history": kind, "spec": spec, "check": label}
            if impl == want:
                rec.ok(kind, (repr(spec)[:200], label))
            elif determined:
                rec.violation(kind, case, impl, want, note=label)
            else:
                rec.disagreement(kind, case, impl, want, note=label)
        rec.sample(kind, {"spec": spec, "checks": len(checks)}, limit=1)


_ALT = {}


def apply_alteration(src, d):
    """expand an alteration descriptor of a proof into a `sound` predicate case"""
    ids, matches, total, hashes, flags, root = src
    hroot = root[::-1]
    hs, fl, rt, tot, must_fail, finding = list(hashes), flags, hroot, total, True, None
    k = d[0]
    if k == "hash":
        h2 = bytearray(hs[d[1]])
        h2[d[2] // 8] ^= 1 << (d[2] % 8)
        hs[d[1]] = bytes(h2)
        why = f"hash {d[1]} bit {d[2]}"
    elif k == "root":
        r2 = bytearray(rt)
        r2[d[1] // 8] ^= 1 << (d[1] % 8)
        rt = bytes(r2)
        why = f"root bit {d[1]}"
    elif k == "flag":
        f2 = bytearray(fl)
        f2[d[1] // 8] ^= 1 << (d[1] % 8)
        fl, must_fail, why = bytes(f2), False, f"flag bit {d[1]}"
    elif k == "flagdrop":
        fl, must_fail, why = fl[:-1], False, "last flag byte dropped"
    elif k == "flagadd":
        fl, must_fail, why = fl + bytes([d[1]]), False, f"flag byte {d[1]} added"
    elif k == "count":
        tot, must_fail, finding, why = d[1], False, "F17b", f"count {total} -> {d[1]}"
    elif k == "drop":
        del hs[d[1]]
        why = f"hash {d[1]} dropped"
    elif k == "extra":
        hs.insert(d[1], bytes.fromhex(d[2]))
        why = f"extra hash at {d[1]}"
    elif k == "swap":
        if len(hs) >= 2 and hs[0] != hs[1]:
            hs[0], hs[1] = hs[1], hs[0]
            why = "first two hashes swapped"
        else:
            must_fail, why = False, "nothing to swap"
    else:
        raise MachineryError(f"unknown alteration {d}")
    return proof_case(ids, tot, hs, fl, rt, must_fail=must_fail, why=why, finding=finding)


def eval_alteration(a):
    pi, d = a
    return eval_pred(("sound", apply_alteration(_ALT["src"][pi], d)))


def _dbg(ctx, label):
    if os.environ.get("VERIF_DEBUG"):
        import sys
        import time
        sys.stderr.write(f"[c17 {time.time() - ctx.t0:7.1f}s] {label}\n")


def run(ctx):
    import buidl.helper as H
    import buidl.block as B

    rng, rec = ctx.rng, ctx.rec
    drv = ctx.driver("drv_c17")
    lines = []   # (kind, request line)
    preds = []   # (kind, case)

    # ---- F17a (fixed): the float depth expression is wrong at 2^29 and 2^31
    if sizing_exprs()[0] is None:
        # the depth is no longer an assignment `self.max_depth = <expr>` that can be evaluated without allocating 2^29
        # nodes: the witness cannot be replayed on this tree (the small totals below still go through the constructor)
        rec.note("F17a witness not replayed: `self.max_depth = <expr>` not located in MerkleTree.__init__")
        bad = []
    else:
        try:
            bad = [t for t in (2 ** 29, 2 ** 31) if impl_sizing(t)[0] != (t - 1).bit_length()]
        except Exception:
            bad = ["sizing expression raised"]
    rec.finding("F17a", bool(bad), {"op": "MerkleTree(total).max_depth", "totals": bad, "expected": "ceil(log2 total)"})

    # ---- Merkle roots
    sizes = list(range(0, 34)) + [63, 64, 65, 100, 127, 128, 129, 255, 256, 257] + \
        [rng.randrange(1, 3000) for _ in range(ctx.n(10))] + [4999, 5000]
    for n in sizes:
        ids = [rbytes(rng, 32) for _ in range(n)]
        if n and rng.random() < 0.15:
            ids[-1] = ids[0]
        q = blist(ids)
        lines.append(("merkle_root", f"merkle_root {q}"))
        lines.append(("merkle_root_spec", f"merkle_root_spec {q}"))
        if n <= 40:
            lines.append(("merkle_parent_level", f"merkle_parent_level {q}"))
        if n:
            preds.append(("root_twice", {"ids": [xb(i) for i in ids]}))
            root = H.merkle_root([i[::-1] for i in ids])[::-1]
            lines.append(("validate_merkle_root", f"validate_merkle_root {xb(root)} {q}"))
            lines.append(("validate_merkle_root", f"validate_merkle_root {xb(rbytes(rng, 32))} {q}"))
    for n in (1, 2, 3, 5):   # hashes that are not 32 bytes long (the functions do not care)
        ids = [rbytes(rng, rng.choice([0, 1, 31, 33])) for _ in range(n)]
        lines.append(("merkle_root", f"merkle_root {blist(ids)}"))
        lines.append(("merkle_root_spec", f"merkle_root_spec {blist(ids)}"))

    # ---- tree sizing: every power of two ± 1 up to 2^32 (expressions of the source only; nothing is allocated)
    totals = set([1, 2, 3, 5, 6, 7, 9, 10, 11, 12, 13])
    for k in range(0, 33):
        for d in (-1, 0, 1):
            if 1 <= 2 ** k + d <= 2 ** 32:
                totals.add(2 ** k + d)
    for _ in range(ctx.n(300)):
        totals.add(rng.randrange(1, 2 ** rng.randrange(1, 33) + 1))
    for tot in sorted(totals):
        if sizing_available(tot):
            lines.append(("tree_sizing", f"tree_sizing {tot}"))
        elif sizing_exprs()[0] is None:
            continue
        if tot >= 1:
            lines.append(("tree_height_spec", f"tree_height_spec {tot}"))
    # the expressions are what MerkleTree really computes (checked by constructing small trees)
    import buidl.merkleblock as MB
    for tot in [1, 2, 3, 4, 5, 8, 9, 16, 17, 1000, 4096, 4097, 65536]:
        tr = MB.MerkleTree(tot)
        d, sz = impl_sizing(tot)
        if (tr.max_depth, [len(l) for l in tr.nodes]) != (d, sz):
            raise MachineryError("sizing expressions extracted from the source do not describe MerkleTree.__init__")

    # ---- BIP37: exhaustive small trees × all match subsets
    max_n = 10 if ctx.thorough else 7
    build_checks = []   # (ids, matches, python-built proof) cross-checked against Spec.build
    n_exh = 0
    for n in range(1, max_n + 1):
        ids = [rbytes(rng, 32) for _ in range(n)]
        for mask in range(1 << n):
            matches = [(mask >> i) & 1 == 1 for i in range(n)]
            total, hashes, flags, root = py_build(ids, matches)
            build_checks.append((ids, matches, (total, hashes, flags)))
            lines.append(("is_valid:honest", is_valid_line("is_valid", root[::-1], total, hashes, flags)))
            lines.append(("extract_spec:honest", is_valid_line("extract_spec", root[::-1], total, hashes, flags)))
            preds.append(("complete", {"ids": [xb(i) for i in ids], "matches": "".join("1" if m else "0" for m in matches)}))
            n_exh += 1
    rec.count("exhaustive_trees_upto", max_n)
    rec.count("exhaustive_proofs", n_exh)

    # ---- sampled trees up to 5000 leaves
    big = [11, 12, 15, 16, 17, 31, 32, 33, 100, 255, 256, 257, 1023, 1024, 1025, 2047, 2048, 2049, 4095, 4096, 4097, 5000]
    big += [rng.randrange(11, 5001) for _ in range(ctx.n(8, 60))]
    sampled = []
    for n in big:
        ids = [rbytes(rng, 32) for _ in range(n)]
        style = rng.choice(["none", "one", "few", "few", "last", "dense", "all"] if n <= 1100 else ["none", "one", "few", "last", "few"])
        if style == "none":
            matches = [False] * n
        elif style == "one":
            matches = [False] * n
            matches[rng.randrange(n)] = True
        elif style == "few":
            matches = [rng.random() < 4.0 / n for _ in range(n)]
        elif style == "last":
            matches = [False] * (n - 1) + [True]
        elif style == "dense":
            matches = [rng.random() < 0.5 for _ in range(n)]
        else:
            matches = [True] * n
        total, hashes, flags, root = py_build(ids, matches)
        sampled.append((ids, matches, total, hashes, flags, root))
        if n <= 300:
            build_checks.append((ids, matches, (total, hashes, flags)))
        lines.append(("is_valid:honest", is_valid_line("is_valid", root[::-1], total, hashes, flags)))
        lines.append(("extract_spec:honest", is_valid_line("extract_spec", root[::-1], total, hashes, flags)))
        preds.append(("complete", {"ids": [xb(i) for i in ids], "matches": "".join("1" if m else "0" for m in matches)}))

    # ---- the last leaf matched, every size 1..41 (thorough: 1..300; odd sizes: its node is paired with itself on the way up, the id must
    #      be yielded once, in order); the last two ids equal; and the duplicated-last-leaf shape (CVE-2012-2459): the proof
    #      of ids + [ids[-1]] with count n + 1 has the same root as the block of n ids
    for n in range(1, ctx.n(42, 301)):
        ids = [rbytes(rng, 32) for _ in range(n)]
        variants = [[False] * (n - 1) + [True], [True] + [False] * max(0, n - 2) + ([True] if n > 1 else [])]
        if n >= 3:
            variants.append([rng.random() < 0.3 for _ in range(n - 2)] + [True, True])
        for matches in variants:
            total, hashes, flags, root = py_build(ids, matches)
            lines.append(("is_valid:last-leaf", is_valid_line("is_valid", root[::-1], total, hashes, flags)))
            lines.append(("extract_spec:last-leaf", is_valid_line("extract_spec", root[::-1], total, hashes, flags)))
            preds.append(("complete", {"ids": [xb(i) for i in ids], "matches": "".join("1" if m else "0" for m in matches)}))
        if n >= 2:
            ids2 = ids[:-1] + [ids[-2]]          # a block whose last two ids are equal
            m2 = [False] * (n - 2) + [True, True]
            total, hashes, flags, root = py_build(ids2, m2)
            lines.append(("is_valid:equal-last-ids", is_valid_line("is_valid", root[::-1], total, hashes, flags)))
            lines.append(("extract_spec:equal-last-ids", is_valid_line("extract_spec", root[::-1], total, hashes, flags)))
        if n % 2 == 1:
            root_n = py_levels([i[::-1] for i in ids])[-1][0]
            dup = ids + [ids[-1]]
            total, hashes, flags, root = py_build(dup, [False] * (n - 1) + [True, True])
            if root == root_n:
                lines.append(("is_valid:dup-last-leaf", is_valid_line("is_valid", root_n[::-1], total, hashes, flags)))
                lines.append(("extract_spec:dup-last-leaf", is_valid_line("extract_spec", root_n[::-1], total, hashes, flags)))
                preds.append(("sound", proof_case(ids, total, hashes, flags, root_n[::-1], must_fail=False, finding="F17b",
                                                  why=f"count {n} -> {n + 1} with the last id duplicated", kind="alter:count")))

    # the harness builder agrees with the Lean specification's builder
    for ids, matches, (total, hashes, flags) in build_checks:
        lines.append(("build", ("build " + bits_tok(matches) + " " + blist(ids),
                                f"{total} {blist(hashes)} {xb(flags)}")))

    _dbg(ctx, 'trees built')
    # ---- alterations of sampled proofs (compact descriptors, expanded in the workers: see apply_alteration)
    alter_src = []
    for n in [1, 2, 3, 4, 5, 7, 8, 12, 16] + [rng.randrange(2, 40) for _ in range(ctx.n(2, 40))]:
        ids = [rbytes(rng, 32) for _ in range(n)]
        matches = [rng.random() < 0.4 for _ in range(n)]
        if not any(matches):
            matches[rng.randrange(n)] = True
        alter_src.append((ids, matches) + py_build(ids, matches))
    for ids, matches, total, hashes, flags, root in sampled:
        if len(hashes) <= 16 and rng.random() < 0.5:
            alter_src.append((ids, matches, total, hashes, flags, root))
    alts = []   # (proof index, descriptor)
    for pi, (ids, matches, total, hashes, flags, root) in enumerate(alter_src):
        full = set(range(len(hashes))) if len(hashes) <= 6 or ctx.thorough else set(rng.sample(range(len(hashes)), 3))
        for hi in range(len(hashes)):
            for bit in (range(256) if hi in full else rng.sample(range(256), 8)):
                alts.append((pi, ("hash", hi, bit)))
            alts.append((pi, ("drop", hi)))
            alts.append((pi, ("extra", hi, rbytes(rng, 32).hex())))
        for bit in range(256):
            alts.append((pi, ("root", bit)))
        for bit in range(8 * len(flags)):
            alts.append((pi, ("flag", bit)))
        alts += [(pi, ("flagdrop",)), (pi, ("flagadd", 0)), (pi, ("flagadd", 1)), (pi, ("extra", len(hashes), rbytes(rng, 32).hex())),
                 (pi, ("extra", len(hashes), hashes[-1].hex())), (pi, ("swap",))]
        for bit in range(32):
            alts.append((pi, ("count", total ^ (1 << bit))))
        for t2 in (0, total + 1, total - 1, 2 * total, (total + 1) // 2):
            if t2 != total and t2 >= 0:
                alts.append((pi, ("count", t2)))
    _ALT["src"] = alter_src
    alt_results = pmap(eval_alteration, alts, workers=ctx.workers, chunksize=256)
    _dbg(ctx, f'{len(alts)} alterations evaluated')
    per_kind = {}
    for (pi, d), (ok, got, want) in zip(alts, alt_results):
        kind = "alter:" + {"flagdrop": "flags", "flagadd": "flags", "flag": "flags"}.get(d[0], d[0])
        if ok:
            rec.ok(kind, (pi, d))
            rec.count(kind + (":reject" if got == REJECT else ":invalid" if got == "0" else ":validates"))
        else:
            case = apply_alteration(alter_src[pi], d)
            rec.violation(kind, dict(case, pred="sound"), got, want, note=case["why"], finding=case.get("finding"))
        per_kind.setdefault(kind, []).append((pi, d))
    # the model is compared on a sample of the alterations, stratified by kind
    quota = ctx.n(400, 4000)
    for kind, l in per_kind.items():
        rng.shuffle(l)
        for pi, d in l[:quota]:
            c = apply_alteration(alter_src[pi], d)
            if c["total"] <= MAX_REAL_TOTAL:
                lines.append((kind, f"is_valid {c['root']} {c['total']} {len(c['hashes'])} {' '.join(c['hashes'])} {c['flags']}"
                              if c["hashes"] else f"is_valid {c['root']} {c['total']} 0 {c['flags']}"))

    # F17b witness: a 4-transaction block, the proof claims 2 transactions and "proves" the two inner nodes
    w_ids = [bytes([k]) * 32 for k in (1, 2, 3, 4)]
    lv = py_levels([i[::-1] for i in w_ids])
    w_hashes = [h[::-1] for h in lv[1]]
    w_case = proof_case(w_ids, 2, w_hashes, b"\x07", lv[2][0][::-1], why="forged total 2 for a 4-tx block")
    okw, gotw, _ = eval_pred(("sound", w_case))
    rec.finding("F17b", not okw, {"case": w_case, "yields": gotw})
    lines.append(("is_valid:F17b", is_valid_line("is_valid", lv[2][0][::-1], 2, w_hashes, b"\x07")))

    # bit fields
    for _ in range(ctx.n(60)):
        b = rbytes(rng, rng.randrange(0, 6))
        lines.append(("bytes_to_bits", f"bytes_to_bits {xb(b)}"))
        bits = [rng.random() < 0.5 for _ in range(rng.choice([0, 8, 16, 24, 3, 9]))]
        lines.append(("bits_to_bytes", f"bits_to_bytes {bits_tok(bits)}"))

    # ---- compact bits <-> target
    targets = set()
    for e in list(range(0, 36)) + [255]:
        for m in MANTISSAS + [rng.getrandbits(24) for _ in range(ctx.n(3))]:
            bits = m.to_bytes(3, "little") + bytes([e])
            lines.append(("bits_to_target", f"bits_to_target {xb(bits)}"))
            n = int.from_bytes(bits, "little")
            overflow = m & 0x7FFFFF and (e > 34 or (m & 0x7FFFFF > 0xFF and e > 33) or (m & 0x7FFFFF > 0xFFFF and e > 32))
            if not overflow:
                lines.append(("set_compact", f"set_compact {n}"))
            if e >= 3:
                t = m * 256 ** (e - 3)
                if t < 2 ** 256:
                    targets.add(t)
            if 3 <= e <= 32 and 0x008000 <= m <= 0x7FFFFF:
                preds.append(("bits_roundtrip", {"bits": xb(bits)}))
    for b in (b"", b"\x05", b"\x12\x34", b"\x00\x00\x01", rbytes(rng, 5), rbytes(rng, 2) + b"\x04"):
        lines.append(("bits_to_target", f"bits_to_target {xb(b)}"))
    for hx in REAL_BITS:
        lines.append(("bits_to_target", f"bits_to_target x{hx}"))
        preds.append(("bits_roundtrip", {"bits": "x" + hx}))
    for k in range(0, 257):
        for d in (-1, 0, 1):
            if 0 <= 2 ** k + d:
                targets.add(2 ** k + d)
    for k in range(1, 33):
        targets.add(0x7F * 256 ** (k - 1))
        targets.add(0x80 * 256 ** (k - 1))
        targets.add(0x7FFFFF * 256 ** (k - 1))
        targets.add(0x800000 * 256 ** (k - 1))
    for _ in range(ctx.n(300)):
        targets.add(rng.getrandbits(rng.randrange(1, 257)))
    for t in sorted(targets):
        lines.append(("target_to_bits", f"target_to_bits {t}"))
        if t < 2 ** 256:
            lines.append(("get_compact", f"get_compact {t}"))

    # ---- retargeting across both clamps
    TW = 14 * 24 * 60 * 60
    tds = [-TW, -1, 0, 1, TW // 4 - 2, TW // 4 - 1, TW // 4, TW // 4 + 1, TW // 4 + 2, TW // 2, TW - 1, TW, TW + 1, 2 * TW,
           4 * TW - 2, 4 * TW - 1, 4 * TW, 4 * TW + 1, 4 * TW + 2, 8 * TW, 10 ** 12]
    tds += [rng.randrange(0, 6 * TW) for _ in range(ctx.n(20))]
    prevs = list(REAL_BITS) + ["ffff001c", "0080001d", "ffff7f1f", "0000011e", "00800003", "ff7f0003", "12345604", "01000003",
                               "ffff0002", "00008003", "ffffff1d"]
    for hx in prevs:
        for td in tds:
            lines.append(("calc_new_bits", f"calc_new_bits x{hx} {td}"))
            lines.append(("next_work", f"next_work {int.from_bytes(bytes.fromhex(hx), 'little')} {td}"))
    lines.append(("calc_new_bits", "calc_new_bits x 100"))

    # ---- proof-of-work, header hash, header chains
    hdr_hex = [B.GENESIS_BLOCK_MAINNET_HEX, B.GENESIS_BLOCK_TESTNET_HEX, B.GENESIS_BLOCK_SIGNET_HEX, B.GENESIS_BLOCK_REGTEST_HEX,
               "04000000fbedbbf0cfdaf278c094f187f2eb987c86a199da22bbb20400000000000000007b7697b29129648fa08b4bcd13c9d5e60abb973a1efac9c8d573c71c807c56c3d6213557faa80518c3737ec1"]
    headers = [B.Block.parse_header(io.BytesIO(bytes.fromhex(h))) for h in hdr_hex]
    pow_hdrs = list(headers)
    for h in headers:
        h2 = B.Block(h.version, h.prev_block, h.merkle_root, h.timestamp, h.bits, bytes([h.nonce[0] ^ 1]) + h.nonce[1:])
        pow_hdrs.append(h2)
    for _ in range(ctx.n(150)):
        bits = rng.choice([bytes.fromhex("ffff7f20"), bytes.fromhex("ffff7f20"), bytes.fromhex("ffff001f"), bytes.fromhex("ffffff1f"),
                           bytes.fromhex("ffff7f21"), bytes.fromhex("ffff7f22"), bytes.fromhex("00008020"), bytes.fromhex("ffff0002"),
                           bytes.fromhex("01000020"), bytes.fromhex("00000020"), rbytes(rng, 3) + bytes([rng.choice([0x1f, 0x20, 0x21])])])
        pow_hdrs.append(B.Block(rng.getrandbits(32), rbytes(rng, 32), rbytes(rng, 32), rng.getrandbits(32), bits, rbytes(rng, 4)))
    pow_hdrs.append(B.Block(1, bytes(32), bytes(32), 0, b"", bytes(4)))
    pow_hdrs.append(B.Block(2 ** 32, bytes(32), bytes(32), 0, bytes.fromhex("ffff7f20"), bytes(4)))
    for h in pow_hdrs:
        toks = fmt_header_toks(h)
        lines.append(("check_pow", "check_pow " + toks))
        lines.append(("hdr_hash", "hdr_hash " + toks))
        if len(h.bits) == 4 and h.version < 2 ** 32:
            lines.append(("check_pow_spec", "check_pow_spec " + toks))
    # F17e witness: bits ffff7f22 (exponent 34) overflow 256 bits: consensus rejects, check_pow accepts any hash
    w = B.Block(1, bytes(32), bytes(32), 0, bytes.fromhex("ffff7f22"), bytes(4))
    rec.finding("F17e", canon_bool(w.check_pow) is True, {"header": fmt_header_toks(w), "check_pow": True,
                                                        "consensus": "SetCompact overflows: rejected"})
    # F17c / F17d witnesses
    try:
        v = H.bits_to_target(bytes.fromhex("12345602"))
        f17c = isinstance(v, float) or H.bits_to_target(bytes.fromhex("00008003")) != 0
    except Exception:
        f17c = False
        v = None
    rec.finding("F17c", f17c, {"bits": "12345602", "target": repr(v), "SetCompact": 0x5634,
                               "bits2": "00008003", "SetCompact2": "negative, value 0"})
    try:
        b = H.target_to_bits(0x1234)
        f17d = len(b) != 4
    except Exception:
        b, f17d = b"", True
    rec.finding("F17d", f17d, {"target": 0x1234, "bits": xb(b), "GetCompact": "0x02123400"})

    # ---- raw 80-byte headers through Block.parse_header: the 4 version bytes over the whole range (nVersion is a signed
    #      int32 in Core; BIP9 versions and miners' version rolling set the high bits), every other field random
    versions = [0, 1, 2, 3, 4, 0x20000000, 0x3FFFFFFF, 0x7FFFFFFF, 0x80000000, 0x80000001, 0xA0000004, 0xC0000000,
                0xE0000000, 0xFFFFFFFE, 0xFFFFFFFF] + [rng.getrandbits(32) for _ in range(ctx.n(40))] + \
               [rng.getrandbits(31) | 0x80000000 for _ in range(ctx.n(20))]

    def raw_header(version, prev=None, bits=None):
        return version.to_bytes(4, "little") + (prev[::-1] if prev is not None else rbytes(rng, 32)) + rbytes(rng, 32) + \
            rbytes(rng, 4) + (bits or rng.choice([bytes.fromhex("ffff7f20"), bytes.fromhex("ffff7f20"), bytes.fromhex("ffff001d"),
                                                   bytes.fromhex("ffff7f22"), rbytes(rng, 3) + bytes([rng.choice([0x1f, 0x20, 0x21])])])) + rbytes(rng, 4)

    def sha256d(b):
        import hashlib
        return hashlib.sha256(hashlib.sha256(b).digest()).digest()
    for v in versions:
        raw = raw_header(v)
        lines.append(("raw_hdr", f"raw_hdr {xb(raw)}"))
        lines.append(("raw_hdr_spec", f"raw_hdr_spec {xb(raw)}"))
        preds.append(("header_raw", {"raw": xb(raw)}))
    for hx in hdr_hex:
        lines.append(("raw_hdr", f"raw_hdr x{hx}"))
        lines.append(("raw_hdr_spec", f"raw_hdr_spec x{hx}"))
        preds.append(("header_raw", {"raw": "x" + hx}))
    for ln in (0, 3, 4, 36, 79, 81, 100):         # short / long streams (model only: short reads are silent)
        lines.append(("raw_hdr", f"raw_hdr {xb(rbytes(rng, ln))}"))

    def mine_raw(prev, version):
        while True:
            raw = raw_header(version, prev=prev, bits=bytes.fromhex("ffff7f20"))
            if int.from_bytes(sha256d(raw), "little") < 0x7FFFFF << 232:
                return raw
    for _ in range(ctx.n(25)):
        chain, prev = [], rbytes(rng, 32)
        for _k in range(rng.randrange(1, 6)):
            raw = mine_raw(prev, rng.choice(versions))
            chain.append(raw)
            prev = sha256d(raw)[::-1]
        variants = [chain]
        if len(chain) >= 2:
            c2 = list(chain)
            c2[0], c2[1] = c2[1], c2[0]
            variants.append(c2)
            c3 = list(chain)
            c3[-1] = raw_header(rng.choice(versions), prev=rbytes(rng, 32), bits=bytes.fromhex("ffff7f20"))
            variants.append(c3)
        for c in variants:
            lines.append(("raw_headers_valid", "raw_headers_valid " + blist(c)))
    # merkleblock messages (MerkleBlock.parse -> hash / is_valid / proved_txs) under such headers
    for _ in range(ctx.n(30)):
        n = rng.randrange(1, 30)
        ids = [rbytes(rng, 32) for _ in range(n)]
        matches = [rng.random() < 0.4 for _ in range(n)]
        total, hashes, flags, root = py_build(ids, matches)
        v = rng.choice(versions)
        hdr = v.to_bytes(4, "little") + rbytes(rng, 32) + (root if rng.random() < 0.85 else rbytes(rng, 32)) + rbytes(rng, 12)
        msg = hdr + total.to_bytes(4, "little") + H.encode_varint(len(hashes)) + b"".join(h[::-1] for h in hashes) + \
            H.encode_varstr(flags)
        lines.append(("raw_merkleblock", f"raw_merkleblock {xb(msg)}"))

    # header chains with easy proof-of-work
    def mine(prev, bits=bytes.fromhex("ffff7f20")):
        while True:
            h = B.Block(rng.getrandbits(29), prev, rbytes(rng, 32), rng.getrandbits(32), bits, rbytes(rng, 4))
            # the search condition is computed here (hashlib), never by the code under test: a check_pow that refuses
            # valid work must show up as a disagreement, not as a harness that mines for ever
            raw = (h.version.to_bytes(4, "little") + h.prev_block[::-1] + h.merkle_root[::-1] +
                   h.timestamp.to_bytes(4, "little") + h.bits + h.nonce)
            if int.from_bytes(sha256d(raw), "little") < 0x7FFFFF << 232:
                return h
    for _ in range(ctx.n(30)):
        chain, prev = [], rbytes(rng, 32)
        for _k in range(rng.randrange(0, 6)):
            h = mine(prev)
            chain.append(h)
            prev = h.hash()
        variants = [chain]
        if len(chain) >= 2:
            k = rng.randrange(1, len(chain))
            c2 = list(chain)
            c2[k] = B.Block(c2[k].version, rbytes(rng, 32), c2[k].merkle_root, c2[k].timestamp, c2[k].bits, c2[k].nonce)
            variants.append(c2)
            c3 = list(chain)
            c3[k - 1], c3[k] = c3[k], c3[k - 1]
            variants.append(c3)
        if chain:
            k = rng.randrange(len(chain))
            c4 = list(chain)
            c4[k] = B.Block(c4[k].version, c4[k].prev_block, c4[k].merkle_root, c4[k].timestamp, bytes.fromhex("ffff001d"), c4[k].nonce)
            variants.append(c4)
        for c in variants:
            lines.append(("headers_valid", "headers_valid " + " ".join([str(len(c))] + [fmt_header_toks(h) for h in c])))

    check_histories(ctx, drv, gen_histories(ctx, rng))
    _dbg(ctx, 'histories checked')
    _dbg(ctx, f'{len(lines)} lines generated')
    # ---- run both sides
    reqs = [l if isinstance(l, str) else l[0] for _, l in lines]
    answers = batch_parallel(drv, reqs, workers=ctx.workers)
    _dbg(ctx, 'model answered')
    todo = [r for (k, _), r in zip(lines, reqs) if k != "build"]
    impl_answers = dict(zip(todo, pmap(_impl_of, todo, workers=ctx.workers, chunksize=16)))
    known_seen = {}
    for (kind, l), model in zip(lines, answers):
        if model == "FUEL":
            raise MachineryError(f"model ran out of fuel on: {str(l)[:200]}")
        if kind == "build":
            req, want = l
            if model != want:
                raise MachineryError(f"harness BIP37 builder disagrees with Spec.build on {req[:200]}: {want[:200]} vs {model[:200]}")
            rec.ok("build:cross-check", req[:300])
            continue
        line = l
        impl = impl_answers[line]
        op = line.split(" ", 1)[0]
        fid = finding_of(line) if (impl != model and op in SPEC_OPS) else None
        if fid is not None and ctx.findings.get(fid, {}).get("state") == "known":
            # inside the input predicate of a known finding: a few are recorded as tagged violations (the check
            # turns them into the KNOWN-FINDING line), the rest are only counted
            known_seen[(kind, fid)] = known_seen.get((kind, fid), 0) + 1
            if known_seen[(kind, fid)] > 3:
                rec.count(f"{kind}:known-{fid}")
                continue
        if rec.compare(kind, {"line": line}, impl, model, determined=(op in SPEC_OPS), key=line[:300],
                       nontrivial=len(line) > len(op) + 3, finding=fid):
            rec.sample(kind, {"request": line[:600], "answer": model[:300]})
        if impl == REJECT:
            rec.count(kind + ":reject")
    _dbg(ctx, 'implementation answered')
    results = pmap(eval_pred, preds, workers=ctx.workers, chunksize=64)
    _dbg(ctx, f'{len(preds)} predicates evaluated')
    for (kind, case), (ok, got, want) in zip(preds, results):
        k = case.get("kind", kind)
        rec.cov_pred(kind, case)
        if ok:
            rec.ok(k, repr(case)[:300])
            rec.sample(k, {kk: vv for kk, vv in case.items() if kk != "ids"}, limit=1)
            if got == REJECT:
                rec.count(k + ":reject")
            elif got == "0":
                rec.count(k + ":invalid")
            else:
                rec.count(k + ":validates")
        else:
            rec.violation(k, dict(case, pred=kind), got, want, note=case.get("why", ""), finding=case.get("finding"))


def canon_bool(fn):
    try:
        return bool(fn())
    except Exception:
        return None


def replay(ctx, v):
    """re-execute one recorded violation exactly; True if it still violates"""
    case = v["case"]
    if "history" in case:
        drv = ctx.driver("drv_c17")
        for label, lines, post, impl, _ in run_history((case["history"], case["spec"])):
            if label == case["check"]:
                want = expected_of(post, [drv.one(l) for l in lines])
                return want is not None and impl != want
        return False
    if "line" in case:
        return impl_line(case["line"]) != ctx.driver("drv_c17").one(case["line"])
    ok, _, _ = eval_pred((case["pred"], case))
    return not ok
