"""
C14 — BIP39 mnemonics, the vendored PBKDF2 and the seed hand-off of HDPrivateKey.from_mnemonic:
correspondence between the Lean model (lean/Buidl/Model/Mnemonic.lean; driver drv_c14) and
buidl/mnemonic.py, buidl/pbkdf2.py, helper.hmac_sha512_kdf, hd.HDPrivateKey.from_mnemonic / from_seed,
plus the property predicates evaluated directly on the implementation (round trip, word layout,
acceptance iff length/words/checksum, PBKDF2 = RFC 2898 (hashlib), seed/master = PBKDF2-HMAC-SHA512 +
BIP32 master derivation, four-letter prefixes equivalent to full words, the Trezor vectors of the test-suite).

Structure (the pattern every harness follows):
  impl_line(line)   evaluate one driver request line on the real code -> canonical answer
  PREDICATES[kind]  property predicates evaluated directly on the real code: case -> (ok, got, want)
  run(ctx)          generate request lines / predicate cases, run both sides, record
  replay(ctx, v)    re-execute one recorded violation exactly
"""
import ast
import hashlib
import hmac
import os
import random

from harness.common import MachineryError, REJECT, REPO, xb, xs, unx, uns, blist, batch_parallel, pmap

PROPERTY = "C14"
DRIVERS = ["drv_c14"]
ANCHORS = [
    ("buidl/mnemonic.py", "mnemonic_to_bytes"), ("buidl/mnemonic.py", "bytes_to_mnemonic"),
    ("buidl/mnemonic.py", "WordList.__init__"), ("buidl/mnemonic.py", "WordList.__getitem__"),
    ("buidl/mnemonic.py", "WordList.normalize"), ("buidl/mnemonic.py", "WordList.__contains__"),
    ("buidl/mnemonic.py", "WordList.__iter__"),
    ("buidl/pbkdf2.py", "PBKDF2.hexread"), ("buidl/pbkdf2.py", "PBKDF2.close"),
    ("buidl/pbkdf2.py", "PBKDF2.read"), ("buidl/pbkdf2.py", "PBKDF2.__f"), ("buidl/pbkdf2.py", "PBKDF2._setup"),
    # pbkdf2.binxor is defined inside a module-level if/else: the fingerprint resolver of ./check does not reach it
    ("buidl/helper.py", "hmac_sha512_kdf"),
    ("buidl/hd.py", "HDPrivateKey.from_mnemonic"), ("buidl/hd.py", "HDPrivateKey.from_seed"),
    ("buidl/hd.py", "HDPrivateKey.generate"), ("buidl/mnemonic.py", "secure_mnemonic"),
]
RULE = ("cases come from one PRNG seeded by VERIF_SEED plus fixed catalogues: entropy of every size 16/20/24/28/32 "
        "(all-zero, all-0xff, 0x80.., 0x7f.., counting bytes, random), matching / mismatching / invalid num_bits and "
        "wrong-length byte strings; the mnemonics of those entropies and their variants (a word replaced by another table "
        "word, by an unknown word, upper-cased / capitalised, cut to four / three / five letters, odd separators: runs of "
        "spaces, tab, newline, U+00A0, U+3000, leading and trailing whitespace), wrong word counts 0/1/11/13/14/16/23/25, "
        "random sequences of table words, every table word as the last word of sampled mnemonics; str.split on every "
        "white-space code point and near misses; every word and every four-letter prefix of both word lists plus unknown, "
        "short, extended, upper-case keys; passphrases empty / TREZOR / random ASCII / non-ASCII UTF-8 / non-UTF-8 bytes / "
        "200 bytes; vendored PBKDF2 for SHA-512/256/1 with password lengths around the HMAC block sizes, salts of 0..100 "
        "bytes, iterations 1/2/3/10/2048 and read patterns single / many one-byte reads / reads crossing block "
        "boundaries / zero-length reads; the Trezor vectors inline in buidl/test/test_hd.py. A case is non-trivial when "
        "its input is not empty; distinct = distinct request lines / predicate inputs")
CLAUSES = {
    "entropy -> words (11-bit groups of entropy ‖ checksum)": "proved relative to sha256 (words_are_11bit_groups)",
    "round trip mnemonic_to_bytes ∘ bytes_to_mnemonic": "proved relative to sha256 (roundtrip; string level incl. join/split)",
    "acceptance iff length/words/checksum": "proved relative to sha256 (accept_iff, lookupAll_spec, wrong_length_rejected, "
                                            "unknown_word_rejected, bytesToMnemonic_rejects_size)",
    "four-letter prefix lookup well-defined (table facts)": "proved (bip39_table_facts, bip39_sorted, lookup_well_defined, word_lookup; "
                                                            "kernel check Buidl.Mnemonic.bip39_check over the generated 2048-word table)",
    "vendored PBKDF2.read = RFC 2898": "proved for every PRF of fixed non-zero output length, salt, iteration count >= 1, length, incl. "
                                       "the 'derived key too long' refusal and buffering across reads (pbkdf2_vendored_eq_rfc2898, "
                                       "pbkdf2_reads, pbkdf2_zero_iterations)",
    "seed = PBKDF2-HMAC-SHA512(normalised words, 'mnemonic'+passphrase, 2048, 64)": "proved relative to the PRF (from_mnemonic_seed, "
                                                                                    "from_mnemonic_rejects, kdf_parameters)",
    "object reuse (one PBKDF2 / WordList object used repeatedly)": "proved: any chunking of reads on one object returns the consecutive "
        "pieces of the RFC 2898 stream (pbkdf2_reads, history_of_reads), hexread = hex of read (hexread_spec), after close() every "
        "read raises (history_after_close), lookups are pure (normalize_spec, lookup_unknown, contains_iff, split_join, split_fields); "
        "correspondence: kinds pbkdf2_history, contains, *:again (every query twice), predicates pbkdf2_history, wordlist_history",
    "BIP32 master derivation from the seed": "hand-off proved (from_mnemonic_handoff: from_seed is applied to exactly that seed); the "
                                             "derivation itself is property C08; correspondence: ops master / predicate from_mnemonic",
}
TRUSTED = ["sha256 and the PRF (HMAC) are parameters of every theorem; the driver instantiates them with "
           "Buidl.Model.Hash.SHA256 / SHA512 / SHA1 / HMAC (checked against hashlib by harness/hash_selftest.py)",
           "the direct predicates use hashlib.sha256, hashlib.pbkdf2_hmac and hmac (CPython/OpenSSL) as the reference "
           "for SHA-256, RFC 2898 PBKDF2 and HMAC-SHA512"]
ASSUMPTIONS = ["str.split() separates at maximal runs of the code points for which str.isspace() holds and drops "
               "empty fields; str.lower() on ASCII strings maps A-Z to a-z and nothing else",
               "int.to_bytes / int.from_bytes, struct.pack('!L', i), bytes slicing and str.encode('UTF-8') behave as documented",
               "hmac.new(key, msg, digestmod).digest() is HMAC (RFC 2104) over the given hashlib constructor",
               "mnemonics containing lone surrogate code points are not exercised (the request tokens are UTF-8)"]

SIZES = [16, 20, 24, 28, 32]
WORD_COUNTS = (12, 15, 18, 21, 24)
HASHES = {"sha512": 64, "sha256": 32, "sha1": 20}
HEAVY_OPS = ("seed", "master")
HEAVY_PREDS = ("from_mnemonic", "prefix_same", "trezor_vector", "generate")


class UnknownOp(Exception):
    pass


class _Captured(Exception):
    pass


def rbytes(rng, n):
    return rng.getrandbits(8 * n).to_bytes(n, "little") if n else b""


# --------------------------------------------------------------------------------- independent oracle
_TABLES = {}


def _table(name="bip39"):
    """the word file read directly (not through buidl.mnemonic.WordList): words, word -> index,
    four-letter prefix -> indices of the words longer than four letters starting with it"""
    if name not in _TABLES:
        with open(os.path.join(REPO, "buidl", name + "_words.txt"), "r") as f:
            words = f.read().split()
        index = {w: i for i, w in enumerate(words)}
        prefix = {}
        for i, w in enumerate(words):
            if len(w) > 4:
                prefix.setdefault(w[:4], []).append(i)
        _TABLES[name] = (words, index, prefix)
    return _TABLES[name]


def oracle_index(word):
    """index of a full table word or of a UNIQUE four-letter prefix of a longer table word, else None"""
    words, index, prefix = _table()
    if word in index:
        return index[word]
    c = prefix.get(word, [])
    if len(word) == 4 and len(c) == 1:
        return c[0]
    return None


def oracle_words(e):
    """the BIP39 words of entropy e: 11-bit groups of e ‖ first len(e)/4 bits of sha256(e)"""
    words = _table()[0]
    cs_bits = len(e) // 4
    bits = (int.from_bytes(e, "big") << cs_bits) | (int.from_bytes(hashlib.sha256(e).digest(), "big") >> (256 - cs_bits))
    n = (8 * len(e) + cs_bits) // 11
    return [words[(bits >> (11 * (n - 1 - i))) & 0x7FF] for i in range(n)]


def oracle_decode(mnemonic):
    """(entropy, full words) when the word sequence is acceptable, None otherwise: length in 12/15/18/21/24,
    every word a table word or a unique four-letter prefix, checksum bits = first bits of sha256(entropy)"""
    ws = mnemonic.split()
    if len(ws) not in WORD_COUNTS:
        return None
    idx = [oracle_index(w) for w in ws]
    if any(i is None for i in idx):
        return None
    bits = 0
    for i in idx:
        bits = bits * 2048 + i
    cs_bits = len(ws) // 3
    ent_len = (len(ws) * 11 - cs_bits) // 8
    e = (bits >> cs_bits).to_bytes(ent_len, "big")
    if bits & ((1 << cs_bits) - 1) != hashlib.sha256(e).digest()[0] >> (8 - cs_bits):
        return None
    words = _table()[0]
    return e, [words[i] for i in idx]


# --------------------------------------------------------------------------------- implementation side
def capture_seed(mnemonic, password):
    """the first argument HDPrivateKey.from_mnemonic passes to cls.from_seed (from_seed is wrapped for the
    duration of the call; the wrapper records the seed and aborts the rest of from_mnemonic)"""
    import buidl.hd as HD
    cls = HD.HDPrivateKey
    orig = cls.__dict__["from_seed"]
    box = []

    def fake(c, seed, *a, **kw):
        box.append(seed)
        raise _Captured()

    cls.from_seed = classmethod(fake)
    try:
        try:
            cls.from_mnemonic(mnemonic, password)
        except _Captured:
            pass
    finally:
        cls.from_seed = orig
    if len(box) != 1:
        raise ValueError("from_seed not reached exactly once")
    return bytes(box[0])


def master_bytes(mnemonic, password):
    import buidl.hd as HD
    k = HD.HDPrivateKey.from_mnemonic(mnemonic, password)
    return k.private_key.secret.to_bytes(32, "big") + k.chain_code


def vendored_reads(name, password, salt, iterations, reads):
    from buidl.pbkdf2 import PBKDF2
    obj = PBKDF2(password, salt, iterations, digestmodule=getattr(hashlib, name), macmodule=hmac)
    return [obj.read(n) for n in reads]


def pbkdf2_history(name, password, salt, iterations, ops):
    """a history of read / hexread / close calls on ONE vendored PBKDF2 object; a call that raises answers RAISED and
    the history goes on with the same object"""
    from buidl.pbkdf2 import PBKDF2
    obj = PBKDF2(password, salt, iterations, digestmodule=getattr(hashlib, name), macmodule=hmac)
    out = []
    for op in ops:
        try:
            if op == "c":
                obj.close()
                out.append("ok")
            elif op[0] == "r":
                out.append(xb(obj.read(int(op[1:]))))
            elif op[0] == "h":
                out.append(xs(obj.hexread(int(op[1:]))))
            else:
                raise UnknownOp(op)
        except UnknownOp:
            raise
        except Exception:
            out.append("RAISED")
    return " ".join([str(len(out))] + out)


def _wordlist(name):
    if name == "bip39":
        import buidl.mnemonic as M
        return M.BIP39
    if name == "slip39":
        import buidl.shamir as S
        return S.SLIP39
    raise UnknownOp(name)


def _impl(t):
    import buidl.mnemonic as M

    op = t[0]
    if op == "split":
        ws = uns(t[1]).split()
        return " ".join([str(len(ws))] + [xs(w) for w in ws])
    if op == "lookup":
        return str(_wordlist(t[1])[uns(t[2])])
    if op == "word":
        return xs(_wordlist(t[1])[int(t[2])])
    if op == "normalize":
        return xs(M.BIP39.normalize(uns(t[1])))
    if op == "m2b":
        return xb(M.mnemonic_to_bytes(uns(t[1])))
    if op == "b2m":
        return xs(M.bytes_to_mnemonic(unx(t[1]), int(t[2])))
    if op == "seed":
        return xb(capture_seed(uns(t[1]), unx(t[2])))
    if op == "master":
        return xb(master_bytes(uns(t[1]), unx(t[2])))
    if op == "pbkdf2v":
        if t[1] not in HASHES:
            raise UnknownOp(t[1])
        k = int(t[5])
        reads = [int(x) for x in t[6:6 + k]]
        if len(reads) != k or len(t) != 6 + k:
            raise UnknownOp("pbkdf2v: malformed read list")
        return blist(vendored_reads(t[1], unx(t[2]), unx(t[3]), int(t[4]), reads))
    if op == "rfc2898":
        if t[1] not in HASHES:
            raise UnknownOp(t[1])
        return xb(hashlib.pbkdf2_hmac(t[1], unx(t[2]), unx(t[3]), int(t[4]), int(t[5])))
    if op == "utf8":
        return xb(uns(t[1]).encode("utf-8"))
    if op == "contains":
        return "1" if uns(t[2]) in _wordlist(t[1]) else "0"
    if op == "pbkdf2ops":
        if t[1] not in HASHES:
            raise UnknownOp(t[1])
        k = int(t[5])
        ops = t[6:]
        if len(ops) != k:
            raise UnknownOp("pbkdf2ops: malformed op list")
        return pbkdf2_history(t[1], unx(t[2]), unx(t[3]), int(t[4]), ops)
    raise UnknownOp(op)


def impl_line(line):
    t = line.split(" ")
    try:
        return _impl(t)
    except UnknownOp:
        raise
    except Exception:
        return REJECT


def model_line(line):
    return line


# --------------------------------------------------------------------------------- direct predicates
def p_roundtrip(c):
    """(a) mnemonic_to_bytes(bytes_to_mnemonic(e, 8*len(e))) == e"""
    import buidl.mnemonic as M
    e = unx(c["e"])
    got = M.mnemonic_to_bytes(M.bytes_to_mnemonic(e, 8 * len(e)))
    return got == e, xb(got), xb(e)


def p_words(c):
    """(b) the words are the 11-bit groups of e ‖ checksum, joined by single spaces"""
    import buidl.mnemonic as M
    e = unx(c["e"])
    got = M.bytes_to_mnemonic(e, 8 * len(e))
    want = " ".join(oracle_words(e))
    return got == want, got, want


def p_accept(c):
    """(c) accepted iff length valid, every word a table word / unique four-letter prefix, checksum matches;
    when accepted the result is the entropy"""
    import buidl.mnemonic as M
    d = oracle_decode(c["m"])
    want = REJECT if d is None else xb(d[0])
    try:
        got = xb(M.mnemonic_to_bytes(c["m"]))
    except Exception:
        got = REJECT
    return got == want, got, want


def p_pbkdf2(c):
    """(d) consecutive reads of the vendored PBKDF2 are the successive pieces of RFC 2898 PBKDF2 (hashlib)"""
    reads = c["reads"]
    outs = vendored_reads(c["hash"], unx(c["pass"]), unx(c["salt"]), c["iterations"], reads)
    total = sum(reads)
    ref = hashlib.pbkdf2_hmac(c["hash"], unx(c["pass"]), unx(c["salt"]), c["iterations"], total) if total >= 1 else b""
    want, pos = [], 0
    for n in reads:
        want.append(xb(ref[pos:pos + n]))
        pos += n
    got = [xb(o) for o in outs]
    return got == want, got, want


def p_from_mnemonic(c):
    """(e) from_mnemonic(m, pw) = from_seed(PBKDF2-HMAC-SHA512(normalised words, 'mnemonic'+pw, 2048, 64)); the key
    material is HMAC-SHA512('Bitcoin seed', seed); an unacceptable word sequence is refused"""
    import buidl.hd as HD
    m, pw = c["m"], unx(c["pw"])
    d = oracle_decode(m)
    if d is None:
        try:
            k = HD.HDPrivateKey.from_mnemonic(m, pw)
        except Exception:
            return True, REJECT, REJECT
        return False, k.xprv(), REJECT
    seed = hashlib.pbkdf2_hmac("sha512", " ".join(d[1]).encode("utf-8"), b"mnemonic" + pw, 2048, 64)
    k = HD.HDPrivateKey.from_mnemonic(m, pw)
    got = [k.xprv(), xb(k.private_key.secret.to_bytes(32, "big") + k.chain_code)]
    want = [HD.HDPrivateKey.from_seed(seed).xprv(), xb(hmac.new(b"Bitcoin seed", seed, hashlib.sha512).digest())]
    return got == want, got, want


def p_prefix_same(c):
    """(f) a mnemonic written with four-letter prefixes / odd separators gives the same bytes and the same seed
    as the full mnemonic with single spaces"""
    import buidl.mnemonic as M
    pw = unx(c["pw"])
    got = [xb(M.mnemonic_to_bytes(c["variant"])), xb(capture_seed(c["variant"], pw))]
    want = [xb(M.mnemonic_to_bytes(c["full"])), xb(capture_seed(c["full"], pw))]
    return got == want, got, want


def p_trezor(c):
    """a Trezor vector (entropy, mnemonic, seed, xprv) of the test-suite"""
    import buidl.mnemonic as M
    import buidl.hd as HD
    e, pw = bytes.fromhex(c["entropy"]), unx(c["pw"])
    got = [M.bytes_to_mnemonic(e, 8 * len(e)), xb(M.mnemonic_to_bytes(c["mnemonic"])),
           xb(capture_seed(c["mnemonic"], pw)), HD.HDPrivateKey.from_mnemonic(c["mnemonic"], pw).xprv()]
    want = [c["mnemonic"], xb(e), "x" + c["seed"], c["xprv"]]
    return got == want, got, want


def p_wordlist(c):
    """WordList.__init__: `words` is the file's word sequence, `lookup` maps every word and the four-letter prefix of
    every longer word to its index; an unexpected word count is refused"""
    import buidl.mnemonic as M
    words, index, prefix = _table(c["list"])
    if c["n"] != len(words):
        try:
            M.WordList(c["list"] + "_words.txt", c["n"])
        except Exception:
            return True, REJECT, REJECT
        return False, "constructed", REJECT
    wl = M.WordList(c["list"] + "_words.txt", c["n"])
    want_lookup = dict(index)
    for pre, idx in prefix.items():
        if len(idx) == 1 and pre not in index:
            want_lookup[pre] = idx[0]
    ambiguous = sorted(pre for pre, idx in prefix.items() if len(idx) != 1 or pre in index)
    got = [list(wl.words) == words, dict(wl.lookup) == want_lookup, ambiguous]
    return got == [True, True, []], got, [True, True, []]


# sha256 of "\n".join(words) + "\n": the BIP39 value is that of bip-0039/english.txt as published with the BIP (an external
# anchor: the property says "as defined by BIP39", and the list is part of the BIP)
WORDLIST_SHA256 = {"bip39": "2f5eed53a4727b4bf8880d8f3f199efc90e58503646d9ff8eff3a2ed3b24dbda"}


def p_fingerprint(c):
    """the word file is the canonical list (order included): a swapped, altered or missing word changes what every
    entropy touching it encodes to"""
    words = _table(c["list"])[0]
    got = hashlib.sha256(("\n".join(words) + "\n").encode()).hexdigest()
    return got == WORDLIST_SHA256[c["list"]], got, WORDLIST_SHA256[c["list"]]


def p_pbkdf2_history(c):
    """ONE object read in chunks (read / hexread mixed, zero-length reads, single bytes, reads across block boundaries):
    the concatenation equals a one-shot read of a fresh object and hashlib.pbkdf2_hmac; the same history on a second
    fresh object gives the same answers"""
    from buidl.pbkdf2 import PBKDF2
    name, pw, salt, it = c["hash"], unx(c["pass"]), unx(c["salt"]), c["iterations"]

    def once():
        obj = PBKDF2(pw, salt, it, digestmodule=getattr(hashlib, name), macmodule=hmac)
        out = b""
        for kind, n in c["ops"]:
            out += obj.read(n) if kind == "r" else bytes.fromhex(obj.hexread(n))
        return out
    first, second = once(), once()
    total = sum(n for _, n in c["ops"])
    oneshot = PBKDF2(pw, salt, it, digestmodule=getattr(hashlib, name), macmodule=hmac).read(total)
    ref = hashlib.pbkdf2_hmac(name, pw, salt, it, total) if total else b""
    got = [xb(first), xb(second), xb(oneshot)]
    return got == [xb(ref)] * 3, got, [xb(ref)] * 3


def p_wordlist_history(c):
    """one WordList object (a fresh instance, and the module-level BIP39 / SLIP39) asked many things in sequence — str
    lookups, int lookups, normalize, `in`, iteration — every query twice, interleaved: the answers are those of the
    independent oracle both times and the object's tables are unchanged afterwards"""
    import buidl.mnemonic as M
    import buidl.shamir as S
    name = c["list"]
    words, index, prefix = _table(name)
    objs = [M.WordList(name + "_words.txt", len(words)), M.BIP39 if name == "bip39" else S.SLIP39]
    bad = []
    for wl in objs:
        before = (list(wl.words), dict(wl.lookup))

        def ask(q):
            try:
                if q[0] == "s":
                    return wl[q[1]]
                if q[0] == "i":
                    return wl[q[1]]
                if q[0] == "n":
                    return wl.normalize(q[1])
                if q[0] == "in":
                    return q[1] in wl
                if q[0] == "iter":
                    return sum(1 for _ in wl)
            except Exception:
                return REJECT

        def want(q):
            if q[0] == "s":
                if q[1] in index:
                    return index[q[1]]
                ids = prefix.get(q[1], [])
                return ids[-1] if len(q[1]) == 4 and ids else REJECT
            if q[0] == "i":
                return words[q[1]] if -len(words) <= q[1] < len(words) else REJECT
            if q[0] == "n":
                w = want(("s", q[1].lower()))
                return words[w] if w != REJECT else REJECT
            if q[0] == "in":
                return q[1] in words
            return len(words)
        qs = [tuple(q) for q in c["queries"]]
        first = [ask(q) for q in qs]
        second = [ask(q) for q in reversed(qs)][::-1]
        third = [x for q in qs for x in (ask(q), ask(q))]
        exp = [want(q) for q in qs]
        if first != exp or second != exp or third != [x for e in exp for x in (e, e)]:
            bad.append("answers differ")
        if (list(wl.words), dict(wl.lookup)) != before:
            bad.append("tables changed")
    return not bad, bad, []


def p_from_seed_history(c):
    """HDPrivateKey.from_seed called for related seeds one after the other (prefixes, suffixes, repeats): each answer is
    HMAC-SHA512(b"Bitcoin seed", seed) split into key and chain code, whatever was called before"""
    import buidl.hd as HD
    got, want = [], []
    for rnd in range(2):
        for tok in c["seeds"]:
            seed = unx(tok)
            h = hmac.new(b"Bitcoin seed", seed, hashlib.sha512).digest()
            want.append(xb(h))
            try:
                k = HD.HDPrivateKey.from_seed(seed)
                got.append(xb(k.private_key.secret.to_bytes(32, "big") + k.chain_code))
            except Exception:
                got.append(REJECT)
    return got == want, got, want


def p_codec_history(c):
    """bytes_to_mnemonic / mnemonic_to_bytes called for related entropies one after the other, each twice: the
    stateless answers of the independent oracle every time"""
    import buidl.mnemonic as M
    got, want = [], []
    for tok in c["entropies"]:
        e = unx(tok)
        for _ in range(2):
            m = M.bytes_to_mnemonic(e, 8 * len(e))
            got.append([m, xb(M.mnemonic_to_bytes(m)), xb(M.mnemonic_to_bytes(" ".join(w[:4] for w in m.split())))])
            want.append([" ".join(oracle_words(e)), xb(e), xb(e)])
    return got == want, got, want


STD_VERSIONS = {"mainnet": ("0488ade4", "0488b21e"), "testnet": ("04358394", "043587cf"),
                "signet": ("04358394", "043587cf"), "regtest": ("04358394", "043587cf")}


def p_generate(c):
    """HDPrivateKey.generate(password, extra_entropy, network, priv_version, pub_version) returns (mnemonic, key): the
    mnemonic is a valid 24-word BIP39 mnemonic and the key is the master key of (THAT mnemonic, THE GIVEN passphrase):
    secret ‖ chain code = the model's answer (drv_c14 `master`, RFC 2898 + HMAC) = hashlib's; network and version bytes
    as requested; the same key as from_mnemonic(mnemonic, password, network=..., versions...)"""
    import buidl.hd as HD
    import buidl.mnemonic as M
    from harness.common import Driver
    pw, net = unx(c["pass"]), c["network"]
    pv = bytes.fromhex(c["priv_version"]) if c["priv_version"] else None
    bv = bytes.fromhex(c["pub_version"]) if c["pub_version"] else None
    orig = M.randbits
    r = random.Random(c["seed"])
    M.randbits = lambda n: r.getrandbits(n)
    try:
        if c["form"] == "positional":
            mn, key = HD.HDPrivateKey.generate(pw, c["extra_entropy"], net, pv, bv)
        elif c["form"] == "keywords":
            mn, key = HD.HDPrivateKey.generate(password=pw, extra_entropy=c["extra_entropy"], network=net,
                                               priv_version=pv, pub_version=bv)
        else:   # only what differs from the defaults
            kw = {}
            if pw != b"":
                kw["password"] = pw
            if c["extra_entropy"]:
                kw["extra_entropy"] = c["extra_entropy"]
            if net != "mainnet":
                kw["network"] = net
            if pv:
                kw["priv_version"] = pv
            if bv:
                kw["pub_version"] = bv
            mn, key = HD.HDPrivateKey.generate(**kw)
    finally:
        M.randbits = orig
    dec = oracle_decode(mn)
    words_ok = dec is not None and len(mn.split()) == 24 and mn == " ".join(dec[1])
    model = Driver("drv_c14").one(f"master {xs(mn)} {xb(pw)}")
    seed = hashlib.pbkdf2_hmac("sha512", mn.encode(), b"mnemonic" + pw, 2048, 64)
    ref = xb(hmac.new(b"Bitcoin seed", seed, hashlib.sha512).digest())
    other = HD.HDPrivateKey.from_mnemonic(mn, pw, network=net, priv_version=pv, pub_version=bv)
    exp_pv = c["priv_version"] or STD_VERSIONS[net][0]
    exp_bv = c["pub_version"] or STD_VERSIONS[net][1]

    def obs(k):
        return [xb(k.private_key.secret.to_bytes(32, "big") + k.chain_code), k.network, bytes(k.priv_version).hex(),
                bytes(k.pub.pub_version).hex(), k.depth, k.child_number]
    got = [words_ok, obs(key), obs(other), mn]
    want = [True, [model, net, exp_pv, exp_bv, 0, 0], [ref, net, exp_pv, exp_bv, 0, 0], mn]
    return got == want, got, want


PREDICATES = {"generate": p_generate, "from_seed_history": p_from_seed_history, "codec_history": p_codec_history,
              "pbkdf2_history": p_pbkdf2_history, "wordlist_history": p_wordlist_history,
              "wordlist_fingerprint": p_fingerprint, "wordlist_tables": p_wordlist, "roundtrip": p_roundtrip, "words_layout": p_words, "acceptance": p_accept, "pbkdf2_rfc2898": p_pbkdf2,
              "from_mnemonic": p_from_mnemonic, "prefix_same": p_prefix_same, "trezor_vector": p_trezor}


def eval_pred(kind, case):
    try:
        return PREDICATES[kind](case)
    except Exception as e:
        return False, "raised " + type(e).__name__, "no exception"


def _heavy_job(job):
    """one expensive evaluation on the real code, run in a worker process: a request line or a predicate case"""
    if job[0] == "line":
        return impl_line(job[1])
    return eval_pred(job[1], job[2])


# --------------------------------------------------------------------------------- Trezor vectors of the test-suite
def trezor_vectors():
    """(vectors, notes): 4-tuples (entropy hex, mnemonic, seed hex, xprv) found as literals in the test sources,
    kept only when hashlib confirms entropy -> mnemonic is plausible and seed = PBKDF2(mnemonic, 'mnemonic'+pw)"""
    vectors, notes = [], []
    hexdigits = set("0123456789abcdef")
    for fn in ("test_hd.py", "test_mnemonic.py"):
        path = os.path.join(REPO, "buidl", "test", fn)
        found = 0
        try:
            tree = ast.parse(open(path).read())
        except Exception as e:
            notes.append(f"trezor vectors: {fn} not parsed ({type(e).__name__})")
            continue
        for func in ast.walk(tree):
            if not isinstance(func, (ast.FunctionDef, ast.AsyncFunctionDef)):
                continue
            cand = []
            for node in ast.walk(func):
                if isinstance(node, (ast.List, ast.Tuple)) and len(node.elts) == 4 and all(
                        isinstance(x, ast.Constant) and isinstance(x.value, str) for x in node.elts):
                    ent, mn, seed, xprv = [x.value for x in node.elts]
                    if (set(ent) <= hexdigits and len(ent) in (32, 40, 48, 56, 64) and set(seed) <= hexdigits
                            and len(seed) == 128 and xprv.startswith("xprv") and len(mn.split()) in WORD_COUNTS):
                        cand.append((ent, mn, seed, xprv))
            if not cand:
                continue
            pws = []
            for node in ast.walk(func):
                if (isinstance(node, ast.Call) and isinstance(node.func, ast.Attribute) and node.func.attr == "from_mnemonic"
                        and len(node.args) >= 2 and isinstance(node.args[1], ast.Constant)
                        and isinstance(node.args[1].value, bytes)):
                    pws.append(node.args[1].value)
            pw = pws[0] if len(set(pws)) == 1 else b"TREZOR"
            for ent, mn, seed, xprv in cand:
                ref = hashlib.pbkdf2_hmac("sha512", mn.encode("utf-8"), b"mnemonic" + pw, 2048, 64).hex()
                if ref != seed:
                    notes.append(f"trezor vectors: a vector of {fn}:{func.name} is not consistent with passphrase {pw!r}; skipped")
                    continue
                vectors.append({"entropy": ent, "mnemonic": mn, "seed": seed, "xprv": xprv, "pw": xb(pw),
                                "source": f"{fn}:{func.name}"})
                found += 1
        if not found:
            notes.append(f"trezor vectors: no inline (entropy, mnemonic, seed, xprv) literals found in buidl/test/{fn}")
    return vectors, notes


# --------------------------------------------------------------------------------- generation
SEPARATORS = ["  ", "   ", "\t", "\n", "\r\n", "\u00a0", "\u3000", " \t\n ", "\u2003", "\x1f", "\x0b\x0c"]
NEAR_MISSES = [0x200B, 0xFEFF, 0x180E, 0x0000, 0x2060, 0x200C, 0x200D, 0x00AD, 0x0008, 0x000E, 0x001B, 0x0021, 0x007F,
               0x0084, 0x0086, 0x009F, 0x00A1, 0x167F, 0x1681, 0x1FFF, 0x200B, 0x2027, 0x202A, 0x202E, 0x2030, 0x205E,
               0x2060, 0x2FFF, 0x3001, 0x303F]


def _key(line):
    return line if len(line) <= 300 else line[:260] + hashlib.blake2b(line.encode(), digest_size=8).hexdigest()


def run(ctx):
    rng, rec = ctx.rng, ctx.rec
    drv = ctx.driver("drv_c14")
    lines = []   # (kind, request line)
    preds = []   # (kind, case)
    seen = set()

    def add(kind, line):
        if line not in seen:
            seen.add(line)
            lines.append((kind, line))

    W, WI, _ = _table("bip39")
    SW, SWI, _ = _table("slip39")
    unknown = [w for w in ["abandonn", "zooo", "xyzzy", "notaword", "abandon1", "aband", "ab", "zo", "q", "añadir",
                           "日本", "0", "abandon\u200b", "\ufeffzoo", "abandon,", "zoo.", "abou", "bitcoin", "satoshi"]
               if oracle_index(w) is None]
    spaces = [c for c in range(0x110000) if chr(c).isspace()]

    # ---- 1. entropy -> mnemonic
    ents = []
    for n in SIZES:
        ents += [bytes(n), b"\xff" * n, b"\x80" * n, b"\x7f" * n, bytes(range(n)), b"\x00" * (n - 1) + b"\x01",
                 b"\x80" + b"\x00" * (n - 1)]
        ents += [rbytes(rng, n) for _ in range(ctx.n(24))]
    for e in ents:
        add("b2m", f"b2m {xb(e)} {8 * len(e)}")
        preds.append(("roundtrip", {"e": xb(e)}))
        preds.append(("words_layout", {"e": xb(e)}))
    for n in SIZES:
        for e in (bytes(n), b"\xff" * n, rbytes(rng, n), rbytes(rng, n)):
            for nb in (128, 160, 192, 224, 256):
                if nb != 8 * n:
                    add("b2m_mismatch", f"b2m {xb(e)} {nb}")
            for nb in (0, 1, 8, 32, 64, 127, 129, 159, 161, 255, 257, 264, 288, 512, 2 ** 32 + 128):
                add("b2m_badbits", f"b2m {xb(e)} {nb}")
    for ln in (0, 1, 15, 17, 19, 21, 31, 33, 64):
        for e in (bytes(ln), b"\xff" * ln, rbytes(rng, ln)):
            for nb in (128, 160, 192, 224, 256, 8 * ln):
                add("b2m_wronglen", f"b2m {xb(e)} {nb}")

    # ---- 2. mnemonic -> bytes
    m2b = []  # (kind, mnemonic)
    valid = [oracle_words(e) for e in ents]
    variants = []  # (full word list, variant string) expected to be equivalent to the full mnemonic
    for ws in valid:
        full = " ".join(ws)
        m2b.append(("m2b", full))
        p = rng.randrange(len(ws))
        q = rng.randrange(len(ws))
        other = rng.choice(W)
        m2b.append(("m2b_otherword", " ".join(ws[:p] + [other] + ws[p + 1:])))
        m2b.append(("m2b_otherword", " ".join(ws[:-1] + [rng.choice(W)])))
        m2b.append(("m2b_swap", " ".join(ws[:p] + [ws[q]] + ws[p + 1:q] + [ws[p]] + ws[q + 1:]) if p < q else " ".join(reversed(ws))))
        m2b.append(("m2b_unknown", " ".join(ws[:p] + [rng.choice(unknown)] + ws[p + 1:])))
        m2b.append(("m2b_case", " ".join(ws[:p] + [ws[p].upper()] + ws[p + 1:])))
        m2b.append(("m2b_case", " ".join(ws[:p] + [ws[p].capitalize()] + ws[p + 1:])))
        m2b.append(("m2b_case", full.upper()))
        allpre = " ".join(w[:4] for w in ws)
        somepre = " ".join(w[:4] if rng.random() < 0.5 else w for w in ws)
        m2b.append(("m2b_prefix4", allpre))
        m2b.append(("m2b_prefix4", somepre))
        variants += [(ws, allpre), (ws, somepre)]
        long_pos = [i for i, w in enumerate(ws) if len(w) > 5] or [p]
        r = rng.choice(long_pos)
        m2b.append(("m2b_prefix3", " ".join(ws[:r] + [ws[r][:3]] + ws[r + 1:])))
        m2b.append(("m2b_prefix5", " ".join(ws[:r] + [ws[r][:5]] + ws[r + 1:])))
        m2b.append(("m2b_prefix3", " ".join(w[:3] for w in ws)))
        m2b.append(("m2b_prefix5", " ".join(w[:5] for w in ws)))
        sep = rng.choice(SEPARATORS)
        v1 = sep.join(ws)
        v2 = rng.choice(SEPARATORS + [" "]) + "".join(w + rng.choice(SEPARATORS + [" "]) for w in ws)
        v3 = rng.choice(SEPARATORS).join(w[:4] for w in ws) + rng.choice(SEPARATORS)
        for v in (v1, v2, v3):
            m2b.append(("m2b_space", v))
            variants.append((ws, v))
        m2b.append(("m2b_nearspace", chr(rng.choice(NEAR_MISSES)).join(ws)))
        m2b.append(("m2b_nearspace", " ".join(ws[:p] + [ws[p] + chr(rng.choice(NEAR_MISSES))] + ws[p + 1:])))
    for sep in SEPARATORS:
        ws = rng.choice(valid)
        m2b.append(("m2b_space", sep.join(ws)))
        variants.append((ws, sep.join(ws)))
    # wrong word counts
    m2b += [("m2b_length", ""), ("m2b_length", " "), ("m2b_length", "\t\n"), ("m2b_length", "abandon"), ("m2b_length", "hello")]
    long24 = [ws for ws in valid if len(ws) == 24]
    for k in (0, 1, 2, 3, 6, 9, 10, 11, 13, 14, 16, 17, 19, 20, 22, 23, 25, 26, 27, 30, 33, 36, 48):
        for _ in range(3):
            ws = rng.choice(long24)
            seq = (ws + [rng.choice(W) for _ in range(24)])[:k] if rng.random() < 0.5 else [rng.choice(W) for _ in range(k)]
            m2b.append(("m2b_length", " ".join(seq)))
    for ws in valid[::7]:
        m2b.append(("m2b_length", " ".join(ws[:-1])))
        m2b.append(("m2b_length", " ".join(ws + [ws[0]])))
        m2b.append(("m2b_length", " ".join(ws + ws)))
    # word counts outside 12..24 whose checksum, computed by the same rule, is right (must still be refused)
    for nbytes in (4, 8, 12, 36, 40, 44, 48, 64):
        for e in (bytes(nbytes), b"\xff" * nbytes, rbytes(rng, nbytes), rbytes(rng, nbytes)):
            m2b.append(("m2b_length", " ".join(oracle_words(e))))
            m2b.append(("m2b_length", " ".join(w[:4] for w in oracle_words(e))))
    # random table words (1/16 .. 1/256 pass the checksum)
    for _ in range(ctx.n(300)):
        m2b.append(("m2b_random12", " ".join(rng.choice(W) for _ in range(12))))
    for k in (15, 18, 21, 24):
        for _ in range(ctx.n(40)):
            m2b.append(("m2b_randomN", " ".join(rng.choice(W) for _ in range(k))))
    for _ in range(ctx.n(60)):
        m2b.append(("m2b_randomprefix", " ".join(rng.choice(W)[:4] for _ in range(12))))
    # table words as the last word (2^(11-cs) of the 2048 pass; a model lookup scans the table, so the quick tier
    # takes every second / eighth word, the thorough tier all of them)
    for ws in [ws for ws in valid if len(ws) == 12][7:7 + ctx.n(1, 4)]:
        for w in W[rng.randrange(2):: 2] if not ctx.thorough else W:
            m2b.append(("m2b_lastword", " ".join(ws[:-1] + [w])))
    for ws in long24[7:7 + ctx.n(1, 2)]:
        for w in W[rng.randrange(8):: 8] if not ctx.thorough else W:
            m2b.append(("m2b_lastword", " ".join(ws[:-1] + [w])))
    for kind, m in m2b:
        add(kind, f"m2b {xs(m)}")
    accept_seen = set()
    for kind, m in m2b:
        if m not in accept_seen:
            accept_seen.add(m)
            preds.append(("acceptance", {"m": m}))

    # ---- 3. str.split
    for c in spaces + NEAR_MISSES:
        ch = chr(c)
        for s in ("a" + ch + "b", ch + "a", "a" + ch, ch, "a" + ch + ch + "b", " " + ch + " ", "a " + ch + " b"):
            add("split", f"split {xs(s)}")
    add("split", f"split {xs('')}")
    add("split", f"split {xs('a' + ''.join(chr(c) for c in spaces) + 'b')}")
    add("split", f"split {xs('a'.join(chr(c) for c in spaces))}")
    top = 0x110000 if ctx.thorough else 0x3100
    step = 64
    for lo in range(0, top, step):
        cps = [c for c in range(lo, min(lo + step, top)) if not (0xD800 <= c <= 0xDFFF)]
        if cps:
            add("split_sweep", f"split {xs(''.join('a' + chr(c) for c in cps))}")
    for _ in range(ctx.n(20)):
        c = rng.choice([rng.randrange(0x3100, 0xD800), rng.randrange(0xE000, 0x110000)])
        add("split_sweep", f"split {xs('a' + chr(c) + 'b' + chr(c))}")
    alphabet = [chr(c) for c in spaces] * 2 + [chr(c) for c in NEAR_MISSES] + list("abcxyz") * 6 + ["é", "日", "\U0001f600"]
    for _ in range(ctx.n(300)):
        add("split", f"split {xs(''.join(rng.choice(alphabet) for _ in range(rng.randrange(0, 24))))}")
    for _, v in variants[:: max(1, len(variants) // ctx.n(60))]:
        add("split", f"split {xs(v)}")

    # ---- 4. word lists
    for name, n in (("bip39", 2048), ("slip39", 1024), ("bip39", 2047), ("bip39", 2049), ("slip39", 2048), ("slip39", 1023)):
        preds.append(("wordlist_tables", {"list": name, "n": n}))
    preds.append(("wordlist_fingerprint", {"list": "bip39"}))
    for name, words, index in (("bip39", W, WI), ("slip39", SW, SWI)):
        other_words = SW if name == "bip39" else W
        for w in words:
            add("lookup", f"lookup {name} {xs(w)}")
            add("lookup_prefix4", f"lookup {name} {xs(w[:4])}")
        for w in other_words[:: 8]:
            add("lookup_otherlist", f"lookup {name} {xs(w)}")
            add("lookup_otherlist", f"lookup {name} {xs(w[:4])}")
        for w in unknown + ["", " ", "a", "z", "ab", "zo", "abc", "zoo ", " zoo", "zoo\n"]:
            add("lookup_unknown", f"lookup {name} {xs(w)}")
        sample = [words[0], words[1], words[-1], words[len(words) // 2]] + [rng.choice(words) for _ in range(ctx.n(60))]
        for w in sample:
            for k in (w[:1], w[:2], w[:3], w[:5], w[:6], w + "s", w + " ", w + w[-1], w[1:], w.upper(), w.capitalize(),
                      w[:4].upper(), w[:4] + "\u200b"):
                add("lookup_near", f"lookup {name} {xs(k)}")
        n = len(words)
        for i in [0, 1, 2, 1023, 1024, 1025, 2047, 2048, 2049, 4096, 2 ** 32, 2 ** 64, 10 ** 30] + \
                 [rng.randrange(0, 3000) for _ in range(ctx.n(60))] + [n - 1, n]:
            add("word", f"word {name} {i}")
    norm = [W[0], W[1], W[-1]] + [rng.choice(W) for _ in range(ctx.n(100))]
    for w in norm:
        for k in (w, w[:4], w.upper(), w.capitalize(), w[:4].upper(), w[:4].capitalize(), w[:3], w[:5], w + "x",
                  w[:2].upper() + w[2:]):
            add("normalize", f"normalize {xs(k)}")
    for w in unknown + ["", " ", "ZOOO", "Abandonn"]:
        if w.lower() == "".join(chr(ord(c) + 32) if "A" <= c <= "Z" else c for c in w):
            add("normalize", f"normalize {xs(w)}")

    # ---- 5. seed / master
    def passphrases():
        return [b"", b"TREZOR", bytes(rng.choice(range(0x20, 0x7F)) for _ in range(rng.randrange(1, 30))),
                "pässwörd€".encode("utf-8"), "パスワード\U0001f511".encode("utf-8"),
                b"\xff\xfe\x00", b"\x00", b"\x80", rbytes(rng, rng.randrange(1, 40)), rbytes(rng, 200), b"a" * 200,
                b"mnemonic"]

    by_size = {k: [ws for ws in valid if len(ws) == k] for k in WORD_COUNTS}
    fm_cases = []  # (mnemonic string, password)
    for k in WORD_COUNTS:
        ws = rng.choice(by_size[k])
        for j, pw in enumerate(passphrases()):
            add("seed", f"seed {xs(' '.join(ws))} {xb(pw)}")
            if k == 12 or j % 4 == 0:  # a full from_mnemonic costs an EC multiplication
                add("master", f"master {xs(' '.join(ws))} {xb(pw)}")
        fm_cases.append((" ".join(ws), rng.choice(passphrases())))
    for _ in range(ctx.n(80)):
        ws = rng.choice(valid)
        add("seed", f"seed {xs(' '.join(ws))} {xb(rng.choice(passphrases()))}")
    for _ in range(ctx.n(30)):
        ws = rng.choice(valid)
        add("master", f"master {xs(' '.join(ws))} {xb(rng.choice(passphrases()))}")
    for _ in range(ctx.n(12)):
        fm_cases.append((" ".join(rng.choice(valid)), rng.choice(passphrases())))
    # accepted mnemonics that are not already in normal form
    vsel = list(variants)
    rng.shuffle(vsel)
    for ws, v in vsel[: ctx.n(50)]:
        pw = rng.choice(passphrases())
        add("seed_variant", f"seed {xs(v)} {xb(pw)}")
        preds.append(("prefix_same", {"full": " ".join(ws), "variant": v, "pw": xb(pw)}))
    for ws, v in vsel[ctx.n(50): ctx.n(50) + ctx.n(16)]:
        pw = rng.choice(passphrases())
        add("master_variant", f"master {xs(v)} {xb(pw)}")
        fm_cases.append((v, pw))
    # random word sequences that happen to pass the checksum, and refused mnemonics
    passing = [m for k, m in m2b if k in ("m2b_random12", "m2b_randomN", "m2b_lastword", "m2b_randomprefix", "m2b_otherword")
               and oracle_decode(m) is not None]
    rng.shuffle(passing)
    for m in passing[: ctx.n(8)]:
        pw = rng.choice(passphrases())
        add("seed", f"seed {xs(m)} {xb(pw)}")
        fm_cases.append((m, pw))
    bad = [m for k, m in m2b if k not in ("m2b", "m2b_lastword") and oracle_decode(m) is None]
    rng.shuffle(bad)
    for m in bad[: ctx.n(150)]:
        pw = rng.choice([b"", b"TREZOR", b"\xff\xfe\x00"])
        add("seed_invalid", f"seed {xs(m)} {xb(pw)}")
        add("master_invalid", f"master {xs(m)} {xb(pw)}")
    for m in bad[: ctx.n(40)]:
        fm_cases.append((m, b"TREZOR"))
    for m, pw in fm_cases:
        preds.append(("from_mnemonic", {"m": m, "pw": xb(pw)}))
    # Trezor vectors of the test-suite
    vectors, notes = trezor_vectors()
    for nte in notes:
        rec.note(nte)
    rec.count("trezor_vectors_extracted", len(vectors))
    for v in vectors:
        e = bytes.fromhex(v["entropy"])
        add("trezor", f"b2m {xb(e)} {8 * len(e)}")
        add("trezor", f"m2b {xs(v['mnemonic'])}")
        add("trezor", f"seed {xs(v['mnemonic'])} {v['pw']}")
        add("trezor", f"master {xs(v['mnemonic'])} {v['pw']}")
        preds.append(("trezor_vector", v))

    # ---- 6. vendored PBKDF2 against the model and against hashlib
    def patterns(h):
        return [[1], [h - 1], [h], [h + 1], [2 * h], [3 * h + 5], [0], [0, 0, 5], [1] * (h + 3),
                [h - 1, 2, h, h + 1, 3 * h, 0], [h, h, h], [h + 1, h - 1, 1], [0, h, 0, 1],
                [rng.randrange(0, 3 * h) for _ in range(rng.randrange(1, 6))]]

    def pb(name, pw, salt, it, reads, kind="pbkdf2v"):
        add(kind, f"pbkdf2v {name} {xb(pw)} {xb(salt)} {it} " + " ".join([str(len(reads))] + [str(n) for n in reads]))
        if it >= 1:
            preds.append(("pbkdf2_rfc2898", {"hash": name, "pass": xb(pw), "salt": xb(salt), "iterations": it, "reads": reads}))
            if sum(reads) >= 1:
                add("rfc2898", f"rfc2898 {name} {xb(pw)} {xb(salt)} {it} {sum(reads)}")

    pwlens = [0, 1, 63, 64, 65, 127, 128, 129, 200]
    for name, h in HASHES.items():
        for i, ln in enumerate(pwlens):
            pats = patterns(h)
            for j, reads in enumerate(pats):
                if (i + j) % 3 == 0 or ctx.thorough:
                    pb(name, rbytes(rng, ln), rbytes(rng, rng.choice([0, 1, 8, 16, 63, 64, 100, rng.randrange(0, 101)])),
                       rng.choice([1, 1, 2, 3, 10]), reads)
        for _ in range(ctx.n(40)):
            pb(name, rbytes(rng, rng.choice(pwlens + [rng.randrange(0, 200)])), rbytes(rng, rng.randrange(0, 101)),
               rng.choice([1, 2, 3, 10]), rng.choice(patterns(h)))
        pb(name, b"password", b"salt", 0, [h], kind="pbkdf2v_zero_iterations")
        pb(name, b"", b"", 0, [0], kind="pbkdf2v_zero_iterations")
        pb(name, b"", b"", 1, [h])
        pb(name, b"password", b"salt", 1, [20])
        pb(name, b"password", b"salt", 2, [20])
        pb(name, b"password", b"salt", 4096, [20], kind="pbkdf2v_manyrounds")
        pb(name, b"passwordPASSWORDpassword", b"saltSALTsaltSALTsaltSALTsaltSALTsalt", 4096, [25], kind="pbkdf2v_manyrounds")
        pb(name, b"pass\x00word", b"sa\x00lt", 4096, [16], kind="pbkdf2v_manyrounds")
        for _ in range(ctx.n(3)):
            pb(name, rbytes(rng, rng.choice(pwlens)), rbytes(rng, rng.randrange(0, 101)), 2048,
               rng.choice([[h], [64], [h - 1, 2], [1, h], [2 * h + 1]]), kind="pbkdf2v_manyrounds")
    # the exact call of helper.hmac_sha512_kdf
    for ws in [rng.choice(valid) for _ in range(ctx.n(4))]:
        pb("sha512", " ".join(ws).encode(), b"mnemonic" + rng.choice(passphrases()), 2048, [64], kind="pbkdf2v_manyrounds")

    # ---- RELATED wallets called one after the other in ONE process (statelessness of from_mnemonic / from_seed):
    # every call must give the answer of its CURRENT arguments whatever was called before.  Wallets related by moving
    # bytes between entropy and passphrase (E, P) ~ (E‖P[:k], P[k:]); one mnemonic under many passphrases (prefixes,
    # suffixes, empty); many mnemonics under one passphrase; spellings of one wallet; all with repeats, both orders.
    history = []    # request lines, in call order (executed serially in this process after the first pass)

    def call(e, pw, op=None, spell=None):
        ws = oracle_words(e)
        m = " ".join(ws) if spell is None else spell(ws)
        line = f"{op or rng.choice(['seed', 'seed', 'master'])} {xs(m)} {xb(pw)}"
        add("related:" + line.split(" ")[0], line)
        history.append(line)

    for base in range(ctx.n(3, 12)):
        E = rbytes(rng, 16)
        P = rbytes(rng, 16) if base % 2 == 0 else bytes(rng.choice(range(0x21, 0x7F)) for _ in range(16))
        A = (E, P)
        Bs = [(E + P[:k], P[k:]) for k in (4, 8, 12, 16)]
        if base % 3 == 0:
            seq = [A] + Bs + [A] + list(reversed(Bs))                       # A first
        elif base % 3 == 1:
            seq = Bs + [A] + Bs + [A, A]                                    # the longer wallets first
        else:
            seq = [A, Bs[0], A, Bs[1], Bs[0], A, Bs[3], Bs[2], Bs[3], A]    # interleaved with repeats
        for e, pw in seq:
            call(e, pw, op="seed" if base % 2 == 0 else None)
        # the same shifts between two longer entropies: (E20, P) ~ (E20‖P[:4], P[4:]) ...
        E20 = rbytes(rng, 20)
        for e, pw in [(E20, P[:12]), (E20 + P[:4], P[4:12]), (E20 + P[:12], b""), (E20, P[:12]), (E20 + P[:8], P[8:12])]:
            call(e, pw, op="seed")
    for _ in range(ctx.n(2, 6)):
        e = rbytes(rng, rng.choice(SIZES))
        P = rbytes(rng, 12)
        pws = [P, b"", P[:6], P[6:], P + b"x", b"x" + P, P[:-1], P[1:], P, b"", P.hex().encode(), P[:6] + P[:6], P]
        for pw in pws:
            call(e, pw)
        # spellings of one wallet: prefixes / odd whitespace, between calls of another passphrase
        call(e, P, spell=lambda ws: "  ".join(w[:4] for w in ws))
        call(e, P + b"y")
        call(e, P, spell=lambda ws: "\t".join(ws) + "\n")
        call(e, P)
    pw_shared = rbytes(rng, 9)
    es = [rbytes(rng, n) for n in SIZES for _ in range(2)]
    es += [es[0][:-1] + bytes([es[0][-1] ^ 1]), es[0][:15] + b"\x00", es[2] + b"\x00" * 4]   # near-identical entropies
    for e in es + list(reversed(es)):
        call(e, pw_shared)
    for e in es[:4]:
        call(e, b"")
        call(e, pw_shared)
    # an invalid mnemonic between two valid calls must not disturb them (and must itself be refused both times)
    bad_m = " ".join(oracle_words(es[0])[:-1] + ["zoo" if oracle_words(es[0])[-1] != "zoo" else "abandon"])
    for _ in range(2):
        call(es[0], pw_shared, op="seed")
        if oracle_decode(bad_m) is None:
            add("related:seed", f"seed {xs(bad_m)} {xb(pw_shared)}")
            history.append(f"seed {xs(bad_m)} {xb(pw_shared)}")
    s0 = rbytes(rng, 64)
    preds.append(("from_seed_history", {"seeds": [xb(x) for x in
                  [s0, s0[:32], s0[32:], s0 + b"\x00", s0, bytes(64), s0[:63], s0, rbytes(rng, 16), s0[:32]]]}))
    preds.append(("codec_history", {"entropies": [xb(e) for e in es + [es[0], es[1]] + list(reversed(es))]}))

    # ---- HDPrivateKey.generate: the returned key must belong to (returned mnemonic, GIVEN passphrase)
    gen_pws = [b"", b"TREZOR", b"pass phrase", "pässwörd€".encode("utf-8"), "A\u030a\u2126\ufb01".encode("utf-8"), "\u00c5".encode("utf-8"),
               b"\xff\xfe\x00", rbytes(rng, 33)]
    gi = 0
    for net in ("mainnet", "testnet", "signet", "regtest"):
        for form in ("keywords", "positional", "minimal"):
            for pw in ([gen_pws[gi % len(gen_pws)], b""] if not ctx.thorough else gen_pws):
                gi += 1
                over = gi % 4 == 0
                preds.append(("generate", {"pass": xb(pw), "network": net, "form": form, "seed": rng.getrandbits(32),
                                           "extra_entropy": rng.choice([0, 1, rng.getrandbits(64), 2 ** 300 + 7]),
                                           "priv_version": "02aa7a99" if over else "",
                                           "pub_version": "02aa7ed3" if over or gi % 5 == 0 else ""}))
    for pw in gen_pws:
        preds.append(("generate", {"pass": xb(pw), "network": "mainnet", "form": "keywords", "seed": rng.getrandbits(32),
                                   "extra_entropy": 0, "priv_version": "", "pub_version": ""}))

    # ---- histories on ONE object
    def hist_ops(h):
        cat = [["r0", "r1", "r0", f"h{h}", "r1"], ["r1"] * (h + 2), [f"h{h - 1}", "r2", f"h{h}", f"r{h + 1}", "h0", f"r{3 * h}"],
               ["h1"] * 5 + [f"r{2 * h - 5}"], ["r5", "c", "r5", "h5", "c", "r0"], ["c", "c", "r1"], [f"r{h}", f"h{h}", "c"],
               ["r0", "h0", "c", "h0"], [f"h{2 * h + 1}", "r1", "r1", f"h{h - 2}"]]
        cat.append([rng.choice("rh") + str(rng.choice([0, 1, 2, h - 1, h, h + 1, rng.randrange(0, 3 * h)]))
                    for _ in range(rng.randrange(2, 9))])
        return cat
    for name, h in HASHES.items():
        for ops in hist_ops(h):
            for _ in range(ctx.n(2)):
                pw, salt, it = rbytes(rng, rng.choice(pwlens)), rbytes(rng, rng.randrange(0, 40)), rng.choice([1, 2, 3, 7])
                add("pbkdf2_history", f"pbkdf2ops {name} {xb(pw)} {xb(salt)} {it} {len(ops)} " + " ".join(ops))
                if "c" not in ops:
                    preds.append(("pbkdf2_history", {"hash": name, "pass": xb(pw), "salt": xb(salt), "iterations": it,
                                                     "ops": [[o[0], int(o[1:])] for o in ops]}))
        add("pbkdf2_history", f"pbkdf2ops {name} {xb(b'pw')} {xb(b'salt')} 0 2 r1 c")
    add("pbkdf2_history", f"pbkdf2ops sha512 {xb(b'pw')} {xb(b'salt')} 2048 6 r0 h1 r62 h1 r1 h64")
    for name, (WL, WLI) in (("bip39", (W, WI)), ("slip39", (SW, SWI))):
        for w in [WL[0], WL[-1], WL[len(WL) // 2], WL[0][:4], "zzzz", "", WL[1].upper()] + [rng.choice(WL) for _ in range(ctx.n(40))]:
            add("contains", f"contains {name} {xs(w)}")
            add("contains", f"contains {name} {xs(w[:4])}")
        for _ in range(ctx.n(3)):
            qs = []
            for _ in range(ctx.n(120)):
                w = rng.choice(WL)
                qs.append(rng.choice([("s", w), ("s", w[:4]), ("s", w[:3]), ("s", w + "x"), ("s", w.upper()), ("i", WLI[w]),
                                      ("i", len(WL)), ("i", -1), ("i", rng.randrange(0, len(WL))), ("n", w), ("n", w[:4]),
                                      ("n", w.capitalize()), ("n", "qqqq"), ("in", w), ("in", w[:4]), ("iter", 0)]))
            preds.append(("wordlist_history", {"list": name, "queries": [list(q) for q in qs]}))

    # ---- utf8
    for s in ["", "a", "\x00", "\x7f", "\x80", "\u07ff", "\u0800", "\ud7ff", "\ue000", "\uffff", "\U00010000", "\U0010ffff",
              "pässwörd€", "日本語 zoo", " ".join(valid[0])]:
        add("utf8", f"utf8 {xs(s)}")
    for _ in range(ctx.n(100)):
        s = "".join(chr(rng.choice([rng.randrange(0, 0x80), rng.randrange(0x80, 0x800), rng.randrange(0x800, 0xD800),
                                    rng.randrange(0xE000, 0x10000), rng.randrange(0x10000, 0x110000)]))
                    for _ in range(rng.randrange(1, 12)))
        add("utf8", f"utf8 {xs(s)}")

    # ---- run both sides
    order = list(range(len(lines)))  # spread the expensive requests over the driver processes
    ctx.sub_rng("driver-order").shuffle(order)
    shuffled = batch_parallel(drv, [model_line(lines[i][1]) for i in order], workers=ctx.workers)
    answers = [None] * len(lines)
    for i, a in zip(order, shuffled):
        answers[i] = a

    def heavy_line(line):
        t = line.split(" ", 5)
        return t[0] in HEAVY_OPS or (t[0] in ("pbkdf2v", "rfc2898") and int(t[4]) >= 1000)

    hp = [i for i, (kind, case) in enumerate(preds) if kind in HEAVY_PREDS or
          (kind == "pbkdf2_rfc2898" and case["iterations"] >= 1000)]
    related = {l for k, l in lines if k.startswith("related:")}   # evaluated only as a history, serially, further down
    jobs = [("line", l) for _, l in lines if heavy_line(l) and l not in related] + \
           [("pred", preds[i][0], preds[i][1], i) for i in hp]
    rng.shuffle(jobs)
    impl_ans, hres = {}, {}
    for job, res in zip(jobs, pmap(_heavy_job, jobs, workers=ctx.workers, chunksize=1)):
        if job[0] == "line":
            impl_ans[job[1]] = res
        else:
            hres[job[3]] = res
    for (kind, line), model in zip(lines, answers):
        if line in related:
            continue
        impl = impl_ans[line] if line in impl_ans else impl_line(line)
        if rec.compare(kind, {"line": line}, impl, model, determined=True, key=_key(line),
                       nontrivial=not all(a in ("x", "s") for a in line.split(" ")[1:])):
            rec.sample(kind, {"request": line, "answer": model})
        if impl == REJECT:
            rec.count(kind + ":reject")
    # the related-wallet history, call after call in THIS process, each answer against the model's (stateless) answer
    # of the same request line; the whole history twice
    model_of = {line: a for (_, line), a in zip(lines, answers)}
    for rnd in (1, 2):
        for pos, line in enumerate(history):
            got = impl_line(line)
            # the replay re-executes the calls that preceded this one in the process (first occurrence of each) and then
            # the call itself
            prefix = list(dict.fromkeys(history)) + history[:pos] if rnd == 2 else history[:pos]
            case = {"line": line, "position_in_history": pos, "round": rnd, "history": list(dict.fromkeys(prefix))}
            rec.compare("related_history", case, got, model_of[line], determined=True, key=_key(f"hist {rnd} {pos} " + line))
            t = line.split(" ")
            dec = oracle_decode(uns(t[1]))
            if dec is None:
                ref = REJECT
            else:
                seed = hashlib.pbkdf2_hmac("sha512", " ".join(dec[1]).encode(), b"mnemonic" + unx(t[2]), 2048, 64)
                ref = xb(seed if t[0] == "seed" else hmac.new(b"Bitcoin seed", seed, hashlib.sha512).digest())
            rec.compare("related_history:hashlib", dict(case, oracle="hashlib.pbkdf2_hmac"), got, ref, determined=True,
                        key=_key(f"histref {rnd} {pos} " + line))
    # every query a second time, in the opposite order, in this same process (objects and module tables are reused):
    # all light lines, a sample of the heavy ones; the driver likewise
    again = [i for i in range(len(lines)) if not heavy_line(lines[i][1])]
    heavy_idx = [i for i in range(len(lines)) if heavy_line(lines[i][1]) and lines[i][1] not in related]
    again += ctx.sub_rng("again").sample(heavy_idx, min(len(heavy_idx), ctx.n(12)))
    again.sort(reverse=True)
    again_model = batch_parallel(drv, [model_line(lines[i][1]) for i in again], workers=ctx.workers)
    for i, m2 in zip(again, again_model):
        kind, line = lines[i]
        if m2 != answers[i]:
            raise MachineryError(f"driver answered differently the second time: {line[:200]}")
        rec.compare(kind + ":again", {"line": line, "second_time": True}, impl_line(line), answers[i],
                    determined=True, key=_key("again " + line))
    for i, (kind, case) in enumerate(preds):
        ok, got, want = hres[i] if i in hres else eval_pred(kind, case)
        rec.cov_pred(kind, case)
        if ok:
            rec.ok(kind, _key(repr(case)))
            rec.sample(kind, case, limit=1)
            if want == REJECT:
                rec.count(kind + ":reject")
        else:
            rec.violation(kind, dict(case, pred=kind), got, want, note=case.get("source", ""))


def replay(ctx, v):
    """re-execute one recorded violation exactly; True if it still violates"""
    case = v["case"]
    if "history" in case:
        for l in case["history"]:
            if l != case["line"]:
                impl_line(l)
        got = impl_line(case["line"])
        if case.get("oracle"):
            return got != v["expected"]
        return got != ctx.driver("drv_c14").one(model_line(case["line"]))
    if "line" in case:
        return impl_line(case["line"]) != ctx.driver("drv_c14").one(model_line(case["line"]))
    ok, _, _ = eval_pred(case["pred"], case)
    return not ok
